(* Generic driver: one case per line  "cmd<TAB>arg<TAB>arg..."; cmd is plain ASCII, each arg is a string written as
   space-separated decimal code points (empty = empty string).  Output: the model's observation, same encoding. *)
open Model
let rec pos_of_z z = if Z.equal z Z.one then XH
  else if Z.equal (Z.logand z Z.one) Z.zero then XO (pos_of_z (Z.shift_right z 1)) else XI (pos_of_z (Z.shift_right z 1))
let n_of_z z = if Z.equal z Z.zero then N0 else Npos (pos_of_z z)
let rec z_of_pos = function XH -> Z.one | XO p -> Z.shift_left (z_of_pos p) 1 | XI p -> Z.succ (Z.shift_left (z_of_pos p) 1)
let z_of_n = function N0 -> Z.zero | Npos p -> z_of_pos p
let str_of_field f = String.split_on_char ' ' f |> List.filter (fun w -> w <> "") |> List.map (fun w -> n_of_z (Z.of_string w))
let show_str s = String.concat " " (List.map (fun c -> Z.to_string (z_of_n c)) s)
let ascii s = List.init (String.length s) (fun i -> n_of_z (Z.of_int (Char.code s.[i])))
let () =
  let out = Buffer.create 65536 in
  (try while true do
    let l = input_line stdin in
    (match String.split_on_char '\t' l with
     | [] -> Buffer.add_string out "\n"
     | cmd :: args ->
       let r = (try show_str (run (ascii cmd) (List.map str_of_field args)) with Stack_overflow -> "!stack") in
       Buffer.add_string out r; Buffer.add_char out '\n');
    if Buffer.length out > 60000 then (print_string (Buffer.contents out); Buffer.clear out)
  done with End_of_file -> ());
  print_string (Buffer.contents out)
