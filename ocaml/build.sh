#!/bin/sh
# extraction + driver build; run from anywhere
set -e
D=$(cd "$(dirname "$0")" && pwd)
mkdir -p "$D/gen"
cd "$D/gen"
coqc -R ../../coq PV ../../coq/Extract/Extract.v > extract.log 2>&1
cp ../driver.ml .
ocamlfind ocamlopt -package zarith -linkpkg -O2 model.mli model.ml driver.ml -o ../driver 2> build.log || ocamlfind ocamlopt -package zarith -linkpkg model.mli model.ml driver.ml -o ../driver
