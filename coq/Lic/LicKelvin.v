(* C19: inputs containing U+212A KELVIN SIGN.  str.lower() turns it into "k", so the code reads it as the letter k everywhere except in
   the suffix check of a LicenseRef.  Whatever is accepted with KELVIN SIGNs is accepted, with the same result, when "k" is written
   instead; so the results for the KELVIN-free domain (LicCode, LicIdem) bound the behaviour on all inputs. *)
From Coq Require Import List Arith NArith Bool Lia.
Import ListNotations.
Require Import VParse LicModel LicAuto LicSpec LicLex LicCode LicIdem.
Open Scope N_scope.
Arguments N.eqb : simpl never.
Arguments N.leb : simpl never.
Arguments N.ltb : simpl never.

Definition dk_char (c : char) : char := if c =? 8490 then 107 else c.
Definition dk (s : str) : str := map dk_char s.            (* write "k" for every KELVIN SIGN *)

Lemma dk_kfree s : kfree (dk s).
Proof.
  unfold kfree, dk. intros H. apply in_map_iff in H as (c & E & _). unfold dk_char in E.
  destruct (c =? 8490) eqn:K; [discriminate|]. apply N.eqb_neq in K. congruence.
Qed.
Lemma dk_id s : ~ In 8490 s -> dk s = s.
Proof.
  induction s as [|c s IH]; intros H; [reflexivity|]. cbn [dk map]. fold (dk s). rewrite IH by (intros K; apply H; now right).
  unfold dk_char. destruct (c =? 8490) eqn:K; [|reflexivity]. apply N.eqb_eq in K. exfalso. apply H. now left.
Qed.
Lemma dk_char_cases c : (c = 8490 /\ dk_char c = 107) \/ (c <> 8490 /\ dk_char c = c).
Proof. unfold dk_char. destruct (c =? 8490) eqn:K; [left; apply N.eqb_eq in K|right; apply N.eqb_neq in K]; auto. Qed.
Lemma lower_dk s : lower (dk s) = lower s.
Proof.
  induction s as [|c s IH]; [reflexivity|]. cbn [dk map]. fold (dk s). change (lower (?a :: ?b)) with (lower_char a ++ lower b).
  rewrite IH. f_equal. destruct (dk_char_cases c) as [[-> ->]|[_ ->]]; reflexivity.
Qed.
Lemma pad_dk s : pad (dk s) = dk (pad s).
Proof.
  induction s as [|c s IH]; [reflexivity|]. cbn [dk map]. fold (dk s). change (pad (?a :: ?b)) with (pad_char a ++ pad b).
  unfold dk at 2. rewrite map_app. fold (dk (pad s)). rewrite IH. f_equal.
  destruct (dk_char_cases c) as [[-> ->]|[N ->]]; [reflexivity|].
  unfold pad_char. destruct ((c =? 40) || (c =? 41)) eqn:P; cbn [map]; unfold dk_char.
  - apply orb_true_iff in P as [P|P]; apply N.eqb_eq in P; subst; reflexivity.
  - apply N.eqb_neq in N. now rewrite N.
Qed.
Lemma is_ws_dk c : is_ws (dk_char c) = is_ws c.
Proof. destruct (dk_char_cases c) as [[-> ->]|[_ ->]]; reflexivity. Qed.
Lemma split_raw_dk s : split_raw (dk s) = map dk (split_raw s).
Proof.
  induction s as [|c s IH]; [reflexivity|]. cbn [dk map]. fold (dk s). cbn [split_raw]. rewrite is_ws_dk, IH.
  destruct (is_ws c); [reflexivity|]. rewrite (split_raw_hdtl s). reflexivity.
Qed.
Lemma split_ws_dk s : split_ws (dk s) = map dk (split_ws s).
Proof.
  unfold split_ws. rewrite split_raw_dk. induction (split_raw s) as [|x l IH]; [reflexivity|]. cbn [map filter].
  replace (nonemptyb (dk x)) with (nonemptyb x) by (destruct x; reflexivity). destruct (nonemptyb x); cbn [map]; now rewrite IH.
Qed.
Lemma ref_match_no_kelvin x : ref_match x = true -> ~ In 8490 x.
Proof.
  unfold ref_match. intros H K. apply orb_true_iff in H as [H|H].
  - rewrite forallb_forall in H. specialize (H _ K). discriminate.
  - apply andb_true_iff in H as [L H]. apply last_is_split in L. rewrite L in K. apply in_app_or in K as [K|[K|[]]]; [|discriminate].
    rewrite forallb_forall in H. specialize (H _ K). discriminate.
Qed.

Section Tables.
Variables lics excs : list (str * str).

Lemma final_pass_dk os : forall ts nr al out,
  final_pass lics excs nr al (combine os ts) = POk out -> final_pass lics excs nr al (combine (map dk os) ts) = POk out.
Proof.
  induction os as [|o os IH]; intros ts nr al out; [auto|]. destruct ts as [|t ts]; [auto|].
  cbn [map combine final_pass].
  destruct (match nr with [] => false | h :: _ => streq h W_WITH end).
  - destruct (negb (mem t excs)); [discriminate|]. destruct (lookup t excs); [apply IH|discriminate].
  - destruct (is_opword t).
    + destruct (streq t w_with && negb al); [discriminate|apply IH].
    + cbv zeta. destruct (prefixb licenseref_lc (if last_is 43 t then removelast t else t)).
      * set (n := length (if last_is 43 t then [43] else [])).
        assert (E : firstn (length (dk o) - n) (dk o) = dk (firstn (length o - n) o)) by (unfold dk; now rewrite map_length, firstn_map).
        rewrite E. destruct (ref_match (firstn (length o - n) o)) eqn:R; cbn [negb]; [|discriminate].
        rewrite (dk_id _ (ref_match_no_kelvin _ R)), R. cbn [negb]. apply IH.
      * destruct (negb (mem _ lics)); [discriminate|]. destruct (lookup _ lics); [apply IH|discriminate].
Qed.
Lemma canon_dk s o : (canon lics excs s = Ok o -> canon lics excs (dk s) = Ok o) /\ (canon lics excs s = Limit o -> canon lics excs (dk s) = Limit o).
Proof.
  unfold canon. replace (nonemptyb (dk s)) with (nonemptyb s) by (destruct s; reflexivity).
  destruct (negb (nonemptyb s)); [split; discriminate|]. rewrite pad_dk, lower_dk, split_ws_dk.
  destruct (skeleton None (split_ws (lower (pad s)))) as [ps|]; [|split; discriminate].
  pose proof (final_pass_dk (split_ws (pad s)) (split_ws (lower (pad s))) [] false) as M.
  destruct (py_eval ps); try (split; discriminate);
    (destruct (final_pass lics excs [] false (combine (split_ws (pad s)) (split_ws (lower (pad s))))) as [norm| |]; try (split; discriminate);
     rewrite (M norm eq_refl); auto).
Qed.

Hypothesis TOK : table_ok lics excs = true.
(* every accepted input, KELVIN SIGNs or not: the input with "k" written for KELVIN SIGN is an SPDX expression, and the result is its
   canonical text *)
Theorem accepted_modulo_kelvin s o : (canon lics excs s = Ok o \/ canon lics excs s = Limit o) -> spec_canon lics excs (dk s) = Some o.
Proof.
  intros H. pose proof (canon_spec _ _ TOK (dk s) (dk_kfree s)) as S. destruct (canon_dk s o) as [A B].
  destruct (spec_canon lics excs (dk s)) as [o'|]; [|destruct H as [H|H]; [rewrite (A H) in S|rewrite (B H) in S]; discriminate].
  destruct (nests_deeper_than limit_hard (spdx_tokens (dk s))); [destruct H as [H|H]; [rewrite (A H) in S|rewrite (B H) in S]; discriminate|].
  destruct (nests_deeper_than limit_sure (spdx_tokens (dk s))); destruct H as [H|H]; [rewrite (A H) in S|rewrite (B H) in S|rewrite (A H) in S|rewrite (B H) in S]; congruence.
Qed.
Theorem canon_idempotent_all s o : canon lics excs s = Ok o -> canon lics excs o = Ok o.
Proof.
  intros H. destruct (canon_dk s o) as [A _]. specialize (A H). rewrite <- A.
  apply (canon_idempotent _ _ TOK (dk s) o (dk_kfree s)). now left.
Qed.
End Tables.
