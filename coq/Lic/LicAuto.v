(* Token-level core of C19 (from the round-0 spike): the three passes of the code - skeleton construction with the two parenthesis
   guards, eval of the skeleton (LicModel.pyrun), identifier/WITH pass - accept exactly the token sequences of the SPDX automaton. *)
From Coq Require Import List Arith Bool Lia.
Import ListNotations.
Require Import LicModel.

Section L.
Variable id : Type.
Variables lic_ok exc_ok : id -> bool.      (* known licence id / LicenseRef, optional '+';  known exception id *)
Inductive tok := TOr | TAnd | TWith | TL | TR | TId (i : id).

(* ---------- specification: SPDX expressions at token level ---------- *)
(* operands and operators alternate; parentheses balanced and non-empty; WITH only directly after a licence
   identifier and directly before an exception identifier *)
Inductive mode := WantOperand | AfterLicense | AfterWith | AfterOther.
Fixpoint run (m : mode) (d : nat) (ts : list tok) : bool :=
  match ts with
  | [] => match m with AfterLicense | AfterOther => Nat.eqb d 0 | _ => false end
  | t :: r =>
    match m, t with
    | WantOperand, TId i => lic_ok i && run AfterLicense d r
    | WantOperand, TL => run WantOperand (S d) r
    | AfterLicense, TWith => run AfterWith d r
    | AfterWith, TId e => exc_ok e && run AfterOther d r
    | AfterLicense, TOr | AfterLicense, TAnd | AfterOther, TOr | AfterOther, TAnd => run WantOperand d r
    | AfterLicense, TR | AfterOther, TR => match d with S d' => run AfterOther d' r | O => false end
    | _, _ => false
    end
  end.
Definition spdx_ok (ts : list tok) : bool := run WantOperand 0 ts.

(* ---------- the code (with the D11/D12/D13/D28 repairs), three passes over the tokens ---------- *)
(* pass 1: build the Python skeleton, rejecting "(" after an operand and ")" right after "(" *)
Fixpoint pass1 (last : option ptok) (ts : list tok) : option (list ptok) :=
  match ts with
  | [] => Some []
  | t :: r =>
      let emit p := match pass1 (Some p) r with Some l => Some (p :: l) | None => None end in
      match t with
      | TId _ => emit PF
      | TWith => emit POr
      | TOr => emit POr
      | TAnd => emit PAnd
      | TL => match last with None | Some POr | Some PAnd | Some PL => emit PL | _ => None end
      | TR => match last with Some PL => None | _ => emit PR end
      end
  end.
(* pass 2: identifiers; WITH must directly follow a licence identifier and be followed by an exception identifier *)
Fixpoint pass2 (after_with last_lic : bool) (ts : list tok) : bool :=
  match ts with
  | [] => true
  | t :: r =>
      if after_with then match t with TId e => exc_ok e && pass2 false false r | _ => false end
      else match t with
           | TWith => last_lic && pass2 true false r
           | TId i => lic_ok i && pass2 false true r
           | _ => pass2 false false r
           end
  end.
Definition code_ok (ts : list tok) : bool :=
  match pass1 None ts with Some ps => pyrun true 0 ps && pass2 false false ts | None => false end.

(* ---------- equivalence ---------- *)
(* the three passes, run from the states that correspond to a mode of the specification *)
Definition st_last (m : mode) (prev_is_L : bool) : option ptok -> Prop := fun last =>
  match m with
  | WantOperand => last = None \/ last = Some POr \/ last = Some PAnd \/ last = Some PL
  | AfterLicense => last = Some PF
  | AfterWith => last = Some POr
  | AfterOther => last = Some PF \/ last = Some PR
  end.
Definition code_from (m : mode) (d : nat) (last : option ptok) (ts : list tok) : bool :=
  match pass1 last ts with
  | Some ps => pyrun (match m with WantOperand | AfterWith => true | _ => false end) d ps &&
               pass2 (match m with AfterWith => true | _ => false end) (match m with AfterLicense => true | _ => false end) ts
  | None => false
  end.

Ltac crush := repeat (cbn; match goal with
  | |- context [pass1 ?l ?r] => destruct (pass1 l r)
  | |- context [lic_ok ?i] => destruct (lic_ok i)
  | |- context [exc_ok ?i] => destruct (exc_ok i)
  | |- context [pyrun ?w ?d ?p] => destruct (pyrun w d p)
  | |- context [pass2 ?a ?b ?r] => destruct (pass2 a b r)
  end); cbn; reflexivity.
Ltac step IH m' d' l' := rewrite <- (IH m' d' l') by (cbn; auto); crush.

Lemma code_from_run ts : forall m d last, st_last m false last -> code_from m d last ts = run m d ts.
Proof.
  induction ts as [|t r IH]; intros m d last HL.
  - unfold code_from. destruct m; cbn; auto; now rewrite ?andb_true_r.
  - unfold code_from in *.
    destruct t, m; cbn [pass1 run st_last] in *;
      try (destruct HL as [->|[->|[->| ->]]]); try (destruct HL as [->| ->]); try subst last.
    (* or *)
    all: try (step IH WantOperand d (Some POr)).
    all: try (step IH WantOperand d (Some PAnd)).
    all: try (step IH AfterWith d (Some POr)).
    all: try (step IH WantOperand (S d) (Some PL)).
    all: try (destruct d as [|d']; [crush | step IH AfterOther d' (Some PR)]; fail).
    all: try (step IH AfterLicense d (Some PF)).
    all: try (step IH AfterOther d (Some PF)).
    all: crush.
Qed.

Theorem C19_code_accepts_iff_spdx ts : code_ok ts = spdx_ok ts.
Proof. unfold code_ok, spdx_ok. apply (code_from_run ts WantOperand 0 None). cbn. auto. Qed.
End L.
Print Assumptions C19_code_accepts_iff_spdx.
