(* Executable model of packaging.licenses.canonicalize_license_expression (src/packaging/licenses/__init__.py as it is after
   the six fix: commits 802ff3e 49e8c51 7e1baa1 9cd3216 9992710 8e6ceae).  Definitions only; the proofs are in LicLex.v LicCode.v LicIdem.v.
   The function is mirrored statement by statement; the tables LICENSES / EXCEPTIONS are parameters (lists of (key, id)),
   instantiated by the generated coq/Gen/SpdxTable.v in LicRun.v. *)
From Coq Require Import List NArith Bool.
Import ListNotations.
Require Import VParse.
Open Scope N_scope.

(* ---------------------------------------------------------------- strings *)
Fixpoint streq (a b : str) : bool :=
  match a, b with [], [] => true | x :: a', y :: b' => (x =? y) && streq a' b' | _, _ => false end.
Fixpoint prefixb (p s : str) : bool :=                      (* s.startswith(p) *)
  match p, s with [], _ => true | x :: p', y :: s' => (x =? y) && prefixb p' s' | _ :: _, [] => false end.
Definition nonemptyb (s : str) : bool := match s with [] => false | _ => true end.
Definition asciib (c : char) : bool := c <? 128.           (* str.isascii() = forallb asciib *)
Definition last_is (c0 : char) (s : str) : bool := match rev s with c :: _ => c =? c0 | [] => false end.   (* s.endswith(chr c0) *)

(* str.lower(): ASCII exact; the only non-ASCII code points whose lower-casing contains an ASCII character are U+0130 and U+212A
   (checked over all code points by the harness on every run); every other non-ASCII code point is left alone here - the real
   lower() may map it to other non-ASCII, non-whitespace code points, which changes nothing below: a token holding one is in no
   table (all keys are ASCII), is no operator, fails original_token.isascii() and fails license_ref_allowed. *)
Definition lower_char (c : char) : str :=
  if (65 <=? c) && (c <=? 90) then [c + 32]
  else if c =? 304 then [105; 775]
  else if c =? 8490 then [107]
  else [c].
Definition lower (s : str) : str := flat_map lower_char s.
(* str.upper() - only ever applied to the five operator tokens *)
Definition upper_ascii (s : str) : str := map (fun c => if (97 <=? c) && (c <=? 122) then c - 32 else c) s.

(* .replace("(", " ( ").replace(")", " ) ") *)
Definition pad_char (c : char) : str := if (c =? 40) || (c =? 41) then [32; c; 32] else [c].
Definition pad (s : str) : str := flat_map pad_char s.

(* str.split() with no argument: maximal runs of non-whitespace (VParse.ws_table = the 29 code points of str.isspace) *)
Fixpoint split_raw (s : str) : list str :=
  match s with
  | [] => [[]]
  | c :: t => if is_ws c then [] :: split_raw t
              else match split_raw t with h :: r => (c :: h) :: r | [] => [[c]] end
  end.
Definition split_ws (s : str) : list str := filter nonemptyb (split_raw s).

(* " ".join *)
Fixpoint join_sp (l : list str) : str :=
  match l with [] => [] | [x] => x | x :: t => x ++ 32 :: join_sp t end.

(* .replace(a+b, new) for a two-character pattern: left to right, non-overlapping *)
Fixpoint rep2 (a b : char) (new : str) (s : str) : str :=
  match s with
  | [] => []
  | c :: t => match t with
              | d :: u => if (c =? a) && (d =? b) then new ++ rep2 a b new u else c :: rep2 a b new t
              | [] => [c]
              end
  end.
Definition tighten (s : str) : str := rep2 32 41 [41] (rep2 40 32 [40] s).      (* .replace("( ", "(").replace(" )", ")") *)

(* ---------------------------------------------------------------- words *)
Definition w_or : str := [111;114].
Definition w_and : str := [97;110;100].
Definition w_with : str := [119;105;116;104].
Definition w_lp : str := [40].
Definition w_rp : str := [41].
Definition W_WITH : str := [87;73;84;72].
Definition licenseref_lc : str := [108;105;99;101;110;115;101;114;101;102;45].       (* "licenseref-" *)
Definition licenseref_prefix : str := [76;105;99;101;110;115;101;82;101;102;45].     (* "LicenseRef-" *)
Definition is_opword (t : str) : bool :=                 (* token in {"or", "and", "with", "(", ")"} *)
  streq t w_or || streq t w_and || streq t w_with || streq t w_lp || streq t w_rp.

(* license_ref_allowed = re.compile("^[A-Za-z0-9.-]*$"); .match(ref): `$` also matches before one trailing "\n" *)
Definition ref_char (c : char) : bool :=
  ((65 <=? c) && (c <=? 90)) || ((97 <=? c) && (c <=? 122)) || ((48 <=? c) && (c <=? 57)) || (c =? 46) || (c =? 45).
Definition ref_match (ref : str) : bool :=
  forallb ref_char ref || (last_is 10 ref && forallb ref_char (removelast ref)).

(* ---------------------------------------------------------------- the Python skeleton and eval *)
Inductive ptok := PF | POr | PAnd | PL | PR.          (* "False" "or" "and" "(" ")" *)

(* first loop: python_tokens, or None for the two early raises *)
Fixpoint skeleton (last : option ptok) (tokens : list str) : option (list ptok) :=
  match tokens with
  | [] => Some []
  | t :: r =>
      let emit p := match skeleton (Some p) r with Some l => Some (p :: l) | None => None end in
      if negb (is_opword t) then emit PF
      else if streq t w_with then emit POr
      else if streq t w_lp && match last with None | Some POr | Some PAnd | Some PL => false | _ => true end then None
      else if streq t w_rp && match last with Some PL => true | _ => false end then None
      else if streq t w_or then emit POr
      else if streq t w_and then emit PAnd
      else if streq t w_lp then emit PL
      else emit PR
  end.

(* eval(" ".join(python_tokens)) is not False / raises: Python's expression grammar restricted to these five words.  After the two
   guards no "()" and no call syntax can occur, so a syntactically valid skeleton is a pure and/or/False formula: value False.
   (Runtime component: validated against CPython's eval exhaustively over short sequences on every run.) *)
Fixpoint pyrun (want : bool) (d : nat) (ps : list ptok) : bool :=
  match ps with
  | [] => negb want && Nat.eqb d 0
  | p :: r =>
    match want, p with
    | true, PF => pyrun false d r
    | true, PL => pyrun true (S d) r
    | false, POr | false, PAnd => pyrun true d r
    | false, PR => match d with S d' => pyrun false d' r | O => false end
    | _, _ => false
    end
  end.
(* CPython resource limits: the tokenizer refuses more than 200 open parentheses ("too many nested parentheses"), and the PEG parser
   has a 6000-level rule stack ("Parser stack overflowed", MemoryError) that nested parentheses exhaust somewhere between 100 and
   200 levels depending on what surrounds them.  Both exceptions are caught by `except Exception` -> rejection.  The model is
   exact up to 100 levels and above 200; in between it answers EvLimit = "False or an exception, interpreter dependent". *)
Definition limit_sure : nat := 100.
Definition limit_hard : nat := 200.
Fixpoint exceeds (limit lvl : nat) (ps : list ptok) : bool :=
  match ps with
  | [] => false
  | PL :: r => Nat.ltb limit (S lvl) || exceeds limit (S lvl) r
  | PR :: r => exceeds limit (pred lvl) r
  | _ :: r => exceeds limit lvl r
  end.
Inductive evres := EvFalse | EvBad | EvLimit.
Definition py_eval (ps : list ptok) : evres :=
  if pyrun true 0 ps then
    if exceeds limit_hard 0 ps then EvBad else if exceeds limit_sure 0 ps then EvLimit else EvFalse
  else EvBad.

(* ---------------------------------------------------------------- the function *)
Inductive result :=
  | Ok (s : str)            (* returned value *)
  | Err                     (* InvalidLicenseExpression *)
  | Limit (s : str)         (* either Ok s or Err, depending on the interpreter's parser limits (nesting depth 101..200) *)
  | Crash.                  (* any other exception: KeyError from an unguarded table access *)

Section Tables.
Variables lics excs : list (str * str).          (* LICENSES, EXCEPTIONS as (key, value["id"]) *)

Definition mem (k : str) (tbl : list (str * str)) : bool := existsb (fun e => streq (fst e) k) tbl.       (* k in TABLE *)
Definition lookup (k : str) (tbl : list (str * str)) : option str :=                                  (* TABLE[k]["id"] *)
  match find (fun e => streq (fst e) k) tbl with Some e => Some (snd e) | None => None end.

Inductive pass := POk (normalized : list str) | PErr | PCrash.

(* final loop over zip(original_tokens, tokens); normalized_tokens is kept reversed (norm_rev), newest first *)
Fixpoint final_pass (norm_rev : list str) (after_license : bool) (pairs : list (str * str)) : pass :=
  match pairs with
  | [] => POk (rev norm_rev)
  | (original, token) :: r =>
      if match norm_rev with h :: _ => streq h W_WITH | [] => false end then
        if negb (mem token excs) || negb (forallb asciib original) then PErr
        else match lookup token excs with
             | Some id => final_pass (id :: norm_rev) false r
             | None => PCrash
             end
      else if is_opword token then
        if streq token w_with && negb after_license then PErr
        else final_pass (upper_ascii token :: norm_rev) false r
      else
        let plus := last_is 43 token in
        let final_token := if plus then removelast token else token in
        let suffix : str := if plus then [43] else [] in
        if prefixb licenseref_lc final_token then
          let ref := firstn (length original - length suffix) original in
          if negb (ref_match ref) || Nat.eqb (length ref) (length licenseref_prefix) then PErr      (* ... or len(ref) == len(licenseref_prefix) *)
          else final_pass ((licenseref_prefix ++ skipn (length licenseref_prefix) ref ++ suffix) :: norm_rev) true r
        else
          if negb (mem final_token lics) || negb (forallb asciib original) then PErr
          else match lookup final_token lics with
               | Some id => final_pass ((id ++ suffix) :: norm_rev) true r
               | None => PCrash
               end
  end.

Definition canon (raw : str) : result :=
  if negb (nonemptyb raw) then Err else
  let license_expression := pad raw in
  let original_tokens := split_ws license_expression in
  let tokens := split_ws (lower license_expression) in
  match skeleton None tokens with
  | None => Err
  | Some python_tokens =>
      match py_eval python_tokens with
      | EvBad => Err
      | ev =>
          match final_pass [] false (combine original_tokens tokens) with
          | PErr => Err
          | PCrash => Crash
          | POk normalized_tokens =>
              let out := tighten (join_sp normalized_tokens) in
              match ev with EvFalse => Ok out | _ => Limit out end
          end
      end
  end.
End Tables.
