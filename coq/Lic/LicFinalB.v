(* C19, second batch: the lemmas of LicIds / LicLayout / LicTree instantiated with the tables of the working tree and stated about
   LicTop.canonicalize_license_expression.  Properties/C19.v restates them. *)
From Coq Require Import List Arith NArith Bool.
Import ListNotations.
Require Import VParse LicModel LicAuto LicSpec LicLex LicCode LicIdem LicGrammar LicTable LicTop LicFinal SpdxTable LicIds LicLayout LicTree LicSpecX.
Open Scope N_scope.

Notation lic_ids := (map snd licenses).
Notation exc_ids := (map snd exceptions).

(* ---------------------------------------------------------------- identifiers *)
Lemma finalb_simple_ids w o : lic_canon licenses w = Some o <->
  exists core plus, w = core ++ plus /\ ((plus = [] /\ last_is 43 w = false) \/ plus = [43]) /\
    ((prefixb licenseref_lc (afold core) = true /\ forallb ref_char core = true /\ skipn 11 core <> [] /\
      o = licenseref_prefix ++ skipn 11 core ++ plus) \/
     (prefixb licenseref_lc (afold core) = false /\ exists id, In id lic_ids /\ afold id = afold core /\ o = id ++ plus)).
Proof. exact (lic_canon_iff licenses exceptions spdx_table_ok (proj1 spdx_keys_nodup) w o). Qed.

Lemma finalb_simple_ids_readable w o : lic_canon licenses w = Some o <->
  exists core plus, w = core ++ plus /\ ((plus = [] /\ last_is 43 w = false) \/ plus = [43]) /\
    ((exists p suffix, core = p ++ suffix /\ afold p = licenseref_lc /\ suffix <> [] /\ forallb ref_char suffix = true /\
                       o = licenseref_prefix ++ suffix ++ plus) \/
     (prefixb licenseref_lc (afold core) = false /\ exists id, In id lic_ids /\ afold id = afold core /\ o = id ++ plus)).
Proof. exact (simple_id_iff licenses exceptions spdx_table_ok (proj1 spdx_keys_nodup) w o). Qed.

Lemma finalb_exception_ids w o : exc_canon exceptions w = Some o <-> In o exc_ids /\ afold o = afold w.
Proof. exact (exc_id_iff licenses exceptions spdx_table_ok (proj2 spdx_keys_nodup) w o). Qed.

Lemma finalb_vs_strict w o : lic_canon licenses w = Some o <->
  strict_simple licenses w o \/ (ref_with_plus w /\ o = licenseref_prefix ++ skipn 11 w).
Proof. exact (lic_canon_vs_strict licenses exceptions spdx_table_ok (proj1 spdx_keys_nodup) w o). Qed.

(* no id of the bundled licence table looks like a LicenseRef: the second branch's side condition is about the input only *)
Lemma finalb_no_licenseref_in_table : forallb (fun id => negb (prefixb licenseref_lc (afold id))) lic_ids = true.
Proof. vm_compute. reflexivity. Qed.

(* ---------------------------------------------------------------- accepted => the facts of the specification *)
Lemma finalb_accepted s o : (canonicalize s = Ok o \/ canonicalize s = Limit o) ->
  spdx_tokens_ok licenses exceptions (spdx_tokens s) = true /\
  exists out, canon_tokens licenses exceptions false (spdx_tokens s) = Some out /\ o = tight out /\ spdx_tokens o = out /\
              Forall (fun t => otok_ok t = true) out /\ out <> [].
Proof.
  intros H. destruct (final_canonical_form s o H) as (out & C & E & Q & T & _).
  rewrite (final_spec s) in H. unfold spec_canon in H.
  destruct (spdx_tokens_ok licenses exceptions (spdx_tokens s)) eqn:A; [|destruct H; discriminate].
  split; [reflexivity|]. exists out. destruct (canon_tokens_shape _ _ spdx_table_ok _ _ _ C) as [S _].
  repeat split; auto. intros ->. inversion Q as [N|]. rewrite <- N in A. discriminate.
Qed.

(* text layout *)
Lemma finalb_text_layout s o : (canonicalize s = Ok o \/ canonicalize s = Limit o) -> text_layout o.
Proof.
  intros H. destruct (finalb_accepted s o H) as (_ & out & _ & -> & _ & S & N). now apply tight_text_layout.
Qed.

(* tree structure *)
Lemma finalb_tree s o : (canonicalize s = Ok o \/ canonicalize s = Limit o) ->
  exists e, expr_ok licenses exceptions e /\
            map classify (spdx_tokens s) = expr_tokens e /\
            map classify (spdx_tokens o) = expr_tokens (canon_expr licenses exceptions e) /\
            expr_ok licenses exceptions (canon_expr licenses exceptions e) /\
            canon_expr licenses exceptions (canon_expr licenses exceptions e) = canon_expr licenses exceptions e /\
            shape (canon_expr licenses exceptions e) = shape e.
Proof.
  intros H. destruct (finalb_accepted s o H) as (A & out & C & _ & -> & _ & _).
  exact (canon_tree licenses exceptions spdx_table_ok _ _ A C).
Qed.

Lemma finalb_tree_every_parse s o : (canonicalize s = Ok o \/ canonicalize s = Limit o) ->
  forall e, map classify (spdx_tokens s) = expr_tokens e ->
            map classify (spdx_tokens o) = expr_tokens (canon_expr licenses exceptions e).
Proof.
  intros H. destruct (finalb_accepted s o H) as (_ & out & C & _ & -> & _ & _).
  exact (canon_tree_every_parse licenses exceptions spdx_table_ok _ _ C).
Qed.

(* idempotence in the interpreter-dependent band too *)
Lemma finalb_idempotent_limit s o : canonicalize s = Limit o -> canonicalize o = Limit o.
Proof. intros H. rewrite <- H. apply (canon_idempotent _ _ spdx_table_ok s o). now right. Qed.

(* ---------------------------------------------------------------- the two token lists the final loop zips have the same length *)
Lemma finalb_zip_lengths s : length (split_ws (pad s)) = length (split_ws (lower (pad s))).
Proof. rewrite split_ws_lower. now rewrite map_length. Qed.

(* ---------------------------------------------------------------- the guarded table accesses *)
(* `k in TABLE` followed by `TABLE[k]`: the subscript cannot raise KeyError, whatever the table *)
Lemma finalb_guarded_lookup k tbl : mem k tbl = true -> exists id, lookup k tbl = Some id.
Proof. exact (mem_lookup k tbl). Qed.
Lemma finalb_total s : (exists o, canonicalize s = Ok o) \/ canonicalize s = Err \/ (exists o, canonicalize s = Limit o).
Proof.
  destruct (canonicalize s) as [o| |o|] eqn:E; eauto. exfalso. now apply (canon_no_crash licenses exceptions s).
Qed.

(* ---------------------------------------------------------------- the observation l.spec runs the specification itself *)
Lemma xrun_eq l e ts : forall m d, xrun l e m d ts = run str l e m d ts.
Proof. induction ts as [|t r IH]; intros m d; [reflexivity|]. destruct m, t; cbn [xrun run]; rewrite ?IH; try reflexivity; destruct d; auto. Qed.
Lemma spec_canon_x_eq lics excs s : spec_canon_x lics excs s = spec_canon lics excs s.
Proof. unfold spec_canon_x, spec_canon, spdx_tokens_ok, spdx_ok. now rewrite xrun_eq. Qed.
