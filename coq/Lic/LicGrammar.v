(* C19: the automaton LicAuto.spdx_ok accepts exactly the token sequences of the SPDX grammar

     expr    ::= operand | expr AND expr | expr OR expr
     operand ::= simple | simple WITH exception | "(" expr ")"

   (as token sequences AND/OR need no precedence: the canonical form keeps the tokens, it does not regroup them). *)
From Coq Require Import List Arith Bool Lia.
Import ListNotations.
Require Import VParse LicModel LicAuto LicSpec LicCode.

Section G.
Variable id : Type.
Variables lic_ok exc_ok : id -> bool.
Notation tk := (tok id).
Notation arun := (run id lic_ok exc_ok).

Inductive expr := Simple (w : id) | WithExc (w e : id) | Paren (x : expr) | And (a b : expr) | Or (a b : expr).
Fixpoint toks (x : expr) : list tk :=
  match x with
  | Simple w => [TId _ w]
  | WithExc w e => [TId _ w; TWith _; TId _ e]
  | Paren x => TL _ :: toks x ++ [TR _]
  | And a b => toks a ++ TAnd _ :: toks b
  | Or a b => toks a ++ TOr _ :: toks b
  end.
Fixpoint wf (x : expr) : Prop :=
  match x with
  | Simple w => lic_ok w = true
  | WithExc w e => lic_ok w = true /\ exc_ok e = true
  | Paren x => wf x
  | And a b | Or a b => wf a /\ wf b
  end.
Fixpoint endmode (x : expr) : mode :=
  match x with Simple _ => AfterLicense | WithExc _ _ | Paren _ => AfterOther | And _ b | Or _ b => endmode b end.
Lemma endmode_cases x : endmode x = AfterLicense \/ endmode x = AfterOther.
Proof. induction x; cbn; auto. Qed.

Lemma run_sound x : wf x -> forall d rest, arun WantOperand d (toks x ++ rest) = arun (endmode x) d rest.
Proof.
  induction x as [w|w e|x IH|a IHa b IHb|a IHa b IHb]; cbn [wf]; intros H d rest.
  - cbn. now rewrite H.
  - destruct H as [H1 H2]. cbn. now rewrite H1, H2.
  - cbn [toks app run]. rewrite <- app_assoc. rewrite IH by exact H. cbn [app endmode]. destruct (endmode_cases x) as [-> | ->]; reflexivity.
  - destruct H as [Ha Hb]. cbn [toks endmode]. rewrite <- app_assoc. cbn [app]. rewrite IHa by exact Ha.
    destruct (endmode_cases a) as [-> | ->]; cbn [run]; now apply IHb.
  - destruct H as [Ha Hb]. cbn [toks endmode]. rewrite <- app_assoc. cbn [app]. rewrite IHa by exact Ha.
    destruct (endmode_cases a) as [-> | ->]; cbn [run]; now apply IHb.
Qed.
Lemma grammar_accepted x : wf x -> spdx_ok id lic_ok exc_ok (toks x) = true.
Proof.
  intros H. unfold spdx_ok. rewrite <- (app_nil_r (toks x)). rewrite run_sound by exact H.
  destruct (endmode_cases x) as [-> | ->]; reflexivity.
Qed.

(* completeness: an accepting run from "operand wanted" at depth d reads an expression and then either ends (d = 0) or meets the
   parenthesis that closes the level *)
Definition cont (d : nat) (rest : list tk) : Prop :=
  (rest = [] /\ d = O) \/ (exists d' rest', d = S d' /\ rest = TR _ :: rest' /\ arun AfterOther d' rest' = true).
Definition Lv (ts : list tk) : Prop := forall d, arun WantOperand d ts = true ->
  exists e rest, wf e /\ ts = toks e ++ rest /\ cont d rest.
(* after a complete operand x *)
Definition Af (ts : list tk) : Prop := forall d x, wf x -> arun AfterOther d ts = true ->
  exists e rest, wf e /\ toks x ++ ts = toks e ++ rest /\ cont d rest.

Lemma complete_n n : forall ts, (length ts <= n)%nat -> Lv ts /\ Af ts.
Proof.
  induction n as [|n IH]; intros ts L.
  - destruct ts; [|cbn in L; lia]. split.
    + intros d H. discriminate.
    + intros d x W H. cbn in H. apply Nat.eqb_eq in H. subst. exists x, []. split; [exact W|]. split; [reflexivity|left; auto].
  - assert (AF : Af ts).
    { intros d x W H. destruct ts as [|t r].
      - cbn in H. apply Nat.eqb_eq in H. subst. exists x, []. split; [exact W|]. split; [reflexivity|left; auto].
      - cbn [length] in L. assert (Lr : (length r <= n)%nat) by lia. destruct (IH r Lr) as [LV _].
        destruct t; cbn [run] in H; try discriminate.
        + destruct (LV d H) as (e2 & rest & W2 & E & C). exists (Or x e2), rest. split; [split; assumption|]. split; [|exact C].
          cbn [toks]. rewrite <- app_assoc. cbn [app]. now rewrite E.
        + destruct (LV d H) as (e2 & rest & W2 & E & C). exists (And x e2), rest. split; [split; assumption|]. split; [|exact C].
          cbn [toks]. rewrite <- app_assoc. cbn [app]. now rewrite E.
        + destruct d as [|d']; [discriminate|]. exists x, (TR _ :: r). split; [exact W|]. split; [reflexivity|]. right. eauto. }
    split; [|exact AF].
    intros d H. destruct ts as [|t r]; [discriminate|]. cbn [length] in L. assert (Lr : (length r <= n)%nat) by lia.
    destruct t; cbn [run] in H; try discriminate.
    + (* "(" *) destruct (IH r Lr) as [LV _]. destruct (LV (S d) H) as (e1 & rest & W1 & E & C).
      destruct C as [[_ C]|(d' & rest' & D & -> & R)]; [discriminate|]. injection D as <-.
      assert (L' : (length rest' <= n)%nat).
      { apply (f_equal (@length _)) in E. rewrite app_length in E. cbn [length] in E. lia. }
      destruct (IH rest' L') as [_ AF']. destruct (AF' d (Paren e1) W1 R) as (e & rest2 & W & E2 & C2).
      exists e, rest2. split; [exact W|]. split; [|exact C2]. rewrite <- E2, E. cbn [toks app]. now rewrite <- app_assoc.
    + (* identifier *) apply andb_true_iff in H as [Hl H].
      destruct r as [|t2 r2].
      * cbn in H. apply Nat.eqb_eq in H. subst. exists (Simple i), []. split; [exact Hl|]. split; [reflexivity|left; auto].
      * destruct t2; cbn [run] in H; try discriminate.
        -- destruct (IH (TOr _ :: r2) Lr) as [_ AF']. apply (AF' d (Simple i) Hl). exact H.
        -- destruct (IH (TAnd _ :: r2) Lr) as [_ AF']. apply (AF' d (Simple i) Hl). exact H.
        -- (* WITH *) destruct r2 as [|t3 r3]; [discriminate|]. destruct t3; cbn [run] in H; try discriminate.
           apply andb_true_iff in H as [He H]. cbn [length] in Lr.
           assert (L3 : (length r3 <= n)%nat) by lia. destruct (IH r3 L3) as [_ AF'].
           apply (AF' d (WithExc i i0) (conj Hl He) H).
        -- destruct (IH (TR _ :: r2) Lr) as [_ AF']. apply (AF' d (Simple i) Hl). exact H.
Qed.
Lemma accepted_grammar ts : spdx_ok id lic_ok exc_ok ts = true -> exists e, wf e /\ ts = toks e.
Proof.
  intros H. destruct (complete_n (length ts) ts (le_n _)) as [LV _]. destruct (LV O H) as (e & rest & W & E & C).
  destruct C as [[-> _]|(d' & ? & D & _)]; [|discriminate]. exists e. rewrite app_nil_r in E. auto.
Qed.
End G.

(* instantiated with the token classes and identifier tests of the specification *)
Definition expr_ok (lics excs : list (str * str)) (e : expr str) : Prop := wf str (lic_ok lics) (exc_ok excs) e.
Definition expr_tokens (e : expr str) : list (tok str) := toks str e.
Theorem automaton_iff_grammar lics excs ts :
  spdx_tokens_ok lics excs ts = true <-> exists e, expr_ok lics excs e /\ map classify ts = expr_tokens e.
Proof.
  unfold spdx_tokens_ok. fold (lic_ok lics) (exc_ok excs). split.
  - apply accepted_grammar.
  - intros (e & W & ->). now apply grammar_accepted.
Qed.
