(* C19, "the result has the same structure": at the level of expression TREES (LicGrammar.expr), not only token by token.
   NOTE on what a tree is here: LicGrammar.expr has no operator precedence and no associativity (expr ::= operand | expr AND expr |
   expr OR expr), so the grouping of AND/OR inside one parenthesis level is NOT fixed by the grammar: a token sequence has several
   parses that differ only in that grouping.  What the trees do fix is the nesting of parentheses, which operand each WITH belongs to
   and the left-to-right order of operands and operators.  canon_tree_every_parse therefore speaks about EVERY parse (in particular
   the one SPDX precedence - AND over OR - would choose).
   An accepted token sequence is the token sequence of a well-formed tree e; the canonical tokens are the token sequence of the SAME
   tree with every leaf replaced by its canonical spelling (canon_expr e: a map over the leaves, the shape is untouched);
   that tree is again well-formed and canonicalising it again changes nothing. *)
From Coq Require Import List Arith NArith Bool Lia.
Import ListNotations.
Require Import VParse LicModel LicAuto LicSpec LicLex LicCode LicIdem LicGrammar.
Open Scope N_scope.
Arguments N.eqb : simpl never.
Arguments N.leb : simpl never.
Arguments N.ltb : simpl never.

Section Tables.
Variables lics excs : list (str * str).
Hypothesis TOK : table_ok lics excs = true.

(* the canonical spelling of a leaf (the leaf itself where there is none - never the case in a well-formed tree) *)
Definition lic_spelling (w : str) : str := match lic_canon lics w with Some x => x | None => w end.
Definition exc_spelling (w : str) : str := match exc_canon excs w with Some x => x | None => w end.
Fixpoint canon_expr (e : expr str) : expr str :=
  match e with
  | Simple _ w => Simple _ (lic_spelling w)
  | WithExc _ w x => WithExc _ (lic_spelling w) (exc_spelling x)
  | Paren _ x => Paren _ (canon_expr x)
  | And _ a b => And _ (canon_expr a) (canon_expr b)
  | Or _ a b => Or _ (canon_expr a) (canon_expr b)
  end.

(* same shape: the tree with its leaves forgotten *)
Fixpoint shape (e : expr str) : expr unit :=
  match e with
  | Simple _ _ => Simple _ tt
  | WithExc _ _ _ => WithExc _ tt tt
  | Paren _ x => Paren _ (shape x)
  | And _ a b => And _ (shape a) (shape b)
  | Or _ a b => Or _ (shape a) (shape b)
  end.
Lemma canon_expr_shape e : shape (canon_expr e) = shape e.
Proof. induction e; cbn [canon_expr shape]; congruence. Qed.

(* one step of canon_tokens, inverted *)
Lemma canon_tokens_cons aw w r out : canon_tokens lics excs aw (w :: r) = Some out ->
  exists x o', out = x :: o' /\
    canon_tokens lics excs (match classify w with TWith _ => true | _ => false end) r = Some o' /\
    match classify w with
    | TOr _ => x = W_OR | TAnd _ => x = W_AND | TWith _ => x = W_WITH | TL _ => x = w_lp | TR _ => x = w_rp
    | TId _ _ => (if aw then exc_canon excs w else lic_canon lics w) = Some x
    end.
Proof.
  cbn [canon_tokens]. destruct (classify w);
    try (destruct (canon_tokens lics excs _ r) as [o'|]; [|discriminate]; intros [= <-]; eauto).
  destruct (if aw then exc_canon excs w else lic_canon lics w) as [x|]; [|discriminate].
  destruct (canon_tokens lics excs false r) as [o'|]; [|discriminate]. intros [= <-]. eauto.
Qed.

(* a canonical identifier is still an identifier token (not an operator word, not a parenthesis) *)
Lemma classify_teq_id a b : afold a = afold b -> classify a = TId _ a -> classify b = TId _ b.
Proof. intros H C. rewrite (classify_aeq a b H), C. reflexivity. Qed.
Lemma lic_canon_classify w x : lic_canon lics w = Some x -> classify w = TId _ w -> classify x = TId _ x.
Proof. intros H. apply classify_teq_id. now destruct (lic_canon_is_teq lics w x H). Qed.
Lemma exc_canon_classify w x : exc_canon excs w = Some x -> classify w = TId _ w -> classify x = TId _ x.
Proof. intros H. apply classify_teq_id. now destruct (exc_canon_is_teq lics excs TOK w x H). Qed.
Lemma classify_id_self t w : classify t = TId _ w -> classify t = TId _ t.
Proof. intros H. now rewrite <- (classify_payload t w H) at 2. Qed.

(* canonical spellings are fixed points *)
Lemma lic_canon_fix w x : lic_canon lics w = Some x -> lic_canon lics x = Some x.
Proof. intros H. rewrite <- (lic_canon_teq lics w x (lic_canon_is_teq lics w x H)). exact H. Qed.
Lemma exc_canon_fix w x : exc_canon excs w = Some x -> exc_canon excs x = Some x.
Proof. intros H. destruct (exc_canon_is_teq lics excs TOK w x H) as [E _]. rewrite <- (exc_canon_aeq excs w x E). exact H. Qed.

Lemma map_classify_single ts t : map classify ts = [t] -> exists w, ts = [w] /\ classify w = t.
Proof.
  intros H. apply map_eq_cons in H as (w & tl & -> & C & N). apply map_eq_nil in N. subst. eauto.
Qed.

Lemma canon_tokens_expr e : forall ts1 ts2 out, map classify ts1 = toks str e ->
  canon_tokens lics excs false (ts1 ++ ts2) = Some out ->
  exists o1 o2, out = o1 ++ o2 /\ map classify o1 = toks str (canon_expr e) /\ canon_tokens lics excs false ts2 = Some o2.
Proof.
  induction e as [w|w x|e IH|a IHa b IHb|a IHa b IHb]; intros ts1 ts2 out M C; cbn [toks] in M.
  - apply map_classify_single in M as (t & -> & Ct). pose proof (classify_payload t w Ct) as ->.
    cbn [app] in C. apply canon_tokens_cons in C as (x & o' & -> & C & K). rewrite Ct in C, K.
    exists [x], o'. split; [reflexivity|]. split; [|exact C]. cbn [canon_expr toks map]. unfold lic_spelling. rewrite K.
    now rewrite (lic_canon_classify t x K Ct).
  - apply map_eq_cons in M as (t1 & r1 & -> & C1 & M). apply map_eq_cons in M as (t2 & r2 & -> & C2 & M).
    apply map_classify_single in M as (t3 & -> & C3).
    pose proof (classify_payload t1 w C1) as ->. pose proof (classify_payload t3 x C3) as ->.
    cbn [app] in C. apply canon_tokens_cons in C as (x1 & o1 & -> & C & K1). rewrite C1 in C, K1.
    apply canon_tokens_cons in C as (x2 & o2 & -> & C & K2). rewrite C2 in C, K2. subst x2.
    apply canon_tokens_cons in C as (x3 & o3 & -> & C & K3). rewrite C3 in C, K3.
    exists [x1; W_WITH; x3], o3. split; [reflexivity|]. split; [|exact C]. cbn [canon_expr toks map]. unfold lic_spelling, exc_spelling.
    rewrite K1, K3. rewrite (lic_canon_classify t1 x1 K1 C1), (exc_canon_classify t3 x3 K3 C3). reflexivity.
  - apply map_eq_cons in M as (tl & r & -> & Cl & M). apply map_eq_app in M as (m & l2 & -> & Mm & M2).
    apply map_classify_single in M2 as (tr & -> & Cr).
    cbn [app] in C. rewrite <- app_assoc in C. cbn [app] in C.
    apply canon_tokens_cons in C as (x1 & o1 & -> & C & K1). rewrite Cl in C, K1. subst x1.
    destruct (IH m (tr :: ts2) o1 Mm C) as (p1 & p2 & -> & Mp & C2).
    apply canon_tokens_cons in C2 as (x2 & o2 & -> & C2 & K2). rewrite Cr in C2, K2. subst x2.
    exists (w_lp :: p1 ++ [w_rp]), o2. split; [cbn [app]; now rewrite <- app_assoc|]. split; [|exact C2].
    cbn [canon_expr toks map]. rewrite map_app, Mp. reflexivity.
  - apply map_eq_app in M as (ta & l2 & -> & Ma & M2). apply map_eq_cons in M2 as (top & tb & -> & Co & Mb).
    rewrite <- app_assoc in C. cbn [app] in C.
    destruct (IHa ta (top :: tb ++ ts2) out Ma C) as (pa & p2 & -> & Mpa & C2).
    apply canon_tokens_cons in C2 as (x & o2 & -> & C2 & K). rewrite Co in C2, K. subst x.
    destruct (IHb tb ts2 o2 Mb C2) as (pb & p3 & -> & Mpb & C3).
    exists (pa ++ W_AND :: pb), p3. split; [now rewrite <- app_assoc|]. split; [|exact C3].
    cbn [canon_expr toks]. rewrite map_app. cbn [map]. now rewrite Mpa, Mpb.
  - apply map_eq_app in M as (ta & l2 & -> & Ma & M2). apply map_eq_cons in M2 as (top & tb & -> & Co & Mb).
    rewrite <- app_assoc in C. cbn [app] in C.
    destruct (IHa ta (top :: tb ++ ts2) out Ma C) as (pa & p2 & -> & Mpa & C2).
    apply canon_tokens_cons in C2 as (x & o2 & -> & C2 & K). rewrite Co in C2, K. subst x.
    destruct (IHb tb ts2 o2 Mb C2) as (pb & p3 & -> & Mpb & C3).
    exists (pa ++ W_OR :: pb), p3. split; [now rewrite <- app_assoc|]. split; [|exact C3].
    cbn [canon_expr toks]. rewrite map_app. cbn [map]. now rewrite Mpa, Mpb.
Qed.

(* the canonical tree is well-formed and is its own canonical tree *)
Lemma canon_expr_ok e : expr_ok lics excs e -> expr_ok lics excs (canon_expr e) /\ canon_expr (canon_expr e) = canon_expr e.
Proof.
  unfold expr_ok. induction e as [w|w x|e IH|a IHa b IHb|a IHa b IHb]; cbn [wf canon_expr].
  - unfold lic_ok, lic_spelling. intros H. destruct (lic_canon lics w) as [c|] eqn:E; [|discriminate].
    rewrite (lic_canon_fix w c E). auto.
  - unfold lic_ok, exc_ok, lic_spelling, exc_spelling. intros [H1 H2].
    destruct (lic_canon lics w) as [c|] eqn:E; [|discriminate]. destruct (exc_canon excs x) as [d|] eqn:F; [|discriminate].
    rewrite (lic_canon_fix w c E), (exc_canon_fix x d F). auto.
  - intros H. destruct (IH H) as [A B]. split; [exact A|now rewrite B].
  - intros [Ha Hb]. destruct (IHa Ha) as [A1 A2], (IHb Hb) as [B1 B2]. split; [now split|now rewrite A2, B2].
  - intros [Ha Hb]. destruct (IHa Ha) as [A1 A2], (IHb Hb) as [B1 B2]. split; [now split|now rewrite A2, B2].
Qed.

Theorem canon_tree ts out : spdx_tokens_ok lics excs ts = true -> canon_tokens lics excs false ts = Some out ->
  exists e, expr_ok lics excs e /\ map classify ts = expr_tokens e /\
            map classify out = expr_tokens (canon_expr e) /\
            expr_ok lics excs (canon_expr e) /\ canon_expr (canon_expr e) = canon_expr e /\ shape (canon_expr e) = shape e.
Proof.
  intros A C. apply automaton_iff_grammar in A as (e & W & M). exists e. split; [exact W|]. split; [exact M|].
  rewrite <- (app_nil_r ts) in C. destruct (canon_tokens_expr e ts [] out M C) as (o1 & o2 & -> & Mo & C2).
  cbn [canon_tokens] in C2. injection C2 as <-. rewrite app_nil_r. split; [exact Mo|].
  destruct (canon_expr_ok e W). auto using canon_expr_shape.
Qed.

(* ... and this holds for every parse of the input tokens, whatever grouping of AND/OR it chooses *)
Theorem canon_tree_every_parse ts out : canon_tokens lics excs false ts = Some out ->
  forall e, map classify ts = expr_tokens e -> map classify out = expr_tokens (canon_expr e).
Proof.
  intros C e M. rewrite <- (app_nil_r ts) in C. destruct (canon_tokens_expr e ts [] out M C) as (o1 & o2 & -> & Mo & C2).
  cbn [canon_tokens] in C2. injection C2 as <-. now rewrite app_nil_r.
Qed.
End Tables.
