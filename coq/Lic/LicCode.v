(* C19: the model of the code computes the specification (token level, then string level), given the table invariants. *)
From Coq Require Import List Arith NArith Bool Lia.
Import ListNotations.
Require Import VParse LicModel LicAuto LicSpec LicLex.
Open Scope N_scope.
Arguments N.eqb : simpl never.
Arguments N.leb : simpl never.
Arguments N.ltb : simpl never.

(* ---------------------------------------------------------------- table invariants (checked on the generated table in LicTable.v) *)
Definition entry_ok (e : str * str) : bool :=
  streq (fst e) (afold (snd e))          (* the key is the lower-cased id *)
  && forallb asciib (fst e) && forallb asciib (snd e)
  && is_word (snd e)                     (* ids are non-empty, free of whitespace and parentheses *)
  && negb (prefixb (snd e) W_WITH).      (* no id (with or without "+") reads "WITH" *)
Definition table_ok (lics excs : list (str * str)) : bool :=
  forallb entry_ok lics && forallb entry_ok excs && forallb (fun e => negb (is_opword (fst e))) excs
  && forallb (fun e => negb (prefixb licenseref_lc (fst (strip_plus (fst e))))) excs.     (* no exception id looks like a LicenseRef *)

(* ---------------------------------------------------------------- lower() versus ASCII folding *)
(* str.lower() agrees with ASCII folding as far as comparison with an ASCII word k goes, provided the text has no U+212A KELVIN SIGN
   (lower() maps it to "k") or the word has no "k" *)
Definition kfree (s : str) : Prop := ~ In 8490 s.
Definition nok (k : str) : Prop := forallb (fun c => negb (c =? 107)) k = true.
Lemma kfree_cons c r : kfree (c :: r) -> c <> 8490 /\ kfree r.
Proof. unfold kfree. cbn [In]. intros H. split; intros K; apply H; auto. Qed.
Lemma ascii_ne x n : asciib x = true -> 128 <= n -> (x =? n) = false.
Proof. unfold asciib. intros H L. apply N.ltb_lt in H. apply N.eqb_neq. lia. Qed.
Lemma ascii_kfree s : forallb asciib s = true -> kfree s.
Proof. intros H K. rewrite forallb_forall in H. specialize (H _ K). discriminate. Qed.
Lemma side_tl c r x k : kfree (c :: r) \/ nok (x :: k) -> kfree r \/ nok k.
Proof.
  intros [F|F]; [left; now apply kfree_cons in F|right]. unfold nok in *. cbn [forallb] in F. now apply andb_true_iff in F as [_ F].
Qed.

Lemma streq_lower_afold w : forall k, forallb asciib k = true -> kfree w \/ nok k -> streq k (lower w) = streq k (afold w).
Proof.
  induction w as [|c r IH]; intros k K F; [reflexivity|].
  change (lower (c :: r)) with (lower_char c ++ lower r). change (afold (c :: r)) with (lc c :: afold r).
  assert (STEP : forall x, streq k (x :: lower r) = streq k (x :: afold r)).
  { intros x0. destruct k as [|x k]; [reflexivity|]. cbn [forallb] in K. apply andb_true_iff in K as [_ K]. cbn [streq].
    rewrite IH; eauto using side_tl. }
  unfold lower_char, lc. destruct ((65 <=? c) && (c <=? 90)) eqn:E; [apply STEP|].
  destruct (c =? 304) eqn:E3.
  - apply N.eqb_eq in E3. subst c. cbn [app]. destruct k as [|x k]; [reflexivity|].
    cbn [forallb] in K. apply andb_true_iff in K as [Kx K]. cbn [streq].
    rewrite (ascii_ne x 304 Kx) by lia. cbn [andb].
    destruct k as [|y k]; [now rewrite andb_false_r|]. cbn [forallb] in K. apply andb_true_iff in K as [Ky K]. cbn [streq].
    rewrite (ascii_ne y 775 Ky) by lia. now rewrite andb_false_r.
  - destruct (c =? 8490) eqn:E4; [|apply STEP].
    apply N.eqb_eq in E4. subst c. destruct F as [F|F]; [apply kfree_cons in F as [F _]; contradiction|].
    cbn [app]. destruct k as [|x k]; [reflexivity|]. cbn [forallb] in K. apply andb_true_iff in K as [Kx K]. cbn [streq].
    unfold nok in F. cbn [forallb] in F. apply andb_true_iff in F as [Fx _]. apply negb_true_iff in Fx.
    rewrite Fx, (ascii_ne x 8490 Kx) by lia. reflexivity.
Qed.
(* startswith: "i" + U+0307 (the lower-casing of U+0130) starts with "i", so the prefix must not end in "i" *)
Lemma prefixb_lower_afold w : forall k, forallb asciib k = true -> (last k 0 =? 105) = false -> kfree w \/ nok k ->
  prefixb k (lower w) = prefixb k (afold w).
Proof.
  induction w as [|c r IH]; intros k K L F; [reflexivity|].
  change (lower (c :: r)) with (lower_char c ++ lower r). change (afold (c :: r)) with (lc c :: afold r).
  assert (STEP : forall x, prefixb k (x :: lower r) = prefixb k (x :: afold r)).
  { intros x0. destruct k as [|x k]; [reflexivity|]. cbn [forallb] in K. apply andb_true_iff in K as [_ K]. cbn [prefixb].
    destruct k as [|y k]; [reflexivity|]. rewrite IH; eauto using side_tl. }
  unfold lower_char, lc. destruct ((65 <=? c) && (c <=? 90)) eqn:E; [apply STEP|].
  destruct (c =? 304) eqn:E3.
  - apply N.eqb_eq in E3. subst c. cbn [app]. destruct k as [|x k]; [reflexivity|].
    cbn [forallb] in K. apply andb_true_iff in K as [Kx K]. cbn [prefixb].
    rewrite (ascii_ne x 304 Kx) by lia. cbn [andb].
    destruct k as [|y k].
    + cbn [last] in L. now rewrite L.
    + cbn [forallb] in K. apply andb_true_iff in K as [Ky K]. cbn [prefixb].
      rewrite (ascii_ne y 775 Ky) by lia. now rewrite andb_false_r.
  - destruct (c =? 8490) eqn:E4; [|apply STEP].
    apply N.eqb_eq in E4. subst c. destruct F as [F|F]; [apply kfree_cons in F as [F _]; contradiction|].
    cbn [app]. destruct k as [|x k]; [reflexivity|]. cbn [forallb] in K. apply andb_true_iff in K as [Kx K]. cbn [prefixb].
    unfold nok in F. cbn [forallb] in F. apply andb_true_iff in F as [Fx _]. apply negb_true_iff in Fx.
    rewrite Fx, (ascii_ne x 8490 Kx) by lia. reflexivity.
Qed.
Lemma lc_ascii c : asciib (lc c) = asciib c.
Proof.
  unfold lc, asciib. destruct ((65 <=? c) && (c <=? 90)) eqn:E; [|reflexivity].
  apply andb_true_iff in E as [A B]. apply N.leb_le in A, B. transitivity true; [|symmetry]; apply N.ltb_lt; lia.
Qed.
Lemma afold_ascii w : forallb asciib (afold w) = forallb asciib w.
Proof. induction w as [|c w IH]; [reflexivity|]. cbn [afold map forallb]. now rewrite lc_ascii, <- IH. Qed.

(* ---------------------------------------------------------------- "+" suffix, slices, the LicenseRef regex *)
Lemma last_is_app c0 x y : y <> [] -> last_is c0 (x ++ y) = last_is c0 y.
Proof.
  intros H. unfold last_is. rewrite rev_app_distr. destruct (rev y) as [|d t] eqn:E; [|reflexivity].
  apply (f_equal (@rev N)) in E. rewrite rev_involutive in E. now subst.
Qed.
Lemma last_is_snoc c0 x c : last_is c0 (x ++ [c]) = (c =? c0).
Proof. rewrite last_is_app by discriminate. reflexivity. Qed.
Lemma last_is_split c0 w : last_is c0 w = true -> w = removelast w ++ [c0].
Proof.
  intros H. destruct w as [|a w'] using rev_ind; [discriminate|]. rewrite last_is_snoc in H. apply N.eqb_eq in H. subst.
  now rewrite removelast_last.
Qed.
Lemma lower_char_last c : last_is 43 (lower_char c) = (c =? 43).
Proof.
  unfold lower_char. destruct ((65 <=? c) && (c <=? 90)) eqn:E.
  - apply andb_true_iff in E as [A B]. apply N.leb_le in A, B. unfold last_is. cbn [rev app].
    transitivity false; [|symmetry]; apply N.eqb_neq; lia.
  - destruct (c =? 304) eqn:E3; [apply N.eqb_eq in E3; now subst|].
    destruct (c =? 8490) eqn:E4; [apply N.eqb_eq in E4; now subst|]. reflexivity.
Qed.
Lemma lower_char_nonnil c : lower_char c <> [].
Proof. unfold lower_char. repeat match goal with |- context [if ?b then _ else _] => destruct b end; discriminate. Qed.
Lemma last_is_lower w : last_is 43 (lower w) = last_is 43 w.
Proof.
  destruct w as [|c w' _] using rev_ind; [reflexivity|]. rewrite lower_app, last_is_snoc.
  cbn [lower flat_map]. rewrite app_nil_r. rewrite last_is_app by apply lower_char_nonnil. apply lower_char_last.
Qed.
Lemma strip_plus_app w : let '(core, plus) := strip_plus w in w = core ++ plus.
Proof. unfold strip_plus. destruct (last_is 43 w) eqn:E; [now apply last_is_split|now rewrite app_nil_r]. Qed.
Lemma firstn_removelast (w : str) : firstn (length w - 1) w = removelast w.
Proof.
  destruct w as [|c w' _] using rev_ind; [reflexivity|]. rewrite removelast_last, app_length. cbn [length].
  replace (length w' + 1 - 1)%nat with (length w' + 0)%nat by lia. rewrite firstn_app_2. cbn [firstn]. now rewrite app_nil_r.
Qed.
Lemma ref_char_wordc c : ref_char c = true -> wordc c = true.
Proof.
  intros H. unfold wordc, nws.
  destruct (is_ws c) eqn:E.
  { apply ws_in in E. unfold ws_table in E. cbn [In] in E.
    repeat (destruct E as [<-|E]; [vm_compute in H; discriminate|]). destruct E. }
  destruct (c =? 40) eqn:E1; [apply N.eqb_eq in E1; subst; vm_compute in H; discriminate|].
  destruct (c =? 41) eqn:E2; [apply N.eqb_eq in E2; subst; vm_compute in H; discriminate|]. reflexivity.
Qed.
Lemma ref_char_ascii c : ref_char c = true -> asciib c = true.
Proof.
  unfold ref_char, asciib. intros H. apply N.ltb_lt.
  repeat (apply orb_true_iff in H as [H|H]); try (apply andb_true_iff in H as [_ H]; apply N.leb_le in H; lia); apply N.eqb_eq in H; lia.
Qed.
Lemma ref_char_not_plus c : ref_char c = true -> (c =? 43) = false.
Proof. intros H. destruct (c =? 43) eqn:E; [|reflexivity]. apply N.eqb_eq in E. subst. vm_compute in H. discriminate. Qed.
Lemma forallb_removelast {A} (p : A -> bool) l : forallb p l = true -> forallb p (removelast l) = true.
Proof.
  intros H. rewrite forallb_forall in *. intros x Hx. apply H.
  destruct l as [|a l]; [destruct Hx|]. rewrite (app_removelast_last a) at 1 by discriminate. apply in_or_app. now left.
Qed.
(* `$` can match before a final newline; a token has none *)
Lemma ref_match_clean w : forallb nws w = true -> ref_match w = forallb ref_char w.
Proof.
  intros H. unfold ref_match. destruct (last_is 10 w) eqn:E; [|now rewrite orb_false_r].
  apply last_is_split in E. rewrite E in H. rewrite forallb_app in H. apply andb_true_iff in H as [_ H]. discriminate.
Qed.

(* len(ref) == len("LicenseRef-"), for a ref that starts with the prefix: the idstring is empty *)
Lemma prefixb_len p : forall s, prefixb p s = true -> (length p <= length s)%nat.
Proof.
  induction p as [|c p IH]; intros s H; [cbn; lia|]. destruct s as [|d s]; [discriminate|]. cbn [prefixb] in H.
  apply andb_true_iff in H as [_ H]. apply IH in H. cbn [length]. lia.
Qed.
Lemma ref_len_empty core : prefixb licenseref_lc (afold core) = true ->
  Nat.eqb (length core) (length licenseref_prefix) = negb (nonemptyb (skipn 11 core)).
Proof.
  intros H. apply prefixb_len in H. unfold afold in H. rewrite map_length in H. change (length licenseref_lc) with 11%nat in H.
  change (length licenseref_prefix) with 11%nat. pose proof (skipn_length 11 core) as L.
  destruct (skipn 11 core) as [|x r]; cbn [length nonemptyb negb] in *.
  - apply Nat.eqb_eq. lia.
  - apply Nat.eqb_neq. lia.
Qed.

(* ---------------------------------------------------------------- token classes: lower() in the code, ASCII folding in the spec *)
Lemma classify_code o :
  match classify o with
  | TOr _ => lower o = w_or | TAnd _ => lower o = w_and | TWith _ => lower o = w_with
  | TL _ => lower o = w_lp | TR _ => lower o = w_rp
  | TId _ w => w = o /\ is_opword (lower o) = false
  end.
Proof.
  unfold classify, ieq.
  change (afold w_or) with w_or. change (afold w_and) with w_and. change (afold w_with) with w_with.
  change (afold w_lp) with w_lp. change (afold w_rp) with w_rp.
  rewrite !(streq_sym (afold o)).
  rewrite <- !streq_lower_afold by (try reflexivity; right; reflexivity).
  destruct (streq w_or (lower o)) eqn:E1; [symmetry; now apply streq_eq|].
  destruct (streq w_and (lower o)) eqn:E2; [symmetry; now apply streq_eq|].
  destruct (streq w_with (lower o)) eqn:E3; [symmetry; now apply streq_eq|].
  destruct (streq w_lp (lower o)) eqn:E4; [symmetry; now apply streq_eq|].
  destruct (streq w_rp (lower o)) eqn:E5; [symmetry; now apply streq_eq|].
  split; [reflexivity|]. unfold is_opword. rewrite !(streq_sym (lower o)). now rewrite E1, E2, E3, E4, E5.
Qed.
Lemma classify_id o : is_opword (afold o) = false -> classify o = TId _ o.
Proof.
  unfold classify, ieq, is_opword.
  change (afold w_or) with w_or. change (afold w_and) with w_and. change (afold w_with) with w_with.
  change (afold w_lp) with w_lp. change (afold w_rp) with w_rp.
  intros H. repeat (apply orb_false_iff in H as [H ?]). now rewrite H, H0, H1, H2, H3.
Qed.

(* ---------------------------------------------------------------- the function on tokens *)
Section Tables.
Variables lics excs : list (str * str).
Hypothesis TOK : table_ok lics excs = true.

Definition canon_toks (os : list str) : result :=
  let tokens := map lower os in
  match skeleton None tokens with
  | None => Err
  | Some ps =>
      match py_eval ps with
      | EvBad => Err
      | ev => match final_pass lics excs [] false (combine os tokens) with
              | PErr => Err
              | PCrash => Crash
              | POk norm => let out := tighten (join_sp norm) in match ev with EvFalse => Ok out | _ => Limit out end
              end
      end
  end.
Lemma canon_split raw : canon lics excs raw = canon_toks (split_ws (pad raw)).
Proof.
  unfold canon, canon_toks. rewrite split_ws_lower. destruct raw; reflexivity.
Qed.

Lemma TOK_all : forallb entry_ok lics = true /\ forallb entry_ok excs = true /\ forallb (fun e => negb (is_opword (fst e))) excs = true
  /\ forallb (fun e => negb (prefixb licenseref_lc (fst (strip_plus (fst e))))) excs = true.
Proof. unfold table_ok in TOK. apply andb_true_iff in TOK as [H H4]. apply andb_true_iff in H as [H H3]. apply andb_true_iff in H as [H1 H2]. auto. Qed.
Lemma TOK_l : forallb entry_ok lics = true. Proof. apply TOK_all. Qed.
Lemma TOK_e : forallb entry_ok excs = true. Proof. apply TOK_all. Qed.
Lemma TOK_o : forallb (fun e => negb (is_opword (fst e))) excs = true. Proof. apply TOK_all. Qed.
Lemma TOK_r : forallb (fun e => negb (prefixb licenseref_lc (fst (strip_plus (fst e))))) excs = true. Proof. apply TOK_all. Qed.

Lemma entry_ok_inv e : entry_ok e = true ->
  fst e = afold (snd e) /\ forallb asciib (fst e) = true /\ forallb asciib (snd e) = true /\ is_word (snd e) = true /\ prefixb (snd e) W_WITH = false.
Proof.
  unfold entry_ok. intros H. apply andb_true_iff in H as [H H5]. apply andb_true_iff in H as [H H4]. apply andb_true_iff in H as [H H3].
  apply andb_true_iff in H as [H H2]. apply streq_eq in H. apply negb_true_iff in H5. auto.
Qed.

(* TABLE lookups by lower-cased key = search of the official ids up to ASCII case *)
Lemma lookup_find tbl w : forallb entry_ok tbl = true -> kfree w ->
  lookup (lower w) tbl = find_id w (map snd tbl) /\ mem (lower w) tbl = is_some (find_id w (map snd tbl)).
Proof.
  intros T F. induction tbl as [|[k id] tbl IH]; [split; reflexivity|].
  cbn [forallb] in T. apply andb_true_iff in T as [Te T]. destruct (IH T) as [IH1 IH2].
  destruct (entry_ok_inv _ Te) as (K1 & K2 & _). cbn [fst snd] in *.
  unfold lookup, mem, find_id in *. cbn [find existsb map fst snd].
  rewrite streq_lower_afold by (try assumption; now left). unfold ieq. rewrite <- K1.
  destruct (streq k (afold w)); [split; reflexivity|]. cbn [orb]. auto.
Qed.
Lemma find_id_in w ids id : find_id w ids = Some id -> In id ids /\ afold id = afold w.
Proof. unfold find_id. intros H. apply find_some in H as [H1 H2]. split; [exact H1|]. now apply streq_eq. Qed.
Lemma in_snd {A B} (l : list (A * B)) b : In b (map snd l) -> exists a, In (a, b) l.
Proof. intros H. apply in_map_iff in H as ([a b'] & E & H). cbn in E. subst. eauto. Qed.
Lemma table_entry tbl id : forallb entry_ok tbl = true -> In id (map snd tbl) ->
  forallb asciib id = true /\ is_word id = true /\ prefixb id W_WITH = false /\ In (afold id, id) tbl.
Proof.
  intros T H. apply in_snd in H as (k & H). rewrite forallb_forall in T. destruct (entry_ok_inv _ (T _ H)) as (A & B & C & D & E).
  cbn [fst snd] in *. subst k. auto.
Qed.
(* TABLE lookup guarded by original_token.isascii(): the same search, for every token *)
Lemma lookup_guard tbl orig w : forallb entry_ok tbl = true -> forallb asciib orig = forallb asciib w ->
  (negb (mem (lower w) tbl) || negb (forallb asciib orig)) = negb (is_some (find_id w (map snd tbl))) /\
  (forallb asciib orig = true -> lookup (lower w) tbl = find_id w (map snd tbl)).
Proof.
  intros T E. rewrite E. destruct (forallb asciib w) eqn:A.
  - destruct (lookup_find tbl w T (ascii_kfree w A)) as [L1 L2]. rewrite L2, orb_false_r. auto.
  - rewrite orb_true_r. split; [|discriminate]. destruct (find_id w (map snd tbl)) as [id|] eqn:F; [|reflexivity].
    apply find_id_in in F as [I F]. destruct (table_entry tbl id T I) as (Ai & _).
    rewrite <- afold_ascii, <- F, afold_ascii in A. congruence.
Qed.
Lemma exc_not_op w e : exc_canon excs w = Some e -> classify w = TId _ w.
Proof.
  unfold exc_canon. intros H. apply find_id_in in H as [H1 H2].
  destruct (table_entry excs e TOK_e H1) as (_ & _ & _ & I).
  pose proof TOK_o as O. rewrite forallb_forall in O. specialize (O _ I). cbn [fst] in O. apply negb_true_iff in O.
  apply classify_id. now rewrite <- H2.
Qed.
Lemma not_WITH_app id suffix : prefixb id W_WITH = false -> streq (id ++ suffix) W_WITH = false.
Proof. intros H. apply not_true_is_false. intros E. apply streq_app_prefix in E. congruence. Qed.

(* the final pass, with its result tokens: the specification's reading of it *)
Fixpoint pass2o (aw ll : bool) (ts : list str) : option (list str) :=
  match ts with
  | [] => Some []
  | w :: r =>
      let k (x : str) (aw' ll' : bool) := match pass2o aw' ll' r with Some l => Some (x :: l) | None => None end in
      if aw then match classify w with
                 | TId _ _ => match exc_canon excs w with Some e => k e false false | None => None end
                 | _ => None
                 end
      else match classify w with
           | TWith _ => if ll then k W_WITH true false else None
           | TId _ _ => match lic_canon lics w with Some l => k l false true | None => None end
           | TOr _ => k W_OR false false
           | TAnd _ => k W_AND false false
           | TL _ => k w_lp false false
           | TR _ => k w_rp false false
           end
  end.

Definition hdW (nr : list str) : bool := match nr with h :: _ => streq h W_WITH | [] => false end.

Lemma lic_canon_not_WITH w l : lic_canon lics w = Some l -> streq l W_WITH = false.
Proof.
  unfold lic_canon. destruct (strip_plus w) as [core plus].
  destruct (prefixb licenseref_lc (afold core)).
  - destruct (forallb ref_char core && nonemptyb (skipn 11 core)); [|discriminate]. intros [= <-]. reflexivity.
  - destruct (find_id core (map snd lics)) as [id|] eqn:E; [|discriminate]. intros [= <-].
    apply find_id_in in E as [E _]. destruct (table_entry lics id TOK_l E) as (_ & _ & P & _). now apply not_WITH_app.
Qed.
Lemma exc_canon_not_WITH w e : exc_canon excs w = Some e -> streq e W_WITH = false.
Proof.
  unfold exc_canon. intros E. apply find_id_in in E as [E _]. destruct (table_entry excs e TOK_e E) as (_ & _ & P & _).
  rewrite <- (app_nil_r e). now apply not_WITH_app.
Qed.

(* one step of the final loop on a licence operand *)
Lemma lic_step o nr al pairs : clean o -> hdW nr = false -> is_opword (lower o) = false ->
  final_pass lics excs nr al ((o, lower o) :: pairs) =
  match lic_canon lics o with Some l => final_pass lics excs (l :: nr) true pairs | None => PErr end.
Proof.
  intros [N W] H O. cbn [final_pass]. unfold hdW in H. rewrite H, O. cbv zeta.
  rewrite last_is_lower. unfold lic_canon, strip_plus.
  destruct (last_is 43 o) eqn:P.
  - apply last_is_split in P. set (core := removelast o) in *.
    assert (E1 : removelast (lower o) = lower core) by (rewrite P, lower_app; cbn [lower flat_map lower_char app]; change (lower_char 43) with [43]; apply removelast_last).
    rewrite E1. rewrite prefixb_lower_afold by (try reflexivity; right; reflexivity).
    destruct (prefixb licenseref_lc (afold core)) eqn:PF.
    + cbn [length]. rewrite firstn_removelast. fold core.
      rewrite ref_match_clean by (now apply forallb_removelast). rewrite (ref_len_empty core PF).
      destruct (forallb ref_char core); destruct (nonemptyb (skipn 11 core)); reflexivity.
    + assert (EA : forallb asciib o = forallb asciib core) by (rewrite P, forallb_app; cbn [forallb]; change (asciib 43) with true; now rewrite !andb_true_r).
      destruct (lookup_guard lics o core TOK_l EA) as [G L]. rewrite G.
      destruct (find_id core (map snd lics)) as [id|] eqn:F; cbn [is_some negb]; [|reflexivity].
      rewrite L; [reflexivity|]. cbn [is_some negb] in G. apply orb_false_iff in G as [_ G]. now apply negb_false_iff in G.
  - rewrite prefixb_lower_afold by (try reflexivity; right; reflexivity).
    destruct (prefixb licenseref_lc (afold o)) eqn:PF.
    + cbn [length]. rewrite Nat.sub_0_r, firstn_all. rewrite ref_match_clean by exact W. rewrite (ref_len_empty o PF).
      destruct (forallb ref_char o); destruct (nonemptyb (skipn 11 o)); reflexivity.
    + destruct (lookup_guard lics o o TOK_l eq_refl) as [G L]. rewrite G.
      destruct (find_id o (map snd lics)) as [id|] eqn:F; cbn [is_some negb]; [|reflexivity].
      rewrite L; [now rewrite !app_nil_r|]. cbn [is_some negb] in G. apply orb_false_iff in G as [_ G]. now apply negb_false_iff in G.
Qed.
Lemma exc_step o nr al pairs : hdW nr = true ->
  final_pass lics excs nr al ((o, lower o) :: pairs) =
  match exc_canon excs o with Some e => final_pass lics excs (e :: nr) false pairs | None => PErr end.
Proof.
  intros H. cbn [final_pass]. unfold hdW in H. rewrite H. unfold exc_canon.
  destruct (lookup_guard excs o o TOK_e eq_refl) as [G L]. rewrite G.
  destruct (find_id o (map snd excs)) as [id|] eqn:F; cbn [is_some negb]; [|reflexivity].
  rewrite L; [reflexivity|]. cbn [is_some negb] in G. apply orb_false_iff in G as [_ G]. now apply negb_false_iff in G.
Qed.

Lemma final_pass_spec os : forall nr al, Forall clean os ->
  final_pass lics excs nr al (combine os (map lower os)) =
  match pass2o (hdW nr) al os with Some out => POk (rev nr ++ out) | None => PErr end.
Proof.
  induction os as [|o r IH]; intros nr al C.
  - cbn [map combine final_pass pass2o]. now rewrite app_nil_r.
  - inversion C as [|? ? Co Cr]; subst.
    cbn [map combine pass2o].
    assert (OUT : forall x aw ll, hdW (x :: nr) = aw ->
              final_pass lics excs (x :: nr) ll (combine r (map lower r)) =
              match match pass2o aw ll r with Some l => Some (x :: l) | None => None end with
              | Some out => POk (rev nr ++ out) | None => PErr end).
    { intros x aw ll <-. rewrite IH by assumption. destruct (pass2o (hdW (x :: nr)) ll r); [|reflexivity].
      cbn [rev]. now rewrite <- app_assoc. }
    pose proof (classify_code o) as K.
    destruct (hdW nr) eqn:H.
    + rewrite exc_step by assumption.
      destruct (exc_canon excs o) as [e|] eqn:E.
      * rewrite (exc_not_op o e E). apply OUT. cbn [hdW]. now apply exc_canon_not_WITH with o.
      * destruct (classify o); reflexivity.
    + destruct (classify o) eqn:Cl.
      1-5: cbn [final_pass]; unfold hdW in H; rewrite H, K.
      * apply (OUT W_OR). reflexivity.
      * apply (OUT W_AND). reflexivity.
      * change (is_opword w_with) with true. change (streq w_with w_with) with true. cbn [andb].
        destruct al; cbn [negb]; [|reflexivity]. apply (OUT W_WITH). reflexivity.
      * apply (OUT w_lp). reflexivity.
      * apply (OUT w_rp). reflexivity.
      * destruct K as [-> K]. rewrite lic_step by assumption.
        destruct (lic_canon lics o) as [l|] eqn:E; [|reflexivity]. apply OUT. cbn [hdW]. now apply lic_canon_not_WITH with o.
Qed.

(* the first loop *)
Lemma skel_id last t r : is_opword t = false ->
  skeleton last (t :: r) = match skeleton (Some PF) r with Some l => Some (PF :: l) | None => None end.
Proof. intros H. cbn [skeleton]. now rewrite H. Qed.
Lemma skel_or last r : skeleton last (w_or :: r) = match skeleton (Some POr) r with Some l => Some (POr :: l) | None => None end.
Proof. reflexivity. Qed.
Lemma skel_and last r : skeleton last (w_and :: r) = match skeleton (Some PAnd) r with Some l => Some (PAnd :: l) | None => None end.
Proof. reflexivity. Qed.
Lemma skel_with last r : skeleton last (w_with :: r) = match skeleton (Some POr) r with Some l => Some (POr :: l) | None => None end.
Proof. reflexivity. Qed.
Lemma skel_lp last r : skeleton last (w_lp :: r) =
  match last with
  | None | Some POr | Some PAnd | Some PL => match skeleton (Some PL) r with Some l => Some (PL :: l) | None => None end
  | _ => None
  end.
Proof. destruct last as [[]|]; reflexivity. Qed.
Lemma skel_rp last r : skeleton last (w_rp :: r) =
  match last with
  | Some PL => None
  | _ => match skeleton (Some PR) r with Some l => Some (PR :: l) | None => None end
  end.
Proof. destruct last as [[]|]; reflexivity. Qed.
Lemma skeleton_spec os : forall last, skeleton last (map lower os) = pass1 str last (map classify os).
Proof.
  induction os as [|o r IH]; intros last; [reflexivity|].
  cbn [map]. pose proof (classify_code o) as K. destruct (classify o); cbn [pass1].
  - rewrite K, skel_or, IH. reflexivity.
  - rewrite K, skel_and, IH. reflexivity.
  - rewrite K, skel_with, IH. reflexivity.
  - rewrite K, skel_lp. destruct last as [[]|]; try reflexivity; now rewrite IH.
  - rewrite K, skel_rp. destruct last as [[]|]; try reflexivity; now rewrite IH.
  - destruct K as [_ K]. rewrite skel_id, IH by assumption. reflexivity.
Qed.

Definition lic_ok (w : str) : bool := is_some (lic_canon lics w).
Definition exc_ok (w : str) : bool := is_some (exc_canon excs w).
Lemma classify_payload o w : classify o = TId _ w -> w = o.
Proof. unfold classify. repeat match goal with |- context [if ?b then _ else _] => destruct b end; try discriminate. now intros [= <-]. Qed.
Lemma pass2o_pass2 os : forall aw ll, is_some (pass2o aw ll os) = pass2 str lic_ok exc_ok aw ll (map classify os).
Proof.
  induction os as [|o r IH]; intros aw ll; [reflexivity|]. cbn [map pass2o pass2].
  destruct (classify o) eqn:Cl; try (apply classify_payload in Cl; subst i); destruct aw; try reflexivity;
    try (rewrite <- IH; destruct (pass2o _ _ r); reflexivity).
  - destruct ll; [|reflexivity]. rewrite <- IH. destruct (pass2o _ _ r); reflexivity.
  - unfold exc_ok. destruct (exc_canon excs o); [|reflexivity]. rewrite <- IH. destruct (pass2o _ _ r); reflexivity.
  - unfold lic_ok. destruct (lic_canon lics o); [|reflexivity]. rewrite <- IH. destruct (pass2o _ _ r); reflexivity.
Qed.
Lemma pass2o_canon_tokens os : forall aw ll out, pass2o aw ll os = Some out -> canon_tokens lics excs aw os = Some out.
Proof.
  induction os as [|o r IH]; intros aw ll out; [auto|]. cbn [pass2o canon_tokens].
  destruct (classify o); destruct aw; try discriminate;
    try (destruct (pass2o _ _ r) eqn:E; [|discriminate]; intros [= <-]; now rewrite (IH _ _ _ E)).
  - destruct ll; [|discriminate]. destruct (pass2o _ _ r) eqn:E; [|discriminate]. intros [= <-]. now rewrite (IH _ _ _ E).
  - destruct (exc_canon excs o); [|discriminate]. destruct (pass2o _ _ r) eqn:E; [|discriminate]. intros [= <-]. now rewrite (IH _ _ _ E).
  - destruct (lic_canon lics o); [|discriminate]. destruct (pass2o _ _ r) eqn:E; [|discriminate]. intros [= <-]. now rewrite (IH _ _ _ E).
Qed.

(* result tokens are parentheses or clean words *)
Lemma forallb_skipn {A} (p : A -> bool) n : forall l, forallb p l = true -> forallb p (skipn n l) = true.
Proof. induction n as [|n IH]; intros [|a l] H; auto. cbn [forallb] in H. apply andb_true_iff in H as [_ H]. now apply IH. Qed.
Lemma is_word_app a b : is_word a = true -> forallb wordc b = true -> is_word (a ++ b) = true.
Proof.
  unfold is_word. intros H B. apply andb_true_iff in H as [N A]. rewrite forallb_app, A, B. destruct a; [discriminate|reflexivity].
Qed.
Lemma plus_wordc plus : plus = [] \/ plus = [43] -> forallb wordc plus = true.
Proof. intros [->| ->]; reflexivity. Qed.
Lemma strip_plus_cases w : snd (strip_plus w) = [] \/ snd (strip_plus w) = [43].
Proof. unfold strip_plus. destruct (last_is 43 w); auto. Qed.
Lemma lic_canon_word w l : lic_canon lics w = Some l -> is_word l = true.
Proof.
  unfold lic_canon. pose proof (strip_plus_cases w) as P. destruct (strip_plus w) as [core plus]. cbn [snd] in P.
  destruct (prefixb licenseref_lc (afold core)).
  - destruct (forallb ref_char core) eqn:R; [|discriminate]. destruct (nonemptyb (skipn 11 core)); [|discriminate]. cbn [andb].
    assert (SK : forallb wordc (skipn 11 core) = true).
    { apply forallb_skipn. rewrite forallb_forall in *. intros c Hc. apply ref_char_wordc. auto. }
    intros E. injection E as <-.
    apply (is_word_app licenseref_prefix); [reflexivity|]. rewrite forallb_app. apply andb_true_iff. split; [exact SK|now apply plus_wordc].
  - destruct (find_id core (map snd lics)) as [id|] eqn:E; [|discriminate]. intros [= <-].
    apply find_id_in in E as [E _]. destruct (table_entry lics id TOK_l E) as (_ & Wd & _ & _).
    apply is_word_app; auto using plus_wordc.
Qed.
Lemma exc_canon_word w e : exc_canon excs w = Some e -> is_word e = true.
Proof. unfold exc_canon. intros E. apply find_id_in in E as [E _]. now destruct (table_entry excs e TOK_e E) as (_ & Wd & _ & _). Qed.
Lemma word_otok t : is_word t = true -> otok_ok t = true.
Proof. unfold otok_ok. intros ->. now rewrite orb_true_r. Qed.
Lemma pass2o_otok os : forall aw ll out, pass2o aw ll os = Some out -> Forall (fun t => otok_ok t = true) out.
Proof.
  induction os as [|o r IH]; intros aw ll out; cbn [pass2o]; [intros [= <-]; constructor|].
  destruct (classify o); destruct aw; try discriminate;
    try (destruct (pass2o _ _ r) eqn:E; [|discriminate]; intros [= <-]; constructor; [reflexivity|now apply (IH _ _ _ E)]).
  - destruct ll; [|discriminate]. destruct (pass2o _ _ r) eqn:E; [|discriminate]. intros [= <-]. constructor; [reflexivity|now apply (IH _ _ _ E)].
  - destruct (exc_canon excs o) eqn:X; [|discriminate]. destruct (pass2o _ _ r) eqn:E; [|discriminate]. intros [= <-].
    constructor; [apply word_otok; now apply exc_canon_word with o|now apply (IH _ _ _ E)].
  - destruct (lic_canon lics o) eqn:X; [|discriminate]. destruct (pass2o _ _ r) eqn:E; [|discriminate]. intros [= <-].
    constructor; [apply word_otok; now apply lic_canon_word with o|now apply (IH _ _ _ E)].
Qed.

(* nesting depth of the skeleton = nesting depth of the tokens *)
Lemma pass1_exceeds limit ts : forall last lvl ps, pass1 str last ts = Some ps -> exceeds limit lvl ps = nest_exceeds limit lvl ts.
Proof.
  induction ts as [|t r IH]; intros last lvl ps; cbn [pass1]; [intros [= <-]; reflexivity|].
  destruct t; try (destruct last as [[]|]; try discriminate);
    match goal with |- context [pass1 str ?l r] => destruct (pass1 str l r) eqn:E; [|discriminate]; intros [= <-]; cbn [exceeds nest_exceeds]; now rewrite (IH _ _ _ E) end.
Qed.

(* the function on tokens computes the specification *)
Definition spec_toks (os : list str) : option (list str) :=
  if spdx_tokens_ok lics excs os then canon_tokens lics excs false os else None.
Theorem canon_toks_spec os : Forall clean os ->
  canon_toks os =
  match spec_toks os with
  | None => Err
  | Some out => if nests_deeper_than limit_hard os then Err
                else if nests_deeper_than limit_sure os then Limit (tight out) else Ok (tight out)
  end.
Proof.
  intros C. unfold canon_toks, spec_toks, spdx_tokens_ok. cbv zeta.
  rewrite <- (C19_code_accepts_iff_spdx str). unfold code_ok.
  rewrite skeleton_spec.
  destruct (pass1 str None (map classify os)) as [ps|] eqn:P1; [|reflexivity].
  unfold py_eval, nests_deeper_than. rewrite !(pass1_exceeds _ _ _ _ _ P1).
  rewrite final_pass_spec by assumption. cbn [hdW]. rewrite <- pass2o_pass2.
  destruct (pyrun true 0 ps); cbn [andb]; [|reflexivity].
  destruct (pass2o false false os) as [out|] eqn:P2; cbn [is_some].
  - rewrite (pass2o_canon_tokens _ _ _ _ P2). cbn [rev app].
    rewrite (tighten_join out (pass2o_otok _ _ _ _ P2)).
    destruct (nest_exceeds limit_hard 0 (map classify os)); [reflexivity|].
    destruct (nest_exceeds limit_sure 0 (map classify os)); reflexivity.
  - destruct (nest_exceeds limit_hard 0 (map classify os)); [reflexivity|].
    destruct (nest_exceeds limit_sure 0 (map classify os)); reflexivity.
Qed.

(* ---------------------------------------------------------------- string level *)
Theorem canon_spec s :
  canon lics excs s =
  match spec_canon lics excs s with
  | None => Err
  | Some o => if nests_deeper_than limit_hard (spdx_tokens s) then Err
              else if nests_deeper_than limit_sure (spdx_tokens s) then Limit o else Ok o
  end.
Proof.
  rewrite canon_split. rewrite <- spdx_tokens_split.
  rewrite canon_toks_spec by (rewrite spdx_tokens_split; apply split_ws_clean).
  unfold spec_canon, spec_toks. destruct (spdx_tokens_ok lics excs (spdx_tokens s)); [|reflexivity].
  destruct (canon_tokens lics excs false (spdx_tokens s)); reflexivity.
Qed.

(* the recogniser and the printer of the specification agree on what is an expression *)
Lemma spdx_ok_canon_tokens os : spdx_tokens_ok lics excs os = true -> exists out, canon_tokens lics excs false os = Some out.
Proof.
  unfold spdx_tokens_ok. rewrite <- (C19_code_accepts_iff_spdx str). unfold code_ok.
  destruct (pass1 str None (map classify os)); [|discriminate]. intros H. apply andb_true_iff in H as [_ H].
  fold lic_ok exc_ok in H. rewrite <- pass2o_pass2 in H. destruct (pass2o false false os) as [out|] eqn:E; [|discriminate].
  exists out. now apply pass2o_canon_tokens with false.
Qed.
End Tables.

(* ---------------------------------------------------------------- only the documented exception, for every input and every table *)
Lemma mem_lookup k tbl : mem k tbl = true -> exists id, lookup k tbl = Some id.
Proof.
  unfold mem, lookup. induction tbl as [|e tbl IH]; [discriminate|]. cbn [existsb find].
  destruct (streq (fst e) k); [eauto|]. exact IH.
Qed.
Lemma final_pass_no_crash lics excs pairs : forall nr al, final_pass lics excs nr al pairs <> PCrash.
Proof.
  induction pairs as [|[o t] r IH]; intros nr al; cbn [final_pass]; [discriminate|].
  destruct (match nr with [] => false | h :: _ => streq h W_WITH end).
  - destruct (mem t excs) eqn:M; [|discriminate]. destruct (negb (forallb asciib o)); [discriminate|]. destruct (mem_lookup _ _ M) as (id & ->). apply IH.
  - destruct (is_opword t).
    + destruct (streq t w_with && negb al); [discriminate|apply IH].
    + cbv zeta. destruct (prefixb licenseref_lc (if last_is 43 t then removelast t else t)).
      * destruct (negb (ref_match _) || _); [discriminate|apply IH].
      * destruct (mem _ lics) eqn:M; [|discriminate]. destruct (negb (forallb asciib o)); [discriminate|]. destruct (mem_lookup _ _ M) as (id & ->). apply IH.
Qed.
Theorem canon_no_crash lics excs s : canon lics excs s <> Crash.
Proof.
  unfold canon. destruct (negb (nonemptyb s)); [discriminate|]. destruct (skeleton None _); [|discriminate].
  pose proof (final_pass_no_crash lics excs (combine (split_ws (pad s)) (split_ws (lower (pad s)))) [] false) as H.
  destruct (py_eval l); try discriminate; destruct (final_pass _ _ _ _ _); try discriminate; congruence.
Qed.
