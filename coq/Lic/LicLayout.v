(* C19: "single spaces and tight parentheses" as a statement about the TEXT of the result, derived from  o = tight out  (LicSpec.tight)
   and the shape of canonical tokens (a parenthesis, or a non-empty word free of whitespace and parentheses):

     - the text is not empty, does not start and does not end with a blank
     - the only whitespace character in it is U+0020
     - no two blanks in a row, no blank after "(", no blank before ")"
     - ")" is followed by ")" or a blank (or the end), "(" is preceded by "(" or a blank (or the start)

   so the reader need not trust the definition of `tight`. *)
From Coq Require Import List Arith NArith Bool Lia.
Import ListNotations.
Require Import VParse LicModel LicAuto LicSpec LicLex.
Open Scope N_scope.
Arguments N.eqb : simpl never.
Arguments N.leb : simpl never.
Arguments N.ltb : simpl never.

(* p occurs in s as a contiguous piece *)
Definition occurs (p s : str) : Prop := exists x y, s = x ++ p ++ y.

(* every two neighbouring characters satisfy P *)
Fixpoint adj (P : char -> char -> bool) (s : str) : bool :=
  match s with
  | [] => true
  | c :: t => match t with [] => true | d :: _ => P c d && adj P t end
  end.

Lemma last_app_ne {A} (a b : list A) d : b <> [] -> last (a ++ b) d = last b d.
Proof.
  intros H. induction a as [|x a IH]; [reflexivity|]. cbn [app]. destruct (a ++ b) eqn:E.
  - apply app_eq_nil in E as [_ E]. contradiction.
  - cbn [last]. exact IH.
Qed.
Lemma adj_cons P c d t : adj P (c :: d :: t) = P c d && adj P (d :: t).
Proof. reflexivity. Qed.
Lemma adj_app P a b : adj P a = true -> adj P b = true -> (a = [] \/ b = [] \/ P (last a 0) (hd 0 b) = true) -> adj P (a ++ b) = true.
Proof.
  induction a as [|c t IH]; intros Ha Hb H; [exact Hb|].
  destruct t as [|d t'].
  - cbn [app]. destruct b as [|e b']; [reflexivity|]. rewrite adj_cons, Hb, andb_true_r.
    destruct H as [H|[H|H]]; [discriminate|discriminate|exact H].
  - rewrite adj_cons in Ha. apply andb_true_iff in Ha as [H1 H2]. change ((c :: d :: t') ++ b) with (c :: d :: (t' ++ b)).
    rewrite adj_cons, H1. cbn [andb]. apply (IH H2 Hb).
    destruct H as [H|[H|H]]; [discriminate|now right; left|right; right; exact H].
Qed.
Lemma adj_at P x : forall s a b y, adj P s = true -> s = x ++ a :: b :: y -> P a b = true.
Proof.
  induction x as [|c x IH]; intros s a b y H E; subst s.
  - cbn [app] in H. rewrite adj_cons in H. now apply andb_true_iff in H as [H _].
  - cbn [app] in H. destruct (x ++ a :: b :: y) as [|d r] eqn:E; [destruct x; discriminate|].
    rewrite adj_cons in H. apply andb_true_iff in H as [_ H]. exact (IH _ a b y H (eq_sym E)).
Qed.

(* the layout rule for two neighbouring characters *)
Definition lay (c d : char) : bool :=
  negb ((c =? 32) && (d =? 32))                       (* no two blanks *)
  && negb ((c =? 40) && (d =? 32))                    (* no blank after "(" *)
  && negb ((c =? 32) && (d =? 41))                    (* no blank before ")" *)
  && (negb (c =? 41) || (d =? 41) || (d =? 32))       (* after ")": ")" or a blank *)
  && (negb (d =? 40) || (c =? 40) || (c =? 32)).      (* before "(": "(" or a blank *)

Lemma lay_w_any c d : wordc c = true -> (d =? 40) = false -> lay c d = true.
Proof. intros W D. unfold lay. rewrite (wordc_n32 c W), (wordc_n40 c W), (wordc_n41 c W), D. reflexivity. Qed.
Lemma lay_any_w c d : wordc d = true -> (c =? 41) = false -> lay c d = true.
Proof. intros W C. unfold lay. rewrite (wordc_n32 d W), (wordc_n40 d W), (wordc_n41 d W), C. now rewrite !andb_false_r. Qed.
Lemma lay_w_w c d : wordc c = true -> wordc d = true -> lay c d = true.
Proof. intros W V. apply lay_w_any; [exact W|now apply wordc_n40]. Qed.

(* tokens *)
Lemma word_adj t : forallb wordc t = true -> adj lay t = true.
Proof.
  induction t as [|c t IH]; intros H; [reflexivity|]. cbn [forallb] in H. apply andb_true_iff in H as [Hc H].
  destruct t as [|d t']; [reflexivity|]. rewrite adj_cons, (IH H), andb_true_r. cbn [forallb] in H. apply andb_true_iff in H as [Hd _].
  now apply lay_w_w.
Qed.
Lemma word_last t : is_word t = true -> wordc (last t 0) = true.
Proof.
  intros H. destruct (word_hd t H) as (c & r & -> & Hc & Hr). clear H. revert c Hc. induction r as [|d r IH]; intros c Hc; [exact Hc|].
  cbn [forallb] in Hr. apply andb_true_iff in Hr as [Hd Hr]. change (last (c :: d :: r) 0) with (last (d :: r) 0). now apply IH.
Qed.
Lemma wordc_not_ws c : wordc c = true -> is_ws c = false.
Proof. intros H. apply wordc_nws in H. unfold nws in H. now apply negb_true_iff in H. Qed.
Lemma otok_nws t c : otok_ok t = true -> In c t -> is_ws c = false.
Proof.
  intros H I. destruct (otok_cases t H) as [->|[->|W]].
  - destruct I as [<-|[]]. reflexivity.
  - destruct I as [<-|[]]. reflexivity.
  - apply word_all in W. rewrite forallb_forall in W. now apply wordc_not_ws, W.
Qed.
Lemma otok_adj t : otok_ok t = true -> adj lay t = true.
Proof. intros H. destruct (otok_cases t H) as [->|[->|W]]; try reflexivity. now apply word_adj, word_all. Qed.

(* what a token looks like at its two ends *)
Inductive tclass (t : str) : Prop :=
  | CL : t = w_lp -> tclass t
  | CR : t = w_rp -> tclass t
  | CW : is_word t = true -> tclass t.
Lemma otok_class t : otok_ok t = true -> tclass t.
Proof. intros H. destruct (otok_cases t H) as [E|[E|W]]; [now apply CL|now apply CR|now apply CW]. Qed.

Lemma hd_app_ne (a b : str) : a <> [] -> hd 0 (a ++ b) = hd 0 a.
Proof. destruct a; [contradiction|reflexivity]. Qed.
Lemma otok_nonnil t : otok_ok t = true -> t <> [].
Proof. intros H. destruct (otok_cases t H) as [->|[->|W]]; try discriminate. destruct (word_hd t W) as (c & r & -> & _). discriminate. Qed.
Lemma tight_hd x r : otok_ok x = true -> hd 0 (tight (x :: r)) = hd 0 x /\ tight (x :: r) <> [].
Proof.
  intros H. destruct (tight_cons x r) as (tl & ->). pose proof (otok_nonnil x H) as N. split; [now apply hd_app_ne|].
  intros E. apply app_eq_nil in E as [E _]. contradiction.
Qed.

Theorem tight_layout l : Forall (fun t => otok_ok t = true) l -> l <> [] ->
  tight l <> [] /\ hd 0 (tight l) <> 32 /\ last (tight l) 0 <> 32 /\ (forall c, In c (tight l) -> is_ws c = true -> c = 32) /\
  adj lay (tight l) = true.
Proof.
  induction l as [|x r IH]; intros H NE; [contradiction|]. inversion H as [|? ? Hx Hr]; subst.
  assert (HD : hd 0 x <> 32 /\ last x 0 <> 32).
  { destruct (otok_class x Hx) as [->| ->|W]; [split; discriminate|split; discriminate|].
    split.
    - destruct (word_hd x W) as (c & t & -> & Hc & _). cbn [hd]. intros ->. discriminate.
    - pose proof (word_last x W) as L. intros E. rewrite E in L. discriminate. }
  destruct r as [|y r'].
  - cbn [tight]. split; [now apply otok_nonnil|]. split; [apply HD|]. split; [apply HD|]. split; [|now apply otok_adj].
    intros c I W. rewrite (otok_nws x c Hx I) in W. discriminate.
  - destruct (IH Hr) as (N & Hh & Hl & Hw & Ha); [discriminate|]. inversion Hr as [|? ? Hy _]; subst.
    destruct (tight_hd x (y :: r') Hx) as [E1 E2]. destruct (tight_hd y r' Hy) as [F1 _].
    split; [exact E2|]. split; [rewrite E1; apply HD|].
    set (rest := tight (y :: r')) in *.
    change (tight (x :: y :: r')) with (x ++ (if streq x w_lp || streq y w_rp then [] else [32]) ++ rest).
    set (sep := if streq x w_lp || streq y w_rp then [] else [32]).
    assert (SR : sep ++ rest <> []) by (intros E; apply app_eq_nil in E as [_ E]; contradiction).
    split; [rewrite (last_app_ne x (sep ++ rest)) by exact SR; rewrite (last_app_ne sep rest) by exact N; exact Hl|].
    split.
    + intros c I W. apply in_app_or in I as [I|I]; [rewrite (otok_nws x c Hx I) in W; discriminate|].
      apply in_app_or in I as [I|I]; [|now apply Hw].
      subst sep. destruct (streq x w_lp || streq y w_rp); [destruct I|]. destruct I as [<-|[]]. reflexivity.
    + (* neighbouring characters: inside x, inside the rest, and at the two seams *)
      assert (HY : hd 0 rest = hd 0 y) by exact F1.
      assert (SEAM : adj lay (sep ++ rest) = true /\ lay (last x 0) (hd 0 (sep ++ rest)) = true).
      { subst sep. destruct (otok_class x Hx) as [->| ->|Wx]; destruct (otok_class y Hy) as [Ey|Ey|Wy]; try subst y.
        - rewrite streq_refl. cbn [orb app]. split; [exact Ha|]. rewrite HY. reflexivity.
        - rewrite streq_refl. cbn [orb app]. split; [exact Ha|]. rewrite HY. reflexivity.
        - rewrite streq_refl. cbn [orb app]. split; [exact Ha|]. rewrite HY.
          destruct (word_hd y Wy) as (c & t & -> & Hc & _). cbn [hd last w_lp]. apply lay_any_w; [exact Hc|reflexivity].
        - change (streq w_rp w_lp) with false. change (streq w_lp w_rp) with false. cbn [orb app].
          destruct rest as [|e rest'] eqn:ER; [contradiction|]. cbn [hd] in HY. subst e. split; [|reflexivity].
          rewrite adj_cons, Ha. reflexivity.
        - change (streq w_rp w_lp) with false. rewrite streq_refl. cbn [orb app]. split; [exact Ha|]. rewrite HY. reflexivity.
        - change (streq w_rp w_lp) with false. rewrite (word_not_rp y Wy). cbn [orb app].
          destruct rest as [|e rest'] eqn:ER; [contradiction|]. cbn [hd] in HY. split; [|reflexivity].
          rewrite adj_cons, Ha, andb_true_r. destruct (word_hd y Wy) as (c & t & -> & Hc & _). cbn [hd] in HY. subst e.
          apply lay_any_w; [exact Hc|reflexivity].
        - rewrite (word_not_lp x Wx). change (streq w_lp w_rp) with false. cbn [orb app].
          destruct rest as [|e rest'] eqn:ER; [contradiction|]. cbn [hd] in HY. subst e. split.
          + rewrite adj_cons, Ha. reflexivity.
          + cbn [hd]. apply lay_w_any; [now apply word_last|reflexivity].
        - rewrite (word_not_lp x Wx), streq_refl. cbn [orb app]. split; [exact Ha|]. rewrite HY. cbn [hd w_rp].
          apply lay_w_any; [now apply word_last|reflexivity].
        - rewrite (word_not_lp x Wx), (word_not_rp y Wy). cbn [orb app].
          destruct rest as [|e rest'] eqn:ER; [contradiction|]. cbn [hd] in HY. split.
          + rewrite adj_cons, Ha, andb_true_r. destruct (word_hd y Wy) as (c & t & -> & Hc & _). cbn [hd] in HY. subst e.
            apply lay_any_w; [exact Hc|reflexivity].
          + cbn [hd]. apply lay_w_any; [now apply word_last|reflexivity]. }
      destruct SEAM as [S1 S2]. apply adj_app; [now apply otok_adj|exact S1|right; right; exact S2].
Qed.

(* the layout rule read off as statements about pieces of the text *)
Lemma adj_no_pair s a b : adj lay s = true -> lay a b = false -> ~ occurs [a; b] s.
Proof. intros H L (x & y & E). cbn [app] in E. rewrite (adj_at lay x s a b y H E) in L. discriminate. Qed.
Lemma lay_after_rp c : lay 41 c = true -> c = 41 \/ c = 32.
Proof.
  unfold lay. intros H. apply andb_true_iff in H as [H _]. apply andb_true_iff in H as [_ H]. change (41 =? 41) with true in H.
  cbn [negb orb] in H. apply orb_true_iff in H as [H|H]; apply N.eqb_eq in H; auto.
Qed.
Lemma lay_before_lp c : lay c 40 = true -> c = 40 \/ c = 32.
Proof.
  unfold lay. intros H. apply andb_true_iff in H as [_ H]. change (40 =? 40) with true in H.
  cbn [negb orb] in H. apply orb_true_iff in H as [H|H]; apply N.eqb_eq in H; auto.
Qed.

Definition text_layout (o : str) : Prop :=
  o <> [] /\ hd 0 o <> 32 /\ last o 0 <> 32 /\                                   (* not empty; no leading, no trailing blank *)
  (forall c, In c o -> is_ws c = true -> c = 32) /\                              (* U+0020 is the only whitespace used *)
  ~ occurs [32; 32] o /\ ~ occurs [40; 32] o /\ ~ occurs [32; 41] o /\           (* no "  ", no "( ", no " )" *)
  (forall x c y, o = x ++ 41 :: c :: y -> c = 41 \/ c = 32) /\                   (* ")" is followed by ")" or " " *)
  (forall x c y, o = x ++ c :: 40 :: y -> c = 40 \/ c = 32).                     (* "(" is preceded by "(" or " " *)

Theorem tight_text_layout l : Forall (fun t => otok_ok t = true) l -> l <> [] -> text_layout (tight l).
Proof.
  intros H NE. destruct (tight_layout l H NE) as (A & B & C & D & E). unfold text_layout.
  repeat (split; [assumption|]). split; [now apply adj_no_pair|]. split; [now apply adj_no_pair|]. split; [now apply adj_no_pair|].
  split.
  - intros x c y Eo. apply lay_after_rp. exact (adj_at lay x _ 41 c y E Eo).
  - intros x c y Eo. apply lay_before_lp. exact (adj_at lay x _ c 40 y E Eo).
Qed.

(* a decision procedure for text_layout (sound; used for the closed non-vacuity checks of Properties/C19.v) *)
Definition text_layoutb (o : str) : bool :=
  nonemptyb o && negb (hd 0 o =? 32) && negb (last o 0 =? 32) && forallb (fun c => negb (is_ws c) || (c =? 32)) o && adj lay o.
Theorem text_layoutb_sound o : text_layoutb o = true -> text_layout o.
Proof.
  unfold text_layoutb, text_layout. intros H. apply andb_true_iff in H as [H E]. apply andb_true_iff in H as [H D].
  apply andb_true_iff in H as [H C]. apply andb_true_iff in H as [A B].
  apply negb_true_iff, N.eqb_neq in B. apply negb_true_iff, N.eqb_neq in C. rewrite forallb_forall in D.
  split; [destruct o; [discriminate A|discriminate]|]. split; [exact B|]. split; [exact C|].
  split.
  - intros c I W. specialize (D c I). rewrite W in D. cbn [negb orb] in D. now apply N.eqb_eq.
  - split; [now apply adj_no_pair|]. split; [now apply adj_no_pair|]. split; [now apply adj_no_pair|]. split.
    + intros x c y Eo. apply lay_after_rp. exact (adj_at lay x _ 41 c y E Eo).
    + intros x c y Eo. apply lay_before_lp. exact (adj_at lay x _ c 40 y E Eo).
Qed.
