(* C19: the lemmas of LicCode / LicIdem / LicGrammar instantiated with the tables of the working tree (LicTable.spdx_table_ok)
   and stated about LicTop.canonicalize_license_expression.  Properties/C19.v restates them. *)
From Coq Require Import List Arith NArith Bool.
Import ListNotations.
Require Import VParse LicModel LicAuto LicSpec LicLex LicCode LicIdem LicGrammar LicTable LicTop SpdxTable.
Open Scope N_scope.

Notation canonicalize := canonicalize_license_expression.
Notation spec := (spec_canon licenses exceptions).

Lemma final_spec s :
  canonicalize s = match spec s with
                   | None => Err
                   | Some o => if nests_deeper_than 200 (spdx_tokens s) then Err
                               else if nests_deeper_than 100 (spdx_tokens s) then Limit o else Ok o
                   end.
Proof. exact (canon_spec licenses exceptions spdx_table_ok s). Qed.

Lemma final_accepts_iff s : nests_deeper_than 100 (spdx_tokens s) <> true ->
  ((exists o, canonicalize s = Ok o) <-> spdx_tokens_ok licenses exceptions (spdx_tokens s) = true).
Proof.
  intros D. rewrite (final_spec s). unfold spec_canon.
  assert (D2 : nests_deeper_than 200 (spdx_tokens s) = false).
  { destruct (nests_deeper_than 200 (spdx_tokens s)) eqn:E; [|reflexivity]. exfalso. apply D.
    unfold nests_deeper_than in *. apply (nest_exceeds_mono 100 200); [|exact E]. repeat constructor. }
  destruct (spdx_tokens_ok licenses exceptions (spdx_tokens s)) eqn:E.
  - destruct (spdx_ok_canon_tokens _ _ _ E) as (out & ->). rewrite D2.
    destruct (nests_deeper_than 100 (spdx_tokens s)); [now destruct D|]. split; eauto.
  - split; [intros (o & H); discriminate|discriminate].
Qed.

Lemma final_canonical_form s o : (canonicalize s = Ok o \/ canonicalize s = Limit o) ->
  exists out, canon_tokens licenses exceptions false (spdx_tokens s) = Some out /\ o = tight out /\
              Forall2 teq (spdx_tokens s) out /\ spdx_tokens o = out /\ forallb asciib o = true.
Proof.
  intros H. rewrite (final_spec s) in H. unfold spec_canon in H.
  destruct (spdx_tokens_ok licenses exceptions (spdx_tokens s)) eqn:E; [|destruct H; discriminate].
  destruct (canon_tokens licenses exceptions false (spdx_tokens s)) as [out|] eqn:C; [|destruct H; discriminate].
  assert (o = tight out).
  { destruct (nests_deeper_than 200 (spdx_tokens s)); [destruct H; discriminate|].
    destruct (nests_deeper_than 100 (spdx_tokens s)); destruct H as [H|H]; congruence. }
  subst o. exists out. destruct (canon_tokens_shape _ _ spdx_table_ok _ _ _ C) as [A B].
  repeat split; auto.
  - now apply (canon_tokens_same_words _ _ spdx_table_ok _ false).
  - rewrite spdx_tokens_split. now apply retokenise.
  - now apply tight_ascii.
Qed.

Lemma final_idempotent s o : canonicalize s = Ok o -> canonicalize o = Ok o.
Proof. intros H. rewrite <- H. apply (canon_idempotent _ _ spdx_table_ok s o). now left. Qed.

Lemma final_layout s s' : spdx_tokens s = spdx_tokens s' -> canonicalize s = canonicalize s'.
Proof. intros H. unfold canonicalize_license_expression. rewrite !canon_split, <- !spdx_tokens_split. now rewrite H. Qed.

Lemma final_accepted_ascii s o : (canonicalize s = Ok o \/ canonicalize s = Limit o) ->
  forall c, In c s -> asciib c = true \/ is_ws c = true.
Proof.
  intros H. destruct (final_canonical_form s o H) as (out & C & _ & Q & _ & _).
  destruct (canon_tokens_shape _ _ spdx_table_ok _ _ _ C) as [_ B]. now apply (accepted_ascii s out).
Qed.

(* a non-ASCII character outside whitespace - U+212A KELVIN SIGN, U+0130, U+017F, anything - makes the whole expression invalid *)
Lemma final_nonascii_rejected s c : In c s -> asciib c = false -> is_ws c = false -> canonicalize s = Err.
Proof.
  intros I A W. destruct (canonicalize s) as [o| |o|] eqn:E; [|reflexivity| |].
  - destruct (final_accepted_ascii s o (or_introl E) c I); congruence.
  - destruct (final_accepted_ascii s o (or_intror E) c I); congruence.
  - exfalso. now apply (canon_no_crash licenses exceptions s).
Qed.
