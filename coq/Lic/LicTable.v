(* C19: the invariants of the generated SPDX tables (coq/Gen/SpdxTable.v, re-extracted from the working tree on every run) that the
   theorems consume.  Each is a complete enumeration of the finite table by vm_compute, lifted with forallb_forall: a table change that
   breaks an invariant breaks this file, hence the proof obligations of Properties/C19.v. *)
From Coq Require Import List NArith Bool.
Import ListNotations.
Require Import VParse LicModel LicAuto LicSpec LicLex LicCode SpdxTable.
Open Scope N_scope.

(* every key is the ASCII lower-casing of its id; keys and ids are ASCII; ids are non-empty and free of whitespace and parentheses;
   no id is a prefix of "WITH"; no exception key is an operator word or a parenthesis, or starts with "licenseref-" *)
Lemma spdx_table_ok : table_ok licenses exceptions = true.
Proof. vm_compute. reflexivity. Qed.

(* dict keys are pairwise distinct, so "first match" (LicModel.lookup) is dict lookup *)
Fixpoint distinctb (l : list str) : bool :=
  match l with [] => true | x :: r => negb (existsb (streq x) r) && distinctb r end.
Lemma spdx_keys_distinct : distinctb (map fst licenses) = true /\ distinctb (map fst exceptions) = true.
Proof. split; vm_compute; reflexivity. Qed.
Lemma distinctb_NoDup l : distinctb l = true -> NoDup l.
Proof.
  induction l as [|x r IH]; intros H; constructor; cbn [distinctb] in H; apply andb_true_iff in H as [A B]; auto.
  intros K. apply negb_true_iff in A. assert (existsb (streq x) r = true); [|congruence].
  apply existsb_exists. exists x. split; [exact K|apply streq_refl].
Qed.
Lemma spdx_keys_nodup : NoDup (map fst licenses) /\ NoDup (map fst exceptions).
Proof. destruct spdx_keys_distinct. split; now apply distinctb_NoDup. Qed.

(* the invariants in quantified form *)
Lemma spdx_licenses_entries k id : In (k, id) licenses ->
  k = afold id /\ forallb asciib id = true /\ is_word id = true /\ prefixb id W_WITH = false.
Proof.
  intros H. pose proof (TOK_l _ _ spdx_table_ok) as T.
  rewrite forallb_forall in T. destruct (entry_ok_inv _ (T _ H)) as (A & _ & B & C & D). auto.
Qed.
Lemma spdx_exceptions_entries k id : In (k, id) exceptions ->
  k = afold id /\ forallb asciib id = true /\ is_word id = true /\ prefixb id W_WITH = false /\ is_opword k = false.
Proof.
  intros H. pose proof (TOK_e _ _ spdx_table_ok) as T. pose proof (TOK_o _ _ spdx_table_ok) as O.
  rewrite forallb_forall in T, O. destruct (entry_ok_inv _ (T _ H)) as (A & _ & B & C & D). specialize (O _ H). cbn in O.
  apply negb_true_iff in O. auto.
Qed.
