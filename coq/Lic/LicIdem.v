(* C19: the specification (hence, by LicCode.canon_spec, the code, on every input) is insensitive to ASCII case outside LicenseRef suffixes and to
   whitespace layout; canonical tokens are equivalent to the tokens they come from; hence idempotence. *)
From Coq Require Import List Arith NArith Bool Lia.
Import ListNotations.
Require Import VParse LicModel LicAuto LicSpec LicLex LicCode.
Open Scope N_scope.
Arguments N.eqb : simpl never.
Arguments N.leb : simpl never.
Arguments N.ltb : simpl never.

(* two tokens are the same word: equal up to ASCII case, and - when the token is a LicenseRef - the same suffix, character by character *)
Definition is_ref (w : str) : bool := prefixb licenseref_lc (afold (fst (strip_plus w))).
Definition teq (a b : str) : Prop := afold a = afold b /\ (is_ref a = true -> skipn 11 a = skipn 11 b).

(* ---------------------------------------------------------------- ASCII folding *)
Lemma afold_app a b : afold (a ++ b) = afold a ++ afold b.
Proof. apply map_app. Qed.
Lemma lc_plus c : (lc c =? 43) = (c =? 43).
Proof.
  unfold lc. destruct ((65 <=? c) && (c <=? 90)) eqn:E; [|reflexivity].
  apply andb_true_iff in E as [A B]. apply N.leb_le in A, B. transitivity false; [|symmetry]; apply N.eqb_neq; lia.
Qed.
Lemma last_is_afold w : last_is 43 (afold w) = last_is 43 w.
Proof. destruct w as [|c w' _] using rev_ind; [reflexivity|]. rewrite afold_app. cbn [afold map]. rewrite !last_is_snoc. apply lc_plus. Qed.
Lemma removelast_afold w : removelast (afold w) = afold (removelast w).
Proof. destruct w as [|c w' _] using rev_ind; [reflexivity|]. rewrite afold_app. cbn [afold map]. now rewrite !removelast_last. Qed.
Lemma strip_plus_afold w : strip_plus (afold w) = (afold (fst (strip_plus w)), snd (strip_plus w)).
Proof. unfold strip_plus. rewrite last_is_afold. destruct (last_is 43 w); cbn [fst snd]; [now rewrite removelast_afold|reflexivity]. Qed.
Lemma strip_plus_aeq a b : afold a = afold b ->
  afold (fst (strip_plus a)) = afold (fst (strip_plus b)) /\ snd (strip_plus a) = snd (strip_plus b).
Proof.
  intros H. pose proof (strip_plus_afold a) as A. pose proof (strip_plus_afold b) as B. rewrite H in A. rewrite A in B.
  now injection B.
Qed.
Lemma ref_char_lc c : ref_char (lc c) = ref_char c.
Proof.
  unfold lc. destruct ((65 <=? c) && (c <=? 90)) eqn:E; [|reflexivity].
  unfold ref_char at 2. rewrite E. cbn [orb].
  apply andb_true_iff in E as [A B]. apply N.leb_le in A, B. unfold ref_char.
  assert (X : (97 <=? c + 32) = true) by (apply N.leb_le; lia). assert (Y : (c + 32 <=? 122) = true) by (apply N.leb_le; lia).
  rewrite X, Y. cbn [andb]. now rewrite orb_true_r.
Qed.
Lemma forallb_ref_afold w : forallb ref_char (afold w) = forallb ref_char w.
Proof. induction w as [|c w IH]; [reflexivity|]. cbn [afold map forallb]. now rewrite ref_char_lc, <- IH. Qed.
Lemma skipn_afold n w : skipn n (afold w) = afold (skipn n w).
Proof. apply skipn_map. Qed.
Lemma find_ext' {A} (f g : A -> bool) l : (forall a, f a = g a) -> find f l = find g l.
Proof. intros H. induction l as [|a l IH]; [reflexivity|]. cbn [find]. now rewrite H, IH. Qed.
Lemma find_id_aeq a b ids : afold a = afold b -> find_id a ids = find_id b ids.
Proof. intros H. unfold find_id. apply find_ext'. intros x. unfold ieq. now rewrite H. Qed.
Lemma prefix_length p : forall s, prefixb p s = true -> (length p <= length s)%nat.
Proof.
  induction p as [|c p IH]; intros s H; [cbn; lia|]. destruct s as [|d s]; [discriminate|]. cbn [prefixb] in H.
  apply andb_true_iff in H as [_ H]. apply IH in H. cbn [length]. lia.
Qed.
Lemma skipn_app_le {A} n (a b : list A) : (n <= length a)%nat -> skipn n (a ++ b) = skipn n a ++ b.
Proof. intros H. rewrite skipn_app. replace (n - length a)%nat with 0%nat by lia. reflexivity. Qed.

(* ---------------------------------------------------------------- per-token: the specification respects teq *)
Lemma classify_aeq a b : afold a = afold b ->
  classify b = match classify a with TId _ _ => TId _ b | TOr _ => TOr _ | TAnd _ => TAnd _ | TWith _ => TWith _ | TL _ => TL _ | TR _ => TR _ end.
Proof.
  intros H. unfold classify, ieq. rewrite H.
  repeat match goal with |- context [if ?b then _ else _] => destruct b end; reflexivity.
Qed.

Section Tables.
Variables lics excs : list (str * str).
Hypothesis TOK : table_ok lics excs = true.

Lemma ref_core_length w : is_ref w = true -> (11 <= length (fst (strip_plus w)))%nat.
Proof. unfold is_ref. intros H. apply prefix_length in H. unfold afold in H. rewrite map_length in H. exact H. Qed.

Lemma lic_canon_teq a b : teq a b -> lic_canon lics a = lic_canon lics b.
Proof.
  intros [H R]. unfold lic_canon. destruct (strip_plus_aeq a b H) as [Hc Hp].
  pose proof (strip_plus_app a) as Ea. pose proof (strip_plus_app b) as Eb. unfold is_ref in R.
  pose proof (ref_core_length a) as La. pose proof (ref_core_length b) as Lb. unfold is_ref in La, Lb.
  destruct (strip_plus a) as [ca pa]. destruct (strip_plus b) as [cb pb]. cbn [fst snd] in *. subst pb.
  rewrite <- Hc in *. destruct (prefixb licenseref_lc (afold ca)) eqn:P.
  - rewrite <- (forallb_ref_afold ca), <- (forallb_ref_afold cb), Hc.
    destruct (forallb ref_char (afold cb)); [|reflexivity].
    specialize (R eq_refl). specialize (La eq_refl). specialize (Lb eq_refl). rewrite Ea, Eb in R. rewrite !skipn_app_le in R by auto. apply app_inv_tail in R. now rewrite R.
  - now rewrite (find_id_aeq ca cb _ Hc).
Qed.
Lemma exc_canon_aeq a b : afold a = afold b -> exc_canon excs a = exc_canon excs b.
Proof. intros H. unfold exc_canon. now apply find_id_aeq. Qed.

(* ---------------------------------------------------------------- token sequences *)
Lemma canon_tokens_teq os os' : Forall2 teq os os' -> forall aw, canon_tokens lics excs aw os = canon_tokens lics excs aw os'.
Proof.
  induction 1 as [|a b r r' [H R] _ IH]; intros aw; [reflexivity|]. cbn [canon_tokens].
  rewrite (classify_aeq a b H). rewrite <- (lic_canon_teq a b (conj H R)), <- (exc_canon_aeq a b H).
  destruct (classify a); now rewrite ?IH.
Qed.
Lemma run_teq os os' : Forall2 teq os os' -> forall m d,
  run str (lic_ok lics) (exc_ok excs) m d (map classify os) = run str (lic_ok lics) (exc_ok excs) m d (map classify os').
Proof.
  induction 1 as [|a b r r' [H R] _ IH]; intros m d; [reflexivity|]. cbn [map run].
  rewrite (classify_aeq a b H). pose proof (classify_payload a) as Pa.
  destruct (classify a) eqn:Cl; destruct m; try reflexivity; try apply IH; try (destruct d; [reflexivity|apply IH]).
  - specialize (Pa _ eq_refl). subst i. unfold lic_ok. rewrite (lic_canon_teq a b (conj H R)). now rewrite IH.
  - specialize (Pa _ eq_refl). subst i. unfold exc_ok. rewrite (exc_canon_aeq a b H). now rewrite IH.
Qed.
Lemma nest_teq limit os os' : Forall2 teq os os' -> forall lvl,
  nest_exceeds limit lvl (map classify os) = nest_exceeds limit lvl (map classify os').
Proof.
  induction 1 as [|a b r r' [H R] _ IH]; intros lvl; [reflexivity|]. cbn [map nest_exceeds].
  rewrite (classify_aeq a b H). destruct (classify a); cbn [nest_exceeds]; now rewrite IH.
Qed.
Lemma spec_toks_teq os os' : Forall2 teq os os' -> spec_toks lics excs os = spec_toks lics excs os'.
Proof.
  intros H. unfold spec_toks, spdx_tokens_ok, spdx_ok. fold (lic_ok lics) (exc_ok excs).
  rewrite (run_teq os os' H). now rewrite (canon_tokens_teq os os' H).
Qed.

(* ---------------------------------------------------------------- canonical tokens are the same words as the tokens they come from *)
Lemma not_ref_afold w k : afold w = k -> prefixb licenseref_lc (fst (strip_plus k)) = false -> is_ref w = false.
Proof. intros <- H. unfold is_ref. pose proof (strip_plus_afold w) as E. rewrite E in H. exact H. Qed.
Lemma ieq_afold w k : afold k = k -> ieq w k = true -> afold w = k.
Proof. unfold ieq. intros K H. apply streq_eq in H. congruence. Qed.
Lemma classify_afold w :
  match classify w with
  | TOr _ => afold w = w_or | TAnd _ => afold w = w_and | TWith _ => afold w = w_with | TL _ => afold w = w_lp | TR _ => afold w = w_rp
  | TId _ _ => True end.
Proof.
  unfold classify.
  destruct (ieq w w_or) eqn:E1; [now apply ieq_afold|]. destruct (ieq w w_and) eqn:E2; [now apply ieq_afold|].
  destruct (ieq w w_with) eqn:E3; [now apply ieq_afold|]. destruct (ieq w w_lp) eqn:E4; [now apply ieq_afold|].
  destruct (ieq w w_rp) eqn:E5; [now apply ieq_afold|]. exact I.
Qed.
Lemma teq_op w k K : afold w = k -> afold K = k -> prefixb licenseref_lc (fst (strip_plus k)) = false -> teq w K.
Proof. intros H1 H2 H3. split; [congruence|]. intros R. rewrite (not_ref_afold w k H1 H3) in R. discriminate. Qed.

Lemma last_is_ref x : forallb ref_char x = true -> last_is 43 x = false.
Proof.
  destruct x as [|c x' _] using rev_ind; [reflexivity|]. rewrite forallb_app, last_is_snoc. cbn [forallb]. intros H.
  apply andb_true_iff in H as [_ H]. rewrite andb_true_r in H. now apply ref_char_not_plus.
Qed.
Lemma lic_canon_is_teq w l : lic_canon lics w = Some l -> teq w l.
Proof.
  unfold lic_canon, teq, is_ref. pose proof (strip_plus_app w) as E. destruct (strip_plus w) as [core plus]. cbn [fst].
  destruct (prefixb licenseref_lc (afold core)) eqn:P.
  - destruct (forallb ref_char core) eqn:R; [|discriminate]. destruct (nonemptyb (skipn 11 core)); [|discriminate]. cbn [andb].
    pose proof (prefix_length _ _ P) as L. unfold afold in L. rewrite map_length in L.
    assert (SK : skipn 11 (licenseref_prefix ++ skipn 11 core ++ plus) = skipn 11 core ++ plus) by reflexivity.
    assert (AF : afold (licenseref_prefix ++ skipn 11 core ++ plus) = afold core ++ afold plus).
    { rewrite !afold_app. rewrite app_assoc. f_equal. rewrite <- skipn_afold. symmetry. now apply (prefixb_split licenseref_lc). }
    intros X. replace l with (licenseref_prefix ++ skipn 11 core ++ plus) by congruence. split.
    + rewrite AF, E. apply afold_app.
    + intros _. rewrite SK, E. now apply skipn_app_le.
  - destruct (find_id core (map snd lics)) as [id|] eqn:F; [|discriminate]. intros [= <-].
    apply find_id_in in F as [_ F]. split; [|discriminate]. now rewrite E, !afold_app, F.
Qed.
Lemma exc_canon_is_teq w e : exc_canon excs w = Some e -> teq w e.
Proof.
  unfold exc_canon. intros F. apply find_id_in in F as [I F]. split; [now symmetry|].
  destruct (table_entry excs e (TOK_e _ _ TOK) I) as (_ & _ & _ & J).
  pose proof (TOK_r _ _ TOK) as T. rewrite forallb_forall in T. specialize (T _ J). cbn [fst] in T. apply negb_true_iff in T.
  intros R. rewrite (not_ref_afold w (afold e) (eq_sym F) T) in R. discriminate.
Qed.
Lemma canon_tokens_same_words os : forall aw out, canon_tokens lics excs aw os = Some out -> Forall2 teq os out.
Proof.
  induction os as [|w r IH]; intros aw out; cbn [canon_tokens]; [intros [= <-]; constructor|].
  pose proof (classify_afold w) as K.
  destruct (classify w);
    try (destruct (canon_tokens lics excs _ r) eqn:E; [|discriminate]; intros [= <-]; constructor; [|now apply (IH _ _ E)];
         eapply teq_op; [exact K|reflexivity|reflexivity]).
  destruct aw.
  - destruct (exc_canon excs w) eqn:X; [|discriminate]. destruct (canon_tokens lics excs _ r) eqn:E; [|discriminate].
    intros [= <-]. constructor; [now apply exc_canon_is_teq|now apply (IH _ _ E)].
  - destruct (lic_canon lics w) eqn:X; [|discriminate]. destruct (canon_tokens lics excs _ r) eqn:E; [|discriminate].
    intros [= <-]. constructor; [now apply lic_canon_is_teq|now apply (IH _ _ E)].
Qed.

(* canonical tokens are ASCII, and parentheses or clean words *)
Lemma canon_tokens_shape os : forall aw out, canon_tokens lics excs aw os = Some out ->
  Forall (fun t => otok_ok t = true) out /\ Forall (fun t => forallb asciib t = true) out.
Proof.
  induction os as [|w r IH]; intros aw out; cbn [canon_tokens]; [intros [= <-]; split; constructor|].
  destruct (classify w);
    try (destruct (canon_tokens lics excs _ r) eqn:E; [|discriminate]; intros [= <-]; destruct (IH _ _ E); split; constructor; auto; reflexivity).
  destruct aw.
  - destruct (exc_canon excs w) as [e|] eqn:X; [|discriminate]. destruct (canon_tokens lics excs _ r) eqn:E; [|discriminate].
    intros [= <-]. destruct (IH _ _ E). split; constructor; auto.
    + apply word_otok. now apply (exc_canon_word _ _ TOK w).
    + unfold exc_canon in X. apply find_id_in in X as [X _]. now destruct (table_entry excs e (TOK_e _ _ TOK) X) as (A & _).
  - destruct (lic_canon lics w) as [l|] eqn:X; [|discriminate]. destruct (canon_tokens lics excs _ r) eqn:E; [|discriminate].
    intros [= <-]. destruct (IH _ _ E). split; constructor; auto.
    + apply word_otok. now apply (lic_canon_word _ _ TOK w).
    + unfold lic_canon in X. pose proof (strip_plus_cases w) as Pl. destruct (strip_plus w) as [core plus]. cbn [snd] in Pl.
      assert (PA : forallb asciib plus = true) by (destruct Pl as [-> | ->]; reflexivity).
      destruct (prefixb licenseref_lc (afold core)).
      * destruct (forallb ref_char core) eqn:R; [|discriminate]. destruct (nonemptyb (skipn 11 core)); [|discriminate]. cbn [andb] in X.
        assert (SK : forallb asciib (skipn 11 core) = true).
        { apply forallb_skipn. rewrite forallb_forall in *. intros c Hc. apply ref_char_ascii. auto. }
        injection X as <-. change (forallb asciib (licenseref_prefix ++ (skipn 11 core ++ plus)) = true).
        rewrite !forallb_app. apply andb_true_iff. split; [reflexivity|]. apply andb_true_iff. split; [exact SK|exact PA].
      * destruct (find_id core (map snd lics)) as [id|] eqn:F; [|discriminate]. injection X as <-.
        apply find_id_in in F as [F _]. destruct (table_entry lics id (TOK_l _ _ TOK) F) as (A & _).
        rewrite forallb_app. now rewrite A, PA.
Qed.
Lemma tight_ascii l : Forall (fun t => forallb asciib t = true) l -> forallb asciib (tight l) = true.
Proof.
  induction 1 as [|x r Hx _ IH]; [reflexivity|]. destruct r as [|y r']; [exact Hx|].
  change (tight (x :: y :: r')) with (x ++ (if streq x w_lp || streq y w_rp then [] else [32]) ++ tight (y :: r')).
  rewrite !forallb_app, Hx, IH. destruct (streq x w_lp || streq y w_rp); reflexivity.
Qed.

(* ---------------------------------------------------------------- the function *)
Definition outcome (s : str) (o : str) : result :=
  if nests_deeper_than limit_hard (spdx_tokens s) then Err else if nests_deeper_than limit_sure (spdx_tokens s) then Limit o else Ok o.

Theorem canon_insensitive s s' : Forall2 teq (spdx_tokens s) (spdx_tokens s') ->
  canon lics excs s = canon lics excs s'.
Proof.
  intros H. rewrite !(canon_spec _ _ TOK). unfold spec_canon.
  fold (spec_toks lics excs (spdx_tokens s)) (spec_toks lics excs (spdx_tokens s')).
  assert (E : forall ts, (if spdx_tokens_ok lics excs ts then match canon_tokens lics excs false ts with Some l => Some (tight l) | None => None end else None)
              = match spec_toks lics excs ts with Some l => Some (tight l) | None => None end).
  { intros ts. unfold spec_toks. destruct (spdx_tokens_ok lics excs ts); reflexivity. }
  rewrite !E. rewrite (spec_toks_teq _ _ H). unfold nests_deeper_than. rewrite !(nest_teq _ _ _ H). reflexivity.
Qed.

(* the canonical text of an accepted expression: its tokens are the canonical tokens, which are the same words *)
Lemma canonical_text s out : spec_toks lics excs (spdx_tokens s) = Some out ->
  forallb asciib (tight out) = true /\ spdx_tokens (tight out) = out /\ Forall2 teq (spdx_tokens s) out.
Proof.
  unfold spec_toks. destruct (spdx_tokens_ok lics excs (spdx_tokens s)); [|discriminate]. intros H.
  destruct (canon_tokens_shape _ _ _ H) as [A B]. split; [|split].
  - now apply tight_ascii.
  - rewrite spdx_tokens_split. now apply retokenise.
  - now apply canon_tokens_same_words with false.
Qed.
Theorem canon_idempotent s o : (canon lics excs s = Ok o \/ canon lics excs s = Limit o) -> canon lics excs o = canon lics excs s.
Proof.
  intros H. pose proof (canon_spec _ _ TOK s) as S. unfold spec_canon in S.
  assert (E : exists out, spec_toks lics excs (spdx_tokens s) = Some out /\ o = tight out).
  { unfold spec_toks. destruct (spdx_tokens_ok lics excs (spdx_tokens s)).
    - destruct (canon_tokens lics excs false (spdx_tokens s)) as [out|]; [|rewrite S in H; destruct H; discriminate].
      exists out. split; [reflexivity|]. rewrite S in H.
      destruct (nests_deeper_than limit_hard (spdx_tokens s)); [destruct H; discriminate|].
      destruct (nests_deeper_than limit_sure (spdx_tokens s)); destruct H as [H|H]; congruence.
    - rewrite S in H. destruct H; discriminate. }
  destruct E as (out & E & ->). destruct (canonical_text s out E) as (K & T & Q).
  symmetry. apply canon_insensitive. now rewrite T.
Qed.
End Tables.

(* ---------------------------------------------------------------- an accepted input is ASCII text and whitespace *)
Lemma split_raw_cover s c : In c s -> is_ws c = false -> exists w, In w (split_raw s) /\ In c w.
Proof.
  induction s as [|c0 t IH]; intros H W; [destruct H|].
  destruct (is_ws c0) eqn:E0.
  - rewrite split_raw_ws by exact E0. destruct H as [->|H]; [congruence|]. destruct (IH H W) as (w & A & B). exists w. split; [now right|exact B].
  - rewrite split_raw_nws by exact E0. destruct H as [->|H].
    + eexists. split; [left; reflexivity|now left].
    + destruct (IH H W) as (w & A & B). rewrite (split_raw_hdtl t) in A. destruct A as [<-|A].
      * eexists. split; [left; reflexivity|now right].
      * exists w. split; [now right|exact B].
Qed.
Lemma pad_keeps c s : In c s -> In c (pad s).
Proof.
  induction s as [|d s IH]; intros H; [destruct H|]. change (pad (d :: s)) with (pad_char d ++ pad s). apply in_or_app.
  destruct H as [->|H]; [left|right; auto]. unfold pad_char. destruct ((c =? 40) || (c =? 41)); cbn; auto.
Qed.
Lemma Forall2_in_left {A B} (R : A -> B -> Prop) l l' a : Forall2 R l l' -> In a l -> exists b, In b l' /\ R a b.
Proof. induction 1 as [|x y l l' Hxy _ IH]; intros H; [destruct H|]. destruct H as [->|H]; [exists y; split; [now left|exact Hxy]|]. destruct (IH H) as (b & ? & ?). exists b. split; [now right|assumption]. Qed.
Lemma accepted_ascii s out : Forall2 teq (spdx_tokens s) out -> Forall (fun t => forallb asciib t = true) out ->
  forall c, In c s -> asciib c = true \/ is_ws c = true.
Proof.
  intros Q B c H. destruct (is_ws c) eqn:W; [now right|left].
  destruct (split_raw_cover (pad s) c (pad_keeps c s H) W) as (w & Hw & Hc).
  assert (Tw : In w (spdx_tokens s)).
  { rewrite spdx_tokens_split. unfold split_ws. apply filter_In. split; [exact Hw|]. destruct w; [destruct Hc|reflexivity]. }
  destruct (Forall2_in_left _ _ _ _ Q Tw) as (o & Ho & [E _]).
  rewrite Forall_forall in B. specialize (B _ Ho).
  assert (A : forallb asciib (afold w) = true).
  { rewrite E. unfold afold. rewrite forallb_forall in *. intros x Hx. apply in_map_iff in Hx as (y & <- & Hy). rewrite lc_ascii. auto. }
  rewrite forallb_forall in A. rewrite <- lc_ascii. apply A. unfold afold. now apply in_map.
Qed.

Lemma nest_exceeds_mono (a b : nat) ts : (a <= b)%nat -> forall lvl, nest_exceeds b lvl ts = true -> nest_exceeds a lvl ts = true.
Proof.
  intros L. induction ts as [|t r IH]; intros lvl; [discriminate|]. destruct t; cbn [nest_exceeds]; auto.
  intros E. apply orb_true_iff in E as [E|E]; apply orb_true_iff; [left|right; auto].
  apply Nat.ltb_lt in E. apply Nat.ltb_lt. lia.
Qed.
