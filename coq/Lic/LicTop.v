(* The model instantiated with the tables of the working tree (coq/Gen/SpdxTable.v, regenerated on every run). Definitions only. *)
From Coq Require Import List NArith Bool.
Import ListNotations.
Require Import VParse LicModel SpdxTable.
Open Scope N_scope.

Definition canonicalize_license_expression (raw : str) : result := canon licenses exceptions raw.
