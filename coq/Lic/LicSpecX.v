(* C19: the specification LicSpec.spec_canon in a form the extraction can carry.  The flat OCaml extraction names definitions by their
   short Coq name; LicAuto.run (the SPDX automaton) would take the name `run` of the dispatcher the generic driver calls.  So the
   observation command l.spec (Run/RunLic.v) runs this copy of the automaton under another name; LicFinalB.spec_canon_x_eq proves it
   equal to LicSpec.spec_canon (Properties/C19.v: C19_spec_observation_is_the_specification).  Definitions only. *)
From Coq Require Import List NArith Bool.
Import ListNotations.
Require Import VParse LicModel LicAuto LicSpec.
Open Scope N_scope.

Section X.
Variables lic_okx exc_okx : str -> bool.
Fixpoint xrun (m : mode) (d : nat) (ts : list (tok str)) : bool :=
  match ts with
  | [] => match m with AfterLicense | AfterOther => Nat.eqb d 0 | _ => false end
  | t :: r =>
    match m, t with
    | WantOperand, TId _ i => lic_okx i && xrun AfterLicense d r
    | WantOperand, TL _ => xrun WantOperand (S d) r
    | AfterLicense, TWith _ => xrun AfterWith d r
    | AfterWith, TId _ e => exc_okx e && xrun AfterOther d r
    | AfterLicense, TOr _ | AfterLicense, TAnd _ | AfterOther, TOr _ | AfterOther, TAnd _ => xrun WantOperand d r
    | AfterLicense, TR _ | AfterOther, TR _ => match d with S d' => xrun AfterOther d' r | O => false end
    | _, _ => false
    end
  end.
End X.

Definition spec_canon_x (lics excs : list (str * str)) (s : str) : option str :=
  let ts := spdx_tokens s in
  if xrun (fun w => is_some (lic_canon lics w)) (fun w => is_some (exc_canon excs w)) WantOperand 0 (map classify ts)
  then match canon_tokens lics excs false ts with Some l => Some (tight l) | None => None end
  else None.
