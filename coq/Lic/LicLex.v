(* C19, lexical lemmas: str.split / str.lower / the paddings / the final two replaces. *)
From Coq Require Import List NArith Bool Lia.
Import ListNotations.
Require Import VParse LicModel LicAuto LicSpec.
Open Scope N_scope.
Arguments N.eqb : simpl never.
Arguments N.leb : simpl never.
Arguments N.ltb : simpl never.

(* ---------------------------------------------------------------- streq / prefixb *)
Lemma streq_eq a : forall b, streq a b = true <-> a = b.
Proof.
  induction a as [|x a IH]; intros [|y b]; cbn [streq]; split; intros H; try discriminate; auto.
  - apply andb_true_iff in H as [E H]. apply N.eqb_eq in E. apply IH in H. now subst.
  - injection H as -> ->. rewrite N.eqb_refl. cbn. now apply IH.
Qed.
Lemma streq_refl a : streq a a = true.
Proof. now apply streq_eq. Qed.
Lemma streq_sym a : forall b, streq a b = streq b a.
Proof. induction a as [|x a IH]; intros [|y b]; cbn [streq]; auto. now rewrite IH, N.eqb_sym. Qed.
Lemma streq_neq a b : a <> b -> streq a b = false.
Proof. intros H. apply not_true_is_false. intros E. now apply streq_eq in E. Qed.
Lemma prefixb_app p x : prefixb p (p ++ x) = true.
Proof. induction p as [|c p IH]; cbn [prefixb app]; auto. now rewrite N.eqb_refl. Qed.
Lemma prefixb_split p : forall s, prefixb p s = true -> s = p ++ skipn (length p) s.
Proof.
  induction p as [|c p IH]; intros s H; cbn [prefixb] in H; [reflexivity|].
  destruct s as [|d s]; [discriminate|]. apply andb_true_iff in H as [E H]. apply N.eqb_eq in E. subst d.
  cbn [length skipn app]. f_equal. now apply IH.
Qed.
Lemma streq_app_prefix a b : forall c, streq (a ++ b) c = true -> prefixb a c = true.
Proof.
  induction a as [|x a IH]; intros c H; [reflexivity|].
  destruct c as [|y c]; cbn [app streq prefixb] in *; [discriminate|].
  apply andb_true_iff in H as [E H]. rewrite E. cbn. now apply IH.
Qed.

(* ---------------------------------------------------------------- whitespace and lower() *)
Definition nws (c : char) : bool := negb (is_ws c).

Lemma ws_in c : is_ws c = true -> In c ws_table.
Proof. unfold is_ws. intros H. apply existsb_exists in H as (x & Hin & E). apply N.eqb_eq in E. now subst. Qed.
Lemma not_ws c : ~ In c ws_table -> is_ws c = false.
Proof.
  intros H. apply not_true_is_false. intros E. now apply ws_in in E.
Qed.
Lemma ws_lower c : is_ws c = true -> lower_char c = [c].
Proof.
  intros H. apply ws_in in H. unfold ws_table in H. cbn [In] in H.
  repeat (destruct H as [<-|H]; [reflexivity|]). destruct H.
Qed.
Lemma ws_pad c : is_ws c = true -> pad_char c = [c].
Proof.
  intros H. apply ws_in in H. unfold ws_table in H. cbn [In] in H.
  repeat (destruct H as [<-|H]; [reflexivity|]). destruct H.
Qed.
Lemma lower_char_nws c : is_ws c = false -> forallb nws (lower_char c) = true /\ lower_char c <> [].
Proof.
  intros H. unfold lower_char.
  destruct ((65 <=? c) && (c <=? 90)) eqn:E1.
  - apply andb_true_iff in E1 as [A B]. apply N.leb_le in A, B. split; [|discriminate].
    cbn [forallb]. rewrite andb_true_r. unfold nws. apply negb_true_iff, not_ws.
    unfold ws_table. cbn [In]. intros K. repeat (destruct K as [K|K]; [lia|]). destruct K.
  - destruct (c =? 304); [split; [reflexivity|discriminate]|].
    destruct (c =? 8490); [split; [reflexivity|discriminate]|].
    split; [|discriminate]. cbn [forallb]. unfold nws. now rewrite H.
Qed.
Lemma lower_app a b : lower (a ++ b) = lower a ++ lower b.
Proof. apply flat_map_app. Qed.
Lemma pad_app a b : pad (a ++ b) = pad a ++ pad b.
Proof. apply flat_map_app. Qed.
Lemma nonemptyb_lower x : nonemptyb (lower x) = nonemptyb x.
Proof.
  destruct x as [|c r]; [reflexivity|]. cbn [lower flat_map nonemptyb].
  assert (lower_char c <> []) by (unfold lower_char; repeat match goal with |- context [if ?b then _ else _] => destruct b end; discriminate).
  destruct (lower_char c); [contradiction|reflexivity].
Qed.

(* ---------------------------------------------------------------- split *)
Lemma split_raw_nonnil s : split_raw s <> [].
Proof. destruct s as [|c t]; cbn [split_raw]; [discriminate|]. destruct (is_ws c); [discriminate|]. destruct (split_raw t); discriminate. Qed.
Lemma split_raw_hdtl s : split_raw s = hd [] (split_raw s) :: tl (split_raw s).
Proof. pose proof (split_raw_nonnil s). destruct (split_raw s); [contradiction|reflexivity]. Qed.
Lemma split_raw_ws c t : is_ws c = true -> split_raw (c :: t) = [] :: split_raw t.
Proof. intros H. cbn [split_raw]. now rewrite H. Qed.
Lemma split_raw_nws c t : is_ws c = false -> split_raw (c :: t) = (c :: hd [] (split_raw t)) :: tl (split_raw t).
Proof. intros H. cbn [split_raw]. rewrite H. rewrite (split_raw_hdtl t) at 1. reflexivity. Qed.
Lemma split_raw_word w rest : forallb nws w = true ->
  split_raw (w ++ rest) = (w ++ hd [] (split_raw rest)) :: tl (split_raw rest).
Proof.
  induction w as [|c w IH]; intros H; cbn [app].
  - apply split_raw_hdtl.
  - cbn [forallb] in H. apply andb_true_iff in H as [Hc H]. unfold nws in Hc. apply negb_true_iff in Hc.
    rewrite split_raw_nws by exact Hc. rewrite IH by exact H. reflexivity.
Qed.
Lemma split_raw_lower s : split_raw (lower s) = map lower (split_raw s).
Proof.
  induction s as [|c t IH]; [reflexivity|].
  change (lower (c :: t)) with (lower_char c ++ lower t).
  destruct (is_ws c) eqn:E.
  - rewrite (ws_lower c E). cbn [app]. rewrite !split_raw_ws by exact E. cbn [map]. now rewrite IH.
  - destruct (lower_char_nws c E) as [A _]. rewrite split_raw_word by exact A. rewrite IH.
    rewrite split_raw_nws by exact E. rewrite (split_raw_hdtl t) at 1 2. cbn [map hd tl].
    change (lower (c :: hd [] (split_raw t))) with (lower_char c ++ lower (hd [] (split_raw t))).
    rewrite (split_raw_hdtl t) at 3. reflexivity.
Qed.
Lemma split_ws_lower s : split_ws (lower s) = map lower (split_ws s).
Proof.
  unfold split_ws. rewrite split_raw_lower. induction (split_raw s) as [|x l IH]; [reflexivity|].
  cbn [map filter]. rewrite nonemptyb_lower. destruct (nonemptyb x); cbn [map]; now rewrite IH.
Qed.
Lemma split_raw_all_nws s : Forall (fun w => forallb nws w = true) (split_raw s).
Proof.
  induction s as [|c t IH]; [repeat constructor|].
  destruct (is_ws c) eqn:E.
  - rewrite split_raw_ws by exact E. constructor; [reflexivity|exact IH].
  - rewrite split_raw_nws by exact E. rewrite (split_raw_hdtl t) in IH. inversion IH; subst.
    constructor; [|assumption]. cbn [forallb]. unfold nws at 1. now rewrite E.
Qed.
Definition clean (w : str) : Prop := nonemptyb w = true /\ forallb nws w = true.
Lemma split_ws_clean s : Forall clean (split_ws s).
Proof.
  unfold split_ws. apply Forall_forall. intros w H. apply filter_In in H as [H1 H2].
  split; [exact H2|]. pose proof (split_raw_all_nws s) as A. rewrite Forall_forall in A. now apply A.
Qed.
Lemma split_ws_ws c s : is_ws c = true -> split_ws (c :: s) = split_ws s.
Proof. intros H. unfold split_ws. now rewrite split_raw_ws. Qed.
Lemma split_ws_word w rest : nonemptyb w = true -> forallb nws w = true ->
  (rest = [] \/ exists c r, rest = c :: r /\ is_ws c = true) ->
  split_ws (w ++ rest) = w :: split_ws rest.
Proof.
  intros N W R. unfold split_ws. rewrite split_raw_word by exact W.
  assert (E : hd [] (split_raw rest) = [] /\ filter nonemptyb (split_raw rest) = filter nonemptyb (tl (split_raw rest))).
  { destruct R as [->|(c & r & -> & Hc)]; [split; reflexivity|]. rewrite split_raw_ws by exact Hc. split; reflexivity. }
  destruct E as [E1 E2]. rewrite E1, app_nil_r, E2. cbn [filter]. now rewrite N.
Qed.

(* the specification's tokens are what the code's padding + split() produce *)
Lemma lex_raw_split s : lex_raw s = split_raw (pad s).
Proof.
  induction s as [|c t IH]; [reflexivity|]. change (pad (c :: t)) with (pad_char c ++ pad t). cbn [lex_raw].
  destruct (is_ws c) eqn:W.
  - rewrite (ws_pad c W). cbn [app]. rewrite split_raw_ws by exact W. now rewrite IH.
  - unfold pad_char, is_paren. destruct ((c =? 40) || (c =? 41)) eqn:P.
    + cbn [app]. rewrite split_raw_ws by reflexivity. rewrite split_raw_nws by exact W. rewrite split_raw_ws by reflexivity.
      cbn [hd tl]. now rewrite IH.
    + cbn [app]. rewrite split_raw_nws by exact W. rewrite IH. rewrite (split_raw_hdtl (pad t)) at 1. reflexivity.
Qed.
Lemma spdx_tokens_split s : spdx_tokens s = split_ws (pad s).
Proof. unfold spdx_tokens, split_ws. now rewrite lex_raw_split. Qed.

(* ---------------------------------------------------------------- the two final replaces *)
Lemma rep2_ne a b new c t : (c =? a) = false -> rep2 a b new (c :: t) = c :: rep2 a b new t.
Proof. intros H. destruct t; cbn [rep2]; [reflexivity|]. now rewrite H. Qed.
Lemma rep2_hit a b new u : rep2 a b new (a :: b :: u) = new ++ rep2 a b new u.
Proof. cbn [rep2]. now rewrite !N.eqb_refl. Qed.
Lemma rep2_miss a b new d u : (d =? b) = false -> rep2 a b new (a :: d :: u) = a :: rep2 a b new (d :: u).
Proof. intros H. cbn [rep2]. now rewrite H, andb_false_r. Qed.
Lemma rep2_skip a b new w rest : forallb (fun c => negb (c =? a)) w = true -> rep2 a b new (w ++ rest) = w ++ rep2 a b new rest.
Proof.
  induction w as [|c w IH]; intros H; [reflexivity|]. cbn [forallb] in H. apply andb_true_iff in H as [Hc H].
  apply negb_true_iff in Hc. cbn [app]. rewrite rep2_ne by exact Hc. now rewrite IH.
Qed.
Lemma rep2_skip_all a b new w : forallb (fun c => negb (c =? a)) w = true -> rep2 a b new w = w.
Proof. intros H. rewrite <- (app_nil_r w) at 1. rewrite rep2_skip by exact H. now rewrite app_nil_r. Qed.

(* output tokens: a parenthesis, or a non-empty word free of whitespace and parentheses *)
Definition wordc (c : char) : bool := nws c && negb (c =? 40) && negb (c =? 41).
Definition is_word (t : str) : bool := nonemptyb t && forallb wordc t.
Definition otok_ok (t : str) : bool := streq t w_lp || streq t w_rp || is_word t.

Lemma otok_cases t : otok_ok t = true -> t = w_lp \/ t = w_rp \/ is_word t = true.
Proof.
  unfold otok_ok. intros H. apply orb_true_iff in H as [H|H]; [apply orb_true_iff in H as [H|H]|]; [left|right; left|right; right]; auto; now apply streq_eq.
Qed.
Lemma wordc_forall (P : char -> bool) t : (forall c, wordc c = true -> P c = true) -> forallb wordc t = true -> forallb P t = true.
Proof. intros HP H. rewrite forallb_forall in *. auto. Qed.
Lemma wordc_nws c : wordc c = true -> nws c = true.
Proof. unfold wordc. intros H. apply andb_true_iff in H as [H _]. now apply andb_true_iff in H as [H _]. Qed.
Lemma wordc_n40 c : wordc c = true -> (c =? 40) = false.
Proof. unfold wordc. intros H. apply andb_true_iff in H as [H _]. apply andb_true_iff in H as [_ H]. now apply negb_true_iff in H. Qed.
Lemma wordc_n41 c : wordc c = true -> (c =? 41) = false.
Proof. unfold wordc. intros H. apply andb_true_iff in H as [_ H]. now apply negb_true_iff in H. Qed.
Lemma wordc_n32 c : wordc c = true -> (c =? 32) = false.
Proof.
  intros H. apply wordc_nws in H. unfold nws in H. apply negb_true_iff in H.
  destruct (c =? 32) eqn:E; [|reflexivity]. apply N.eqb_eq in E. subst. discriminate.
Qed.
Lemma word_hd t : is_word t = true -> exists c r, t = c :: r /\ wordc c = true /\ forallb wordc r = true.
Proof.
  unfold is_word. intros H. apply andb_true_iff in H as [N W]. destruct t as [|c r]; [discriminate|].
  cbn [forallb] in W. apply andb_true_iff in W as [A B]. eauto.
Qed.
Lemma word_not_lp t : is_word t = true -> streq t w_lp = false.
Proof. intros H. destruct (word_hd t H) as (c & r & -> & A & _). cbn [streq w_lp]. now rewrite (wordc_n40 c A). Qed.
Lemma word_not_rp t : is_word t = true -> streq t w_rp = false.
Proof. intros H. destruct (word_hd t H) as (c & r & -> & A & _). cbn [streq w_rp]. now rewrite (wordc_n41 c A). Qed.
Lemma word_all t : is_word t = true -> forallb wordc t = true.
Proof. unfold is_word. intros H. now apply andb_true_iff in H as [_ H]. Qed.
Lemma otok_no (k : char) t : (k = 32 \/ (k = 40 /\ t <> w_lp) \/ (k = 41 /\ t <> w_rp)) -> otok_ok t = true ->
  forallb (fun c => negb (c =? k)) t = true.
Proof.
  intros K H. destruct (otok_cases t H) as [->|[->|W]].
  - destruct K as [->|[[-> K]|[-> K]]]; try reflexivity. contradiction.
  - destruct K as [->|[[-> K]|[-> K]]]; try reflexivity. contradiction.
  - apply word_all in W. eapply wordc_forall; [|exact W]. intros c Hc.
    destruct K as [->|[[-> _]|[-> _]]]; apply negb_true_iff; auto using wordc_n32, wordc_n40, wordc_n41.
Qed.

(* first replace: "( " -> "(" *)
Fixpoint j1 (l : list str) : str :=
  match l with
  | [] => []
  | x :: r => match r with [] => x | _ :: _ => x ++ (if streq x w_lp then [] else [32]) ++ j1 r end
  end.
Lemma phase1 l : Forall (fun t => otok_ok t = true) l -> rep2 40 32 [40] (join_sp l) = j1 l.
Proof.
  induction l as [|x r IH]; intros H; [reflexivity|]. inversion H as [|? ? Hx Hr]; subst. specialize (IH Hr).
  destruct r as [|y r'].
  - cbn [join_sp j1]. destruct (otok_cases x Hx) as [->|[->|W]]; try reflexivity.
    apply rep2_skip_all. eapply wordc_forall; [|apply word_all; exact W]. intros c Hc. now rewrite (wordc_n40 c Hc).
  - change (join_sp (x :: y :: r')) with (x ++ 32 :: join_sp (y :: r')).
    change (j1 (x :: y :: r')) with (x ++ (if streq x w_lp then [] else [32]) ++ j1 (y :: r')).
    destruct (otok_cases x Hx) as [->|[->|W]].
    + cbn [w_lp app streq]. rewrite rep2_hit, IH. reflexivity.
    + cbn [w_rp w_lp app streq]. rewrite rep2_ne by reflexivity. rewrite rep2_ne by reflexivity. now rewrite IH.
    + rewrite (word_not_lp x W). rewrite rep2_skip.
      * rewrite rep2_ne by reflexivity. now rewrite IH.
      * eapply wordc_forall; [|apply word_all; exact W]. intros c Hc. now rewrite (wordc_n40 c Hc).
Qed.
Lemma j1_cons x r : exists tl, j1 (x :: r) = x ++ tl.
Proof. destruct r; cbn [j1]; [exists []; now rewrite app_nil_r|eauto]. Qed.
Lemma tight_cons x r : exists tl, tight (x :: r) = x ++ tl.
Proof. destruct r; cbn [tight]; [exists []; now rewrite app_nil_r|eauto]. Qed.
Lemma not_rp_hd y : otok_ok y = true -> streq y w_rp = false -> exists d y', y = d :: y' /\ (d =? 41) = false.
Proof.
  intros H N. destruct (otok_cases y H) as [->|[->|W]]; [exists 40, []; auto|discriminate|].
  destruct (word_hd y W) as (c & r & -> & A & _). exists c, r. auto using wordc_n41.
Qed.
(* second replace: " )" -> ")" *)
Lemma phase2 l : Forall (fun t => otok_ok t = true) l -> rep2 32 41 [41] (j1 l) = tight l.
Proof.
  induction l as [|x r IH]; intros H; [reflexivity|]. inversion H as [|? ? Hx Hr]; subst. specialize (IH Hr).
  assert (X32 : forallb (fun c => negb (c =? 32)) x = true) by (apply otok_no; auto).
  destruct r as [|y r'].
  - cbn [j1 tight]. now apply rep2_skip_all.
  - change (j1 (x :: y :: r')) with (x ++ (if streq x w_lp then [] else [32]) ++ j1 (y :: r')).
    change (tight (x :: y :: r')) with (x ++ (if streq x w_lp || streq y w_rp then [] else [32]) ++ tight (y :: r')).
    rewrite rep2_skip by exact X32. f_equal.
    destruct (streq x w_lp); [cbn [orb app]; exact IH|]. cbn [orb app].
    inversion Hr as [|? ? Hy _]; subst.
    destruct (streq y w_rp) eqn:Ey.
    + apply streq_eq in Ey. subst y. destruct (j1_cons w_rp r') as (tl & Etl). rewrite Etl in *.
      cbn [w_rp app] in *. rewrite rep2_hit. rewrite rep2_ne in IH by reflexivity. now rewrite <- IH.
    + destruct (not_rp_hd y Hy Ey) as (d & y' & -> & Hd). destruct (j1_cons (d :: y') r') as (tl & Etl). rewrite Etl in *.
      cbn [app] in *. rewrite rep2_miss by exact Hd. now rewrite IH.
Qed.
Lemma tighten_join l : Forall (fun t => otok_ok t = true) l -> tighten (join_sp l) = tight l.
Proof. intros H. unfold tighten. rewrite phase1 by exact H. now apply phase2. Qed.

(* ---------------------------------------------------------------- the canonical text tokenises back to its tokens *)
Lemma pad_word w : forallb wordc w = true -> pad w = w.
Proof.
  induction w as [|c w IH]; intros H; [reflexivity|]. cbn [forallb] in H. apply andb_true_iff in H as [A B].
  change (pad (c :: w)) with (pad_char c ++ pad w). unfold pad_char. rewrite (wordc_n40 c A), (wordc_n41 c A). cbn [orb app].
  now rewrite IH.
Qed.
Lemma retokenise l : Forall (fun t => otok_ok t = true) l -> split_ws (pad (tight l)) = l.
Proof.
  induction l as [|x r IH]; intros H; [reflexivity|]. inversion H as [|? ? Hx Hr]; subst. specialize (IH Hr).
  destruct r as [|y r'].
  - cbn [tight]. destruct (otok_cases x Hx) as [->|[->|W]]; try reflexivity.
    rewrite pad_word by (now apply word_all). rewrite <- (app_nil_r x) at 1.
    rewrite split_ws_word; auto.
    + unfold is_word in W. now apply andb_true_iff in W as [W _].
    + eapply wordc_forall; [|apply word_all; exact W]. apply wordc_nws.
  - change (tight (x :: y :: r')) with (x ++ (if streq x w_lp || streq y w_rp then [] else [32]) ++ tight (y :: r')).
    rewrite !pad_app.
    assert (SEP : forall sep, (sep = [] \/ sep = [32]) -> split_ws (pad sep ++ pad (tight (y :: r'))) = y :: r').
    { intros sep [->| ->]; [exact IH|]. cbn [pad flat_map pad_char app]. change (pad_char 32) with [32]. cbn [app].
      rewrite split_ws_ws by reflexivity. exact IH. }
    destruct (otok_cases x Hx) as [->|[->|W]].
    + rewrite streq_refl. cbn [orb]. change (pad w_lp) with [32;40;32]. change (pad []) with (@nil N). cbn [app].
      rewrite split_ws_ws by reflexivity. change (40 :: 32 :: pad (tight (y :: r'))) with ([40] ++ 32 :: pad (tight (y :: r'))).
      rewrite split_ws_word; try reflexivity; [|right; eauto]. rewrite split_ws_ws by reflexivity. now rewrite IH.
    + change (pad w_rp) with [32;41;32]. cbn [app].
      rewrite split_ws_ws by reflexivity.
      change (41 :: 32 :: ?z) with ([41] ++ 32 :: z).
      rewrite split_ws_word; try reflexivity; [|right; eauto]. rewrite split_ws_ws by reflexivity.
      f_equal. apply SEP. all: destruct (streq w_rp w_lp || streq y w_rp); auto.
    + rewrite pad_word by (now apply word_all). rewrite (word_not_lp x W). cbn [orb].
      assert (Nx : nonemptyb x = true) by (unfold is_word in W; now apply andb_true_iff in W as [W _]).
      assert (Wx : forallb nws x = true) by (eapply wordc_forall; [|apply word_all; exact W]; apply wordc_nws).
      inversion Hr as [|? ? Hy _]; subst.
      destruct (streq y w_rp) eqn:Ey.
      * apply streq_eq in Ey. subst y. cbn [pad flat_map app].
        destruct (tight_cons w_rp r') as (tl & Etl). rewrite Etl in *. cbn [w_rp app] in *.
        change (pad (41 :: tl)) with (32 :: 41 :: 32 :: pad tl) in *.
        rewrite split_ws_word; auto; [|right; eauto]. now rewrite IH.
      * change (pad [32]) with [32]. cbn [app]. rewrite split_ws_word; auto; [|right; eauto].
        rewrite split_ws_ws by reflexivity. now rewrite IH.
Qed.
