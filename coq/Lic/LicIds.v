(* C19: what a "simple expression" and an "exception identifier" are, stated declaratively.  LicSpec.lic_canon / exc_canon are five
   lines of code (strip one "+", test the LicenseRef prefix, search the table); the theorems below say the same as an `iff` over
   core / plus / LicenseRef suffix / known id, so that "known identifier" is a statement one can read instead of code one must run.

   Visible in the statement:
     - the suffix (idstring) of a LicenseRef is NOT empty     (`suffix <> []`; the code rejects "LicenseRef-" since fix 8e6ceae)
     - a LicenseRef may carry "+"                             (`plus = [43]` is allowed in both branches; SPDX proper has none)
     - a table id that itself ends in "+" may carry a further "+"  ("GPL-2.0+" is a known id, so core = "GPL-2.0+", plus = "+":
       license-id "+", within SPDX proper)
   LicIds.strict_simple below is the reading of SPDX proper, and lic_canon_vs_strict says exactly where the two differ:
   only in the "+" on a LicenseRef.  (Relative to the simple-expression / license-ref forms WITHOUT a document prefix: Annex D also has
   license-ref = ["DocumentRef-" idstring ":"] "LicenseRef-" idstring and, since SPDX 3, addition-ref = "AdditionRef-" idstring after
   WITH; the code rejects both forms - ":" is no LicenseRef character and no table id starts with "DocumentRef-"; "AdditionRef-x" is in
   no exception table - and so do lic_canon / exc_canon; strict_simple below does not include them either.) *)
From Coq Require Import List Arith NArith Bool Lia.
Import ListNotations.
Require Import VParse LicModel LicAuto LicSpec LicLex LicCode LicIdem.
Open Scope N_scope.
Arguments N.eqb : simpl never.
Arguments N.leb : simpl never.
Arguments N.ltb : simpl never.

(* ---------------------------------------------------------------- the character class of a LicenseRef, spelled out *)
Lemma ref_char_iff c : ref_char c = true <->
  (65 <= c <= 90) \/ (97 <= c <= 122) \/ (48 <= c <= 57) \/ c = 46 \/ c = 45.      (* A-Z | a-z | 0-9 | "." | "-" *)
Proof.
  unfold ref_char. rewrite !orb_true_iff, !andb_true_iff, !N.leb_le, !N.eqb_eq. tauto.
Qed.

(* ---------------------------------------------------------------- one id per spelling-up-to-case *)
Lemma nodup_fst_inj {A B} (l : list (A * B)) k a b : NoDup (map fst l) -> In (k, a) l -> In (k, b) l -> a = b.
Proof.
  induction l as [|[k0 v0] l IH]; intros ND Ha Hb; [destruct Ha|]. cbn [map fst] in ND. inversion ND as [|? ? Nin ND']; subst.
  destruct Ha as [Ha|Ha], Hb as [Hb|Hb].
  - congruence.
  - injection Ha as -> ->. exfalso. apply Nin. apply in_map_iff. exists (k, b). auto.
  - injection Hb as -> ->. exfalso. apply Nin. apply in_map_iff. exists (k, a). auto.
  - now apply IH.
Qed.
Lemma id_unique tbl : forallb entry_ok tbl = true -> NoDup (map fst tbl) ->
  forall a b, In a (map snd tbl) -> In b (map snd tbl) -> afold a = afold b -> a = b.
Proof.
  intros T ND a b Ha Hb E.
  destruct (table_entry tbl a T Ha) as (_ & _ & _ & Ia). destruct (table_entry tbl b T Hb) as (_ & _ & _ & Ib).
  rewrite E in Ia. exact (nodup_fst_inj tbl _ a b ND Ia Ib).
Qed.
Lemma find_id_iff tbl : forallb entry_ok tbl = true -> NoDup (map fst tbl) ->
  forall w id, find_id w (map snd tbl) = Some id <-> In id (map snd tbl) /\ afold id = afold w.
Proof.
  intros T ND w id. split; [apply find_id_in|]. intros [I E].
  destruct (find_id w (map snd tbl)) as [x|] eqn:F.
  - apply find_id_in in F as [Ix Ex]. f_equal. apply (id_unique tbl T ND); congruence.
  - unfold find_id in F. pose proof (find_none _ _ F id I) as K. unfold ieq in K. rewrite E, streq_refl in K. discriminate.
Qed.

(* ---------------------------------------------------------------- "LicenseRef-" in any case, then a suffix *)
Lemma licenseref_split core : prefixb licenseref_lc (afold core) = true <-> exists p suffix, core = p ++ suffix /\ afold p = licenseref_lc.
Proof.
  split.
  - intros P. exists (firstn 11 core), (skipn 11 core). split; [now rewrite firstn_skipn|].
    apply prefixb_split in P. unfold afold in *. rewrite <- firstn_map, P. reflexivity.
  - intros (p & suffix & -> & E). rewrite afold_app, E. apply prefixb_app.
Qed.
Lemma licenseref_parts p suffix : afold p = licenseref_lc ->
  skipn 11 (p ++ suffix) = suffix /\ forallb ref_char (p ++ suffix) = forallb ref_char suffix.
Proof.
  intros E. assert (L : length p = 11%nat) by (apply (f_equal (@length _)) in E; unfold afold in E; now rewrite map_length in E).
  split.
  - rewrite skipn_app, <- L, skipn_all, Nat.sub_diag. reflexivity.
  - rewrite forallb_app, <- (forallb_ref_afold p), E. reflexivity.
Qed.

Section Tables.
Variables lics excs : list (str * str).
Hypothesis TOK : table_ok lics excs = true.
Hypothesis NDl : NoDup (map fst lics).
Hypothesis NDe : NoDup (map fst excs).

(* the decomposition  w = core ++ plus  is forced: plus is "+" exactly when w ends in "+" *)
Lemma strip_plus_iff w core plus :
  strip_plus w = (core, plus) <-> w = core ++ plus /\ ((plus = [] /\ last_is 43 w = false) \/ plus = [43]).
Proof.
  unfold strip_plus. split.
  - destruct (last_is 43 w) eqn:L; intros [= <- <-].
    + split; [now apply last_is_split|now right].
    + split; [now rewrite app_nil_r|now left].
  - intros [E [[-> L]| ->]].
    + rewrite app_nil_r in E. subst core. now rewrite L.
    + subst w. rewrite last_is_snoc. change (43 =? 43) with true. now rewrite removelast_last.
Qed.

Lemma nonemptyb_iff (x : str) : nonemptyb x = true <-> x <> [].
Proof. destruct x; cbn [nonemptyb]; split; intros H; try discriminate; try reflexivity. exfalso. now apply H. Qed.

(* the statement proposed by the audit: lic_canon unfolded into an iff (with the non-empty idstring of fix 8e6ceae) *)
Theorem lic_canon_iff w o : lic_canon lics w = Some o <->
  exists core plus, w = core ++ plus /\ ((plus = [] /\ last_is 43 w = false) \/ plus = [43]) /\
    ((prefixb licenseref_lc (afold core) = true /\ forallb ref_char core = true /\ skipn 11 core <> [] /\
      o = licenseref_prefix ++ skipn 11 core ++ plus) \/
     (prefixb licenseref_lc (afold core) = false /\ exists id, In id (map snd lics) /\ afold id = afold core /\ o = id ++ plus)).
Proof.
  unfold lic_canon. split.
  - destruct (strip_plus w) as [core plus] eqn:S. apply strip_plus_iff in S as [E Pl]. intros H. exists core, plus.
    split; [exact E|]. split; [exact Pl|].
    destruct (prefixb licenseref_lc (afold core)).
    + left. destruct (forallb ref_char core); [|discriminate]. destruct (nonemptyb (skipn 11 core)) eqn:N; [|discriminate].
      injection H as <-. apply nonemptyb_iff in N. auto.
    + right. split; [reflexivity|]. destruct (find_id core (map snd lics)) as [id|] eqn:F; [|discriminate]. injection H as <-.
      apply find_id_in in F as [I F]. eauto.
  - intros (core & plus & E & Pl & H). assert (S : strip_plus w = (core, plus)) by (apply strip_plus_iff; auto). rewrite S.
    destruct H as [(P & R & N & ->)|(P & id & I & F & ->)]; rewrite P.
    + apply nonemptyb_iff in N. now rewrite R, N.
    + assert (X : find_id core (map snd lics) = Some id) by (apply (find_id_iff lics (TOK_l _ _ TOK) NDl); auto). now rewrite X.
Qed.

(* the same, with the LicenseRef branch spelled as  prefix-in-any-case ++ non-empty suffix *)
Theorem simple_id_iff w o : lic_canon lics w = Some o <->
  exists core plus, w = core ++ plus /\ ((plus = [] /\ last_is 43 w = false) \/ plus = [43]) /\
    ((exists p suffix, core = p ++ suffix /\ afold p = licenseref_lc /\ suffix <> [] /\ forallb ref_char suffix = true /\
                       o = licenseref_prefix ++ suffix ++ plus) \/
     (prefixb licenseref_lc (afold core) = false /\ exists id, In id (map snd lics) /\ afold id = afold core /\ o = id ++ plus)).
Proof.
  rewrite lic_canon_iff. split; intros (core & plus & E & Pl & H); exists core, plus; (split; [exact E|]); (split; [exact Pl|]);
    (destruct H as [H|H]; [left|now right]).
  - destruct H as (P & R & N & ->). apply licenseref_split in P as (p & suffix & -> & Ep). destruct (licenseref_parts p suffix Ep) as [Sk Fa].
    exists p, suffix. rewrite Sk in *. rewrite Fa in R. auto.
  - destruct H as (p & suffix & -> & Ep & N & R & ->). destruct (licenseref_parts p suffix Ep) as [Sk Fa]. rewrite Sk, Fa.
    split; [apply licenseref_split; eauto|auto].
Qed.

(* exception identifiers: the known ids, in any ASCII case; the official spelling is returned *)
Theorem exc_id_iff w o : exc_canon excs w = Some o <-> In o (map snd excs) /\ afold o = afold w.
Proof. unfold exc_canon. apply (find_id_iff excs (TOK_e _ _ TOK) NDe). Qed.

(* ---------------------------------------------------------------- SPDX proper, and where the code's reading differs from it *)
(* simple-expression = license-id / license-id "+" / license-ref ;  license-ref = "LicenseRef-" idstring ;  idstring = 1*(ALPHA/DIGIT/"-"/".")
   (Annex D of the SPDX specification).  A deprecated id such as "GPL-2.0+" is a license-id of the table, so "GPL-2.0++" IS
   license-id "+" in this grammar; what SPDX proper does not have is a "+" on a license-ref. *)
Definition strict_simple (w o : str) : Prop :=
  (exists p suffix, w = p ++ suffix /\ afold p = licenseref_lc /\ suffix <> [] /\ forallb ref_char suffix = true /\
                    o = licenseref_prefix ++ suffix) \/
  (exists core plus, w = core ++ plus /\ ((plus = [] /\ last_is 43 w = false) \/ plus = [43]) /\
                     prefixb licenseref_lc (afold core) = false /\
                     exists id, In id (map snd lics) /\ afold id = afold core /\ o = id ++ plus).
(* the one extra form the code (and LicSpec.lic_canon) takes *)
Definition ref_with_plus (w : str) : Prop :=
  exists p suffix, w = p ++ suffix ++ [43] /\ afold p = licenseref_lc /\ suffix <> [] /\ forallb ref_char suffix = true.

Theorem lic_canon_vs_strict w o : lic_canon lics w = Some o <->
  strict_simple w o \/ (ref_with_plus w /\ o = licenseref_prefix ++ skipn 11 w).
Proof.
  rewrite simple_id_iff. split.
  - intros (core & plus & E & Pl & [(p & suffix & -> & Ep & Ne & R & ->)|H]).
    + destruct (licenseref_parts p (suffix ++ plus) Ep) as [Sk _]. rewrite <- app_assoc in E.
      destruct Pl as [[-> L]| ->].
      * left. left. exists p, suffix. rewrite !app_nil_r in *. repeat split; auto.
      * right. split; [exists p, suffix; repeat split; auto|]. rewrite E, Sk. reflexivity.
    + left. right. exists core, plus. auto.
  - intros [[(p & suffix & -> & Ep & Ne & R & ->)|(core & plus & E & Pl & P & H)]|[(p & suffix & -> & Ep & Ne & R) ->]].
    + exists (p ++ suffix), []. rewrite !app_nil_r. split; [reflexivity|]. split.
      * left. split; [reflexivity|]. rewrite last_is_app by exact Ne. now apply last_is_ref.
      * left. exists p, suffix. repeat split; auto. now rewrite app_nil_r.
    + exists core, plus. auto.
    + destruct (licenseref_parts p (suffix ++ [43]) Ep) as [Sk _]. rewrite Sk.
      exists (p ++ suffix), [43]. split; [now rewrite app_assoc|]. split; [now right|].
      left. exists p, suffix. repeat split; auto.
Qed.
End Tables.
