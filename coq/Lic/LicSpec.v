(* C19, declarative side: what the property text says, independent of how the code computes it.

   tokens      an expression is a sequence of tokens: each parenthesis is a token, and so is every maximal run of other
               non-whitespace characters (whitespace = the 29 code points of str.isspace; it only separates).
   letters     "any letter case" is ASCII case: two tokens are the same word when they agree after folding A-Z to a-z.
   grammar     simple   ::= id | id "+"                 id a known licence id, or "LicenseRef-" followed by one or more letters digits . -
               operand  ::= simple | simple WITH exc | "(" expr ")"       exc a known exception id
               expr     ::= operand ((AND | OR) operand)*
               recognised by the automaton Lic.spdx_ok (operands and operators alternate, WITH only directly after a simple
               expression and directly before an exception id, parentheses balanced and non-empty); LicGrammar.v proves that the
               automaton accepts exactly the token sequences of the inductive grammar.
   canonical   token by token: operators in upper case, every id in the spelling of the table, "LicenseRef-" + the suffix as
               written, "+" kept; printed with single spaces and none inside parentheses.

   The tables are parameters: lists of (key, official id); the specification uses only the official ids.

   Where the property text is silent the specification follows the code, and says so here: "LicenseRef-x+" is taken as well-formed
   (SPDX proper has no "+" on a LicenseRef); an id of the table that itself ends in "+" (the deprecated "GPL-2.0+" ...) may carry a
   further "+" (license-id "+", within SPDX proper).  The suffix (idstring) of a LicenseRef is not empty (SPDX: 1*(...); the code
   rejects "LicenseRef-" since fix 8e6ceae). *)
From Coq Require Import List NArith Bool.
Import ListNotations.
Require Import VParse LicModel LicAuto.
Open Scope N_scope.

Definition afold (s : str) : str := map lc s.                        (* ASCII case folding (VParse.lc: A-Z -> a-z) *)
Definition ieq (a b : str) : bool := streq (afold a) (afold b).

(* token classes; Lic.tok is  TOr | TAnd | TWith | TL | TR | TId w *)
Definition classify (w : str) : tok str :=
  if ieq w w_or then TOr _ else if ieq w w_and then TAnd _ else if ieq w w_with then TWith _
  else if ieq w w_lp then TL _ else if ieq w w_rp then TR _ else TId _ w.

Definition strip_plus (w : str) : str * str := if last_is 43 w then (removelast w, [43]) else (w, []).
Definition find_id (w : str) (ids : list str) : option str := find (fun id => ieq id w) ids.

(* the tokens of an expression: whitespace separates, each parenthesis stands alone (LicLex.spdx_tokens_split: this is what padding
   the parentheses and str.split() compute) *)
Definition is_paren (c : char) : bool := (c =? 40) || (c =? 41).
Fixpoint lex_raw (s : str) : list str :=          (* the word being read comes first; empty words are dropped afterwards *)
  match s with
  | [] => [[]]
  | c :: t => if is_ws c then [] :: lex_raw t
              else if is_paren c then [] :: [c] :: lex_raw t
              else match lex_raw t with h :: r => (c :: h) :: r | [] => [[c]] end
  end.
Definition spdx_tokens (s : str) : list str := filter nonemptyb (lex_raw s).

Section Tables.
Variables lics excs : list (str * str).

(* canonical spelling of a simple expression / of an exception id; None = not one *)
Definition lic_canon (w : str) : option str :=
  let '(core, plus) := strip_plus w in
  if prefixb licenseref_lc (afold core) then
    if forallb ref_char core && nonemptyb (skipn 11 core) then Some (licenseref_prefix ++ skipn 11 core ++ plus) else None
  else match find_id core (map snd lics) with Some id => Some (id ++ plus) | None => None end.
Definition exc_canon (w : str) : option str := find_id w (map snd excs).

Definition is_some {A} (o : option A) : bool := match o with Some _ => true | None => false end.
Definition spdx_tokens_ok (ts : list str) : bool :=
  spdx_ok str (fun w => is_some (lic_canon w)) (fun w => is_some (exc_canon w)) (map classify ts).

(* the canonical tokens, one per input token *)
Definition W_OR : str := [79;82].
Definition W_AND : str := [65;78;68].
Fixpoint canon_tokens (after_with : bool) (ts : list str) : option (list str) :=
  match ts with
  | [] => Some []
  | w :: r =>
      let k (x : str) (aw : bool) := match canon_tokens aw r with Some l => Some (x :: l) | None => None end in
      match classify w with
      | TOr _ => k W_OR false
      | TAnd _ => k W_AND false
      | TWith _ => k W_WITH true
      | TL _ => k w_lp false
      | TR _ => k w_rp false
      | TId _ _ => match (if after_with then exc_canon w else lic_canon w) with Some x => k x false | None => None end
      end
  end.

(* single spaces, tight parentheses *)
Fixpoint tight (l : list str) : str :=
  match l with
  | [] => []
  | x :: r => match r with
              | [] => x
              | y :: _ => x ++ (if streq x w_lp || streq y w_rp then [] else [32]) ++ tight r
              end
  end.

(* nesting depth *)
Fixpoint nest_exceeds (limit lvl : nat) (ts : list (tok str)) : bool :=
  match ts with
  | [] => false
  | TL _ :: r => Nat.ltb limit (S lvl) || nest_exceeds limit (S lvl) r
  | TR _ :: r => nest_exceeds limit (pred lvl) r
  | _ :: r => nest_exceeds limit lvl r
  end.
Definition nests_deeper_than (limit : nat) (ts : list str) : bool := nest_exceeds limit 0 (map classify ts).


(* the specification of the whole function: Some canonical text, or None = must be rejected *)
Definition spec_canon (s : str) : option str :=
  let ts := spdx_tokens s in
  if spdx_tokens_ok ts then match canon_tokens false ts with Some l => Some (tight l) | None => None end else None.
End Tables.
