From Coq Require Import List Arith Bool Lia FinFun.
Import ListNotations.
Require Import Tags.

(* _manylinux.platform_tags for one architecture, glibc = (M, m); [floor] = 5 on x86_64/i686, 17 elsewhere.
   A tag is (kind, major, minor): kind false = manylinux_M_m, kind true = the legacy alias of (2, minor). *)
Section Many.
Variable policy : nat -> nat -> bool.            (* _is_compatible(arch, (M, m)) beyond the glibc comparison *)
Variable floor : nat.
Definition legacy (M m : nat) : bool := Nat.eqb M 2 && (Nat.eqb m 17 || Nat.eqb m 12 || Nat.eqb m 5).

(* versions from (M, m) downwards: current major down to its floor, then every lower major >= 2 from minor 50 *)
Definition minors (M hi : nat) : list nat := down (S hi) (if Nat.eqb M 2 then floor else 0).
Fixpoint majors_below (M : nat) : list nat :=          (* range(M-1, 1, -1) *)
  match M with O => [] | S k => if Nat.leb 2 k then k :: majors_below k else [] end.
Definition versions (M m : nat) : list (nat * nat) :=
  map (pair M) (minors M m) ++ flat_map (fun MM => map (pair MM) (minors MM 50)) (majors_below M).
Definition emit (v : nat * nat) : list (bool * nat * nat) :=
  let '(M, m) := v in
  (if policy M m then [(false, M, m)] else []) ++ (if legacy M m && policy M m then [(true, M, m)] else []).
Definition platform_tags (M m : nat) : list (bool * nat * nat) := flat_map emit (versions M m).

Lemma in_minors M hi x : In x (minors M hi) <-> (if Nat.eqb M 2 then floor else 0) <= x <= hi.
Proof. unfold minors. rewrite down_spec. lia. Qed.
Lemma in_majors_below M x : In x (majors_below M) <-> 2 <= x < M.
Proof.
  induction M as [|k IH]; cbn [majors_below]; [cbn; lia|].
  destruct (Nat.leb_spec 2 k); cbn [In]; [rewrite IH; lia | lia].
Qed.
Lemma in_versions M m a b : 2 <= M ->
  In (a, b) (versions M m) <-> (a = M /\ In b (minors M m)) \/ (2 <= a < M /\ In b (minors a 50)).
Proof.
  intros HM. unfold versions. rewrite in_app_iff, in_map_iff, in_flat_map. split.
  - intros [[x [E H]]|[MM [H1 H2]]].
    + inversion E; subst. auto.
    + apply in_map_iff in H2 as [x [E H2]]. inversion E; subst. apply in_majors_below in H1. auto.
  - intros [[-> H]|[H1 H2]].
    + left. exists b. auto.
    + right. exists a. split; [now apply in_majors_below|]. apply in_map_iff. exists b. auto.
Qed.

(* C16: nothing newer than the running system; nothing below the floor; exactly the versions the policy allows *)
Theorem C16_tag_iff M m k a b : 2 <= M ->
  In (k, a, b) (platform_tags M m) <->
  In (a, b) (versions M m) /\ policy a b = true /\ (k = true -> legacy a b = true).
Proof.
  intros HM. unfold platform_tags. rewrite in_flat_map. split.
  - intros [[a' b'] [H1 H2]]. unfold emit in H2. apply in_app_iff in H2 as [H2|H2].
    + destruct (policy a' b') eqn:P; [|contradiction]. destruct H2 as [E|[]]. inversion E; subst. repeat split; auto. discriminate.
    + destruct (legacy a' b') eqn:L, (policy a' b') eqn:P; cbn in H2; try contradiction.
      destruct H2 as [E|[]]. inversion E; subst. auto.
  - intros (H1 & P & L). exists (a, b). split; auto. unfold emit. rewrite P. apply in_app_iff.
    destruct k; [right | left; now left]. rewrite (L eq_refl). now left.
Qed.
Corollary C16_nothing_newer M m k b : 2 <= M -> In (k, M, b) (platform_tags M m) -> b <= m.
Proof.
  intros HM H. apply C16_tag_iff in H as (H & _); auto. apply in_versions in H as [[_ H]|[H _]]; auto; [|lia].
  apply in_minors in H. lia.
Qed.
Corollary C16_floor k b m : In (k, 2, b) (platform_tags 2 m) -> floor <= b.
Proof.
  intros H. apply C16_tag_iff in H as (H & _); auto. apply in_versions in H as [[_ H]|[H _]]; auto; [|lia].
  apply in_minors in H. cbn in H. lia.
Qed.
(* a newer system (same major) offers a superset *)
Theorem C16_monotone M m m' t : 2 <= M -> m <= m' -> In t (platform_tags M m) -> In t (platform_tags M m').
Proof.
  intros HM Hm. destruct t as [[k a] b]. rewrite !C16_tag_iff by assumption. intros (H & P & L). repeat split; auto.
  apply in_versions in H; auto. apply in_versions; auto. destruct H as [[-> H]|H]; [left|right; auto].
  split; auto. apply in_minors in H. apply in_minors. lia.
Qed.
End Many.
Print Assumptions C16_monotone.
