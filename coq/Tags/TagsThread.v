(* C15 - "abi3 ... never for free-threaded ABIs": what _is_threaded_cpython recognises, stated independently of the scanner,
   and what the code's "first ABI only" reading means (with a counterexample). *)
From Coq Require Import List Arith NArith Bool Lia.
Import ListNotations.
Require Import VParse VDec Tags TagsLit TagsModel TagsProofs.
Open Scope N_scope.
Arguments N.eqb : simpl never.
Arguments N.leb : simpl never.

(* ---------------------------------------------------------------- span, completely *)
Definition head_not (p : char -> bool) (r : str) : bool := match r with [] => true | c :: _ => negb (p c) end.
Lemma span_complete p s a r : span p s = (a, r) -> s = a ++ r /\ forallb p a = true /\ head_not p r = true.
Proof.
  revert a r. induction s as [|c s IH]; intros a r; cbn [span].
  - intros E. inversion E; subst. auto.
  - destruct (p c) eqn:Pc.
    + destruct (span p s) as [a' r'] eqn:F. intros E. inversion E; subst. destruct (IH _ _ eq_refl) as (-> & H1 & H2).
      cbn [app forallb]. rewrite Pc, H1. auto.
    + intros E. inversion E; subst. cbn [app forallb head_not]. rewrite Pc. auto.
Qed.
Lemma span_app p a r : forallb p a = true -> head_not p r = true -> span p (a ++ r) = (a, r).
Proof.
  induction a as [|c a IH]; cbn [app forallb]; intros H1 H2.
  - destruct r as [|c r]; cbn [span]; auto. cbn [head_not] in H2. apply negb_true_iff in H2. now rewrite H2.
  - apply andb_prop in H1 as [D H1]. cbn [span]. now rewrite D, IH.
Qed.

(* ---------------------------------------------------------------- the regular expression  cp, digits, then a group "any text to the end of the line"; the flag is: "t" in that group *)
(* a = "cp" ++ ds ++ fl ++ tl : ds = the (maximal, non-empty) run of decimal digits (is_ud: the Unicode class backslash-d, so
   "cp" + ARABIC-INDIC DIGIT THREE + "t" is threaded too: arabic_digit_threaded), fl = the rest of the first line (the regex group:
   `.` matches anything but "\n"), tl = nothing or what follows from the first "\n" on; threaded iff "t" occurs in fl *)
Definition threaded_shape (a : str) : Prop :=
  exists ds fl tl, a = s_cp ++ ds ++ fl ++ tl /\ ds <> [] /\ forallb is_ud ds = true /\ head_not is_ud fl = true /\
                   forallb not_nl fl = true /\ (tl = [] \/ exists t, tl = 10 :: t) /\ In 116 fl.
Lemma existsb_eqb_In c l : existsb (N.eqb c) l = true <-> In c l.
Proof.
  rewrite existsb_exists. split; [intros [x [H E]]; apply N.eqb_eq in E; now subst | intros H; exists c; split; auto; apply N.eqb_refl].
Qed.
Lemma not_nl_false c : negb (not_nl c) = true -> c = 10.
Proof. unfold not_nl. rewrite negb_involutive. apply N.eqb_eq. Qed.
Theorem threaded_spec a : threaded_abi a = true <-> threaded_shape a.
Proof.
  unfold threaded_shape. split.
  - unfold threaded_abi. destruct a as [|c1 [|c2 r]]; try discriminate.
    destruct (N.eqb_spec c1 99) as [->|]; [|discriminate]. destruct (N.eqb_spec c2 112) as [->|]; [|discriminate]. cbn [andb].
    destruct (span is_ud r) as [ds rest] eqn:S1. apply span_complete in S1 as (-> & D1 & D2).
    destruct ds as [|d ds]; [discriminate|]. destruct (span not_nl rest) as [fl tl] eqn:S2. cbn [fst].
    apply span_complete in S2 as (-> & F1 & F2). intros T. apply existsb_eqb_In in T.
    exists (d :: ds), fl, tl. repeat split; auto; try discriminate.
    + destruct fl as [|c fl]; [reflexivity | exact D2].
    + destruct tl as [|c tl]; [now left | right]. cbn [head_not] in F2. apply not_nl_false in F2. subst. now exists tl.
  - intros (ds & fl & tl & -> & NE & D & HD & F & TL & T). unfold threaded_abi, s_cp. cbn [app].
    rewrite !N.eqb_refl. cbn [andb].
    assert (HD' : head_not is_ud (fl ++ tl) = true).
    { destruct fl as [|c fl]; [contradiction | exact HD]. }
    rewrite (span_app is_ud ds (fl ++ tl) D HD'). destruct ds as [|d ds]; [congruence|].
    assert (TL' : head_not not_nl tl = true).
    { destruct TL as [->|[t ->]]; reflexivity. }
    rewrite (span_app not_nl fl tl F TL'). cbn [fst]. now apply existsb_eqb_In.
Qed.
Theorem arabic_digit_threaded : threaded_abi (s_cp ++ [1635; 116]) = true /\ is_digit 1635 = false.
Proof. split; vm_compute; reflexivity. Qed.
(* never threaded: text that does not begin with "cp" and a digit; e.g. the names abi3 / none and any pypy/graalpy ABI *)
Lemma threaded_needs_cp_digit a : threaded_abi a = true -> exists d r, a = s_cp ++ d :: r /\ is_ud d = true.
Proof.
  intros H. apply threaded_spec in H as (ds & fl & tl & -> & NE & D & _). destruct ds as [|d ds]; [congruence|].
  cbn [forallb] in D. apply andb_prop in D as [D _]. exists d, (ds ++ fl ++ tl). split; [reflexivity | exact D].
Qed.

(* ---------------------------------------------------------------- "first ABI only" *)
(* the decision looks at the first ABI that remains after abi3/none were removed - nothing else *)
Lemma use_abi3_first_only pv abis :
  cp_use_abi3 pv abis = abi3_applies pv (match cp_abis abis with [] => false | a :: _ => threaded_abi a end).
Proof. reflexivity. Qed.
(* so a free-threaded ABI that is not first does get abi3 tags: ["cp313"; "cp313t"] on 3.13 *)
Definition s_cp313 : str := s_cp ++ [51; 49; 51].
Definition s_cp313t : str := s_cp313 ++ [116].
Theorem first_abi_only_counterexample :
  threaded_abi s_cp313t = true /\ In s_cp313t (cp_abis [s_cp313; s_cp313t]) /\
  In (s_cp313, s_abi3, [112]) (cpython_tags (3, [13])%nat [s_cp313; s_cp313t] [[112]]) /\
  (forall i p, ~ In (i, s_abi3, p) (cpython_tags (3, [13])%nat [s_cp313t; s_cp313] [[112]])).
Proof.
  split; [reflexivity|]. split; [vm_compute; auto|]. split; [vm_compute; auto 10|].
  intros i p H. apply abi3_rule in H as (_ & U & _); [discriminate U|].
  constructor; [intros [E|[]]; discriminate E | constructor; [intros []|constructor]].
Qed.
(* the test is made on the raw text, before Tag() lower-cases: "CP313T" is the tag cp313t but is not recognised *)
Theorem threaded_case_sensitive :
  let a := [67; 80; 51; 49; 51; 84] in lower a = s_cp313t /\ threaded_abi a = false /\
  In (s_cp313, s_abi3, [112]) (cpython_tags (3, [13])%nat [a] [[112]]).
Proof. cbv zeta. split; [reflexivity|]. split; [reflexivity | vm_compute; auto 10]. Qed.
(* and it is over-broad: any "t" after the digits on the first line counts, e.g. cp313_stable *)
Theorem threaded_overbroad : threaded_abi (s_cp313 ++ [95; 115; 116; 97; 98; 108; 101]) = true.
Proof. reflexivity. Qed.

(* ---------------------------------------------------------------- the explicit ABIs that remain *)
Lemma filter_all (p : str -> bool) l : (forall x, In x l -> p x = true) -> filter p l = l.
Proof.
  induction l as [|y t IH]; cbn [filter]; auto. intros H. rewrite (H y (or_introl eq_refl)). f_equal. apply IH. intros. apply H. now right.
Qed.
Lemma remove_first_filter x l : NoDup l -> remove_first x l = filter (fun y => negb (streq y x)) l.
Proof.
  induction 1 as [|y t Hy Ht IH]; cbn [remove_first filter]; auto.
  destruct (streq_spec y x) as [->|N]; cbn [negb].
  - symmetry. apply filter_all. intros z Hz. destruct (streq_spec z x); [subst; contradiction | reflexivity].
  - now rewrite IH.
Qed.
Lemma filter_filter (p q : str -> bool) l : filter p (filter q l) = filter (fun x => q x && p x) l.
Proof.
  induction l as [|y t IH]; cbn [filter]; auto. destruct (q y); cbn [andb filter]; [destruct (p y); now rewrite IH | exact IH].
Qed.
(* without repeats, list.remove("abi3"); list.remove("none") is the filter "neither abi3 nor none" *)
Theorem cp_abis_filter abis : NoDup abis ->
  cp_abis abis = filter (fun a => negb (streq a s_abi3) && negb (streq a s_none)) abis.
Proof.
  intros H. unfold cp_abis. destruct (remove_first_nodup s_abi3 abis H) as [H1 _].
  rewrite (remove_first_filter s_none _ H1), (remove_first_filter s_abi3 _ H). apply filter_filter.
Qed.
