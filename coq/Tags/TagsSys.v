(* C15 - the default arguments (`platforms or platform_tags()`, `if not python_version`, `if not interpreter`) and sys_tags:
   the exact-sequence theorems restated for the wrappers the correspondence run executes (TagsModel.*_d), and
   "sys_tags repeats no Tag" with the side conditions its proof needs (each shown necessary by a counterexample). *)
From Coq Require Import List Arith NArith Bool Lia FinFun.
Import ListNotations.
Require Import VParse VDec Tags TagsLit TagsModel TagsProofs TagsLower TagsDefault.
Open Scope N_scope.
Arguments N.eqb : simpl never.
Arguments N.leb : simpl never.

(* ---------------------------------------------------------------- the fallbacks *)
Lemma or_detected_spec ps detected : (ps <> [] -> or_detected ps detected = ps) /\ or_detected [] detected = detected.
Proof. split; [destruct ps; [congruence | reflexivity] | reflexivity]. Qed.
Lemma interp_or_sys_spec i d : (i <> [] -> interp_or_sys i d = i) /\ interp_or_sys [] d = interpreter_name (d_name d) ++ interpreter_version (d_nodot d) (d_sysver d).
Proof. split; [destruct i; [congruence | reflexivity] | reflexivity]. Qed.
(* the three generators with their defaults: the same block structure over the platform list actually used *)
Theorem cpython_d_exact d c pv abis ps :
  cpython_tags_d d c pv abis ps =
  let v := pv_or_sys pv (d_sysver d) in
  expand (cp_blocks v (match abis with Some a => a | None => default_abis c v end)) (or_detected ps (d_plats d)).
Proof. unfold cpython_tags_d. cbv zeta. apply cpython_exact. Qed.
Theorem compatible_d_exact d pv interp ps :
  compatible_tags_d d pv interp ps =
  let v := pv_or_sys pv (d_sysver d) in let used := or_detected ps (d_plats d) in
  expand (compat_blocks v) used ++ (match interp with Some i => [(i, s_none, s_any)] | None => [] end) ++ expand (compat_blocks v) [s_any].
Proof. unfold compatible_tags_d. cbv zeta. apply compatible_exact. Qed.
Theorem generic_d_exact d interp abis ps :
  generic_tags_d d interp abis ps = expand (map (fun a => (interp_or_sys interp d, a)) (generic_abis abis)) (or_detected ps (d_plats d)).
Proof. unfold generic_tags_d. apply generic_exact. Qed.
(* an empty platform list with nothing detected yields no platform-specific tag at all *)
Lemma expand_nil bs : expand bs [] = [].
Proof. unfold expand. induction bs as [|b bs IH]; [reflexivity | exact IH]. Qed.

(* ---------------------------------------------------------------- membership facts *)
Lemma py_range_py pv v : In v (py_range pv) -> exists r, v = s_py ++ r.
Proof.
  destruct pv as [M [|m r]].
  - rewrite py_range_major. intros [<-|[]]. eauto.
  - rewrite py_range_minor. intros [<-|[<-|H]]; eauto. apply in_map_iff in H as [z [<- _]]. eauto.
Qed.
Lemma cpython_member pv abis ps i a p : In (i, a, p) (cpython_tags pv abis ps) -> (exists r, i = s_cp ++ r) /\ In p ps.
Proof.
  rewrite cpython_exact, in_expand. intros [H Hp]. split; auto. unfold cp_blocks in H. cbv zeta in H. rewrite !in_app_iff in H.
  destruct H as [H|[H|[H|H]]].
  - apply in_map_iff in H as [? [E _]]. pinj E. eauto.
  - destruct (cp_use_abi3 pv abis); [|contradiction]. destruct H as [E|[]]. pinj E. eauto.
  - destruct H as [E|[]]. pinj E. eauto.
  - destruct (cp_use_abi3 pv abis); [|contradiction]. apply in_map_iff in H as [? [E _]]. pinj E. eauto.
Qed.
Lemma generic_member interp abis ps i a p : In (i, a, p) (generic_tags interp abis ps) -> i = interp /\ In p ps.
Proof.
  rewrite generic_exact, in_expand. intros [H Hp]. split; auto. apply in_map_iff in H as [? [E _]]. now pinj E.
Qed.
Lemma compatible_member pv interp ps i a p : In (i, a, p) (compatible_tags pv interp ps) ->
  (In i (py_range pv) /\ (In p ps \/ p = s_any)) \/ (interp = Some i /\ p = s_any).
Proof.
  rewrite compatible_exact, !in_app_iff, !in_expand. intros [[H Hp]|[H|[H Hp]]].
  - left. split; auto. apply in_map_iff in H as [? [E Hv]]. now pinj E.
  - right. destruct interp; [|contradiction]. destruct H as [E|[]]. inversion E; subst. auto.
  - left. destruct Hp as [<-|[]]. split; auto. apply in_map_iff in H as [? [E Hv]]. now pinj E.
Qed.
Lemma in_lower_tags (l : list tag) t : In t (map lower_tag l) -> exists i a p, In (i, a, p) l /\ t = (lower i, lower a, lower p).
Proof. intros H. apply in_map_iff in H as [[[i a] p] [E H]]. exists i, a, p. split; auto. Qed.

(* ---------------------------------------------------------------- the ABI list _generic_abi derives has no repeats *)
Lemma generic_abi_nodup e c v abis : generic_abi e c v = GOk abis -> NoDup (map lower abis).
Proof.
  assert (One : forall x : str, NoDup (map lower [x])) by (intros x; cbn [map]; constructor; [intros [] | constructor]).
  unfold generic_abi. destruct e as [[|c0 e]|]; try discriminate. destruct (negb (c0 =? 46)); [discriminate|].
  destruct (length (tsplit 46 (c0 :: e)) <? 3)%nat.
  - intros E. inversion E; subst. rewrite cpython_abis_lower. apply cpython_abis_nodup.
  - set (soabi := nth 1 (tsplit 46 (c0 :: e)) []). destruct (starts_with s_cpython soabi).
    + destruct (tsplit 45 soabi) as [|? [|x ?]]; try discriminate; intros E; inversion E; subst; apply One.
    + destruct (starts_with s_cp soabi); [intros E; inversion E; subst; apply One|].
      destruct (starts_with s_pypy soabi); [intros E; inversion E; subst; apply One|].
      destruct (starts_with s_graalpy soabi); [intros E; inversion E; subst; apply One|].
      destruct soabi; intros E; inversion E; subst; [constructor | apply One].
Qed.

(* ---------------------------------------------------------------- sys_tags repeats no Tag *)
Lemma lower_cp_not_py pv x : ~ In (lower (s_cp ++ x)) (py_range pv).
Proof.
  intros H. apply py_range_py in H as [r E]. unfold lower, NamesX.lower_full, s_cp in E. cbn [app NamesX.lower_go] in E.
  change (NamesX.lower_at [] (112 :: x) 99) with [99] in E. discriminate E.
Qed.
Lemma pp3_not_py pv : ~ In (lower s_pp3) (py_range pv).
Proof. intros H. apply py_range_py in H as [r E]. discriminate E. Qed.

Theorem sys_tags_nodup s plats l :
  sys_tags s plats = SOk l ->
  NoDup (map lower plats) -> ~ In s_any (map lower plats) ->
  (interpreter_name (impl_name s) <> s_cp ->
     ~ In (lower (interpreter_name (impl_name s) ++ interpreter_version (py_version_nodot s) (sys_version s))) (py_range (sys_version s)) /\
     (forall abis, generic_abi (ext_suffix s) (abi_cfg s) (sys_version s) = GOk abis -> In s_none (map lower abis) -> In s_none abis)) ->
  NoDup (map lower_tag l).
Proof.
  intros S Hp Hany Hg.
  assert (AnyP : forall p, In p plats -> lower p = s_any -> False).
  { intros p Hin E. apply Hany. rewrite <- E. now apply in_map. }
  destruct (streq_spec (interpreter_name (impl_name s)) s_cp) as [Ecp|Ncp].
  - rewrite (sys_tags_cpython s plats Ecp) in S. inversion S; subst l. clear S Hg. rewrite map_app.
    destruct (default_abis_facts (abi_cfg s) (sys_version s)) as (D1 & D2 & D3 & D4).
    apply NoDup_app.
    + apply cpython_lower_nodup; auto; now rewrite D2.
    + apply compatible_lower_nodup; auto. intros x E. inversion E; subst. apply lower_cp_not_py.
    + intros t H1 H2. apply in_lower_tags in H1 as (i & a & p & H1 & ->). apply cpython_member in H1 as [[r ->] Hin].
      rewrite compatible_lower in H2. apply compatible_member in H2 as [[H2 _]|[_ H2]].
      * exact (lower_cp_not_py _ _ H2).
      * exact (AnyP p Hin H2).
  - destruct (Hg Ncp) as [Hpy Hnone]. clear Hg.
    destruct (generic_abi (ext_suffix s) (abi_cfg s) (sys_version s)) as [abis| |] eqn:G;
      [| unfold sys_tags in S; cbv zeta in S; destruct (streq_spec (interpreter_name (impl_name s)) s_cp); [contradiction|]; rewrite G in S; discriminate S ..].
    rewrite (sys_tags_generic s plats abis Ncp G) in S. inversion S; subst l. clear S. rewrite map_app.
    apply NoDup_app.
    + apply generic_lower_nodup; auto. eapply generic_abi_nodup; eauto.
    + apply compatible_lower_nodup; auto. intros x E. destruct (streq _ s_pp); [|discriminate]. inversion E; subst. apply pp3_not_py.
    + intros t H1 H2. apply in_lower_tags in H1 as (i & a & p & H1 & ->). apply generic_member in H1 as [-> Hin].
      rewrite compatible_lower in H2. apply compatible_member in H2 as [[H2 _]|[_ H2]].
      * exact (Hpy H2).
      * exact (AnyP p Hin H2).
Qed.
(* CPython itself needs no side condition beyond the platform list *)
Corollary sys_tags_nodup_cpython s plats l : interpreter_name (impl_name s) = s_cp -> sys_tags s plats = SOk l ->
  NoDup (map lower plats) -> ~ In s_any (map lower plats) -> NoDup (map lower_tag l).
Proof. intros E S Hp Hany. eapply sys_tags_nodup; eauto. intros N. contradiction. Qed.

(* the side condition on the interpreter name is necessary: sys.implementation.name = "python" gives the interpreter "py312",
   whose generic tags py312-none-<plat> reappear in the compatible block *)
Definition cfg0 : abicfg := {| py_debug := None; gil_disabled := None; with_pymalloc := None; unicode_size := None;
                               has_refcount := false; has_ext := false; wide_unicode := true |}.
Definition sys_python : syscfg :=
  {| impl_name := s_python; py_version_nodot := None; sys_version := (3, [12])%nat;
     ext_suffix := Some [46; 99; 112; 121; 116; 104; 111; 110; 45; 51; 49; 50; 45; 120; 46; 115; 111]; abi_cfg := cfg0 |}.
Theorem sys_tags_python_repeats :
  match sys_tags sys_python [[112]] with SOk l => has_dup (map lower_tag l) | _ => false end = true.
Proof. vm_compute. reflexivity. Qed.
