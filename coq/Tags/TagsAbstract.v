(* First abstract sketch of cpython_tags over uninterpreted interpreter/abi/platform types (round 0).  Not part of the model chain:
   nothing imports this file; the run model is Tags/TagsModel.v and its theorems are in Tags/TagsProofs.v and Properties/C15.v. *)
From Coq Require Import List Arith NArith Bool Lia FinFun.
Import ListNotations.
Require Import Tags.

Section T.
Variables interp abi plat : Type.
Definition tag := (interp * abi * plat)%type.
Variable cp : nat -> nat -> interp.            (* "cp" + nodot((major, minor)) *)
Variables abi3 none : abi.
Variable threaded : list abi -> bool.          (* _is_threaded_cpython: looks at abis[0] *)
Variable abi_eqb : abi -> abi -> bool.
Hypothesis abi_eqb_spec : forall a b, reflect (a = b) (abi_eqb a b).
Hypothesis cp_inj : forall M m m', cp M m = cp M m' -> m = m'.

Fixpoint remove_first (x : abi) (l : list abi) : list abi :=       (* list.remove: first occurrence only *)
  match l with [] => [] | y :: t => if abi_eqb y x then t else y :: remove_first x t end.
Definition block (i : interp) (a : abi) (ps : list plat) : list tag := map (fun p => (i, a, p)) ps.
Definition use_abi3 (major minor : nat) (abis : list abi) : bool :=     (* len(pv) > 1 and pv >= (3, 2) and not threading *)
  (Nat.leb 3 major && (Nat.ltb 3 major || Nat.leb 2 minor)) && negb (threaded abis).

(* cpython_tags(python_version=(major, minor), abis, platforms), as the generator is written *)
Definition cpython_tags (major minor : nat) (abis : list abi) (ps : list plat) : list tag :=
  let abis := remove_first none (remove_first abi3 abis) in
  let i := cp major minor in
  flat_map (fun a => block i a ps) abis ++
  (if use_abi3 major minor abis then block i abi3 ps else []) ++ block i none ps ++
  (if use_abi3 major minor abis then flat_map (fun m => block (cp major m) abi3 ps) (down minor 2) else []).

(* the statement of C15: blocks (interpreter, abi) in priority order, each expanded over the platforms in caller order *)
Definition blocks (major minor : nat) (abis : list abi) : list (interp * abi) :=
  let abis := remove_first none (remove_first abi3 abis) in
  let i := cp major minor in
  map (fun a => (i, a)) abis ++ (if use_abi3 major minor abis then [(i, abi3)] else []) ++ [(i, none)] ++
  (if use_abi3 major minor abis then map (fun m => (cp major m, abi3)) (down minor 2) else []).
Definition expand (bs : list (interp * abi)) (ps : list plat) : list tag :=
  flat_map (fun b => map (fun p => (fst b, snd b, p)) ps) bs.

Lemma expand_app a b ps : expand (a ++ b) ps = expand a ps ++ expand b ps.
Proof. apply flat_map_app. Qed.
Lemma expand_map {X} (g : X -> interp * abi) l ps :
  expand (map g l) ps = flat_map (fun a => map (fun p => (fst (g a), snd (g a), p)) ps) l.
Proof. induction l; cbn; auto. now rewrite <- IHl. Qed.
Theorem C15_cpython_exact major minor abis ps :
  cpython_tags major minor abis ps = expand (blocks major minor abis) ps.
Proof.
  unfold cpython_tags, blocks. cbv zeta. rewrite !expand_app. f_equal; [|f_equal; [|f_equal]].
  - now rewrite expand_map.
  - destruct (use_abi3 _ _ _); cbn; rewrite ?app_nil_r; reflexivity.
  - cbn. now rewrite app_nil_r.
  - destruct (use_abi3 _ _ _); [|reflexivity]. now rewrite expand_map.
Qed.

Lemma remove_first_incl x l y : In y (remove_first x l) -> In y l.
Proof. induction l as [|z l IH]; cbn; auto. destruct (abi_eqb z x); cbn; intuition. Qed.
Lemma remove_first_nodup x l : NoDup l -> NoDup (remove_first x l) /\ ~ In x (remove_first x l).
Proof.
  induction 1 as [|z l Hz Hl IH]; cbn; [split; [constructor|auto]|].
  destruct (abi_eqb_spec z x) as [->|N]; [split; auto|].
  destruct IH as [I1 I2]. split; [constructor; auto; intros C; apply Hz; eapply remove_first_incl; eauto|].
  cbn. intros [E|C]; auto.
Qed.

Hypothesis abi3_none : abi3 <> none.
Theorem C15_blocks_nodup major minor abis : NoDup abis -> NoDup (blocks major minor abis).
Proof.
  intros Ha. unfold blocks. cbv zeta.
  set (abis' := remove_first none (remove_first abi3 abis)).
  assert (N : NoDup abis' /\ ~ In none abis' /\ ~ In abi3 abis').
  { subst abis'. destruct (remove_first_nodup abi3 abis Ha) as [A1 A2].
    destruct (remove_first_nodup none _ A1) as [B1 B2]. repeat split; auto.
    intros C. apply A2. eapply remove_first_incl; eauto. }
  destruct N as (N1 & N2 & N3). set (i := cp major minor).
  assert (Old : NoDup (map (fun m => (cp major m, abi3)) (down minor 2))).
  { apply FinFun.Injective_map_NoDup; [|apply down_nodup]. intros x y E. inversion E. eauto. }
  assert (OldI : forall a, ~ In (i, a) (map (fun m => (cp major m, abi3)) (down minor 2))).
  { intros a C. apply in_map_iff in C as [m [E Hm]]. inversion E. apply cp_inj in H0. apply down_spec in Hm. lia. }
  apply NoDup_app.
  - apply FinFun.Injective_map_NoDup; auto. intros x y E. now inversion E.
  - destruct (use_abi3 major minor abis'); cbn [app].
    + constructor. { cbn. intros [E|C]; [inversion E; congruence|apply (OldI abi3 C)]. }
      constructor; [apply OldI | exact Old].
    + constructor; [intros [] | constructor].
  - intros [i' a] H1 H2. apply in_map_iff in H1 as [a' [E Ha']]. inversion E; subst.
    destruct (use_abi3 major minor abis'); cbn [app In] in H2.
    + destruct H2 as [E2|[E2|C]]; [inversion E2; subst; contradiction | inversion E2; subst; contradiction | apply (OldI _ C)].
    + destruct H2 as [E2|[]]. inversion E2; subst; contradiction.
Qed.
Theorem C15_cpython_nodup major minor abis ps : NoDup abis -> NoDup ps -> NoDup (cpython_tags major minor abis ps).
Proof.
  intros Ha Hp. rewrite C15_cpython_exact. unfold expand.
  pose proof (nodup_prod (blocks major minor abis) ps (C15_blocks_nodup major minor abis Ha) Hp) as H.
  apply (FinFun.Injective_map_NoDup (f := fun bp : (interp * abi) * plat => (fst (fst bp), snd (fst bp), snd bp))) in H.
  - rewrite flat_map_concat_map, concat_map, map_map in H. rewrite flat_map_concat_map.
    erewrite map_ext in H; [exact H|]. intros b. now rewrite map_map.
  - intros [[a b] c] [[a' b'] c'] E. cbn in E. now inversion E.
Qed.
End T.
Print Assumptions C15_cpython_nodup.
