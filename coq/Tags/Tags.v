From Coq Require Import List Arith NArith Bool Lia FinFun.
Import ListNotations.

(* descending range  range(hi-1, lo-1, -1)  =  hi-1, ..., lo *)
Fixpoint down (hi : nat) (lo : nat) : list nat :=
  match hi with O => [] | S h => if Nat.ltb h lo then [] else h :: down h lo end.
Lemma down_spec hi lo x : In x (down hi lo) <-> lo <= x < hi.
Proof.
  induction hi as [|h IH]; cbn [down In]; [lia|]. destruct (Nat.ltb_spec h lo); cbn [In]; [lia|]. rewrite IH. lia.
Qed.
Lemma down_nodup hi lo : NoDup (down hi lo).
Proof.
  induction hi as [|h IH]; cbn [down]; [constructor|]. destruct (Nat.ltb h lo); [constructor|].
  constructor; auto. rewrite down_spec. lia.
Qed.

Lemma NoDup_app {A} (a b : list A) : NoDup a -> NoDup b -> (forall x, In x a -> In x b -> False) -> NoDup (a ++ b).
Proof.
  intros Ha Hb H. induction Ha as [|x a Hx Ha IH]; cbn; auto.
  constructor.
  - rewrite in_app_iff. intros [C|C]; [contradiction|]. eapply H; [left; reflexivity|exact C].
  - apply IH. intros y Hy. apply H. now right.
Qed.
Lemma nodup_prod {A B} (l : list A) (ps : list B) : NoDup l -> NoDup ps ->
  NoDup (flat_map (fun b => map (fun p => (b, p)) ps) l).
Proof.
  intros Hl Hp. induction Hl as [|a l Ha Hl IH]; cbn [flat_map]; [constructor|].
  apply NoDup_app; auto.
  - apply FinFun.Injective_map_NoDup; auto. intros x y E. now inversion E.
  - intros [b p] H1 H2. apply in_map_iff in H1 as [p' [E _]]. inversion E; subst.
    apply in_flat_map in H2 as [b' [Hb H2]]. apply in_map_iff in H2 as [p'' [E2 _]]. inversion E2; subst. contradiction.
Qed.

(* The abstract first sketch of cpython_tags over uninterpreted interpreter/abi/platform types (its own cpython_tags, expand,
   C15_cpython_exact ...) lived here; it is unrelated to the run model and now sits in Tags/TagsAbstract.v, which nothing imports,
   so that TagsModel.cpython_tags / TagsProofs.expand are the only definitions of those names in the model chain. *)
