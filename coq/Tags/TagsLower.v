(* C15 - "no tag is repeated" at the level of the Tag objects.  Tag.__init__ lower-cases its three parts, so two argument
   triples that differ only in case are the same tag.  [lower] is the exact str.lower() (TagsModel), so the statements hold for
   any Unicode text: e.g. U+212A KELVIN SIGN and "k" are the same platform (kelvin_repeats).  The NoDup theorems of TagsProofs.v are about the argument triples;
   here they are lifted to [map lower_tag]: the hypothesis "the inputs have no repeats" is read after lower-casing, and the
   explicit ABIs must not contain a differently-cased spelling of abi3 / none (list.remove and `"none" in abis` compare the
   raw text).  Counterexamples show that these readings are necessary.  Also: a boolean duplicate test used for the
   counterexample theorems. *)
From Coq Require Import List Arith NArith Bool Lia FinFun.
Import ListNotations.
Require Import VParse VDec Tags TagsLit TagsModel TagsProofs.
Open Scope N_scope.
Arguments N.eqb : simpl never.
Arguments N.leb : simpl never.

(* ---------------------------------------------------------------- a decidable duplicate test (for closed counterexamples) *)
Definition tag_eqb (x y : tag) : bool :=
  let '(i, a, p) := x in let '(i', a', p') := y in streq i i' && streq a a' && streq p p'.
Fixpoint has_dup (l : list tag) : bool := match l with [] => false | x :: t => existsb (tag_eqb x) t || has_dup t end.
Lemma tag_eqb_eq x y : tag_eqb x y = true -> x = y.
Proof.
  destruct x as [[i a] p], y as [[i' a'] p']. cbn [tag_eqb]. intros H. apply andb_prop in H as [H H3]. apply andb_prop in H as [H1 H2].
  destruct (streq_spec i i'), (streq_spec a a'), (streq_spec p p'); try discriminate. now subst.
Qed.
Lemma has_dup_sound l : has_dup l = true -> ~ NoDup l.
Proof.
  induction l as [|x t IH]; cbn [has_dup]; [discriminate|]. intros H N. inversion N as [|? ? Hx Ht]; subst.
  apply orb_prop in H as [H|H]; [|exact (IH H Ht)].
  apply existsb_exists in H as [y [Hy E]]. apply tag_eqb_eq in E. subst. contradiction.
Qed.

(* ---------------------------------------------------------------- lower-casing commutes with the block expansion *)
Definition lower_pair (b : str * str) : str * str := (lower (fst b), lower (snd b)).
Lemma lower_expand bs ps : map lower_tag (expand bs ps) = expand (map lower_pair bs) (map lower ps).
Proof.
  unfold expand. induction bs as [|[i a] bs IH]; [reflexivity|]. cbn [flat_map map]. rewrite map_app, IH. f_equal.
  rewrite !map_map. apply map_ext. intros p. reflexivity.
Qed.
Lemma lower_cp v : lower (s_cp ++ nodot v) = s_cp ++ nodot v.
Proof. now apply lower_pfx_nodot. Qed.
Lemma lower_py v : lower (s_py ++ nodot v) = s_py ++ nodot v.
Proof. now apply lower_pfx_nodot. Qed.
Lemma lower_cp2 pv : lower (s_cp ++ nodot2 pv) = s_cp ++ nodot2 pv.
Proof. apply lower_cp. Qed.
Lemma dn_nodot M : dn M = nodot [M].
Proof. now rewrite nodot_one. Qed.
Lemma py_range_lower pv : map lower (py_range pv) = py_range pv.
Proof.
  destruct pv as [M [|m r]].
  - rewrite py_range_major. cbn [map]. now rewrite dn_nodot, lower_py.
  - rewrite py_range_minor. cbn [map]. rewrite lower_py, dn_nodot, lower_py. do 2 f_equal.
    rewrite map_map. apply map_ext. intros z. apply lower_py.
Qed.

(* ---------------------------------------------------------------- list.remove keeps "no repeats after lower-casing" *)
Lemma remove_first_map_nodup (f : str -> str) x l : NoDup (map f l) -> NoDup (map f (remove_first x l)).
Proof.
  induction l as [|y t IH]; cbn [remove_first map]; auto. intros H. inversion H as [|? ? Hy Ht]; subst.
  destruct (streq y x); [exact Ht|]. cbn [map]. constructor; auto.
  intros C. apply Hy. apply in_map_iff in C as [z [E Hz]]. apply in_map_iff. exists z. split; auto. eapply remove_first_incl; eauto.
Qed.
Lemma cp_abis_lower_nodup abis : NoDup (map lower abis) -> NoDup (map lower (cp_abis abis)).
Proof. intros H. unfold cp_abis. now apply remove_first_map_nodup, remove_first_map_nodup. Qed.

(* ---------------------------------------------------------------- the block shape of cpython_tags over any ABI column *)
Definition cp_shape (i : str) (use : bool) (older : list (str * str)) (L : list str) : list (str * str) :=
  map (fun a => (i, a)) L ++ (if use then [(i, s_abi3)] else []) ++ [(i, s_none)] ++ (if use then older else []).
Lemma cp_shape_nodup i use older L :
  NoDup L -> ~ In s_abi3 L -> ~ In s_none L -> NoDup older -> (forall a, ~ In (i, a) older) -> NoDup (cp_shape i use older L).
Proof.
  intros N1 N3 N2 Old OldI. unfold cp_shape. assert (K : s_abi3 <> s_none) by discriminate.
  apply NoDup_app.
  - apply Injective_map_NoDup; auto. intros x y E. now inversion E.
  - destruct use; cbn [app].
    + constructor. { cbn. intros [E|C]; [inversion E; congruence | apply (OldI s_abi3 C)]. }
      constructor; [apply OldI | exact Old].
    + constructor; [intros [] | constructor].
  - intros [i' a] H1 H2. apply in_map_iff in H1 as [a' [E Ha']]. inversion E; subst.
    destruct use; cbn [app In] in H2.
    + destruct H2 as [E2|[E2|C]]; [inversion E2; subst; contradiction | inversion E2; subst; contradiction | apply (OldI _ C)].
    + destruct H2 as [E2|[]]. inversion E2; subst; contradiction.
Qed.
Definition cp_older (pv : pyver) : list (str * str) := map (fun z => (s_cp ++ nodot [fst pv; z], s_abi3)) (older_minors pv).
Lemma cp_blocks_shape pv abis : cp_blocks pv abis = cp_shape (s_cp ++ nodot2 pv) (cp_use_abi3 pv abis) (cp_older pv) (cp_abis abis).
Proof. reflexivity. Qed.
Lemma cp_older_nodup pv : NoDup (cp_older pv) /\ forall a, ~ In (s_cp ++ nodot2 pv, a) (cp_older pv).
Proof.
  unfold cp_older. split.
  - apply Injective_map_NoDup.
    + intros x y E. apply (f_equal fst) in E. cbn [fst] in E. eapply pfx_minor_inj; eauto.
    + unfold older_minors. destruct (snd pv); [constructor | apply down_nodup].
  - intros a C. apply in_map_iff in C as [z [E Hz]]. apply (f_equal fst) in E. cbn [fst] in E. unfold older_minors in Hz.
    destruct pv as [M [|m r]]; cbn [fst snd] in *; [contradiction|]. apply down_spec in Hz.
    rewrite nodot2_minor, <- nodot_pair in E. apply pfx_minor_inj in E. lia.
Qed.
Lemma cp_older_lower pv : map lower_pair (cp_older pv) = cp_older pv.
Proof.
  unfold cp_older. rewrite map_map. apply map_ext. intros z. unfold lower_pair. cbn [fst snd]. now rewrite lower_cp.
Qed.
Lemma cp_blocks_lower pv abis :
  map lower_pair (cp_blocks pv abis) = cp_shape (s_cp ++ nodot2 pv) (cp_use_abi3 pv abis) (cp_older pv) (map lower (cp_abis abis)).
Proof.
  rewrite cp_blocks_shape. unfold cp_shape. rewrite !map_app, !map_map.
  assert (L : forall a, lower_pair (s_cp ++ nodot2 pv, a) = (s_cp ++ nodot2 pv, lower a)).
  { intros a. unfold lower_pair. cbn [fst snd]. now rewrite lower_cp2. }
  f_equal; [apply map_ext; intros a; apply L|]. f_equal; [destruct (cp_use_abi3 pv abis); [cbn [map]; now rewrite L | reflexivity]|].
  f_equal; [cbn [map]; now rewrite L|]. destruct (cp_use_abi3 pv abis); [apply cp_older_lower | reflexivity].
Qed.

(* ---------------------------------------------------------------- cpython_tags: no repeated Tag *)
Theorem cpython_lower_nodup pv abis ps :
  NoDup (map lower abis) -> NoDup (map lower ps) ->
  ~ In s_abi3 (map lower (cp_abis abis)) -> ~ In s_none (map lower (cp_abis abis)) ->
  NoDup (map lower_tag (cpython_tags pv abis ps)).
Proof.
  intros Ha Hp H3 Hn. rewrite cpython_exact, lower_expand, cp_blocks_lower. apply NoDup_expand; auto.
  destruct (cp_older_nodup pv) as [O1 O2]. apply cp_shape_nodup; auto. now apply cp_abis_lower_nodup.
Qed.
(* on lower-case input the side conditions are those of the raw theorem: nothing more is asked *)
Lemma cp_abis_lower_stable abis : Forall lower_stable abis -> map lower (cp_abis abis) = cp_abis abis.
Proof.
  intros H. rewrite <- (map_id (cp_abis abis)) at 2. apply map_ext_in. intros a Ha. apply cp_abis_incl in Ha.
  rewrite Forall_forall in H. exact (H a Ha).
Qed.
Corollary cpython_lower_nodup_lowercase pv abis ps :
  Forall lower_stable abis -> Forall lower_stable ps -> NoDup abis -> NoDup ps -> NoDup (map lower_tag (cpython_tags pv abis ps)).
Proof. intros La Lp Ha Hp. rewrite cpython_lower_id by assumption. now apply cpython_nodup. Qed.

(* the readings are necessary: one ABI "ABI3" (no repeat in the input, but a differently-cased abi3) repeats cp39-abi3-p;
   platforms "P","p" (distinct texts, the same platform once lower-cased) repeat every tag *)
Definition s_ABI3 : str := [65; 66; 73; 51].
Definition s_NONE : str := [78; 79; 78; 69].
Theorem cpython_case_repeats :
  NoDup [s_ABI3] /\ NoDup [[112]] /\ ~ NoDup (map lower_tag (cpython_tags (3, [9])%nat [s_ABI3] [[112]])) /\
  NoDup [s_cp ++ [51; 57]] /\ NoDup [[80]; [112]] /\ ~ NoDup (map lower_tag (cpython_tags (3, [9])%nat [s_cp ++ [51; 57]] [[80]; [112]])).
Proof.
  repeat split; try (apply has_dup_sound; vm_compute; reflexivity);
    repeat (constructor; [cbn [In]; intros H; repeat destruct H as [H|H]; try discriminate; auto|]); constructor.
Qed.

(* ---------------------------------------------------------------- generic_tags: no repeated Tag *)
Theorem generic_lower_nodup interp abis ps :
  NoDup (map lower abis) -> NoDup (map lower ps) -> (In s_none (map lower abis) -> In s_none abis) ->
  NoDup (map lower_tag (generic_tags interp abis ps)).
Proof.
  intros Ha Hp Hn. rewrite generic_exact, lower_expand. apply NoDup_expand; auto. rewrite map_map.
  rewrite <- (map_map lower (fun a => (lower interp, a))). apply Injective_map_NoDup; [intros x y E; now inversion E|].
  unfold generic_abis. destruct (mem s_none abis) eqn:E; auto. rewrite map_app. cbn [map].
  apply NoDup_app; auto; [constructor; [intros []|constructor]|].
  intros x H1 [<-|[]]. apply Hn in H1. apply mem_spec in H1. congruence.
Qed.
Theorem generic_case_repeats : NoDup [s_NONE] /\ ~ NoDup (map lower_tag (generic_tags [112; 112; 51; 57] [s_NONE] [[112]])).
Proof.
  split; [constructor; [intros []|constructor] | apply has_dup_sound; vm_compute; reflexivity].
Qed.

(* ---------------------------------------------------------------- compatible_tags: no repeated Tag *)
Lemma compatible_lower pv interp ps :
  map lower_tag (compatible_tags pv interp ps) = compatible_tags pv (option_map lower interp) (map lower ps).
Proof.
  unfold compatible_tags. rewrite !map_app. f_equal; [|f_equal].
  - rewrite <- (py_range_lower pv) at 2. generalize (py_range pv). intros l. induction l as [|v l IH]; [reflexivity|].
    cbn [flat_map map]. rewrite map_app, IH. f_equal. rewrite !map_map. apply map_ext. intros p. reflexivity.
  - destruct interp; reflexivity.
  - rewrite <- (py_range_lower pv) at 2. rewrite !map_map. apply map_ext. intros v. reflexivity.
Qed.
Theorem compatible_lower_nodup pv interp ps :
  NoDup (map lower ps) -> ~ In s_any (map lower ps) -> (forall x, interp = Some x -> ~ In (lower x) (py_range pv)) ->
  NoDup (map lower_tag (compatible_tags pv interp ps)).
Proof.
  intros Hp Hany Hi. rewrite compatible_lower. apply compatible_nodup; auto.
  intros x E. destruct interp as [y|]; [|discriminate]. cbn [option_map] in E. inversion E; subst. now apply Hi.
Qed.
(* the two side conditions are necessary *)
Theorem compatible_repeats :
  ~ NoDup (map lower_tag (compatible_tags (3, [])%nat None [s_any])) /\
  ~ NoDup (map lower_tag (compatible_tags (3, [1])%nat (Some (s_py ++ [51])) [[112]])).
Proof. split; apply has_dup_sound; vm_compute; reflexivity. Qed.

(* outside ASCII too: "\u212a" (KELVIN SIGN) lower-cases to "k", so platforms ["\u212a"; "k"] are one platform twice: the
   hypothesis NoDup (map lower ps) fails, and the sequence does repeat every tag *)
Theorem kelvin_repeats :
  NoDup [[8490]; [107]] /\ ~ NoDup (map lower [[8490]; [107]]) /\
  ~ NoDup (map lower_tag (cpython_tags (3, [9])%nat [s_cp ++ [51; 57]] [[8490]; [107]])).
Proof.
  split; [constructor; [intros [E|[]]; discriminate E | constructor; [intros []|constructor]]|].
  split; [intros H; vm_compute in H; inversion H as [|x l N _]; apply N; now left | apply has_dup_sound; vm_compute; reflexivity].
Qed.
