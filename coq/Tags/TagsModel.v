(* C15 - executable model of the interpreter-tag generators of src/packaging/tags.py, as the code is now:
   _version_nodot, _is_threaded_cpython, _abi3_applies, _cpython_abis, cpython_tags, _generic_abi, generic_tags,
   _py_interpreter_range, compatible_tags, interpreter_name, interpreter_version, sys_tags.
   Strings are code-point lists; a tag is the argument triple of Tag(interpreter, abi, platform) (Tag.__init__ lower-cases
   each part: [lower_tag]).  str.lower() is the exact one (NamesX.lower_full: the interpreter's full table and the Final_Sigma
   rule, tied to the interpreter by the n.lower stream of C13) and the regex class backslash-d is the exact Unicode one
   (Gen/WordTable.digit_ranges), so the model also answers for non-ASCII input.  Definitions only; the theorems are in TagsProofs.v. *)
From Coq Require Import List Arith NArith Bool.
Import ListNotations.
Require Import VParse VDec Tags TagsLit.
Require NamesX WordTable.
Open Scope N_scope.

Notation tag := (list N * list N * list N)%type (only parsing).

Fixpoint streq (a b : str) : bool :=
  match a, b with [], [] => true | x :: a', y :: b' => (x =? y) && streq a' b' | _, _ => false end.
Definition mem (x : str) (l : list str) : bool := existsb (streq x) l.            (* x in l *)
Fixpoint remove_first (x : str) (l : list str) : list str :=                      (* list.remove, ValueError ignored *)
  match l with [] => [] | y :: t => if streq y x then t else y :: remove_first x t end.
Fixpoint starts_with (p s : str) : bool :=
  match p, s with [] , _ => true | x :: p', y :: s' => (x =? y) && starts_with p' s' | _ :: _, [] => false end.

(* str.lower(): exact (Unicode); on ASCII text it is [map lc] (TagsProofs.lower_ascii) *)
Definition lower (s : str) : str := NamesX.lower_full s.
(* the regex class \d on str patterns: ASCII digits and every other Unicode decimal digit (category Nd) *)
Definition is_ud (c : char) : bool :=
  is_digit c || ((128 <=? c) && existsb (fun p => (fst (fst p) <=? c) && (c <=? snd (fst p))) WordTable.digit_ranges).
Definition lower_tag (t : tag) : tag := let '(i, a, p) := t in (lower i, lower a, lower p).
Definition tag_str (t : tag) : str := let '(i, a, p) := lower_tag t in i ++ [45] ++ a ++ [45] ++ p.   (* Tag.__str__ *)

(* a python_version is a non-empty int sequence: (major, rest) *)
Definition pyver := (nat * list nat)%type.
Definition pv_list (pv : pyver) : list nat := fst pv :: snd pv.
Definition dn (n : nat) : str := dec (N.of_nat n).
Definition nodot (v : list nat) : str := flat_map dn v.                            (* "".join(map(str, version)) *)
Definition nodot2 (pv : pyver) : str := nodot (firstn 2 (pv_list pv)).             (* _version_nodot(pv[:2]) *)

(* tuple comparison of int tuples *)
Fixpoint tup_lt (a b : list nat) : bool :=
  match a, b with
  | _, [] => false
  | [], _ :: _ => true
  | x :: a', y :: b' => (x <? y)%nat || ((x =? y)%nat && tup_lt a' b')
  end.
Definition tup_ge (a b : list nat) : bool := negb (tup_lt a b).

(* _is_threaded_cpython: abis[0] matches  cp, one or more digits (backslash-d: Unicode decimal digits), then any text up to a newline (the group); the flag is: 't' occurs in the group *)
Definition not_nl (c : char) : bool := negb (c =? 10).
Definition threaded_abi (a : str) : bool :=
  match a with
  | c1 :: c2 :: r =>
      if (c1 =? 99) && (c2 =? 112) then
        let '(ds, rest) := span is_ud r in
        match ds with [] => false | _ :: _ => existsb (N.eqb 116) (fst (span not_nl rest)) end
      else false
  | _ => false
  end.
Definition is_threaded (abis : list str) : bool := match abis with [] => false | a :: _ => threaded_abi a end.

(* _abi3_applies: len(python_version) > 1 and tuple(python_version) >= (3, 2) and not threading *)
Definition abi3_applies (pv : pyver) (threading : bool) : bool :=
  match snd pv with [] => false | _ :: _ => tup_ge (pv_list pv) [3; 2]%nat && negb threading end.

(* the config values _cpython_abis reads: sysconfig vars (None | int), hasattr(sys, "gettotalrefcount"),
   "_d.pyd" in EXTENSION_SUFFIXES, sys.maxunicode == 0x10FFFF *)
Record abicfg := { py_debug : option N; gil_disabled : option N; with_pymalloc : option N; unicode_size : option N;
                   has_refcount : bool; has_ext : bool; wide_unicode : bool }.
Definition truthy (o : option N) : bool := match o with Some n => negb (n =? 0) | None => false end.
Definition is_none (o : option N) : bool := match o with Some _ => false | None => true end.
Definition flag (b : bool) (s : str) : str := if b then s else [].

Definition abi_debug (c : abicfg) : bool := truthy (py_debug c) || (is_none (py_debug c) && (has_refcount c || has_ext c)).
Definition abi_threading (c : abicfg) (pv : pyver) : bool := tup_ge (pv_list pv) [3; 13]%nat && truthy (gil_disabled c).
Definition abi_pymalloc (c : abicfg) (pv : pyver) : bool :=
  tup_lt (pv_list pv) [3; 8]%nat && (truthy (with_pymalloc c) || is_none (with_pymalloc c)).
Definition abi_ucs4 (c : abicfg) (pv : pyver) : bool :=
  tup_lt (pv_list pv) [3; 8]%nat && tup_lt (pv_list pv) [3; 3]%nat &&
  (match unicode_size c with Some n => n =? 4 | None => wide_unicode c end).
Definition cpython_abis (c : abicfg) (pv : pyver) : list str :=
  let version := nodot2 pv in
  let t := flag (abi_threading c pv) s_t in
  let first := s_cp ++ version ++ t ++ flag (abi_debug c) s_d ++ flag (abi_pymalloc c pv) s_m ++ flag (abi_ucs4 c pv) s_u in
  if negb (tup_lt (pv_list pv) [3; 8]%nat) && abi_debug c then [first; s_cp ++ version ++ t] else [first].

(* cpython_tags(python_version, abis, platforms) with explicit arguments, written as the generator runs *)
Definition cpython_tags (pv : pyver) (abis : list str) (ps : list str) : list tag :=
  let interp := s_cp ++ nodot2 pv in
  let abis := remove_first s_none (remove_first s_abi3 abis) in
  let use_abi3 := abi3_applies pv (is_threaded abis) in
  flat_map (fun a => map (fun p => (interp, a, p)) ps) abis ++
  (if use_abi3 then map (fun p => (interp, s_abi3, p)) ps else []) ++
  map (fun p => (interp, s_none, p)) ps ++
  (if use_abi3 then
     match snd pv with
     | minor :: _ => flat_map (fun mv => map (fun p => (s_cp ++ nodot [fst pv; mv], s_abi3, p)) ps) (down minor 2)
     | [] => []
     end
   else []).
(* abis=None: _cpython_abis when the version has a minor component, else [] *)
Definition default_abis (c : abicfg) (pv : pyver) : list str := match snd pv with [] => [] | _ :: _ => cpython_abis c pv end.

(* _normalize_string *)
Definition norm_char (c : char) : char := if (c =? 46) || (c =? 45) || (c =? 32) then 95 else c.
Definition normalize_string (s : str) : str := map norm_char s.
Fixpoint tsplit (c0 : N) (s : str) : list str :=        (* str.split(sep) for a one-character separator *)
  match s with
  | [] => [[]]
  | c :: t => if c =? c0 then [] :: tsplit c0 t
              else match tsplit c0 t with h :: r => (c :: h) :: r | [] => [[c]] end
  end.
Fixpoint tjoin (sep : str) (l : list str) : str :=
  match l with [] => [] | [x] => x | x :: t => x ++ sep ++ tjoin sep t end.

(* _generic_abi(): result, SystemError, or a Python-level crash (IndexError) *)
Inductive gres := GOk (abis : list str) | GSystemError | GCrash.
Definition generic_abi (ext_suffix : option str) (c : abicfg) (sysver : pyver) : gres :=
  match ext_suffix with
  | None => GSystemError
  | Some [] => GCrash                                         (* ext_suffix[0] on "" *)
  | Some ((c0 :: _) as e) =>
      if negb (c0 =? 46) then GSystemError else
      let parts := tsplit 46 e in
      if (length parts <? 3)%nat then GOk (cpython_abis c sysver) else
      let soabi := nth 1 parts [] in
      let ds := tsplit 45 soabi in
      if starts_with s_cpython soabi then
        match ds with _ :: x :: _ => GOk [normalize_string (s_cp ++ x)] | _ => GCrash end
      else if starts_with s_cp soabi then GOk [normalize_string (hd [] ds)]
      else if starts_with s_pypy soabi then GOk [normalize_string (tjoin [45] (firstn 2 ds))]
      else if starts_with s_graalpy soabi then GOk [normalize_string (tjoin [45] (firstn 3 ds))]
      else match soabi with [] => GOk [] | _ :: _ => GOk [normalize_string soabi] end
  end.

(* generic_tags(interpreter, abis, platforms) with explicit arguments *)
Definition generic_tags (interp : str) (abis : list str) (ps : list str) : list tag :=
  let abis := if mem s_none abis then abis else abis ++ [s_none] in
  flat_map (fun a => map (fun p => (interp, a, p)) ps) abis.

(* _py_interpreter_range *)
Definition py_range (pv : pyver) : list str :=
  match snd pv with
  | [] => [s_py ++ dn (fst pv)]
  | minor :: _ => (s_py ++ nodot2 pv) :: (s_py ++ dn (fst pv)) :: map (fun mv => s_py ++ nodot [fst pv; mv]) (down minor 0)
  end.
(* compatible_tags(python_version, interpreter, platforms); interpreter None/"" = None *)
Definition opt_interp (i : str) : option str := match i with [] => None | _ :: _ => Some i end.
Definition compatible_tags (pv : pyver) (interp : option str) (ps : list str) : list tag :=
  flat_map (fun v => map (fun p => (v, s_none, p)) ps) (py_range pv) ++
  (match interp with Some i => [(i, s_none, s_any)] | None => [] end) ++
  map (fun v => (v, s_none, s_any)) (py_range pv).

(* interpreter_name / interpreter_version *)
Definition short_names : list (str * str) :=
  [(s_python, s_py); (s_cpython, s_cp); (s_pypy, s_pp); (s_ironpython, s_ip); (s_jython, s_jy)].
Fixpoint lookup (k : str) (t : list (str * str)) : option str :=
  match t with [] => None | (a, b) :: r => if streq a k then Some b else lookup k r end.
Definition interpreter_name (impl_name : str) : str := match lookup impl_name short_names with Some s => s | None => impl_name end.
Definition interpreter_version (py_version_nodot : option str) (sysver : pyver) : str :=
  match py_version_nodot with Some ((_ :: _) as v) => v | _ => nodot2 sysver end.

(* the running interpreter as sys_tags sees it *)
Record syscfg := { impl_name : str; py_version_nodot : option str; sys_version : pyver;     (* sys.version_info[:2] *)
                   ext_suffix : option str; abi_cfg : abicfg }.
Inductive sres := SOk (tags : list tag) | SSystemError | SCrash.
(* sys_tags(), [plats] = list(platform_tags()) *)
Definition sys_tags (s : syscfg) (plats : list str) : sres :=
  let name := interpreter_name (impl_name s) in
  let ver := sys_version s in
  let interp := if streq name s_pp then Some s_pp3
                else if streq name s_cp then Some (s_cp ++ interpreter_version (py_version_nodot s) ver) else None in
  let rest := compatible_tags ver interp plats in
  if streq name s_cp then SOk (cpython_tags ver (default_abis (abi_cfg s) ver) plats ++ rest)
  else match generic_abi (ext_suffix s) (abi_cfg s) ver with
       | GOk abis => SOk (generic_tags (name ++ interpreter_version (py_version_nodot s) ver) abis plats ++ rest)
       | GSystemError => SSystemError
       | GCrash => SCrash
       end.

(* ---------------------------------------------------------------- the default arguments of the three generators *)
(* `platforms = list(platforms or platform_tags())`: an empty (falsy) platform list is replaced by the detected one;
   `if not python_version: python_version = sys.version_info[:2]` (None or ());
   generic_tags: `if not interpreter: interpreter = interpreter_name() + interpreter_version()` (None or "").
   [defaults] = what those fallbacks read from the running interpreter. *)
Record defaults := { d_plats : list str;            (* list(platform_tags()) *)
                     d_sysver : pyver;              (* sys.version_info[:2] *)
                     d_name : str;                  (* sys.implementation.name *)
                     d_nodot : option str }.        (* sysconfig.get_config_var("py_version_nodot") *)
Definition or_detected (ps detected : list str) : list str := match ps with [] => detected | _ :: _ => ps end.
Definition pv_or_sys (o : option pyver) (sysver : pyver) : pyver := match o with Some v => v | None => sysver end.
Definition sys_interp (d : defaults) : str := interpreter_name (d_name d) ++ interpreter_version (d_nodot d) (d_sysver d).
Definition interp_or_sys (i : str) (d : defaults) : str := match i with [] => sys_interp d | _ :: _ => i end.
(* cpython_tags(python_version=None|v, abis=None|list, platforms=None|list) *)
Definition cpython_tags_d (d : defaults) (c : abicfg) (pv : option pyver) (abis : option (list str)) (ps : list str) : list tag :=
  let v := pv_or_sys pv (d_sysver d) in
  cpython_tags v (match abis with Some a => a | None => default_abis c v end) (or_detected ps (d_plats d)).
(* compatible_tags(python_version=None|v, interpreter, platforms=None|list) *)
Definition compatible_tags_d (d : defaults) (pv : option pyver) (interp : option str) (ps : list str) : list tag :=
  compatible_tags (pv_or_sys pv (d_sysver d)) interp (or_detected ps (d_plats d)).
(* generic_tags(interpreter=None|""|name, abis (explicit), platforms=None|list) *)
Definition generic_tags_d (d : defaults) (interp : str) (abis : list str) (ps : list str) : list tag :=
  generic_tags (interp_or_sys interp d) abis (or_detected ps (d_plats d)).
