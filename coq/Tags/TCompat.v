From Coq Require Import List Arith Bool Lia FinFun.
Import ListNotations.
Require Import Tags.

Section C.
Variables interp abi plat : Type.
Variable py2 : nat -> nat -> interp.     (* "py" + nodot((major, minor)) *)
Variable py1 : nat -> interp.            (* "py" + major *)
Variable none : abi.
Variable any : plat.
Hypothesis py2_inj : forall M m m', py2 M m = py2 M m' -> m = m'.
Hypothesis py12 : forall M m, py1 M <> py2 M m.

(* _py_interpreter_range((major, minor)): pyMm, pyM, then pyM(m-1) ... pyM0 *)
Definition py_range (M m : nat) : list interp := py2 M m :: py1 M :: map (py2 M) (down m 0).
Lemma py_range_nodup M m : NoDup (py_range M m).
Proof.
  unfold py_range. constructor.
  - cbn. intros [E|H]; [exact (py12 _ _ E)|]. apply in_map_iff in H as [x [E H]]. apply py2_inj in E. apply down_spec in H. lia.
  - constructor.
    + intros H. apply in_map_iff in H as [x [E _]]. symmetry in E. exact (py12 _ _ E).
    + apply Injective_map_NoDup; [|apply down_nodup]. intros x y E. eauto.
Qed.

(* compatible_tags((major, minor), interpreter, platforms) *)
Definition compatible_tags (M m : nat) (i : option interp) (ps : list plat) : list (interp * abi * plat) :=
  flat_map (fun v => map (fun p => (v, none, p)) ps) (py_range M m) ++
  (match i with Some x => [(x, none, any)] | None => [] end) ++
  map (fun v => (v, none, any)) (py_range M m).

Theorem C15_compatible_nodup M m i ps :
  NoDup ps -> ~ In any ps -> (forall x, i = Some x -> ~ In x (py_range M m)) ->
  NoDup (compatible_tags M m i ps).
Proof.
  intros Hp Hany Hi. unfold compatible_tags.
  assert (N1 : NoDup (flat_map (fun v => map (fun p => (v, none, p)) ps) (py_range M m))).
  { pose proof (nodup_prod (py_range M m) ps (py_range_nodup M m) Hp) as H.
    apply (Injective_map_NoDup (f := fun vp : interp * plat => (fst vp, none, snd vp))) in H.
    - rewrite flat_map_concat_map, concat_map, map_map in H. rewrite flat_map_concat_map.
      erewrite map_ext in H; [exact H|]. intros v. now rewrite map_map.
    - intros [a b] [a' b'] E. cbn in E. now inversion E. }
  assert (N3 : NoDup (map (fun v => (v, none, any)) (py_range M m))).
  { apply Injective_map_NoDup; [|apply py_range_nodup]. intros x y E. now inversion E. }
  apply NoDup_app; auto.
  - destruct i as [x|]; cbn [app]; auto. constructor; auto.
    intros H. apply in_map_iff in H as [v [E Hv]]. inversion E; subst. eapply Hi; eauto.
  - intros [[v a] p] H1 H2. apply in_flat_map in H1 as [v' [_ H1]]. apply in_map_iff in H1 as [p' [E Hp']]. inversion E; subst.
    apply in_app_iff in H2 as [H2|H2].
    + destruct i; cbn in H2; [destruct H2 as [E2|[]]; inversion E2; subst; contradiction | contradiction].
    + apply in_map_iff in H2 as [v'' [E2 _]]. inversion E2; subst. contradiction.
Qed.

(* generic_tags(interpreter, abis, platforms): "none" appended when absent *)
Variable abi_eqb : abi -> abi -> bool.
Hypothesis abi_eqb_spec : forall a b, reflect (a = b) (abi_eqb a b).
Definition generic_tags (i : interp) (abis : list abi) (ps : list plat) : list (interp * abi * plat) :=
  let abis := if existsb (abi_eqb none) abis then abis else abis ++ [none] in
  flat_map (fun a => map (fun p => (i, a, p)) ps) abis.
Theorem C15_generic_nodup i abis ps : NoDup abis -> NoDup ps -> NoDup (generic_tags i abis ps).
Proof.
  intros Ha Hp. unfold generic_tags.
  set (abis' := if existsb (abi_eqb none) abis then abis else abis ++ [none]).
  assert (Na : NoDup abis').
  { subst abis'. destruct (existsb (abi_eqb none) abis) eqn:E; auto.
    apply NoDup_app; auto; [constructor; [intros []|constructor]|].
    intros x H1 [<-|[]]. assert (existsb (abi_eqb none) abis = true); [|congruence].
    apply existsb_exists. exists none. split; auto. destruct (abi_eqb_spec none none); congruence. }
  pose proof (nodup_prod abis' ps Na Hp) as H.
  apply (Injective_map_NoDup (f := fun ap : abi * plat => (i, fst ap, snd ap))) in H.
  - rewrite flat_map_concat_map, concat_map, map_map in H. rewrite flat_map_concat_map.
    erewrite map_ext in H; [exact H|]. intros v. now rewrite map_map.
  - intros [a b] [a' b'] E. cbn in E. now inversion E.
Qed.
End C.
Print Assumptions C15_compatible_nodup.
