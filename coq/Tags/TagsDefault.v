(* C15 - "all interpreter configurations that drive the default ABI": the shape cpXY[t][d][m][u] of _cpython_abis with the
   version thresholds of each flag and the second entry of debug builds; and _generic_abi on every documented form of
   EXT_SUFFIX (general statements; TagsProofs.generic_abi_cpython has the ".cpython-X-plat.ext" form). *)
From Coq Require Import List Arith NArith Bool Lia.
Import ListNotations.
Require Import VParse VDec Tags TagsLit TagsModel TagsProofs.
Open Scope N_scope.
Arguments N.eqb : simpl never.
Arguments N.leb : simpl never.

(* ---------------------------------------------------------------- _cpython_abis *)
(* the first ABI is cp<XY> followed by the flags t d m u in this order; from 3.8 on a debug build also offers the
   non-debug ABI cp<XY>[t] as second entry; nothing else *)
Theorem cpython_abis_shape c pv :
  cpython_abis c pv =
  (s_cp ++ nodot2 pv ++ abi_flags c pv) ::
  (if tup_ge (pv_list pv) [3; 8]%nat && abi_debug c then [s_cp ++ nodot2 pv ++ flag (abi_threading c pv) s_t] else []).
Proof.
  unfold cpython_abis, abi_flags, tup_ge. cbv zeta. destruct (negb _ && _); rewrite <- ?app_assoc; reflexivity.
Qed.
(* which flag can occur for which version *)
Theorem abi_flag_thresholds c pv :
  (abi_threading c pv = true -> tup_ge (pv_list pv) [3; 13]%nat = true /\ truthy (gil_disabled c) = true) /\
  (abi_pymalloc c pv = true -> tup_lt (pv_list pv) [3; 8]%nat = true /\ (truthy (with_pymalloc c) || is_none (with_pymalloc c)) = true) /\
  (abi_ucs4 c pv = true -> tup_lt (pv_list pv) [3; 3]%nat = true /\
                           (match unicode_size c with Some n => n =? 4 | None => wide_unicode c end) = true) /\
  (tup_ge (pv_list pv) [3; 8]%nat = true -> abi_pymalloc c pv = false /\ abi_ucs4 c pv = false) /\
  (tup_ge (pv_list pv) [3; 3]%nat = true -> abi_ucs4 c pv = false).
Proof.
  unfold abi_threading, abi_pymalloc, abi_ucs4, tup_ge. split; [|split; [|split; [|split]]].
  - intros H. apply andb_prop in H. exact H.
  - intros H. apply andb_prop in H. exact H.
  - intros H. apply andb_prop in H as [H H2]. apply andb_prop in H as [_ H]. auto.
  - intros H. apply negb_true_iff in H. now rewrite H.
  - intros H. apply negb_true_iff in H. destruct (tup_lt (pv_list pv) [3; 8]%nat); [|reflexivity]. now rewrite H.
Qed.
(* the default list never holds abi3/none, has no repeats, and is lower-case (so the Tag-level NoDup theorem applies to it) *)
(* lower-case ASCII text is a fixed point of the exact str.lower() *)
Definition lstable (s : str) : Prop := ascii s /\ map lc s = s.
Lemma lstable_lower s : lstable s -> lower s = s.
Proof. intros [A E]. now rewrite lower_ascii. Qed.
Lemma lstable_app a b : lstable a -> lstable b -> lstable (a ++ b).
Proof. intros [A1 E1] [A2 E2]. split; [now apply ascii_app | now rewrite map_app, E1, E2]. Qed.
Lemma lstable_digits s : forallb is_digit s = true -> lstable s.
Proof.
  intros H. split; [now apply digits_ascii|]. induction s as [|c s IH]; cbn [forallb map] in *; auto.
  apply andb_prop in H as [H1 H2]. now rewrite lc_digit, IH.
Qed.
Lemma abi_flags_lstable c pv : lstable (abi_flags c pv).
Proof. unfold abi_flags. destruct (abi_threading c pv), (abi_debug c), (abi_pymalloc c pv), (abi_ucs4 c pv); split; reflexivity. Qed.
Lemma abi_flags_lower c pv : lower (abi_flags c pv) = abi_flags c pv.
Proof. apply lstable_lower, abi_flags_lstable. Qed.
Lemma cpython_abis_lower c pv : map lower (cpython_abis c pv) = cpython_abis c pv.
Proof.
  assert (N : lstable (nodot2 pv)) by (apply lstable_digits, nodot_digits).
  assert (C : lstable s_cp) by (split; reflexivity).
  rewrite cpython_abis_shape. cbn [map]. rewrite (lstable_lower (s_cp ++ nodot2 pv ++ abi_flags c pv)).
  2:{ apply lstable_app; [exact C|]. apply lstable_app; [exact N | apply abi_flags_lstable]. }
  f_equal. destruct (_ && _); [|reflexivity]. cbn [map]. rewrite lstable_lower; [reflexivity|].
  apply lstable_app; [exact C|]. apply lstable_app; [exact N|]. destruct (abi_threading c pv); split; reflexivity.
Qed.
Lemma cpython_abis_nodup c pv : NoDup (cpython_abis c pv).
Proof.
  rewrite cpython_abis_shape. destruct (tup_ge _ _ && abi_debug c) eqn:E; [|constructor; [intros []|constructor]].
  apply andb_prop in E as [_ D]. constructor; [|constructor; [intros []|constructor]].
  intros [H|[]]. apply app_inv_head in H. apply app_inv_head in H. unfold abi_flags in H. rewrite D in H.
  destruct (abi_threading c pv), (abi_pymalloc c pv), (abi_ucs4 c pv); discriminate H.
Qed.
Lemma default_abis_facts c pv :
  NoDup (map lower (default_abis c pv)) /\ map lower (cp_abis (default_abis c pv)) = cp_abis (default_abis c pv) /\
  ~ In s_abi3 (cp_abis (default_abis c pv)) /\ ~ In s_none (cp_abis (default_abis c pv)).
Proof.
  unfold default_abis. destruct (snd pv); [repeat split; auto; constructor|].
  rewrite cpython_abis_lower, cp_abis_default, cpython_abis_lower.
  destruct (cp_abis_nodup _ (cpython_abis_nodup c pv)) as (_ & N1 & N2). rewrite cp_abis_default in N1, N2.
  repeat split; auto. apply cpython_abis_nodup.
Qed.

(* ---------------------------------------------------------------- _generic_abi: the forms of EXT_SUFFIX *)
Lemma starts_with_head_ne c p d s : c <> d -> starts_with (c :: p) (d :: s) = false.
Proof. intros H. cbn [starts_with]. destruct (N.eqb_spec c d); [contradiction | reflexivity]. Qed.
Lemma starts_with_same_head c p s : starts_with (c :: p) (c :: s) = starts_with p s.
Proof. cbn [starts_with]. now rewrite N.eqb_refl. Qed.
Lemma free_of_cons c x w : free_of c (x :: w) <-> x <> c /\ free_of c w.
Proof.
  unfold free_of. cbn [forallb]. rewrite andb_true_iff, negb_true_iff, N.eqb_neq. tauto.
Qed.
Lemma tsplit_free c w : free_of c w -> tsplit c w = [w].
Proof.
  unfold free_of. induction w as [|x w IH]; cbn [forallb tsplit]; auto. intros H. apply andb_prop in H as [H1 H2].
  apply negb_true_iff in H1. now rewrite H1, IH.
Qed.
(* what is decided from the second dot-separated part ("soabi") *)
Definition abi_of_soabi (soabi : str) : gres :=
  let ds := tsplit 45 soabi in
  if starts_with s_cpython soabi then match ds with _ :: x :: _ => GOk [normalize_string (s_cp ++ x)] | _ => GCrash end
  else if starts_with s_cp soabi then GOk [normalize_string (hd [] ds)]
  else if starts_with s_pypy soabi then GOk [normalize_string (tjoin [45] (firstn 2 ds))]
  else if starts_with s_graalpy soabi then GOk [normalize_string (tjoin [45] (firstn 3 ds))]
  else match soabi with [] => GOk [] | _ :: _ => GOk [normalize_string soabi] end.
(* EXT_SUFFIX = "." soabi "." rest : at least three parts, the decision is made on soabi alone *)
Lemma generic_abi_three_parts soabi rest c v : free_of 46 soabi ->
  generic_abi (Some (46 :: soabi ++ 46 :: rest)) c v = abi_of_soabi soabi.
Proof.
  intros F. unfold generic_abi. rewrite N.eqb_refl. cbn [negb]. cbn [tsplit]. rewrite N.eqb_refl. rewrite (tsplit_word 46 soabi rest F).
  pose proof (tsplit_nonnil 46 rest) as NE. destruct (tsplit 46 rest) as [|p ps] eqn:E; [congruence|].
  cbn [length Nat.ltb Nat.leb nth]. reflexivity.
Qed.
(* EXT_SUFFIX = "." ext with no further dot (".pyd", ".so"): the CPython default ABIs of the running version *)
Theorem generic_abi_two_parts ext c v : free_of 46 ext -> generic_abi (Some (46 :: ext)) c v = GOk (cpython_abis c v).
Proof.
  intros F. unfold generic_abi. rewrite N.eqb_refl. cbn [negb]. cbn [tsplit]. rewrite N.eqb_refl. rewrite (tsplit_free 46 ext F). reflexivity.
Qed.
(* not a string / not starting with "." : SystemError; the empty string: IndexError *)
Theorem generic_abi_rejects c v :
  generic_abi None c v = GSystemError /\ generic_abi (Some []) c v = GCrash /\
  (forall x e, x <> 46 -> generic_abi (Some (x :: e)) c v = GSystemError).
Proof.
  repeat split. intros x e H. unfold generic_abi. destruct (N.eqb_spec x 46); [contradiction | reflexivity].
Qed.
Lemma normalize_app a b : normalize_string (a ++ b) = normalize_string a ++ normalize_string b.
Proof. apply map_app. Qed.
(* Windows: ".cp<X>-<plat>.<ext>" (also without a platform part) gives "cp<X>"; X does not begin with "y" (else the
   `startswith("cpython")` branch could be taken first) *)
Theorem generic_abi_cp X tail rest c v :
  free_of 46 X -> free_of 45 X -> free_of 32 X -> free_of 46 tail -> hd 0 X <> 121 ->
  (tail = [] \/ exists t, tail = 45 :: t) ->
  generic_abi (Some (46 :: (s_cp ++ X ++ tail) ++ 46 :: rest)) c v = GOk [s_cp ++ X].
Proof.
  intros D1 D2 D3 T NC TL. rewrite generic_abi_three_parts.
  2:{ apply free_of_app; [reflexivity|]. now apply free_of_app. }
  unfold abi_of_soabi. cbv zeta.
  assert (S1 : starts_with s_cpython (s_cp ++ X ++ tail) = false).
  { change (s_cp ++ X ++ tail) with (99 :: 112 :: X ++ tail). unfold s_cpython. rewrite !starts_with_same_head.
    destruct X as [|x X]; cbn [app hd] in *.
    - destruct TL as [->|[t ->]]; [reflexivity | apply starts_with_head_ne; discriminate].
    - apply starts_with_head_ne. congruence. }
  rewrite S1, starts_with_app'. replace (s_cp ++ X ++ tail) with ((s_cp ++ X) ++ tail) by now rewrite app_assoc.
  assert (HD : hd [] (tsplit 45 ((s_cp ++ X) ++ tail)) = s_cp ++ X).
  { destruct TL as [->|[t ->]].
    - rewrite app_nil_r, tsplit_free; [reflexivity|]. apply free_of_app; [reflexivity | assumption].
    - rewrite tsplit_word; [reflexivity|]. apply free_of_app; [reflexivity | assumption]. }
  rewrite HD, normalize_id; [reflexivity | | |]; apply free_of_app; auto; reflexivity.
Qed.
(* PyPy: ".pypy<A>-<B>[-<plat>].<ext>" gives "pypy<A>_<B>" (the first two dash-separated parts, normalised); with a single
   part the whole soabi *)
Lemma tjoin2 sep x y : tjoin sep [x; y] = x ++ sep ++ y.
Proof. reflexivity. Qed.
Lemma tjoin3 sep x y z : tjoin sep [x; y; z] = x ++ sep ++ y ++ sep ++ z.
Proof. reflexivity. Qed.
Lemma tsplit_last c w tail : free_of c w -> (tail = [] \/ exists t, tail = c :: t) -> exists more, tsplit c (w ++ tail) = w :: more.
Proof.
  intros F [->|[t ->]]; [rewrite app_nil_r, tsplit_free by assumption; now exists [] | rewrite tsplit_word by assumption; eauto].
Qed.
Theorem generic_abi_pypy A B tail rest c v :
  free_of 46 A -> free_of 45 A -> free_of 46 B -> free_of 45 B -> free_of 46 tail -> (tail = [] \/ exists t, tail = 45 :: t) ->
  generic_abi (Some (46 :: (s_pypy ++ A ++ 45 :: B ++ tail) ++ 46 :: rest)) c v = GOk [normalize_string (s_pypy ++ A ++ [45] ++ B)].
Proof.
  intros A1 A2 B1 B2 T TL. rewrite generic_abi_three_parts.
  2:{ apply free_of_app; [reflexivity|]. apply free_of_app; [assumption|]. apply free_of_cons. split; [discriminate|]. now apply free_of_app. }
  unfold abi_of_soabi. cbv zeta. unfold s_cpython, s_cp, s_pypy at 1 2. cbn [app].
  rewrite !starts_with_head_ne by discriminate. change (112 :: 121 :: 112 :: 121 :: A ++ 45 :: B ++ tail) with (s_pypy ++ A ++ 45 :: B ++ tail).
  rewrite starts_with_app'. replace (s_pypy ++ A ++ 45 :: B ++ tail) with ((s_pypy ++ A) ++ 45 :: B ++ tail) by now rewrite <- app_assoc.
  rewrite tsplit_word by (apply free_of_app; [reflexivity | assumption]).
  destruct (tsplit_last 45 B tail B2 TL) as [more ->]. cbn [firstn]. rewrite tjoin2, <- app_assoc. reflexivity.
Qed.
Theorem generic_abi_pypy_single A rest c v : free_of 46 A -> free_of 45 A ->
  generic_abi (Some (46 :: (s_pypy ++ A) ++ 46 :: rest)) c v = GOk [normalize_string (s_pypy ++ A)].
Proof.
  intros A1 A2. rewrite generic_abi_three_parts by (apply free_of_app; [reflexivity | assumption]).
  unfold abi_of_soabi. cbv zeta. unfold s_cpython, s_cp, s_pypy at 1 2. cbn [app].
  rewrite !starts_with_head_ne by discriminate. change (112 :: 121 :: 112 :: 121 :: A) with (s_pypy ++ A).
  rewrite starts_with_app', tsplit_free by (apply free_of_app; [reflexivity | assumption]). reflexivity.
Qed.
(* GraalPy: ".graalpy<A>-<B>-<C>[-<plat>].<ext>" gives "graalpy<A>_<B>_<C>" (the first three dash-separated parts) *)
Theorem generic_abi_graalpy A B C tail rest c v :
  free_of 46 A -> free_of 45 A -> free_of 46 B -> free_of 45 B -> free_of 46 C -> free_of 45 C -> free_of 46 tail ->
  (tail = [] \/ exists t, tail = 45 :: t) ->
  generic_abi (Some (46 :: (s_graalpy ++ A ++ 45 :: B ++ 45 :: C ++ tail) ++ 46 :: rest)) c v =
  GOk [normalize_string (s_graalpy ++ A ++ [45] ++ B ++ [45] ++ C)].
Proof.
  intros A1 A2 B1 B2 C1 C2 T TL. rewrite generic_abi_three_parts.
  2:{ apply free_of_app; [reflexivity|]. apply free_of_app; [assumption|]. apply free_of_cons. split; [discriminate|].
      apply free_of_app; [assumption|]. apply free_of_cons. split; [discriminate|]. now apply free_of_app. }
  unfold abi_of_soabi. cbv zeta. unfold s_cpython, s_cp, s_pypy, s_graalpy at 1 2 3 4. cbn [app].
  rewrite !starts_with_head_ne by discriminate.
  change (103 :: 114 :: 97 :: 97 :: 108 :: 112 :: 121 :: A ++ 45 :: B ++ 45 :: C ++ tail) with (s_graalpy ++ A ++ 45 :: B ++ 45 :: C ++ tail).
  rewrite starts_with_app'.
  replace (s_graalpy ++ A ++ 45 :: B ++ 45 :: C ++ tail) with ((s_graalpy ++ A) ++ 45 :: B ++ 45 :: C ++ tail) by now rewrite <- app_assoc.
  rewrite tsplit_word by (apply free_of_app; [reflexivity | assumption]). rewrite tsplit_word by assumption.
  destruct (tsplit_last 45 C tail C2 TL) as [more ->]. cbn [firstn]. rewrite tjoin3, <- app_assoc. reflexivity.
Qed.
(* anything else (pyston, ironpython ...): the whole soabi, normalised; an empty soabi ("..so") gives no ABI at all *)
Lemma starts_with_prefix p q s : starts_with (p ++ q) s = true -> starts_with p s = true.
Proof.
  revert s. induction p as [|x p IH]; intros s; [destruct s; reflexivity|]. destruct s as [|y s]; cbn [app starts_with]; [discriminate|].
  intros H. apply andb_prop in H as [H1 H2]. rewrite H1. cbn [andb]. now apply IH.
Qed.
Theorem generic_abi_other soabi rest c v :
  free_of 46 soabi -> soabi <> [] -> starts_with s_cp soabi = false -> starts_with s_pypy soabi = false -> starts_with s_graalpy soabi = false ->
  generic_abi (Some (46 :: soabi ++ 46 :: rest)) c v = GOk [normalize_string soabi].
Proof.
  intros F NE H1 H2 H3. rewrite generic_abi_three_parts by assumption. unfold abi_of_soabi. cbv zeta. rewrite H1, H2, H3.
  assert (H0 : starts_with s_cpython soabi = false).
  { destruct (starts_with s_cpython soabi) eqn:E; [|reflexivity]. change s_cpython with (s_cp ++ [121; 116; 104; 111; 110]) in E.
    apply starts_with_prefix in E. congruence. }
  rewrite H0. destruct soabi; [congruence | reflexivity].
Qed.
Theorem generic_abi_empty_soabi rest c v : generic_abi (Some (46 :: 46 :: rest)) c v = GOk [].
Proof. exact (generic_abi_three_parts [] rest c v eq_refl). Qed.
