(* C15 - lemmas about the interpreter-tag model (TagsModel.v): exact block structure, abi3 rule, NoDup, platform order,
   free-threaded default ABI, sys_tags composition. *)
From Coq Require Import List Arith NArith Bool Lia FinFun Sorted.
Import ListNotations.
Require Import VParse VDec Tags TagsLit TagsModel.
Open Scope N_scope.
Arguments N.eqb : simpl never.
Arguments N.leb : simpl never.

(* split a pair equation without letting inversion unfold the strings *)
Ltac pinj E := let E1 := fresh in let E2 := fresh in
  pose proof (f_equal fst E) as E1; pose proof (f_equal snd E) as E2; cbn [fst snd] in E1, E2; clear E; subst.

(* ---------------------------------------------------------------- strings *)
Lemma streq_spec a : forall b, reflect (a = b) (streq a b).
Proof.
  induction a as [|x a IH]; intros [|y b]; cbn [streq]; try (constructor; congruence).
  destruct (N.eqb_spec x y) as [->|N]; cbn [andb]; [|constructor; congruence].
  destruct (IH b) as [->|N]; constructor; congruence.
Qed.
Lemma streq_refl a : streq a a = true.
Proof. destruct (streq_spec a a); congruence. Qed.
Lemma mem_spec x l : mem x l = true <-> In x l.
Proof.
  unfold mem. rewrite existsb_exists. split.
  - intros [y [H1 H2]]. destruct (streq_spec x y); [subst; auto | discriminate].
  - intros H. exists x. split; auto. apply streq_refl.
Qed.

Lemma dn_inj a b : dn a = dn b -> a = b.
Proof.
  unfold dn. intros H. assert (E : Some (N.of_nat a) = Some (N.of_nat b)) by (rewrite <- !undec_dec; now rewrite H).
  inversion E. now apply Nat2N.inj.
Qed.
Lemma dn_nonnil a : dn a <> [].
Proof. apply dec_nonnil. Qed.
Lemma dn_digits a : forallb is_digit (dn a) = true.
Proof. apply dec_digits. Qed.
Lemma nodot_pair M m : nodot [M; m] = dn M ++ dn m.
Proof. unfold nodot. cbn [flat_map]. now rewrite app_nil_r. Qed.
Lemma nodot_one M : nodot [M] = dn M.
Proof. unfold nodot. cbn [flat_map]. now rewrite app_nil_r. Qed.
Lemma nodot2_minor M m r : nodot2 (M, m :: r) = dn M ++ dn m.
Proof. unfold nodot2, pv_list. cbn [fst snd firstn]. apply nodot_pair. Qed.
Lemma nodot2_major M : nodot2 (M, []) = dn M.
Proof. unfold nodot2, pv_list. cbn [fst snd firstn]. apply nodot_one. Qed.
(* for a fixed major the interpreter names are injective in the minor *)
Lemma pfx_minor_inj (pfx : str) M m m' : pfx ++ nodot [M; m] = pfx ++ nodot [M; m'] -> m = m'.
Proof. rewrite !nodot_pair. intros H. apply app_inv_head in H. apply app_inv_head in H. now apply dn_inj. Qed.
(* "pyM" is never "pyMm" *)
Lemma pfx_major_minor (pfx : str) M m : pfx ++ dn M <> pfx ++ nodot [M; m].
Proof.
  rewrite nodot_pair. intros H. apply app_inv_head in H. rewrite <- (app_nil_r (dn M)) in H at 1.
  apply app_inv_head in H. symmetry in H. exact (dn_nonnil _ H).
Qed.

(* ---------------------------------------------------------------- ranges *)
Lemma down_step h lo : (lo <= h)%nat -> down (S h) lo = h :: down h lo.
Proof. intros H. cbn [down]. destruct (Nat.ltb_spec h lo); [lia | reflexivity]. Qed.
Lemma down_empty h lo : (h <= lo)%nat -> down h lo = [].
Proof. destruct h as [|h]; cbn [down]; auto. intros H. destruct (Nat.ltb_spec h lo); [reflexivity | lia]. Qed.
(* newest first: strictly descending *)
Lemma down_sorted hi lo : StronglySorted (fun a b => (b < a)%nat) (down hi lo).
Proof.
  induction hi as [|h IH]; cbn [down]; [constructor|]. destruct (Nat.ltb h lo); [constructor|].
  constructor; auto. apply Forall_forall. intros x Hx. apply down_spec in Hx. lia.
Qed.

(* ---------------------------------------------------------------- the block structure of the statement *)
Definition expand (bs : list (str * str)) (ps : list str) : list tag :=
  flat_map (fun b => map (fun p => (fst b, snd b, p)) ps) bs.
Lemma expand_app a b ps : expand (a ++ b) ps = expand a ps ++ expand b ps.
Proof. apply flat_map_app. Qed.
Lemma expand_map {X} (g : X -> str * str) l ps :
  expand (map g l) ps = flat_map (fun a => map (fun p => (fst (g a), snd (g a), p)) ps) l.
Proof. induction l; cbn; auto. now rewrite <- IHl. Qed.
Lemma expand_one i a ps : expand [(i, a)] ps = map (fun p => (i, a, p)) ps.
Proof. cbn. now rewrite app_nil_r. Qed.
Lemma in_expand bs ps i a p : In (i, a, p) (expand bs ps) <-> In (i, a) bs /\ In p ps.
Proof.
  unfold expand. rewrite in_flat_map. split.
  - intros [[i' a'] [H1 H2]]. apply in_map_iff in H2 as [p' [E H2]]. cbn in E. inversion E; subst. auto.
  - intros [H1 H2]. exists (i, a). split; auto. apply in_map_iff. exists p. auto.
Qed.
(* "within each block platforms keep the caller's order": the platform column is the caller's list, once per block *)
Lemma expand_platform_column bs ps : map (fun t : tag => snd t) (expand bs ps) = concat (map (fun _ => ps) bs).
Proof.
  unfold expand. induction bs as [|b bs IH]; [reflexivity|]. cbn [flat_map map concat]. rewrite map_app, IH. f_equal.
  rewrite map_map. cbn [snd]. apply map_id.
Qed.
Lemma expand_block_column bs ps : map (fun t : tag => fst t) (expand bs ps) = flat_map (fun b => map (fun _ => b) ps) bs.
Proof.
  unfold expand. induction bs as [|[i a] bs IH]; [reflexivity|]. cbn [flat_map]. rewrite map_app, IH. f_equal. now rewrite map_map.
Qed.

Definition older_minors (pv : pyver) : list nat := match snd pv with minor :: _ => down minor 2 | [] => [] end.
Definition cp_abis (abis : list str) : list str := remove_first s_none (remove_first s_abi3 abis).
Definition cp_use_abi3 (pv : pyver) (abis : list str) : bool := abi3_applies pv (is_threaded (cp_abis abis)).
Definition cp_blocks (pv : pyver) (abis : list str) : list (str * str) :=
  let i := s_cp ++ nodot2 pv in
  map (fun a => (i, a)) (cp_abis abis) ++
  (if cp_use_abi3 pv abis then [(i, s_abi3)] else []) ++ [(i, s_none)] ++
  (if cp_use_abi3 pv abis then map (fun z => (s_cp ++ nodot [fst pv; z], s_abi3)) (older_minors pv) else []).

Lemma cpython_exact pv abis ps : cpython_tags pv abis ps = expand (cp_blocks pv abis) ps.
Proof.
  unfold cpython_tags, cp_blocks, cp_use_abi3, cp_abis, older_minors. cbv zeta. rewrite !expand_app. f_equal; [|f_equal; [|f_equal]].
  - now rewrite expand_map.
  - destruct (abi3_applies _ _); [now rewrite expand_one | reflexivity].
  - now rewrite expand_one.
  - destruct (abi3_applies _ _); [|reflexivity]. destruct (snd pv); [reflexivity|]. now rewrite expand_map.
Qed.

(* when abi3 applies, in plain terms *)
Lemma tup_lt_nil a : tup_lt a [] = false.
Proof. destruct a; reflexivity. Qed.
Lemma tup_ge_32 M m r : tup_ge (M :: m :: r) [3; 2]%nat = true <-> (3 < M \/ (M = 3 /\ 2 <= m))%nat.
Proof.
  unfold tup_ge. cbn [tup_lt]. rewrite tup_lt_nil, negb_true_iff.
  destruct (Nat.ltb_spec M 3), (Nat.eqb_spec M 3), (Nat.ltb_spec m 2), (Nat.eqb_spec m 2); cbn; split; intros; try lia; try discriminate; auto.
Qed.
Lemma abi3_applies_iff pv thr :
  abi3_applies pv thr = true <->
  exists m r, snd pv = m :: r /\ (3 < fst pv \/ (fst pv = 3 /\ 2 <= m))%nat /\ thr = false.
Proof.
  unfold abi3_applies, pv_list. destruct pv as [M [|m r]]; cbn [fst snd].
  - split; [discriminate | intros (m & r & E & _); discriminate].
  - rewrite andb_true_iff, negb_true_iff, tup_ge_32. split.
    + intros [H1 H2]. exists m, r. auto.
    + intros (m' & r' & E & H1 & H2). inversion E; subst. auto.
Qed.
Lemma major_only_no_abi3 M thr : abi3_applies (M, []) thr = false.
Proof. reflexivity. Qed.

Lemma major_only M abis ps :
  cpython_tags (M, []) abis ps =
  expand (map (fun a => (s_cp ++ dn M, a)) (cp_abis abis) ++ [(s_cp ++ dn M, s_none)]) ps.
Proof. rewrite cpython_exact. unfold cp_blocks, cp_use_abi3. rewrite major_only_no_abi3, nodot2_major. reflexivity. Qed.

(* ---------------------------------------------------------------- list.remove *)
Lemma remove_first_incl x l y : In y (remove_first x l) -> In y l.
Proof. induction l as [|z l IH]; cbn; auto. destruct (streq z x); cbn; intuition. Qed.
Lemma remove_first_nodup x l : NoDup l -> NoDup (remove_first x l) /\ ~ In x (remove_first x l).
Proof.
  induction 1 as [|z l Hz Hl IH]; cbn; [split; [constructor|auto]|].
  destruct (streq_spec z x) as [->|N]; [split; auto|].
  destruct IH as [I1 I2]. split; [constructor; auto; intros C; apply Hz; eapply remove_first_incl; eauto|].
  cbn. intros [E|C]; auto.
Qed.
Lemma remove_first_absent x l : ~ In x l -> remove_first x l = l.
Proof.
  induction l as [|z l IH]; cbn; auto. intros H. destruct (streq_spec z x) as [->|N]; [exfalso; auto|].
  f_equal. apply IH. auto.
Qed.
Lemma cp_abis_nodup abis : NoDup abis -> NoDup (cp_abis abis) /\ ~ In s_none (cp_abis abis) /\ ~ In s_abi3 (cp_abis abis).
Proof.
  intros Ha. unfold cp_abis. destruct (remove_first_nodup s_abi3 abis Ha) as [A1 A2].
  destruct (remove_first_nodup s_none _ A1) as [B1 B2]. repeat split; auto.
  intros C. apply A2. eapply remove_first_incl; eauto.
Qed.
Lemma cp_abis_incl abis a : In a (cp_abis abis) -> In a abis.
Proof. unfold cp_abis. intros H. eapply remove_first_incl, remove_first_incl, H. Qed.

(* ---------------------------------------------------------------- the abi3 rule *)
Lemma abi3_rule pv abis ps i p : NoDup abis ->
  (In (i, s_abi3, p) (cpython_tags pv abis ps) <->
   In p ps /\ cp_use_abi3 pv abis = true /\
   exists m r z, snd pv = m :: r /\ (z = m \/ 2 <= z < m)%nat /\ i = s_cp ++ nodot [fst pv; z]).
Proof.
  intros Ha. destruct (cp_abis_nodup abis Ha) as (N1 & N2 & N3).
  rewrite cpython_exact, in_expand. unfold cp_blocks. cbv zeta.
  assert (K : s_abi3 <> s_none) by discriminate.
  split.
  - intros [H Hp]. split; auto. rewrite !in_app_iff in H. destruct H as [H|[H|[H|H]]].
    + apply in_map_iff in H as [a [E H]]. inversion E; subst. contradiction.
    + destruct (cp_use_abi3 pv abis) eqn:U; [|contradiction]. destruct H as [E|[]]. inversion E. split; auto.
      unfold cp_use_abi3 in U. apply abi3_applies_iff in U as (m & r & E1 & _). exists m, r, m. repeat split; auto.
      destruct pv as [M rr]; cbn [fst snd] in *; subst. now rewrite nodot2_minor, nodot_pair.
    + destruct H as [E|[]]. inversion E; try congruence.
    + destruct (cp_use_abi3 pv abis) eqn:U; [|contradiction]. split; auto.
      apply in_map_iff in H as [z [E Hz]]. inversion E; subst. unfold older_minors in Hz.
      destruct (snd pv) as [|m r] eqn:S; [contradiction|]. apply down_spec in Hz. exists m, r, z. repeat split; auto; lia.
  - intros (Hp & U & m & r & z & S & Hz & ->). split; auto. rewrite U, !in_app_iff.
    destruct Hz as [->|Hz].
    + right. left. left. destruct pv as [M rr]; cbn [fst snd] in *; subst. now rewrite nodot2_minor, nodot_pair.
    + right. right. right. apply in_map_iff. exists z. split; auto. unfold older_minors. rewrite S. apply down_spec. lia.
Qed.

(* ---------------------------------------------------------------- NoDup *)
Lemma NoDup_expand bs ps : NoDup bs -> NoDup ps -> NoDup (expand bs ps).
Proof.
  intros Hb Hp. unfold expand.
  pose proof (nodup_prod bs ps Hb Hp) as H.
  apply (Injective_map_NoDup (f := fun bp : (str * str) * str => (fst (fst bp), snd (fst bp), snd bp))) in H.
  - rewrite flat_map_concat_map, concat_map, map_map in H. rewrite flat_map_concat_map.
    erewrite map_ext in H; [exact H|]. intros b. now rewrite map_map.
  - intros [[a b] c] [[a' b'] c'] E. cbn in E. now inversion E.
Qed.
Lemma cp_blocks_nodup pv abis : NoDup abis -> NoDup (cp_blocks pv abis).
Proof.
  intros Ha. unfold cp_blocks. cbv zeta.
  destruct (cp_abis_nodup abis Ha) as (N1 & N2 & N3). set (abis' := cp_abis abis) in *.
  set (i := s_cp ++ nodot2 pv). set (use := cp_use_abi3 pv abis).
  assert (K : s_abi3 <> s_none) by discriminate.
  assert (Old : NoDup (map (fun z => (s_cp ++ nodot [fst pv; z], s_abi3)) (older_minors pv))).
  { apply Injective_map_NoDup.
    - intros x y E. apply (f_equal fst) in E. cbn [fst] in E. eapply pfx_minor_inj; eauto.
    - unfold older_minors. destruct (snd pv); [constructor | apply down_nodup]. }
  assert (OldI : forall a, ~ In (i, a) (map (fun z => (s_cp ++ nodot [fst pv; z], s_abi3)) (older_minors pv))).
  { intros a C. apply in_map_iff in C as [z [E Hz]]. apply (f_equal fst) in E. cbn [fst] in E. subst i. unfold older_minors in Hz.
    destruct pv as [M [|m r]]; cbn [fst snd] in *; [contradiction|]. apply down_spec in Hz.
    rewrite nodot2_minor, <- nodot_pair in E. apply pfx_minor_inj in E. lia. }
  apply NoDup_app.
  - apply Injective_map_NoDup; auto. intros x y E. now inversion E.
  - destruct use; cbn [app].
    + constructor. { cbn. intros [E|C]; [inversion E; congruence | apply (OldI s_abi3 C)]. }
      constructor; [apply OldI | exact Old].
    + constructor; [intros [] | constructor].
  - intros [i' a] H1 H2. apply in_map_iff in H1 as [a' [E Ha']]. inversion E; subst.
    destruct use; cbn [app In] in H2.
    + destruct H2 as [E2|[E2|C]]; [inversion E2; subst; contradiction | inversion E2; subst; contradiction | apply (OldI _ C)].
    + destruct H2 as [E2|[]]. inversion E2; subst; contradiction.
Qed.
Lemma cpython_nodup pv abis ps : NoDup abis -> NoDup ps -> NoDup (cpython_tags pv abis ps).
Proof. intros Ha Hp. rewrite cpython_exact. apply NoDup_expand; auto. now apply cp_blocks_nodup. Qed.

(* compatible_tags *)
Definition compat_blocks (pv : pyver) : list (str * str) := map (fun v => (v, s_none)) (py_range pv).
Lemma compatible_exact pv interp ps :
  compatible_tags pv interp ps =
  expand (compat_blocks pv) ps ++ (match interp with Some i => [(i, s_none, s_any)] | None => [] end) ++ expand (compat_blocks pv) [s_any].
Proof.
  unfold compatible_tags, compat_blocks. rewrite !expand_map. cbn [fst snd]. do 2 f_equal.
Qed.
(* the interpreter range of the statement: pyXY, pyX, then pyXZ for Z = Y-1 .. 0; a major-only version gives pyX alone *)
Lemma py_range_minor M m r :
  py_range (M, m :: r) = (s_py ++ nodot [M; m]) :: (s_py ++ dn M) :: map (fun z => s_py ++ nodot [M; z]) (down m 0).
Proof. unfold py_range. cbn [fst snd]. now rewrite nodot2_minor, nodot_pair. Qed.
Lemma py_range_major M : py_range (M, []) = [s_py ++ dn M].
Proof. reflexivity. Qed.
Lemma py_range_nodup pv : NoDup (py_range pv).
Proof.
  destruct pv as [M [|m r]]; [rewrite py_range_major; constructor; [intros []|constructor]|].
  rewrite py_range_minor. constructor.
  - cbn [In]. intros [E|H]; [exact (pfx_major_minor _ _ _ E)|].
    apply in_map_iff in H as [x [E H]]. apply pfx_minor_inj in E. apply down_spec in H. lia.
  - constructor.
    + intros H. apply in_map_iff in H as [x [E _]]. symmetry in E. exact (pfx_major_minor _ _ _ E).
    + apply Injective_map_NoDup; [|apply down_nodup]. intros x y E. eapply pfx_minor_inj; eauto.
Qed.
Lemma compatible_nodup pv interp ps :
  NoDup ps -> ~ In s_any ps -> (forall x, interp = Some x -> ~ In x (py_range pv)) ->
  NoDup (compatible_tags pv interp ps).
Proof.
  intros Hp Hany Hi. rewrite compatible_exact.
  assert (NB : NoDup (compat_blocks pv)).
  { apply Injective_map_NoDup; [|apply py_range_nodup]. intros x y E. now inversion E. }
  apply NoDup_app; [apply NoDup_expand; auto | |].
  - apply NoDup_app.
    + destruct interp; constructor; [intros []|constructor].
    + apply NoDup_expand; auto. constructor; [intros []|constructor].
    + intros [[v a] p] H1 H2. destruct interp as [x|]; [|contradiction]. destruct H1 as [E|[]]. inversion E; subst.
      apply in_expand in H2 as [H2 _]. apply in_map_iff in H2 as [v' [E2 Hv]]. inversion E2; subst. eapply Hi; eauto.
  - intros [[v a] p] H1 H2. apply in_expand in H1 as [_ H1]. apply in_app_iff in H2 as [H2|H2].
    + destruct interp; [|contradiction]. destruct H2 as [E|[]]. inversion E; subst. contradiction.
    + apply in_expand in H2 as [_ [E|[]]]. subst. contradiction.
Qed.

(* generic_tags *)
Definition generic_abis (abis : list str) : list str := if mem s_none abis then abis else abis ++ [s_none].
Lemma generic_exact interp abis ps : generic_tags interp abis ps = expand (map (fun a => (interp, a)) (generic_abis abis)) ps.
Proof. unfold generic_tags, generic_abis. now rewrite expand_map. Qed.
Lemma generic_abis_spec abis : (In s_none abis -> generic_abis abis = abis) /\ (~ In s_none abis -> generic_abis abis = abis ++ [s_none]).
Proof.
  unfold generic_abis. destruct (mem s_none abis) eqn:E.
  - apply mem_spec in E. split; auto. contradiction.
  - split; auto. intros H. apply mem_spec in H. congruence.
Qed.
Lemma generic_nodup interp abis ps : NoDup abis -> NoDup ps -> NoDup (generic_tags interp abis ps).
Proof.
  intros Ha Hp. rewrite generic_exact. apply NoDup_expand; auto.
  apply Injective_map_NoDup; [intros x y E; now inversion E|].
  unfold generic_abis. destruct (mem s_none abis) eqn:E; auto.
  apply NoDup_app; auto; [constructor; [intros []|constructor]|].
  intros x H1 [<-|[]]. apply mem_spec in H1. congruence.
Qed.

(* ---------------------------------------------------------------- Tag() lower-cases: nothing changes on lower-case input *)
Definition lower_stable (s : str) : Prop := lower s = s.
(* the exact str.lower() on ASCII text is the ASCII map *)
Definition ascii (s : str) : Prop := forallb (fun c => c <? 128) s = true.
Lemma lower_go_ascii s : forall b, ascii s -> NamesX.lower_go b s = map lc s.
Proof.
  unfold ascii. induction s as [|c s IH]; intros b H; [reflexivity|]. cbn [forallb] in H. apply andb_prop in H as [Hc Hs].
  cbn [NamesX.lower_go map]. rewrite (IH _ Hs). unfold NamesX.lower_at, NamesX.lower_x. rewrite Hc.
  apply N.ltb_lt in Hc. destruct (N.eqb_spec c 931); [lia|]. unfold lc, Names.is_upper. destruct ((65 <=? c) && (c <=? 90)); reflexivity.
Qed.
Lemma lower_ascii s : ascii s -> lower s = map lc s.
Proof. apply lower_go_ascii. Qed.
Lemma ascii_app a b : ascii a -> ascii b -> ascii (a ++ b).
Proof. unfold ascii. intros. rewrite forallb_app. now apply andb_true_intro. Qed.
Lemma digits_ascii s : forallb is_digit s = true -> ascii s.
Proof.
  unfold ascii. induction s as [|c s IH]; cbn [forallb]; auto. intros H. apply andb_prop in H as [H1 H2]. rewrite IH by assumption.
  unfold is_digit in H1. apply andb_prop in H1 as [_ H1]. apply N.leb_le in H1. destruct (N.ltb_spec c 128); [reflexivity | lia].
Qed.
Lemma lower_ascii_app a b : ascii a -> ascii b -> lower (a ++ b) = lower a ++ lower b.
Proof. intros A B. rewrite !lower_ascii by (auto using ascii_app). apply map_app. Qed.
Lemma lc_digit c : is_digit c = true -> lc c = c.
Proof.
  unfold is_digit, lc. intros H. apply andb_prop in H as [H1 H2]. apply N.leb_le in H1, H2.
  destruct (N.leb_spec 65 c); cbn; auto. lia.
Qed.
Lemma lower_digits s : forallb is_digit s = true -> lower s = s.
Proof.
  intros H. rewrite (lower_ascii s (digits_ascii s H)). induction s as [|c s IH]; cbn [forallb map] in *; auto.
  apply andb_prop in H as [H1 H2]. now rewrite lc_digit, IH.
Qed.
Lemma nodot_digits l : forallb is_digit (nodot l) = true.
Proof. unfold nodot. induction l as [|x l IH]; cbn; auto. rewrite forallb_app, dn_digits. exact IH. Qed.
Lemma lower_nodot l : lower (nodot l) = nodot l.
Proof. apply lower_digits, nodot_digits. Qed.
(* a lower-case ASCII prefix (cp, py ...) followed by digits *)
Lemma lower_pfx_nodot pfx l : ascii pfx -> map lc pfx = pfx -> lower (pfx ++ nodot l) = pfx ++ nodot l.
Proof.
  intros A E. rewrite lower_ascii_app by (auto using digits_ascii, nodot_digits). rewrite lower_nodot, (lower_ascii pfx A), E. reflexivity.
Qed.
Lemma lower_tags_id (l : list tag) :
  (forall i a p, In (i, a, p) l -> lower_stable i /\ lower_stable a /\ lower_stable p) -> map lower_tag l = l.
Proof.
  induction l as [|[[i a] p] l IH]; cbn; auto. intros H. destruct (H i a p (or_introl eq_refl)) as (H1 & H2 & H3).
  unfold lower_stable in *. rewrite H1, H2, H3. f_equal. apply IH. intros. apply H. now right.
Qed.
Lemma cpython_lower_id pv abis ps :
  Forall lower_stable abis -> Forall lower_stable ps -> map lower_tag (cpython_tags pv abis ps) = cpython_tags pv abis ps.
Proof.
  intros Ha Hp. apply lower_tags_id. intros i a p H. rewrite cpython_exact in H. apply in_expand in H as [H Hpp].
  rewrite Forall_forall in Ha, Hp. split; [|split; auto].
  - unfold cp_blocks in H. cbv zeta in H. rewrite !in_app_iff in H.
    assert (L : forall v, lower_stable (s_cp ++ nodot v)).
    { intros v. unfold lower_stable. now apply lower_pfx_nodot. }
    destruct H as [H|[H|[H|H]]].
    + apply in_map_iff in H as [? [E _]]. pinj E. apply L.
    + destruct (cp_use_abi3 pv abis); [|contradiction]. destruct H as [E|[]]. pinj E. apply L.
    + destruct H as [E|[]]. pinj E. apply L.
    + destruct (cp_use_abi3 pv abis); [|contradiction]. apply in_map_iff in H as [? [E _]]. pinj E. apply L.
  - unfold cp_blocks in H. cbv zeta in H. rewrite !in_app_iff in H. destruct H as [H|[H|[H|H]]].
    + apply in_map_iff in H as [a' [E H]]. pinj E. apply Ha. now apply cp_abis_incl.
    + destruct (cp_use_abi3 pv abis); [|contradiction]. destruct H as [E|[]]. pinj E. reflexivity.
    + destruct H as [E|[]]. pinj E. reflexivity.
    + destruct (cp_use_abi3 pv abis); [|contradiction]. apply in_map_iff in H as [? [E _]]. pinj E. reflexivity.
Qed.

(* ---------------------------------------------------------------- the default ABI and free threading *)
Lemma span_digits_stop ds r : forallb is_digit ds = true -> (match r with [] => true | c :: _ => negb (is_digit c) end) = true ->
  span is_digit (ds ++ r) = (ds, r).
Proof.
  induction ds as [|d ds IH]; cbn [app forallb]; intros H1 H2.
  - destruct r as [|c r]; cbn; auto. apply negb_true_iff in H2. now rewrite H2.
  - apply andb_prop in H1 as [D H1]. cbn [span]. rewrite D, IH; auto.
Qed.
Lemma is_digit_ud c : is_digit c = true -> is_ud c = true.
Proof. intros H. unfold is_ud. now rewrite H. Qed.
Lemma span_ud_stop ds r : forallb is_digit ds = true -> (match r with [] => true | c :: _ => negb (is_ud c) end) = true ->
  span is_ud (ds ++ r) = (ds, r).
Proof.
  induction ds as [|d ds IH]; cbn [app forallb]; intros H1 H2.
  - destruct r as [|c r]; cbn; auto. apply negb_true_iff in H2. now rewrite H2.
  - apply andb_prop in H1 as [D H1]. cbn [span]. rewrite (is_digit_ud d D), IH; auto.
Qed.
Definition abi_flags (c : abicfg) (pv : pyver) : str :=
  flag (abi_threading c pv) s_t ++ flag (abi_debug c) s_d ++ flag (abi_pymalloc c pv) s_m ++ flag (abi_ucs4 c pv) s_u.
Lemma cpython_abis_first c pv : exists more, cpython_abis c pv = (s_cp ++ nodot2 pv ++ abi_flags c pv) :: more.
Proof.
  unfold cpython_abis, abi_flags. cbv zeta. destruct (negb _ && _); eexists; rewrite <- ?app_assoc; reflexivity.
Qed.
Lemma nodot2_digits pv : forallb is_digit (nodot2 pv) = true /\ nodot2 pv <> [].
Proof.
  destruct pv as [M [|m r]].
  - rewrite nodot2_major. split; [apply dn_digits | apply dn_nonnil].
  - rewrite nodot2_minor. split; [rewrite forallb_app, !dn_digits; reflexivity|].
    intros H. apply app_eq_nil in H as [H _]. exact (dn_nonnil _ H).
Qed.
Lemma threaded_abi_flags pv fl : (match fl with [] => true | c :: _ => negb (is_ud c) end) = true ->
  threaded_abi (s_cp ++ nodot2 pv ++ fl) = existsb (N.eqb 116) (fst (span not_nl fl)).
Proof.
  intros H. destruct (nodot2_digits pv) as [D NE]. unfold threaded_abi, s_cp. cbn [app].
  rewrite !N.eqb_refl. cbn [andb]. rewrite (span_ud_stop _ _ D H). destruct (nodot2 pv); [congruence|reflexivity].
Qed.
(* the default ABI list is recognised as free-threaded exactly when the configuration is (3.13+ with Py_GIL_DISABLED) *)
Lemma default_abi_threaded c pv : is_threaded (cpython_abis c pv) = abi_threading c pv.
Proof.
  destruct (cpython_abis_first c pv) as [more E]. rewrite E. cbn [is_threaded].
  rewrite threaded_abi_flags.
  - unfold abi_flags. destruct (abi_threading c pv), (abi_debug c), (abi_pymalloc c pv), (abi_ucs4 c pv); reflexivity.
  - unfold abi_flags. destruct (abi_threading c pv), (abi_debug c), (abi_pymalloc c pv), (abi_ucs4 c pv); reflexivity.
Qed.
Lemma cp_abis_default c pv : cp_abis (cpython_abis c pv) = cpython_abis c pv.
Proof.
  unfold cp_abis. assert (H : forall x, In x (cpython_abis c pv) -> exists r, x = s_cp ++ r).
  { unfold cpython_abis. cbv zeta. destruct (negb _ && _); cbn [In]; intros x [<-|[<-|[]]] || intros x [<-|[]]; eexists; reflexivity. }
  rewrite (remove_first_absent s_abi3) by (intros C; apply H in C as [r E]; discriminate).
  rewrite (remove_first_absent s_none) by (intros C; apply H in C as [r E]; discriminate). reflexivity.
Qed.
(* a free-threaded default configuration never gets abi3 tags; any other 3.2+ configuration does *)
Lemma default_use_abi3 c pv : cp_use_abi3 pv (cpython_abis c pv) = abi3_applies pv (abi_threading c pv).
Proof. unfold cp_use_abi3. now rewrite cp_abis_default, default_abi_threaded. Qed.

(* ---------------------------------------------------------------- sys_tags *)
Lemma sys_tags_cpython s plats : interpreter_name (impl_name s) = s_cp ->
  sys_tags s plats =
  SOk (cpython_tags (sys_version s) (default_abis (abi_cfg s) (sys_version s)) plats ++
       compatible_tags (sys_version s) (Some (s_cp ++ interpreter_version (py_version_nodot s) (sys_version s))) plats).
Proof. intros E. unfold sys_tags. cbv zeta. rewrite E. reflexivity. Qed.
Lemma sys_tags_generic s plats abis : interpreter_name (impl_name s) <> s_cp ->
  generic_abi (ext_suffix s) (abi_cfg s) (sys_version s) = GOk abis ->
  sys_tags s plats =
  SOk (generic_tags (interpreter_name (impl_name s) ++ interpreter_version (py_version_nodot s) (sys_version s)) abis plats ++
       compatible_tags (sys_version s) (if streq (interpreter_name (impl_name s)) s_pp then Some s_pp3 else None) plats).
Proof.
  intros N G. unfold sys_tags. cbv zeta. destruct (streq_spec (interpreter_name (impl_name s)) s_cp) as [E|_]; [contradiction|].
  rewrite G. reflexivity.
Qed.

Lemma starts_with_app' p s : starts_with p (p ++ s) = true.
Proof. induction p as [|c p IH]; [destruct s; reflexivity|]. cbn [app starts_with]. now rewrite N.eqb_refl, IH. Qed.
(* ---------------------------------------------------------------- _generic_abi on the CPython (non-Windows) EXT_SUFFIX form *)
Definition free_of (c : N) (w : str) : Prop := forallb (fun x => negb (x =? c)) w = true.
Lemma tsplit_nonnil c s : tsplit c s <> [].
Proof. destruct s as [|x s]; cbn [tsplit]; [discriminate|]. destruct (x =? c); [discriminate|]. destruct (tsplit c s); discriminate. Qed.
Lemma tsplit_word c w r : free_of c w -> tsplit c (w ++ c :: r) = w :: tsplit c r.
Proof.
  unfold free_of. induction w as [|x w IH]; cbn [app forallb]; intros H.
  - cbn [tsplit]. now rewrite N.eqb_refl.
  - apply andb_prop in H as [H1 H2]. apply negb_true_iff in H1. cbn [tsplit]. rewrite H1, IH by assumption. reflexivity.
Qed.
Lemma free_of_app c a b : free_of c a -> free_of c b -> free_of c (a ++ b).
Proof. unfold free_of. intros. rewrite forallb_app. now apply andb_true_intro. Qed.
Lemma normalize_id w : free_of 46 w -> free_of 45 w -> free_of 32 w -> normalize_string w = w.
Proof.
  unfold free_of, normalize_string. induction w as [|x w IH]; cbn [forallb map]; intros H1 H2 H3; [reflexivity|].
  apply andb_prop in H1 as [A1 B1]. apply andb_prop in H2 as [A2 B2]. apply andb_prop in H3 as [A3 B3].
  apply negb_true_iff in A1, A2, A3. unfold norm_char at 1. rewrite A1, A2, A3. cbn [orb]. now rewrite IH.
Qed.
(* EXT_SUFFIX = ".cpython-<X>-<platform>.<ext>"  =>  the ABI is "cp<X>" *)
Lemma generic_abi_cpython X plat ext c v :
  free_of 46 X -> free_of 45 X -> free_of 32 X -> free_of 46 plat ->
  generic_abi (Some ([46] ++ s_cpython ++ [45] ++ X ++ [45] ++ plat ++ [46] ++ ext)) c v = GOk [s_cp ++ X].
Proof.
  intros D1 D2 D3 P. set (soabi := s_cpython ++ [45] ++ X ++ [45] ++ plat).
  assert (F : free_of 46 soabi).
  { subst soabi. apply free_of_app; [reflexivity|]. apply free_of_app; [reflexivity|]. apply free_of_app; [assumption|]. apply free_of_app; [reflexivity|assumption]. }
  replace ([46] ++ s_cpython ++ [45] ++ X ++ [45] ++ plat ++ [46] ++ ext) with (46 :: soabi ++ 46 :: ext)
    by (subst soabi; repeat (first [rewrite <- app_assoc | progress cbn [app]]); reflexivity).
  unfold generic_abi. rewrite N.eqb_refl. cbn [negb]. cbn [tsplit]. rewrite N.eqb_refl. rewrite (tsplit_word 46 soabi ext F).
  pose proof (tsplit_nonnil 46 ext) as NE. destruct (tsplit 46 ext) as [|p ps] eqn:E; [congruence|].
  cbn [length Nat.ltb Nat.leb nth]. subst soabi. rewrite starts_with_app'.
  change (s_cpython ++ [45] ++ X ++ [45] ++ plat) with (s_cpython ++ 45 :: X ++ 45 :: plat).
  rewrite (tsplit_word 45 s_cpython (X ++ 45 :: plat)) by reflexivity. rewrite (tsplit_word 45 X plat D2).
  rewrite normalize_id; [reflexivity| | |]; apply free_of_app; auto; reflexivity.
Qed.
