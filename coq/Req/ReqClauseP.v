(* C12 (requirement side): a version clause inside a requirement is accepted iff Specifier accepts it.
   For a clause text cl that starts with an operator character, has no surrounding whitespace, no comma and no ";":
       Specifier cl = Some sp   <->   Requirement (name ++ cl) = a requirement whose clause list is exactly [sp]
   (the comma / ";" exclusions are the list and marker separators of PEP 508: "===a,b" is ONE Specifier but a two-item clause list). *)
From Coq Require Import List Arith NArith Bool Lia Permutation.
Import ListNotations.
Require Import MText MkModel.
Require Names.
Require Import VParse VComplete VTop VTop2 SpecParse SpecSound SpecContains Py Canon Order SortPerm.
Require Import ReqModel ReqSpec ReqScanP ReqTokP ReqListP ReqMarkP ReqParseP ReqSetP ReqTopP ReqEqP ReqSoundP ReqRoundP ReqCanonP.
Open Scope N_scope.
Arguments N.eqb : simpl never.
Arguments N.leb : simpl never.

(* the first character of an operator: ~ = ! < > *)
Definition rq_op_start (c : N) : bool := (c =? 126) || (c =? 61) || (c =? 33) || (c =? 60) || (c =? 62).
Definition rq_no_semi (s : list N) : bool := forallb (fun c => negb (c =? 59)) s.

Lemma op_start_cases c : rq_op_start c = true -> c = 126 \/ c = 61 \/ c = 33 \/ c = 60 \/ c = 62.
Proof.
  unfold rq_op_start. intros H. repeat (apply orb_prop in H as [H|H]; [|apply N.eqb_eq in H; auto 6]). apply N.eqb_eq in H. auto 6.
Qed.

(* ---- str.strip() fixes s: no whitespace at either end ---- *)
Lemma lstrip_hd s : match rq_lstrip s with [] => True | c :: _ => is_ws c = false end.
Proof. induction s as [|c s IH]; cbn [rq_lstrip]; auto. destruct (is_ws c) eqn:E; auto. Qed.
Lemma strip_fixed_last s : rq_strip s = s -> s <> [] -> is_ws (last s 0) = false.
Proof.
  intros E Hs. rewrite last_rev_hd. unfold rq_strip in E. apply (f_equal (@rev N)) in E. rewrite rev_involutive in E.
  rewrite <- E. pose proof (lstrip_hd (rev (rq_lstrip s))) as H.
  destruct (rq_lstrip (rev (rq_lstrip s))) as [|c t] eqn:L; [|exact H].
  exfalso. apply Hs. apply (f_equal (@rev N)) in E. rewrite rev_involutive in E. now rewrite <- E.
Qed.
Lemma ws_tail_nil (a w : list N) : is_ws (last (a ++ w) 0) = false -> forallb is_ws w = true -> w = [].
Proof.
  intros H Hw. destruct w as [|c w']; auto. exfalso. rewrite last_app_ne in H by discriminate.
  assert (Hin : In (last (c :: w') 0) (c :: w')).
  { clear. revert c. induction w' as [|d t IH]; intros c; [left; reflexivity|]. right. apply IH. }
  rewrite forallb_forall in Hw. rewrite (Hw _ Hin) in H. discriminate.
Qed.

(* ------------------------------------------------------------------ Specifier accepts -> the requirement has exactly it ------ *)
Lemma Specifier_shape cl sp : hd_is rq_op_start cl = true -> rq_strip cl = cl -> Specifier cl = Some sp ->
  exists ws b, cl = op_txt (sp_op sp) ++ ws ++ sp_text sp /\ forallb is_ws ws = true /\
               p_body (sp_op sp) (sp_text sp) = Some (b, []) /\ (sp_text sp = [] -> ws = []).
Proof.
  intros Hh Hs. unfold Specifier. destruct (parse_specifier cl) as [ps|] eqn:P; [|discriminate]. intros [= <-]. cbn [sp_op sp_text].
  pose proof (C12_spec_sound cl ps P) as (_ & _ & Hws & _ & _).
  unfold parse_specifier in P.
  assert (S0 : VParse.span is_ws cl = ([], cl)).
  { apply span_none. destruct cl as [|c t]; [discriminate|]. cbn in *. apply op_start_cases in Hh.
    destruct Hh as [->|[->|[->|[->| ->]]]]; reflexivity. }
  rewrite S0 in P. apply try_ops_sound in P as (s2 & Hb & Hwr & Ecl).
  pose proof (p_body_sound _ _ _ _ Hb) as [E2 _]. subst s2.
  assert (Hne : cl <> []) by (intros ->; discriminate Hh).
  pose proof (strip_fixed_last cl Hs Hne) as HL.
  assert (Hb' : p_body (s_op ps) (r_body (s_body ps)) = Some (s_body ps, [])) by exact (body_restrict _ _ _ _ Hwr Hb).
  destruct (r_body (s_body ps)) as [|c0 t0] eqn:Eb.
  - (* empty text: everything after the operator is whitespace, so there is nothing *)
    cbn [app] in Ecl.
    assert (W : s_ws ps ++ s_wr ps = []).
    { apply (ws_tail_nil (op_txt (s_op ps))); [now rewrite <- Ecl|]. rewrite forallb_app. unfold all_ws in Hwr. now rewrite Hws, Hwr. }
    apply app_eq_nil in W as [W1 W2]. exists [], (s_body ps). rewrite Ecl, W1, W2. repeat split; auto.
  - rewrite <- Eb in *.
    assert (W : s_wr ps = []).
    { apply (ws_tail_nil (op_txt (s_op ps) ++ s_ws ps ++ r_body (s_body ps))); [|exact Hwr]. now rewrite <- !app_assoc, <- Ecl. }
    exists (s_ws ps), (s_body ps). rewrite Ecl, W, app_nil_r. repeat split; auto. rewrite Eb. discriminate.
Qed.

Definition rq_only_clause (name : list N) (sp : specifier) : requirement :=
  {| q_name := name; q_extras := []; q_specs := [sp]; q_url := None; q_marker := None |}.

Lemma no_comma_parts (a b : list N) : rq_no_comma (a ++ b) = true -> rq_no_comma b = true.
Proof. unfold rq_no_comma. rewrite forallb_app. intros H. now apply andb_prop in H. Qed.

Theorem clause_accepted name cl sp : rq_valid_ident name = true -> hd_is rq_op_start cl = true -> rq_strip cl = cl ->
  rq_no_comma cl = true -> Specifier cl = Some sp -> Requirement (name ++ cl) = RqOk (rq_only_clause name sp).
Proof.
  intros Hn Hh Hs Hc HS. destruct (Specifier_shape cl sp Hh Hs HS) as (ws & b & Ecl & Hws & Hb & Hemp).
  assert (Hct : rq_no_comma (sp_text sp) = true).
  { rewrite Ecl in Hc. apply no_comma_parts in Hc. now apply no_comma_parts in Hc. }
  destruct (sp_text sp) as [|c0 t0] eqn:Et.
  - (* "===" alone *)
    rewrite (Hemp eq_refl), app_nil_r in Ecl.
    assert (OK : rq_spec_ok sp) by (split; [exists b; now rewrite Et|now rewrite Et]).
    assert (Estr : spec_str sp = cl) by (unfold spec_str; now rewrite Et, app_nil_r).
    pose proof (parse_canon name [] [sp] None None Hn (Forall_nil _) (Forall_cons _ OK (Forall_nil _)) I) as PC.
    cbn [rq_extras_text map rq_join mk_text app] in PC. rewrite app_nil_r, Estr in PC.
    unfold Requirement. rewrite PC. cbn [pr_spec pr_name pr_url pr_extras pr_marker].
    pose proof (specset_canon [sp] (Forall_cons _ OK (Forall_nil _))) as SC. cbn [map rq_join] in SC. rewrite Estr in SC. rewrite SC. reflexivity.
  - rewrite <- Et in *.
    set (c := {| c_op := sp_op sp; c_ws := ws; c_body := b |}).
    pose proof (p_body_sound _ _ _ _ Hb) as [Eb _]. rewrite app_nil_r in Eb.
    assert (W : rq_wf_clause c).
    { unfold rq_wf_clause, c. cbn [c_op c_ws c_body]. rewrite <- Eb. repeat split; auto; try (rewrite Et; discriminate). }
    assert (Tx : rq_clause_text c = cl) by (unfold rq_clause_text, c; cbn [c_op c_ws c_body]; now rewrite <- Eb).
    assert (Sp : rq_clause_spec c = sp) by (unfold rq_clause_spec, c; cbn [c_op c_body]; rewrite <- Eb; destruct sp; reflexivity).
    set (spl := {| rs_w0 := []; rs_name := name; rs_w1 := []; rs_extras := None; rs_w2 := [];
                   rs_body := SB_clauses None [([], c, [])]; rs_w3 := []; rs_marker := None |}).
    assert (Wf : rq_wf spl None).
    { unfold rq_wf, spl. cbn [rs_w0 rs_name rs_w1 rs_extras rs_w2 rs_body rs_w3 rs_marker rq_wf_body rq_no_d7].
      repeat split; auto. all: try (constructor; [|constructor]; split; [reflexivity|exact W]). }
    pose proof (Requirement_render spl None Wf I) as R.
    unfold rq_render, spl in R. cbn [rs_w0 rs_name rs_w1 rs_extras rs_w2 rs_body rs_w3 rs_marker rq_body_text app] in R.
    unfold rq_items_text in R. cbn [map rq_join rq_item_text app] in R. rewrite !app_nil_r, Tx in R. rewrite R.
    unfold rq_denotes, rq_only_clause, rq_sp_extras, rq_sp_clauses, rq_sp_url, rq_opt_url.
    cbn [rs_name rs_extras rs_body map rq_item_val fst snd option_map]. now rewrite Sp.
Qed.

(* ------------------------------------------------------------------ the requirement is accepted -> Specifier accepts -------- *)
Lemma skip_ws_rest s : exists w, rest s = w ++ rest (skip_ws s) /\ forallb is_wsb w = true.
Proof.
  unfold skip_ws. destruct (mspan_sound is_wsb (rest s)) as [H1 H2]. destruct (MText.span is_wsb (rest s)) as [w r'].
  cbn [fst snd adv rest] in *. exists w. auto.
Qed.
Lemma wsb_ws c : is_wsb c = true -> is_ws c = true.
Proof. unfold is_wsb. intros H. apply orb_prop in H as [H|H]; apply N.eqb_eq in H; subst; reflexivity. Qed.
Lemma forallb_wsb_ws w : forallb is_wsb w = true -> forallb is_ws w = true.
Proof. rewrite !forallb_forall. intros H c Hc. apply wsb_ws. auto. Qed.
Lemma no_comma_skipn n (s : list N) : rq_no_comma s = true -> rq_no_comma (skipn n s) = true.
Proof.
  intros H. rewrite <- (firstn_skipn n s) in H. now apply no_comma_parts in H.
Qed.
Lemma no_semi_parts (a b : list N) : rq_no_semi (a ++ b) = true -> rq_no_semi b = true.
Proof. unfold rq_no_semi. rewrite forallb_app. intros H. now apply andb_prop in H. Qed.
Lemma no_comma_hd p s : rq_no_comma s = true -> rq_is_hd 44 {| prev := p; rest := s |} = false.
Proof. destruct s as [|c t]; [reflexivity|]. unfold rq_no_comma, rq_is_hd. cbn. intros H. apply andb_prop in H as [H _]. now apply negb_true_iff in H. Qed.
Lemma no_semi_hd p s : rq_no_semi s = true -> rq_is_hd 59 {| prev := p; rest := s |} = false.
Proof. destruct s as [|c t]; [reflexivity|]. unfold rq_no_semi, rq_is_hd. cbn. intros H. apply andb_prop in H as [H _]. now apply negb_true_iff in H. Qed.
Lemma at_end_ws s : rq_at_end s = true -> forallb is_ws (rest s) = true.
Proof.
  unfold rq_at_end. destruct (rest s) as [|c [|d t]]; try discriminate; auto. intros H. apply N.eqb_eq in H. subst. reflexivity.
Qed.
Lemma st_eta (s : st) : s = {| prev := prev s; rest := rest s |}.
Proof. destruct s; reflexivity. Qed.

(* after the name: the clause text is read as ONE token that covers it completely *)
Lemma clause_details_inv p cl x s' : hd_is rq_op_start cl = true -> rq_strip cl = cl -> rq_no_comma cl = true -> rq_no_semi cl = true ->
  rq_details {| prev := p; rest := cl |} = Some (x, s') -> x = ([], cl, None).
Proof.
  intros Hh Hs Hc Hsemi. destruct cl as [|c0 cl0] eqn:Ecl; [discriminate|]. rewrite <- Ecl in *.
  assert (Hop : rq_op_start c0 = true) by (rewrite Ecl in Hh; exact Hh).
  assert (NB : nbhead cl) by (rewrite Ecl; cbn; apply op_start_cases in Hop; destruct Hop as [->|[->|[->|[->| ->]]]]; reflexivity).
  assert (H64 : rq_is_hd 64 {| prev := p; rest := cl |} = false)
    by (rewrite Ecl; unfold rq_is_hd; cbn; apply op_start_cases in Hop; destruct Hop as [->|[->|[->|[->| ->]]]]; reflexivity).
  assert (H40 : rq_is_hd 40 {| prev := p; rest := cl |} = false)
    by (rewrite Ecl; unfold rq_is_hd; cbn; apply op_start_cases in Hop; destruct Hop as [->|[->|[->|[->| ->]]]]; reflexivity).
  assert (AE : forall q, rq_at_end {| prev := q; rest := cl |} = false).
  { intros q. rewrite Ecl. apply at_end_cons. apply op_start_cases in Hop; destruct Hop as [->|[->|[->|[->| ->]]]]; reflexivity. }
  unfold rq_details. rewrite H64. unfold rq_specifier. rewrite H40. rewrite skip_ws_id by exact NB. cbn [rest length rq_version_many].
  destruct (rq_spec_tok {| prev := p; rest := cl |}) as [[tok s1]|] eqn:Tk.
  2:{ rewrite !skip_ws_id by exact NB. unfold rq_end_or_marker. rewrite AE. unfold rq_req_marker. rewrite (no_semi_hd _ _ Hsemi). discriminate. }
  unfold rq_spec_tok in Tk. cbn [rest] in Tk. destruct (rq_spec_len cl) as [n|]; [|discriminate]. injection Tk as <- <-.
  destruct (_ || _); [discriminate|]. unfold adv. cbn [prev].
  set (s1 := {| prev := last_opt p (firstn n cl); rest := skipn n cl |}).
  assert (Cs1 : rq_no_comma (rest s1) = true) by (cbn [rest s1]; now apply no_comma_skipn).
  assert (Ss1 : rq_no_semi (rest s1) = true) by (cbn [rest s1]; rewrite <- (firstn_skipn n cl) in Hsemi; now apply no_semi_parts in Hsemi).
  destruct (skip_ws_rest s1) as (w1 & E1 & W1).
  assert (C2 : rq_no_comma (rest (skip_ws s1)) = true) by (rewrite E1 in Cs1; now apply no_comma_parts in Cs1).
  change {| prev := last_opt p (firstn n cl); rest := skipn n cl |} with s1.
  rewrite (st_eta (skip_ws s1)) at 1. rewrite (no_comma_hd _ _ C2). cbn [app].
  destruct (skip_ws_rest (skip_ws s1)) as (w2 & E2 & W2).
  destruct (skip_ws_rest (skip_ws (skip_ws s1))) as (w3 & E3 & W3).
  set (s4 := skip_ws (skip_ws (skip_ws s1))) in *.
  assert (S4 : rq_no_semi (rest s4) = true).
  { rewrite E1, E2, E3 in Ss1. now do 3 apply no_semi_parts in Ss1. }
  unfold rq_end_or_marker. destruct (rq_at_end s4) eqn:A4.
  2:{ unfold rq_req_marker. rewrite (st_eta s4) at 1. rewrite (no_semi_hd _ _ S4). discriminate. }
  intros [= <- _]. f_equal. f_equal.
  (* everything after the token is whitespace; the text has none at its end *)
  assert (WR : forallb is_ws (skipn n cl) = true).
  { change (skipn n cl) with (rest s1). rewrite E1, E2, E3. rewrite !forallb_app. unfold MText.str, MText.char in *.
    rewrite (forallb_wsb_ws _ W1), (forallb_wsb_ws _ W2), (forallb_wsb_ws _ W3), (at_end_ws _ A4). reflexivity. }
  assert (Hne : cl <> []) by (rewrite Ecl; discriminate).
  pose proof (strip_fixed_last cl Hs Hne) as HL. rewrite <- (firstn_skipn n cl) in HL.
  pose proof (ws_tail_nil _ _ HL WR) as Z. rewrite <- (firstn_skipn n cl) at 2. rewrite Z. now rewrite app_nil_r.
Qed.

Lemma op_start_nihead cl : hd_is rq_op_start cl = true -> nihead cl /\ nbhead cl /\ forall p, rq_is_hd 91 {| prev := p; rest := cl |} = false.
Proof.
  destruct cl as [|c t]; [discriminate|]. cbn [hd_is nihead nbhead]. intros H. apply op_start_cases in H.
  destruct H as [->|[->|[->|[->| ->]]]]; repeat split; reflexivity.
Qed.

Theorem clause_requirement_inv name cl r : rq_valid_ident name = true -> hd_is rq_op_start cl = true -> rq_strip cl = cl ->
  rq_no_comma cl = true -> rq_no_semi cl = true -> Requirement (name ++ cl) = RqOk r ->
  exists sp, Specifier cl = Some sp /\ r = rq_only_clause name sp.
Proof.
  intros Hn Hh Hs Hc Hsemi. destruct (op_start_nihead cl Hh) as (NI & NB & H91).
  unfold Requirement. destruct (rq_parse (name ++ cl)) as [p|] eqn:P; [|discriminate].
  unfold rq_parse in P. rewrite skip_ws_id in P by (apply valid_ident_head; auto).
  rewrite rq_ident_ok in P by auto. rewrite skip_ws_id in P by exact NB.
  rewrite (extras_absent _ (H91 _)) in P. rewrite skip_ws_id in P by exact NB.
  destruct (rq_details _) as [[x s']|] eqn:D; [|discriminate].
  apply clause_details_inv in D; auto. subst x. destruct (rq_at_end s'); [|discriminate]. injection P as <-.
  cbn [pr_spec pr_name pr_url pr_extras pr_marker].
  assert (Pc : rq_pieces cl = [cl]).
  { unfold rq_pieces. rewrite (split_no_comma cl Hc). cbn [map filter]. rewrite Hs. destruct cl; [discriminate|reflexivity]. }
  unfold rq_specset. rewrite Pc. cbn [map rq_all_some]. destruct (Specifier cl) as [sp|]; [|discriminate].
  cbn [option_map]. intros [= <-]. exists sp. auto.
Qed.

(* ------------------------------------------------------------------ C12: clause in a requirement <-> Specifier -------------- *)
Theorem clause_in_requirement name cl sp : rq_valid_ident name = true -> hd_is rq_op_start cl = true -> rq_strip cl = cl ->
  rq_no_comma cl = true -> rq_no_semi cl = true ->
  (Specifier cl = Some sp <-> exists r, Requirement (name ++ cl) = RqOk r /\ q_specs r = [sp]).
Proof.
  intros Hn Hh Hs Hc Hsemi. split.
  - intros H. exists (rq_only_clause name sp). split; [now apply clause_accepted|reflexivity].
  - intros (r & H & Q). destruct (clause_requirement_inv name cl r Hn Hh Hs Hc Hsemi H) as (sp' & E & ->).
    cbn in Q. congruence.
Qed.
(* acceptance alone: the requirement is accepted iff the Specifier is *)
Corollary clause_accept_iff name cl : rq_valid_ident name = true -> hd_is rq_op_start cl = true -> rq_strip cl = cl ->
  rq_no_comma cl = true -> rq_no_semi cl = true ->
  ((exists sp, Specifier cl = Some sp) <-> exists r, Requirement (name ++ cl) = RqOk r).
Proof.
  intros Hn Hh Hs Hc Hsemi. split.
  - intros [sp H]. exists (rq_only_clause name sp). now apply clause_accepted.
  - intros [r H]. destruct (clause_requirement_inv name cl r Hn Hh Hs Hc Hsemi H) as (sp & E & _). eauto.
Qed.
(* the form sketched in the C12 audit (name "x") *)
Corollary clause_in_requirement_x cl sp : hd_is rq_op_start cl = true -> rq_strip cl = cl -> rq_no_comma cl = true -> rq_no_semi cl = true ->
  (Specifier cl = Some sp <-> exists r, Requirement (120 :: cl) = RqOk r /\ q_specs r = [sp]).
Proof. exact (clause_in_requirement [120] cl sp eq_refl). Qed.
Print Assumptions clause_in_requirement.

(* non-vacuity: ">= 1.0rc1", "===" (empty text), "==1.*" are accepted on both sides; "===a)", ">=1.0+x", "~=1" rejected on both *)
Definition cir_ok (cl : list N) : bool :=
  hd_is rq_op_start cl && rq_str_eqb (rq_strip cl) cl && rq_no_comma cl && rq_no_semi cl &&
  match Specifier cl, Requirement (120 :: cl) with
  | Some sp, RqOk r => match q_specs r with [sp'] => rq_str_eqb (spec_str sp) (spec_str sp') | _ => false end
  | None, RqInvalid => true
  | _, _ => false
  end.
Definition cir_check : bool :=
  cir_ok [62;61;32;49;46;48;114;99;49] && cir_ok [61;61;61] && cir_ok [61;61;49;46;42] &&
  cir_ok [61;61;61;97;41] && cir_ok [62;61;49;46;48;43;120] && cir_ok [126;61;49].
Example cir_check_ok : cir_check = true.
Proof. vm_compute. reflexivity. Qed.
