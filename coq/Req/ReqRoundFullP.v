(* C08 proofs, part 12: the str round trip for every constructed requirement, with the marker side discharged by the marker
   domain's theorem MkRoundP.parsed_marker_roundtrip (C09).  The only remaining hypothesis is the known gap D7 (rq_no_gap). *)
From Coq Require Import List NArith Bool.
Import ListNotations.
Require Import MText MkModel MkRoundP.
Require Import ReqModel ReqRoundP.
Open Scope N_scope.

Lemma c09_holds : rq_c09_roundtrip.
Proof. intros fuel s m0 s' P L. exact (parsed_marker_roundtrip fuel s m0 s' P L). Qed.

Theorem str_roundtrip_full src r : Requirement src = RqOk r -> rq_no_gap r ->
  exists r', Requirement (req_str r) = RqOk r' /\ req_eq r r' = true /\ req_str r' = req_str r.
Proof. exact (str_roundtrip_given_c09 c09_holds src r). Qed.
Print Assumptions str_roundtrip_full.
