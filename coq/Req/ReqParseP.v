(* C08 proofs, part 5: parse_requirement recovers the parts of every well-formed spelled requirement, for every blank layout. *)
From Coq Require Import List Arith NArith Bool Lia.
Import ListNotations.
Require Import MText MRound.
Require Import VParse SpecParse SpecSound SpecContains ReqModel ReqSpec ReqScanP ReqTokP ReqListP ReqMarkP.
Open Scope N_scope.
Arguments N.eqb : simpl never.
Arguments N.leb : simpl never.

(* the text of the optional marker and what it must be read as *)
Definition mk_text (mk : option (list N)) : list N := match mk with None => [] | Some mt => 59 :: mt end.
Definition mk_rel (mk : option (list N)) (m : option (list elem)) : Prop :=
  match mk, m with None, None => True | Some mt, Some m' => MText.parse_marker mt = Some m' | _, _ => False end.
Lemma mk_tail mk : rq_tail (mk_text mk).
Proof. destruct mk; cbn; auto. Qed.

Lemma match_nonempty {A B} (u : list A) (X : option B) : u <> [] -> match u with [] => None | _ :: _ => X end = X.
Proof. destruct u; congruence. Qed.
Lemma at_end_nil q : rq_at_end {| prev := q; rest := [] |} = true.
Proof. reflexivity. Qed.
Lemma at_end_cons q c X : (c =? 10) = false -> rq_at_end {| prev := q; rest := c :: X |} = false.
Proof. unfold rq_at_end. cbn [rest]. intros ->. destruct X; reflexivity. Qed.

Lemma end_or_marker_ok u spc q mk m : mk_rel mk m ->
  exists q', rq_end_or_marker u spc {| prev := q; rest := mk_text mk |} = Some ((u, spc, m), {| prev := q'; rest := [] |}).
Proof.
  unfold rq_end_or_marker. destruct mk as [mt|], m as [m'|]; cbn [mk_rel mk_text]; try contradiction.
  - intros H. rewrite at_end_cons by reflexivity. destruct (req_marker_ok q mt m' H) as [q' E].
    unfold MText.str, MText.char in *. rewrite E. eexists. reflexivity.
  - intros _. rewrite at_end_nil. eexists. reflexivity.
Qed.

Definition body_url (b : rq_sbody) : list N := match b with SB_url _ u => u | _ => [] end.
Definition body_clauses (b : rq_sbody) : list rq_clause := match b with SB_clauses _ items => map rq_item_val items | SB_url _ _ => [] end.

Lemma blank_head_cases w X (P : N -> Prop) : rq_blank w = true -> P 32 -> P 9 -> (match X with c :: _ => P c | [] => True end) ->
  match w ++ X with c :: _ => P c | [] => True end.
Proof.
  intros Hw P32 P9 HX. destruct w as [|c w']; cbn [app]; auto. cbn [rq_blank forallb] in Hw. apply andb_prop in Hw as [Hc _].
  unfold is_wsb in Hc. apply orb_prop in Hc as [Hc|Hc]; apply N.eqb_eq in Hc; subst; auto.
Qed.

(* requirement_details, entered after the blanks w (whatever precedes) have been skipped *)
Lemma details_ok b mk m w3 p w :
  rq_blank w = true -> rq_blank w3 = true -> rq_wf_body b (match mk with Some _ => true | None => false end) w3 -> mk_rel mk m ->
  let s' := skip_ws {| prev := p; rest := w ++ rq_body_text b ++ w3 ++ mk_text mk |} in
  rq_is_hd 91 s' = false /\ skip_ws s' = s' /\
  exists q, rq_details s' = Some ((body_url b, rq_join [44] (map rq_clause_text (body_clauses b)), m), {| prev := q; rest := [] |}).
Proof.
  intros Hw Hw3 Wb Hm. destruct b as [paren items|wu u]; cbn [rq_wf_body] in Wb.
  - destruct Wb as (Hp & Hall & Hd7). cbn [body_url body_clauses].
    destruct paren as [wp|]; cbn [rq_body_text].
    + (* "(" wp items ")" *)
      cbv zeta. cbn [app]. rewrite <- !app_assoc. cbn [app].
      rewrite skip_ws_app by (auto; reflexivity). rewrite is_hd_cons. lit_eqb. rewrite skip_ws_id by reflexivity.
      split; [reflexivity|]. split; [reflexivity|].
      unfold rq_details. rewrite is_hd_cons. lit_eqb. unfold rq_specifier. rewrite is_hd_cons. lit_eqb. rewrite drop1_cons. cbn [rest].
      destruct items as [|[[a c] b] more].
      * unfold rq_items_text. cbn [map rq_join app].
        rewrite skip_ws_app by (auto; reflexivity).
        rewrite version_many_empty by (cbn; auto; lia).
        rewrite skip_ws_id by reflexivity. rewrite is_hd_cons. lit_eqb. rewrite drop1_cons.
        rewrite skip_ws_app by (auto; apply tail_nbhead, mk_tail).
        apply end_or_marker_ok; auto.
      * inversion Hall as [|? ? [Hi Wc] Hall']; subst. apply item_blank_split in Hi as [Ha Hb]. cbn [rq_item_val fst snd] in Wc.
        rewrite items_text_cons. rewrite <- !app_assoc. rewrite (app_assoc wp a).
        rewrite skip_ws_app by (try apply blank_app; auto; apply clause_head).
        assert (Hd7' : rq_no_d7 (([], c, b) :: more)) by (destruct more; cbn [rq_no_d7] in *; auto).
        match goal with |- context [rq_version_many ?fu [] _] =>
          destruct (version_many_ok more c b [] (last_opt (Some 40) (wp ++ a)) [] (41 :: w3 ++ mk_text mk) fu Wc Hb Hall' Hd7' eq_refl) as [q E] end.
        { cbn; auto. }
        { pose proof (rest_text_len rq_clause_text b more). cbn [length]. rewrite !app_length. cbn [length]. rewrite ?app_length. lia. }
        cbn [app] in E. unfold MText.str, MText.char in *. rewrite E. cbn [app].
        rewrite skip_ws_id by reflexivity. rewrite is_hd_cons. lit_eqb. rewrite drop1_cons.
        rewrite skip_ws_app by (auto; apply tail_nbhead, mk_tail).
        apply end_or_marker_ok; auto.
    + (* no parentheses *)
      destruct items as [|[[a c] b] more].
      * unfold rq_items_text. cbn [map rq_join app]. cbv zeta. rewrite app_assoc.
        rewrite skip_ws_app by (try apply blank_app; auto; apply tail_nbhead, mk_tail).
        assert (H91 : rq_is_hd 91 {| prev := last_opt p (w ++ w3); rest := mk_text mk |} = false) by (destruct mk; reflexivity).
        assert (H64 : rq_is_hd 64 {| prev := last_opt p (w ++ w3); rest := mk_text mk |} = false) by (destruct mk; reflexivity).
        assert (H40 : rq_is_hd 40 {| prev := last_opt p (w ++ w3); rest := mk_text mk |} = false) by (destruct mk; reflexivity).
        rewrite skip_ws_id by (apply tail_nbhead, mk_tail). split; auto. split; auto.
        unfold rq_details. rewrite H64. unfold rq_specifier. rewrite H40.
        rewrite skip_ws_id by (apply tail_nbhead, mk_tail).
        rewrite version_many_empty by (try apply mk_tail; lia).
        rewrite !skip_ws_id by (apply tail_nbhead, mk_tail).
        apply end_or_marker_ok; auto.
      * inversion Hall as [|? ? [Hi Wc] Hall']; subst. apply item_blank_split in Hi as [Ha Hb]. cbn [rq_item_val fst snd] in Wc.
        rewrite items_text_cons. cbv zeta. rewrite <- !app_assoc. rewrite (app_assoc w a).
        rewrite skip_ws_app by (try apply blank_app; auto; apply clause_head).
        destruct (clause_head c (rq_rest_text rq_clause_text b more ++ w3 ++ mk_text mk)) as [NB HD].
        destruct (rq_clause_text c ++ rq_rest_text rq_clause_text b more ++ w3 ++ mk_text mk) as [|d r] eqn:Er; [contradiction|].
        destruct HD as (H64 & H40 & H91).
        rewrite skip_ws_id by exact NB. rewrite is_hd_cons, H91. split; auto. split; auto.
        unfold rq_details. rewrite is_hd_cons, H64. unfold rq_specifier. rewrite is_hd_cons, H40.
        rewrite skip_ws_id by exact NB. cbn [rest]. rewrite <- Er.
        assert (Hd7' : rq_no_d7 (([], c, b) :: more)) by (destruct more; cbn [rq_no_d7] in *; auto).
        match goal with |- context [rq_version_many ?fu [] _] =>
          destruct (version_many_ok more c b [] (last_opt p (w ++ a)) w3 (mk_text mk) fu Wc Hb Hall' Hd7' Hw3 (mk_tail mk)) as [q E] end.
        { pose proof (rest_text_len rq_clause_text b more). rewrite !app_length. lia. }
        cbn [app] in E. unfold MText.str, MText.char in *. rewrite E. cbn [app].
        rewrite !skip_ws_id by (apply tail_nbhead, mk_tail).
        apply end_or_marker_ok; auto.
  - (* "@" wu url *)
    destruct Wb as (Hwu & Hu & Hnb & Hsep). cbn [body_url body_clauses rq_body_text map rq_join]. cbv zeta.
    cbn [app]. rewrite <- !app_assoc. cbn [app].
    rewrite skip_ws_app by (auto; reflexivity). rewrite is_hd_cons. lit_eqb. rewrite skip_ws_id by reflexivity.
    split; [reflexivity|]. split; [reflexivity|].
    unfold rq_details. rewrite is_hd_cons. lit_eqb. rewrite drop1_cons.
    destruct u as [|c0 u'] eqn:Eu; [congruence|]. rewrite <- Eu in *.
    assert (NBu : forall X, nbhead (u ++ X)).
    { intros X. rewrite Eu. cbn. rewrite Eu in Hnb. cbn [forallb] in Hnb. apply andb_prop in Hnb as [Hc _]. unfold rq_not_blank in Hc. now apply negb_true_iff in Hc. }
    rewrite skip_ws_app by (auto; apply NBu). cbn [rest].
    assert (SP : MText.span rq_not_blank (u ++ w3 ++ mk_text mk) = (u, w3 ++ mk_text mk)).
    { apply mspan_app; auto. destruct w3 as [|d w3'].
      - destruct mk; [now destruct (Hsep eq_refl)|]. exact I.
      - cbn [app]. cbn [rq_blank forallb] in Hw3. apply andb_prop in Hw3 as [Hd _]. unfold rq_not_blank. now rewrite Hd. }
    unfold MText.str, MText.char in *. rewrite SP.
    rewrite match_nonempty by (rewrite Eu; discriminate).
    unfold adv. cbn [prev rest].
    destruct w3 as [|d w3'] eqn:Ew3.
    + destruct mk; [now destruct (Hsep eq_refl)|]. destruct m; [contradiction|]. cbn [app mk_text]. rewrite at_end_nil. eexists. reflexivity.
    + rewrite <- Ew3 in *.
      assert (Hd : is_wsb d = true) by (rewrite Ew3 in Hw3; cbn [rq_blank forallb] in Hw3; now apply andb_prop in Hw3).
      assert (AE : forall q, rq_at_end {| prev := q; rest := w3 ++ mk_text mk |} = false).
      { intros q. rewrite Ew3. cbn [app]. apply at_end_cons. unfold is_wsb in Hd. apply orb_prop in Hd as [Hd|Hd]; apply N.eqb_eq in Hd; subst; reflexivity. }
      rewrite AE.
      rewrite (mspan_app is_wsb w3 (mk_text mk) Hw3 (tail_nbhead _ (mk_tail mk))).
      rewrite match_nonempty by (rewrite Ew3; discriminate).
      apply end_or_marker_ok; auto.
Qed.

(* ------------------------------------------------------------------ the whole requirement ------------------------------- *)
Theorem parse_render sp m : rq_wf sp m -> rq_parse (rq_render sp) = Some (rq_expected sp m).
Proof.
  intros (H0 & H1 & H2 & H3 & Hn & Hex & Hb & Hm).
  assert (Hm' : mk_rel (rs_marker sp) m) by exact Hm.
  unfold rq_parse, rq_render.
  change (match rs_marker sp with None => [] | Some mt => 59 :: mt end) with (mk_text (rs_marker sp)).
  destruct (rs_extras sp) as [[we items]|] eqn:Eex.
  - destruct Hex as [Hwe Hitems].
    rewrite skip_ws_app by (auto; apply valid_ident_head; auto).
    rewrite <- ?app_assoc.
    rewrite rq_ident_ok; auto.
    2:{ apply blank_nonword; auto. }
    2:{ apply (blank_head_cases (rs_w1 sp) _ (fun c => rq_is_ident c = false)); auto; reflexivity. }
    cbn [app]. rewrite skip_ws_app by (auto; reflexivity).
    rewrite <- ?app_assoc. cbn [app].
    rewrite (extras_ok _ we items _ Hwe).
    2:{ eapply Forall_impl; [|exact Hitems]. intros i Hi. exact Hi. }
    destruct (details_ok (rs_body sp) (rs_marker sp) m (rs_w3 sp) (Some 93) (rs_w2 sp) H2 H3 Hb Hm') as (_ & _ & q & E).
    cbv zeta in E. unfold MText.str, MText.char in *. rewrite E. rewrite at_end_nil.
    unfold rq_expected, rq_sp_extras, rq_sp_url, rq_sp_clauses. rewrite Eex.
    destruct (rs_body sp); reflexivity.
  - rewrite skip_ws_app by (auto; apply valid_ident_head; auto).
    rewrite <- ?app_assoc. cbn [app].
    destruct (details_ok (rs_body sp) (rs_marker sp) m (rs_w3 sp) (last_opt (last_opt None (rs_w0 sp)) (rs_name sp)) (rs_w1 sp ++ rs_w2 sp)
                (blank_app _ _ H1 H2) H3 Hb Hm') as (N91 & Sid & q & E).
    cbv zeta in N91, Sid, E. rewrite <- ?app_assoc in N91, Sid, E.
    assert (NI : nihead (rs_w1 sp ++ rs_w2 sp ++ rq_body_text (rs_body sp) ++ rs_w3 sp ++ mk_text (rs_marker sp))).
    { apply (blank_head_cases (rs_w1 sp) _ (fun c => rq_is_ident c = false)); auto.
      apply (blank_head_cases (rs_w2 sp) _ (fun c => rq_is_ident c = false)); auto.
      destruct (rs_body sp) as [[wp|] items|wu u]; cbn [rq_body_text app]; auto.
      destruct items as [|[[a c] b] more].
      + unfold rq_items_text. cbn [map rq_join app].
        apply (blank_head_cases (rs_w3 sp) _ (fun c => rq_is_ident c = false)); auto. destruct (rs_marker sp); cbn; auto.
      + rewrite items_text_cons. cbn [rq_wf_body] in Hb. destruct Hb as (_ & Hall & _).
        inversion Hall as [|? ? [Hi _] _]; subst. apply item_blank_split in Hi as [Ha _]. rewrite <- ?app_assoc.
        apply (blank_head_cases a _ (fun c => rq_is_ident c = false)); auto.
        unfold rq_clause_text. destruct (c_op c); cbn; reflexivity. }
    rewrite rq_ident_ok; auto.
    2:{ apply blank_nonword; auto. }
    unfold MText.str, MText.char in *.
    rewrite (extras_absent _ N91). rewrite Sid. rewrite E. rewrite at_end_nil.
    unfold rq_expected, rq_sp_extras, rq_sp_url, rq_sp_clauses. rewrite Eex.
    destruct (rs_body sp); reflexivity.
Qed.
Print Assumptions parse_render.
