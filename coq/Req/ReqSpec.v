(* C08 specification: a PEP 508 requirement AS SPELLED - name, extras list, version clause list (parenthesised or not) or "@ url",
   optional marker text, with a blank string at every place where the grammar allows whitespace - and its rendering to text.
   The theorems of Properties/C08.v say that Requirement (render sp) recovers exactly these parts.  Definitions only. *)
From Coq Require Import List Arith NArith Bool.
Import ListNotations.
Require Import MText.
Require Import VParse SpecParse SpecSound SpecContains ReqModel.
Open Scope N_scope.

(* ---- a version clause: operator, whitespace, version text (as the parse tree of Specifier's scanner) ---- *)
Record rq_clause := { c_op : oper; c_ws : list N; c_body : body }.
Definition rq_clause_text (c : rq_clause) : list N := op_txt (c_op c) ++ c_ws c ++ r_body (c_body c).
Definition rq_no_comma (s : list N) : bool := forallb (fun x => negb (x =? 44)) s.
(* valid: the operator admits this version form (p_body is the operator/version table of Specifier._regex, cf. C12: wf_body),
   the whole text is the version, it is not empty, and it contains no comma (only "===" text could) *)
Definition rq_wf_clause (c : rq_clause) : Prop :=
  forallb is_ws (c_ws c) = true /\ p_body (c_op c) (r_body (c_body c)) = Some (c_body c, []) /\
  r_body (c_body c) <> [] /\ rq_no_comma (r_body (c_body c)) = true.
(* the Specifier this clause denotes *)
Definition rq_clause_spec (c : rq_clause) : specifier := {| sp_op := c_op c; sp_text := r_body (c_body c) |}.

(* ---- identifiers (names and extras): what the IDENTIFIER rule takes as one token; PEP 508 names (alphanumeric at both ends)
        are the special case where the last character is not "_" ---- *)
Definition rq_valid_ident (s : list N) : bool :=
  match s with
  | [] => false
  | c :: _ => rq_is_alnum c && forallb rq_is_ident s && is_word (last s 0)
  end.
Definition rq_blank (w : list N) : bool := forallb is_wsb w.

(* ---- comma separated lists with blanks around every item ---- *)
Notation rq_item A := (list N * A * list N)%type (only parsing).
Definition rq_item_text {A} (f : A -> list N) (i : rq_item A) : list N := let '(a, x, b) := i in a ++ f x ++ b.
Definition rq_items_text {A} (f : A -> list N) (l : list (rq_item A)) : list N := rq_join [44] (map (rq_item_text f) l).
Definition rq_item_val {A} (i : rq_item A) : A := snd (fst i).
Definition rq_item_blank {A} (i : rq_item A) : bool := rq_blank (fst (fst i)) && rq_blank (snd i).

Inductive rq_sbody :=
| SB_clauses (paren : option (list N)) (items : list (rq_item rq_clause))     (* Some w: "(" w items ")" *)
| SB_url (w : list N) (u : list N).                                            (* "@" w url *)
Record rq_spelled := {
  rs_w0 : list N; rs_name : list N; rs_w1 : list N;
  rs_extras : option (list N * list (rq_item (list N)));                        (* "[" w items "]" *)
  rs_w2 : list N; rs_body : rq_sbody; rs_w3 : list N;
  rs_marker : option (list N) }.                                                (* ";" marker text (with its own whitespace) *)

Definition rq_body_text (b : rq_sbody) : list N :=
  match b with
  | SB_clauses None items => rq_items_text rq_clause_text items
  | SB_clauses (Some w) items => 40 :: w ++ rq_items_text rq_clause_text items ++ [41]
  | SB_url w u => 64 :: w ++ u
  end.
Definition rq_render (sp : rq_spelled) : list N :=
  rs_w0 sp ++ rs_name sp ++ rs_w1 sp
  ++ (match rs_extras sp with None => [] | Some (w, items) => 91 :: w ++ rq_items_text (fun e => e) items ++ [93] end)
  ++ rs_w2 sp ++ rq_body_text (rs_body sp) ++ rs_w3 sp
  ++ (match rs_marker sp with None => [] | Some mt => 59 :: mt end).

(* the known gap (D7): a "===" clause must not be directly followed by the comma - the token would swallow it *)
Fixpoint rq_no_d7 (items : list (rq_item rq_clause)) : Prop :=
  match items with
  | [] => True
  | [_] => True
  | (_, c, b) :: ((_ :: _) as more) => (c_op c = OArb -> b <> []) /\ rq_no_d7 more
  end.

Definition rq_wf_body (b : rq_sbody) (marker : bool) (w3 : list N) : Prop :=
  match b with
  | SB_clauses paren items =>
      (match paren with Some w => rq_blank w = true | None => True end) /\
      Forall (fun i => rq_item_blank i = true /\ rq_wf_clause (rq_item_val i)) items /\ rq_no_d7 items
  | SB_url w u =>
      rq_blank w = true /\ u <> [] /\ forallb rq_not_blank u = true /\
      (marker = true -> w3 <> [])                      (* a marker after a URL needs separating whitespace *)
  end.
Definition rq_wf (sp : rq_spelled) (m : option (list elem)) : Prop :=
  rq_blank (rs_w0 sp) = true /\ rq_blank (rs_w1 sp) = true /\ rq_blank (rs_w2 sp) = true /\ rq_blank (rs_w3 sp) = true /\
  rq_valid_ident (rs_name sp) = true /\
  (match rs_extras sp with
   | None => True
   | Some (w, items) => rq_blank w = true /\ Forall (fun i => rq_item_blank i = true /\ rq_valid_ident (rq_item_val i) = true) items
   end) /\
  rq_wf_body (rs_body sp) (match rs_marker sp with Some _ => true | None => false end) (rs_w3 sp) /\
  (* the marker text is a marker for the stand-alone marker parser, which reads it as m *)
  (match rs_marker sp, m with
   | None, None => True
   | Some mt, Some m' => MText.parse_marker mt = Some m'
   | _, _ => False
   end).

(* the parts the parse must recover *)
Definition rq_sp_extras (sp : rq_spelled) : list (list N) :=
  match rs_extras sp with None => [] | Some (_, items) => map rq_item_val items end.
Definition rq_sp_clauses (sp : rq_spelled) : list rq_clause :=
  match rs_body sp with SB_clauses _ items => map rq_item_val items | SB_url _ _ => [] end.
Definition rq_sp_url (sp : rq_spelled) : list N := match rs_body sp with SB_url _ u => u | _ => [] end.
Definition rq_expected (sp : rq_spelled) (m : option (list elem)) : rq_parsed :=
  {| pr_name := rs_name sp; pr_url := rq_sp_url sp; pr_extras := rq_sp_extras sp;
     pr_spec := rq_join [44] (map rq_clause_text (rq_sp_clauses sp)); pr_marker := m |}.
