(* C08 proofs, part 7: Requirement(render sp) - the constructed object has exactly the spelled parts. *)
From Coq Require Import List Arith NArith Bool Lia.
Import ListNotations.
Require Import MText MkModel.
Require Import VParse SpecParse SpecSound SpecContains ReqModel ReqSpec ReqScanP ReqTokP ReqListP ReqMarkP ReqParseP ReqSetP.
Open Scope N_scope.
Arguments N.eqb : simpl never.
Arguments N.leb : simpl never.

Definition rq_opt_url (u : list N) : option (list N) := match u with [] => None | _ => Some u end.
(* the requirement object a spelled requirement denotes; m = the stand-alone reading of the marker text *)
Definition rq_denotes (sp : rq_spelled) (m : option (list elem)) : requirement :=
  {| q_name := rs_name sp; q_extras := rq_sp_extras sp; q_specs := map rq_clause_spec (rq_sp_clauses sp);
     q_url := rq_opt_url (rq_sp_url sp); q_marker := option_map norm_l m |}.
Definition rq_lits_ok (m : option (list elem)) : Prop := match m with Some m' => lit_class m' = LOk | None => True end.

Lemma wf_clauses sp m : rq_wf sp m -> Forall rq_wf_clause (rq_sp_clauses sp).
Proof.
  intros (_ & _ & _ & _ & _ & _ & Hb & _). unfold rq_sp_clauses. destruct (rs_body sp) as [paren items|w u]; [|constructor].
  cbn [rq_wf_body] in Hb. destruct Hb as (_ & Hall & _). apply Forall_map. eapply Forall_impl; [|exact Hall]. intros a [_ Ha]. exact Ha.
Qed.

Theorem Requirement_render sp m : rq_wf sp m -> rq_lits_ok m -> Requirement (rq_render sp) = RqOk (rq_denotes sp m).
Proof.
  intros W L. unfold Requirement. rewrite (parse_render sp m W). cbn [rq_expected pr_spec pr_name pr_url pr_extras pr_marker].
  rewrite (specset_clauses _ (wf_clauses sp m W)). unfold rq_denotes, rq_opt_url.
  destruct m as [m'|]; cbn [rq_lits_ok option_map] in *; [rewrite L|]; destruct (rq_sp_url sp); reflexivity.
Qed.

(* the marker of the requirement is the Marker built from the same text *)
Lemma parse_marker_nl_of mt m : MText.parse_marker mt = Some m -> parse_marker_nl mt = Some m.
Proof.
  unfold MText.parse_marker, parse_marker_nl. destruct (p_marker _ _) as [[m0 s0]|]; [|discriminate].
  destruct (rest s0); [auto|discriminate].
Qed.
Theorem Requirement_marker_is_Marker sp mt m : rq_wf sp (Some m) -> rs_marker sp = Some mt -> lit_class m = LOk ->
  Marker mt = MOk (norm_l m) /\ exists r, Requirement (rq_render sp) = RqOk r /\ q_marker r = Some (norm_l m).
Proof.
  intros W E L. split.
  - destruct W as (_ & _ & _ & _ & _ & _ & _ & Hm). rewrite E in Hm. unfold Marker. rewrite (parse_marker_nl_of _ _ Hm), L. reflexivity.
  - exists (rq_denotes sp (Some m)). split; [apply Requirement_render; auto|reflexivity].
Qed.

(* ---- a URL and a version list are mutually exclusive ---- *)
Lemma end_or_marker_parts u spc s x : rq_end_or_marker u spc s = Some x -> fst (fst (fst x)) = u /\ snd (fst (fst x)) = spc.
Proof.
  unfold rq_end_or_marker. destruct (rq_at_end s); [intros [= <-]; auto|].
  destruct (rq_req_marker s) as [[m s']|]; [intros [= <-]; auto|discriminate].
Qed.
Theorem url_xor_spec src p : rq_parse src = Some p -> pr_url p = [] \/ pr_spec p = [].
Proof.
  unfold rq_parse. cbv zeta. destruct (rq_ident _) as [[name s1]|]; [|discriminate].
  destruct (rq_extras _) as [[extras s2]|]; [|discriminate].
  destruct (rq_details (skip_ws s2)) as [[[[url spec] m] s3]|] eqn:D; [|discriminate].
  destruct (rq_at_end s3); [|discriminate]. intros [= <-]. cbn [pr_url pr_spec].
  unfold rq_details in D. destruct (rq_is_hd 64 (skip_ws s2)).
  - right. cbv zeta in D. destruct (MText.span rq_not_blank _) as [u r]. destruct u as [|c u]; [discriminate|].
    destruct (rq_at_end _); [now inversion D|]. destruct (MText.span is_wsb _) as [w r']. destruct w; [discriminate|].
    apply end_or_marker_parts in D. cbn in D. tauto.
  - left. destruct (rq_specifier (skip_ws s2)) as [[spc s4]|]; [|discriminate].
    apply end_or_marker_parts in D. cbn in D. tauto.
Qed.
Theorem Requirement_url_xor_spec src r : Requirement src = RqOk r -> q_url r = None \/ q_specs r = [].
Proof.
  unfold Requirement. destruct (rq_parse src) as [p|] eqn:P; [|discriminate].
  destruct (url_xor_spec src p P) as [U|S0].
  - intros H. left. destruct (rq_specset (pr_spec p)); [|discriminate]. rewrite U in H.
    destruct (pr_marker p) as [m|]; [destruct (lit_class m)|]; inversion H; reflexivity.
  - intros H. right. rewrite S0 in H. cbn in H.
    destruct (pr_marker p) as [m|]; [destruct (lit_class m)|]; inversion H; reflexivity.
Qed.
Print Assumptions Requirement_render.
Print Assumptions Requirement_url_xor_spec.
