(* C08 proofs, part 11: which clauses are valid (rq_wf_clause), in terms of the PEP 440 surface grammar of the version domain:
   every version spelling in greedy normal form (VTop2.gnf, the completeness domain of C02/C12) without surrounding whitespace is a
   valid clause body for the operators that admit it; "===" takes any non-empty text without whitespace, ";", ")" and ",". *)
From Coq Require Import List Arith NArith Bool Lia.
Import ListNotations.
Require Import VParse VComplete VTop VTop2 SpecParse SpecSound SpecContains ReqModel ReqSpec ReqScanP ReqTokP ReqSetP.
Open Scope N_scope.
Arguments N.eqb : simpl never.
Arguments N.leb : simpl never.

Definition pub_of (sp : spelling) : pub_sp :=
  {| q_v := vpre sp; q_ep := ep sp; q_rel0 := rel0 sp; q_rels := rels sp; q_pre := spre sp; q_post := spost sp; q_dev := sdev sp |}.

(* Specifier's public-version scanner is the version scanner without its whitespace and local-label steps *)
Lemma p_pub_of_spelling s sp : parse_spelling s = Some sp -> ws_l sp = [] ->
  p_pub s = Some (pub_of sp, r_opt r_loc (sloc sp) ++ ws_r sp).
Proof.
  unfold parse_spelling, p_pub.
  destruct (span is_ws s) as [wl s1] eqn:E0.
  destruct (p_v s1) as [v s2] eqn:E2.
  destruct (span is_digit s2) as [d1 s3] eqn:E3.
  destruct (negb (nonempty d1)) eqn:N1; [discriminate|].
  destruct (if hd_is (N.eqb 33) s3 then let '(d2, t') := span is_digit (tl s3) in (Some d1, d2, t') else (None, d1, s3)) as [[e r0] s4] eqn:E4.
  destruct (negb (nonempty r0)) eqn:N2; [discriminate|].
  destruct (p_rels (length s4) s4) as [rs s5] eqn:E5.
  destruct (p_opt (p_lv pre_words) s5) as [pr s6] eqn:E6.
  destruct (p_opt p_post s6) as [po s7] eqn:E7.
  destruct (p_opt (p_lv dev_words) s7) as [dv s8] eqn:E8.
  destruct (p_opt p_loc s8) as [lo s9] eqn:E9.
  destruct (forallb is_ws s9); [|discriminate].
  intros [= <-]. cbn [ws_l sloc ws_r]. intros ->.
  apply span_sound in E0 as [-> _]. cbn [app] in *. rewrite E2, E3, N1.
  rewrite E4, N2, E5, E6, E7, E8. unfold pub_of. cbn.
  eapply (p_opt_sound _ r_loc (fun l => wf_loc l = true)) in E9 as [-> _]; [|apply p_loc_sound]. reflexivity.
Qed.

Definition body_text_of (sp : spelling) : list N := r_pub (pub_of sp) ++ r_opt r_loc (sloc sp).
Lemma render_bare sp : ws_l sp = [] -> ws_r sp = [] -> render sp = body_text_of sp.
Proof.
  intros H1 H2. unfold render, body_text_of, r_pub, pub_of. cbn. rewrite H1, H2. cbn [app]. rewrite app_nil_r. rewrite <- !app_assoc. reflexivity.
Qed.

(* the operator / version-form table of PEP 440: "==" and "!=" take any public version with an optional local label (and prefix
   matches, below); "~=" a version without local label and with at least two release segments; the ordered comparisons a version
   without local label *)
Definition admits (o : oper) (sp : spelling) : Prop :=
  match o with
  | OEq | ONe => True
  | OCompat => sloc sp = None /\ rels sp <> []
  | OLe | OGe | OLt | OGt => sloc sp = None
  | OArb => False
  end.
Lemma nonstop_no_comma x : forallb (fun c => negb (stopc c)) x = true -> rq_no_comma x = true.
Proof.
  unfold rq_no_comma. rewrite !forallb_forall. intros H c Hc. specialize (H c Hc). destruct (c =? 44) eqn:E; auto.
  apply N.eqb_eq in E. subst. discriminate.
Qed.

Theorem version_clause_valid o ws sp : gnf sp = true -> ws_l sp = [] -> ws_r sp = [] -> forallb is_ws ws = true -> admits o sp ->
  rq_wf_clause {| c_op := o; c_ws := ws; c_body := BPub (pub_of sp) (match o with OEq | ONe => sloc sp | _ => None end) |} /\
  r_body (BPub (pub_of sp) (match o with OEq | ONe => sloc sp | _ => None end)) = render sp.
Proof.
  intros G Hl Hr Hw Ha.
  pose proof (parse_spelling_complete sp G) as P.
  pose proof (p_pub_of_spelling _ _ P Hl) as Q. rewrite Hr, app_nil_r in Q.
  assert (Gloc : gnf_opt p_loc gnf_loc (sloc sp) [] = true).
  { unfold gnf in G. repeat (apply andb_prop in G as [G ?]). now rewrite Hr in *. }
  assert (Eloc : p_opt p_loc (r_opt r_loc (sloc sp)) = (sloc sp, [])).
  { pose proof (p_opt_complete p_loc r_loc gnf_loc p_loc_complete (sloc sp) [] Gloc) as X. now rewrite app_nil_r in X. }
  assert (Nw : hd2_is 46 (N.eqb 42) (r_opt r_loc (sloc sp)) = false).
  { destruct (sloc sp) as [[a b]|]; reflexivity. }
  assert (Ne : render sp <> []) by (intros E; rewrite E in Q; discriminate).
  assert (RB : render sp = r_pub (pub_of sp) ++ r_opt r_loc (sloc sp)) by (apply (render_bare sp Hl Hr)).
  assert (Body : p_body o (render sp) = Some (BPub (pub_of sp) (match o with OEq | ONe => sloc sp | _ => None end), []) /\
                 r_body (BPub (pub_of sp) (match o with OEq | ONe => sloc sp | _ => None end)) = render sp).
  { destruct o; cbn [admits] in Ha; try contradiction; cbn [p_body r_body]; rewrite Q.
    - destruct Ha as [Hs Hrels]. rewrite Hs in *. cbn [r_opt] in *. cbn [q_rels pub_of]. destruct (rels sp); [congruence|]. split; [reflexivity|now rewrite RB].
    - rewrite Nw, andb_false_r, Eloc. split; [reflexivity|now rewrite RB].
    - rewrite Nw, andb_false_r, Eloc. split; [reflexivity|now rewrite RB].
    - rewrite Ha in *. cbn [r_opt] in *. split; [reflexivity|now rewrite RB].
    - rewrite Ha in *. cbn [r_opt] in *. split; [reflexivity|now rewrite RB].
    - rewrite Ha in *. cbn [r_opt] in *. split; [reflexivity|now rewrite RB].
    - rewrite Ha in *. cbn [r_opt] in *. split; [reflexivity|now rewrite RB]. }
  destruct Body as [B1 B2]. split; [|exact B2].
  unfold rq_wf_clause. cbn [c_op c_ws c_body]. rewrite B2. repeat split; auto.
  apply nonstop_no_comma. eapply (body_all_nonstop o); [destruct o; cbn in Ha; try discriminate; contradiction|exact B1].
Qed.


(* prefix matches: "==V.*" / "!=V.*" with V = v? (N!)? N(.N)*  *)
Lemma gnf_rels_wild rs : forallb wf_digits rs = true -> gnf_rels rs [46; 42] = true.
Proof.
  induction rs as [|d rs IH]; [reflexivity|]. cbn [forallb gnf_rels]. intros H. apply andb_prop in H as [Hd Hrs].
  rewrite Hd, (IH Hrs). cbn [andb]. destruct rs as [|d' rs']; reflexivity.
Qed.
Theorem wildcard_clause_valid o ws v e r0 rs : o = OEq \/ o = ONe -> forallb is_ws ws = true ->
  (match v with Some c => lc c = 118 | None => True end) -> (match e with Some x => wf_digits x = true | None => True end) ->
  wf_digits r0 = true -> forallb wf_digits rs = true ->
  rq_wf_clause {| c_op := o; c_ws := ws; c_body := BWild v e r0 rs |}.
Proof.
  intros Ho Hw Hv He Hr0 Hrs.
  set (q := {| q_v := v; q_ep := e; q_rel0 := r0; q_rels := rs; q_pre := None; q_post := None; q_dev := None |}).
  assert (Hr0' := Hr0). unfold wf_digits in Hr0'. apply andb_prop in Hr0' as [Hn0 Hd0].
  assert (Hh0 : hd_is is_digit r0 = true) by now apply wf_digits_hd.
  assert (P : p_pub (r_osep v ++ r_opt r_ep e ++ r0 ++ r_rels rs ++ [46; 42]) = Some (q, [46; 42])).
  { unfold p_pub.
    assert (Pv : p_v (r_osep v ++ r_opt r_ep e ++ r0 ++ r_rels rs ++ [46; 42]) = (v, r_opt r_ep e ++ r0 ++ r_rels rs ++ [46; 42])).
    { destruct v as [c|]; cbn [r_osep app p_v].
      - apply N.eqb_eq in Hv. now rewrite Hv.
      - assert (Hd : hd_is is_digit (r_opt r_ep e ++ r0 ++ r_rels rs ++ [46; 42]) = true).
        { destruct e as [x|]; cbn [r_opt app].
          - unfold r_ep. rewrite <- app_assoc. rewrite hd_is_app; [now apply wf_digits_hd|]. unfold wf_digits in He. now apply andb_prop in He.
          - rewrite hd_is_app; auto. }
        destruct (r_opt r_ep e ++ r0 ++ r_rels rs ++ [46; 42]) as [|c t]; [reflexivity|]. cbn in Hd. cbn [p_v].
        destruct (lc c =? 118) eqn:E; auto. apply N.eqb_eq in E. exfalso.
        unfold is_digit in Hd. apply andb_prop in Hd as [H1 H2]. apply N.leb_le in H1, H2. unfold lc in E.
        destruct ((65 <=? c) && (c <=? 90)) eqn:U; [apply andb_prop in U as [U1 U2]; apply N.leb_le in U1, U2; lia|lia]. }
    rewrite Pv. destruct e as [x|]; cbn [r_opt].
    - (* with an epoch: digits "!" then the release *)
      unfold r_ep. rewrite <- !app_assoc. cbn [app].
      assert (Hx := He). unfold wf_digits in Hx. apply andb_prop in Hx as [Hnx Hdx].
      rewrite span_complete; auto. rewrite Hnx. cbn [negb hd_is]. replace (33 =? 33) with true by reflexivity. cbn [tl].
      rewrite span_complete; auto. 2:{ destruct rs; reflexivity. }
      rewrite Hn0. cbn [negb].
      rewrite p_rels_complete by (try apply r_rels_len; now apply gnf_rels_wild). reflexivity.
    - cbn [app]. rewrite span_complete; auto. 2:{ destruct rs; reflexivity. }
      rewrite Hn0. cbn [negb].
      replace (hd_is (N.eqb 33) (r_rels rs ++ [46; 42])) with false by (destruct rs; reflexivity).
      rewrite Hn0. cbn [negb].
      rewrite p_rels_complete by (try apply r_rels_len; now apply gnf_rels_wild). reflexivity. }
  unfold rq_wf_clause. cbn [c_op c_ws c_body r_body].
  assert (B : p_body o (r_osep v ++ r_opt r_ep e ++ r0 ++ r_rels rs ++ [46; 42]) = Some (BWild v e r0 rs, [])).
  { destruct Ho as [-> | ->]; cbn [p_body]; rewrite P; reflexivity. }
  repeat split; auto.
  - intros E. rewrite E in P. discriminate.
  - apply nonstop_no_comma. eapply (body_all_nonstop o); [destruct Ho; subst; discriminate|exact B].
Qed.
Print Assumptions wildcard_clause_valid.

(* "===": any non-empty text of characters other than whitespace, ";", ")" - and, for a requirement, "," *)
Theorem arbitrary_clause_valid ws t : forallb is_ws ws = true -> t <> [] -> forallb arb_char t = true -> rq_no_comma t = true ->
  rq_wf_clause {| c_op := OArb; c_ws := ws; c_body := BArb t |}.
Proof.
  intros Hw Ht Ha Hc. unfold rq_wf_clause. cbn [c_op c_ws c_body r_body p_body]. repeat split; auto.
  rewrite <- (app_nil_r t) at 1. rewrite span_complete; auto.
Qed.

(* conversely every valid clause has an operator/version form of the PEP 440 table (C12) *)
Theorem valid_clause_is_pep440 c : rq_wf_clause c -> wf_body (c_op c) (c_body c).
Proof. intros (_ & H & _). apply p_body_sound in H. tauto. Qed.
Print Assumptions version_clause_valid.
