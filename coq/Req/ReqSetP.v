(* C08 proofs, part 6: SpecifierSet(parsed.specifier) - the clause list text splits back into exactly the clauses, and each
   clause is the Specifier it denotes. *)
From Coq Require Import List Arith NArith Bool Lia.
Import ListNotations.
Require Import VParse VComplete VTop VTop2 SpecParse SpecSound SpecContains ReqModel ReqSpec ReqScanP ReqTokP.
Open Scope N_scope.
Arguments N.eqb : simpl never.
Arguments N.leb : simpl never.

(* ---- str.split(",") ---- *)
Lemma split_no_comma t : rq_no_comma t = true -> rq_split 44 t = [t].
Proof.
  induction t as [|c t IH]; cbn [rq_split rq_no_comma forallb]; auto. intros H. apply andb_prop in H as [Hc Ht].
  apply negb_true_iff in Hc. rewrite Hc. unfold rq_no_comma in IH. rewrite (IH Ht). reflexivity.
Qed.
Lemma split_app t X : rq_no_comma t = true -> rq_split 44 (t ++ 44 :: X) = t :: rq_split 44 X.
Proof.
  induction t as [|c t IH]; cbn [rq_split rq_no_comma forallb app].
  - intros _. replace (44 =? 44) with true by reflexivity. reflexivity.
  - intros H. apply andb_prop in H as [Hc Ht]. apply negb_true_iff in Hc. rewrite Hc. unfold rq_no_comma in IH. rewrite (IH Ht). reflexivity.
Qed.
Lemma split_join l : l <> [] -> Forall (fun t => rq_no_comma t = true) l -> rq_split 44 (rq_join [44] l) = l.
Proof.
  induction l as [|t l IH]; [congruence|]. intros _ H. inversion H as [|? ? Ht Hl]; subst.
  destruct l as [|t' l'].
  - cbn [rq_join]. now apply split_no_comma.
  - change (rq_join [44] (t :: t' :: l')) with (t ++ 44 :: rq_join [44] (t' :: l')).
    rewrite split_app by auto. rewrite IH; auto. discriminate.
Qed.

(* ---- str.strip() ---- *)
Definition nows_ends (s : list N) : Prop :=
  match s with [] => False | c :: _ => is_ws c = false /\ is_ws (last s 0) = false end.
Lemma strip_id s : nows_ends s -> rq_strip s = s.
Proof.
  destruct s as [|c t]; [contradiction|]. intros [Hc Hl]. unfold rq_strip. cbn [rq_lstrip]. rewrite Hc.
  rewrite last_rev_hd in Hl. destruct (rev (c :: t)) as [|x r] eqn:E.
  - apply (f_equal (@rev N)) in E. rewrite rev_involutive in E. discriminate.
  - cbn [hd] in Hl. cbn [rq_lstrip]. rewrite Hl. rewrite <- E. apply rev_involutive.
Qed.

(* ---- the text of a valid clause: no comma, no whitespace at either end ---- *)
Lemma ws_is_stop c : is_ws c = true -> stopc c = true.
Proof.
  unfold is_ws, ws_table. cbn [existsb]. intros W.
  repeat (apply orb_prop in W as [W|W]; [apply N.eqb_eq in W; subst c; reflexivity|]). discriminate.
Qed.
Lemma ws_no_comma ws : forallb is_ws ws = true -> rq_no_comma ws = true.
Proof.
  intros H. unfold rq_no_comma. rewrite forallb_forall in *. intros c Hc. specialize (H c Hc).
  destruct (c =? 44) eqn:E; auto. apply N.eqb_eq in E. subst. discriminate.
Qed.
Lemma no_comma_app a b : rq_no_comma a = true -> rq_no_comma b = true -> rq_no_comma (a ++ b) = true.
Proof. unfold rq_no_comma. intros. rewrite forallb_app. now apply andb_true_intro. Qed.
Lemma clause_no_comma c : rq_wf_clause c -> rq_no_comma (rq_clause_text c) = true.
Proof.
  intros (Hw & _ & _ & Hc). unfold rq_clause_text. apply no_comma_app; [destruct (c_op c); reflexivity|].
  apply no_comma_app; auto. now apply ws_no_comma.
Qed.
Lemma last_app_ne (a b : list N) d : b <> [] -> last (a ++ b) d = last b d.
Proof.
  intros Hb. induction a as [|x a IH]; auto. cbn [app].
  destruct (a ++ b) as [|n l] eqn:E; [destruct a; [cbn in E; congruence|discriminate]|].
  change (last (x :: n :: l) d) with (last (n :: l) d). exact IH.
Qed.
Lemma body_last_nows o x b : p_body o x = Some (b, []) -> x <> [] -> is_ws (last x 0) = false.
Proof.
  intros H Hx. assert (Hin : In (last x 0) x).
  { destruct x as [|c t]; [congruence|]. clear. revert c. induction t as [|d t IH]; intros c; [left; reflexivity|]. right. apply IH. }
  destruct (oper_eq_dec_arb o) as [->|Ho].
  - apply body_arb_all in H as [_ H]. rewrite forallb_forall in H. apply arb_not_ws. auto.
  - pose proof (body_all_nonstop o b x Ho H) as A. rewrite forallb_forall in A. specialize (A _ Hin). apply negb_true_iff in A.
    destruct (is_ws (last x 0)) eqn:W; auto. apply ws_is_stop in W. congruence.
Qed.
Lemma clause_nows c : rq_wf_clause c -> nows_ends (rq_clause_text c).
Proof.
  intros (Hw & Hb & Hx & _). unfold rq_clause_text, nows_ends.
  destruct (op_txt (c_op c) ++ c_ws c ++ r_body (c_body c)) as [|d r] eqn:E; [destruct (c_op c); discriminate|].
  split.
  - destruct (c_op c); cbn in E; inversion E; reflexivity.
  - rewrite <- E. rewrite app_assoc. rewrite last_app_ne by auto. eapply body_last_nows; eauto.
Qed.
Lemma clause_nonempty c : rq_clause_text c <> [].
Proof. unfold rq_clause_text. destruct (c_op c); discriminate. Qed.

(* ---- Specifier(clause text) ---- *)
Lemma sp_try_skip1 o' more wl h s : (match op_txt o' with w0 :: _ => (h =? w0) = false | [] => False end) ->
  try_ops (o' :: more) wl (h :: s) = try_ops more wl (h :: s).
Proof. cbn [try_ops]. destruct (op_txt o') as [|w0 w]; [contradiction|]. intros H. now rewrite (starts_hd_ne w0 w h s H). Qed.
Lemma sp_try_skip2 o' more wl h d s : op_txt o' = [h; 61] -> (d =? 61) = false ->
  try_ops (o' :: more) wl (h :: d :: s) = try_ops more wl (h :: d :: s).
Proof. intros E H. cbn [try_ops]. rewrite E. cbn [SpecParse.starts]. rewrite N.eqb_refl, H. reflexivity. Qed.
Lemma sp_try_hit o more wl ws x b : forallb is_ws ws = true -> p_body o x = Some (b, []) -> x <> [] ->
  try_ops (o :: more) wl (op_txt o ++ ws ++ x) = Some {| s_wl := wl; s_op := o; s_ws := ws; s_body := b; s_wr := [] |}.
Proof.
  intros Hw Hb Hx. cbn [try_ops]. rewrite starts_app.
  destruct x as [|c t] eqn:Ex; [congruence|]. rewrite <- Ex in *.
  destruct (body_head o x b c t Hb Ex) as [_ Hc].
  pose proof (vspan_ws ws x [] Hw) as V. rewrite !app_nil_r in V. rewrite V by (rewrite Ex; exact Hc).
  rewrite Hb. reflexivity.
Qed.
Lemma sp_try_text o wl ws x b : forallb is_ws ws = true -> p_body o x = Some (b, []) -> x <> [] ->
  try_ops ops_in_order wl (op_txt o ++ ws ++ x) = Some {| s_wl := wl; s_op := o; s_ws := ws; s_body := b; s_wr := [] |}.
Proof.
  intros Hw Hb Hx.
  destruct x as [|c t] eqn:Ex; [congruence|]. rewrite <- Ex in *.
  destruct (body_head o x b c t Hb Ex) as [Hc61 Hcws].
  assert (H2 : o <> OArb -> match ws ++ x with d :: _ => (d =? 61) = false | [] => True end).
  { intros Ho. destruct ws as [|d ws']; cbn [app].
    - rewrite Ex. now apply Hc61.
    - cbn [forallb] in Hw. apply andb_prop in Hw as [Hd _]. now apply ws_not_eq. }
  unfold ops_in_order.
  destruct o; cbn [op_txt app];
    repeat (match goal with
            | |- try_ops (?o' :: _) _ (?h :: _) = _ =>
                first [ rewrite (sp_try_skip1 o' _ wl h) by (cbn [op_txt]; lit_eqb; reflexivity) ]
            end).
  - apply (sp_try_hit OCompat _ wl ws x b); auto.
  - apply (sp_try_hit OEq _ wl ws x b); auto.
  - apply (sp_try_hit ONe _ wl ws x b); auto.
  - apply (sp_try_hit OLe _ wl ws x b); auto.
  - apply (sp_try_hit OGe _ wl ws x b); auto.
  - specialize (H2 ltac:(discriminate)). destruct (ws ++ x) as [|d r] eqn:Er.
    + destruct ws; [rewrite Ex in Er|]; discriminate.
    + rewrite (sp_try_skip2 OLe _ wl 60 d r eq_refl H2).
      rewrite (sp_try_skip1 OGe _ wl 60) by (cbn [op_txt]; lit_eqb; reflexivity).
      rewrite <- Er. apply (sp_try_hit OLt _ wl ws x b); auto.
  - specialize (H2 ltac:(discriminate)). destruct (ws ++ x) as [|d r] eqn:Er.
    + destruct ws; [rewrite Ex in Er|]; discriminate.
    + rewrite (sp_try_skip2 OGe _ wl 62 d r eq_refl H2).
      rewrite (sp_try_skip1 OLt _ wl 62) by (cbn [op_txt]; lit_eqb; reflexivity).
      rewrite <- Er. apply (sp_try_hit OGt _ wl ws x b); auto.
  - cbn [try_ops op_txt SpecParse.starts]. lit_eqb.
    cbn [VParse.span]. replace (is_ws 61) with false by reflexivity.
    replace (p_body OEq (61 :: ws ++ x)) with (@None (body * list N)).
    2:{ symmetry. cbn [p_body]. destruct (p_pub (61 :: ws ++ x)) as [[q r]|] eqn:E; auto.
        apply p_pub_head in E. destruct E; discriminate. }
    change (try_ops [OArb] wl (op_txt OArb ++ ws ++ x) = Some {| s_wl := wl; s_op := OArb; s_ws := ws; s_body := b; s_wr := [] |}).
    apply (sp_try_hit OArb _ wl ws x b); auto.
Qed.
Lemma Specifier_clause c : rq_wf_clause c -> Specifier (rq_clause_text c) = Some (rq_clause_spec c).
Proof.
  intros W. pose proof W as (Hw & Hb & Hx & _). unfold Specifier, parse_specifier.
  assert (S0 : VParse.span is_ws (rq_clause_text c) = ([], rq_clause_text c)).
  { apply span_none. unfold rq_clause_text. destruct (c_op c); reflexivity. }
  rewrite S0. unfold rq_clause_text. rewrite (sp_try_text (c_op c) [] (c_ws c) _ (c_body c) Hw Hb Hx). reflexivity.
Qed.

(* ---- SpecifierSet(",".join(clauses)) = exactly those clauses ---- *)
Theorem specset_clauses cls : Forall rq_wf_clause cls ->
  rq_specset (rq_join [44] (map rq_clause_text cls)) = Some (map rq_clause_spec cls).
Proof.
  intros H. unfold rq_specset, rq_pieces. destruct cls as [|c cls]; [reflexivity|].
  rewrite split_join.
  2:{ discriminate. }
  2:{ apply Forall_map. eapply Forall_impl; [|exact H]. intros a Ha. now apply clause_no_comma. }
  assert (E : filter rq_nonempty (map rq_strip (map rq_clause_text (c :: cls))) = map rq_clause_text (c :: cls)).
  { induction H as [|a l Ha Hl IH]; [reflexivity|]. cbn [map filter]. rewrite (strip_id _ (clause_nows a Ha)).
    destruct (rq_clause_text a) eqn:E; [now destruct (clause_nonempty a)|]. cbn [rq_nonempty]. now rewrite IH. }
  rewrite E. clear E. induction H as [|a l Ha Hl IH]; [reflexivity|].
  cbn [map rq_all_some]. rewrite (Specifier_clause a Ha). cbn [map] in IH. rewrite IH. reflexivity.
Qed.
Print Assumptions specset_clauses.
