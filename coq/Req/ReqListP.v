(* C08 proofs, part 3: the two comma separated lists (extras, version clauses) under an arbitrary blank layout. *)
From Coq Require Import List Arith NArith Bool Lia.
Import ListNotations.
Require Import MText MRound.
Require Import VParse SpecParse SpecSound SpecContains ReqModel ReqSpec ReqScanP ReqTokP.
Open Scope N_scope.
Arguments N.eqb : simpl never.
Arguments N.leb : simpl never.

(* the text after an item: its trailing blanks, then ", blanks item blanks" for every further item *)
Fixpoint rq_rest_text {A} (f : A -> list N) (b : list N) (more : list (rq_item A)) : list N :=
  b ++ match more with [] => [] | (a, x, b') :: more' => 44 :: a ++ f x ++ rq_rest_text f b' more' end.
Lemma items_text_cons {A} (f : A -> list N) a x b more :
  rq_items_text f ((a, x, b) :: more) = a ++ f x ++ rq_rest_text f b more.
Proof.
  revert a x b. induction more as [|[[a' x'] b'] more IH]; intros a x b.
  - unfold rq_items_text. cbn. now rewrite !app_nil_r.
  - change (rq_items_text f ((a, x, b) :: (a', x', b') :: more)) with ((a ++ f x ++ b) ++ [44] ++ rq_items_text f ((a', x', b') :: more)).
    rewrite (IH a' x' b'). cbn [rq_rest_text]. rewrite <- !app_assoc. reflexivity.
Qed.
Lemma rest_text_len {A} (f : A -> list N) b more : (length more <= length (rq_rest_text f b more))%nat.
Proof.
  revert b. induction more as [|[[a x] b'] more IH]; intros b; cbn [rq_rest_text length]; [lia|].
  rewrite !app_length. cbn [length]. rewrite !app_length. specialize (IH b'). lia.
Qed.
Lemma rest_text_head {A} (f : A -> list N) (P : N -> Prop) b more X :
  rq_blank b = true -> P 32 -> P 9 -> P 44 -> (match X with c :: _ => P c | [] => True end) ->
  match rq_rest_text f b more ++ X with c :: _ => P c | [] => True end.
Proof.
  intros Hb P32 P9 P44 HX. destruct b as [|c b'].
  - destruct more as [|[[a x] b'] more]; cbn [rq_rest_text app]; auto.
  - cbn [rq_blank forallb] in Hb. apply andb_prop in Hb as [Hc _].
    unfold is_wsb in Hc. apply orb_prop in Hc as [Hc|Hc]; apply N.eqb_eq in Hc; subst;
      destruct more as [|[[a x] b''] more]; cbn [rq_rest_text app]; auto.
Qed.

(* ------------------------------------------------------------------ extras --------------------------------------------- *)
Definition ex_ok (i : rq_item (list N)) : Prop := rq_item_blank i = true /\ rq_valid_ident (rq_item_val i) = true.
Lemma item_blank_split {A} (a : list N) (x : A) b : rq_item_blank (a, x, b) = true -> rq_blank a = true /\ rq_blank b = true.
Proof. unfold rq_item_blank. cbn. intros H. now apply andb_prop in H. Qed.

Lemma extras_more_ok : forall more acc p b T fuel, Forall ex_ok more -> rq_blank b = true -> (length more < fuel)%nat ->
  exists q, rq_extras_more fuel acc {| prev := p; rest := rq_rest_text (fun e => e) b more ++ 93 :: T |}
            = Some (acc ++ map rq_item_val more, {| prev := q; rest := 93 :: T |}).
Proof.
  induction more as [|[[a e] b'] more IH]; intros acc p b T fuel Hall Hb Hf; (destruct fuel as [|f]; [lia|]); cbn [rq_extras_more].
  - cbn [rq_rest_text]. rewrite app_nil_r. rewrite skip_ws_app by (auto; reflexivity).
    rewrite rq_ident_none by reflexivity. unfold rq_is_hd. cbn [rest]. lit_eqb. cbn [map]. rewrite app_nil_r. eexists. reflexivity.
  - inversion Hall as [|? ? [Hi Hv] Hall']; subst. apply item_blank_split in Hi as [Ha Hb']. cbn [rq_item_val fst snd] in Hv.
    cbn [rq_rest_text]. rewrite <- !app_assoc. cbn [app].
    rewrite skip_ws_app by (auto; reflexivity).
    rewrite rq_ident_none by reflexivity. unfold rq_is_hd at 1. cbn [rest]. lit_eqb.
    unfold rq_drop1. cbn [rest]. unfold adv at 1. cbn [prev last_opt].
    rewrite <- !app_assoc.
    rewrite skip_ws_app by (auto; apply valid_ident_head; auto).
    rewrite rq_ident_ok; auto.
    2:{ apply blank_nonword; auto. }
    2:{ apply (rest_text_head (fun e => e) (fun c => rq_is_ident c = false) b' more (93 :: T)); auto. }
    cbn [length] in Hf.
    destruct (IH (acc ++ [e]) (last_opt (last_opt (Some 44) a) e) b' T f Hall' Hb' ltac:(lia)) as [q E].
    unfold MText.str, MText.char in *. rewrite E. eexists. f_equal. f_equal. cbn [map rq_item_val fst snd]. rewrite <- app_assoc. reflexivity.
Qed.

Lemma drop1_cons p c X : rq_drop1 {| prev := p; rest := c :: X |} = {| prev := Some c; rest := X |}.
Proof. reflexivity. Qed.
Lemma is_hd_cons c0 p c X : rq_is_hd c0 {| prev := p; rest := c :: X |} = (c =? c0).
Proof. reflexivity. Qed.
Lemma is_hd_nil c0 p : rq_is_hd c0 {| prev := p; rest := [] |} = false.
Proof. reflexivity. Qed.

(* "[" w items "]" *)
Lemma extras_ok p w items T : rq_blank w = true -> Forall ex_ok items ->
  rq_extras {| prev := p; rest := 91 :: w ++ rq_items_text (fun e => e) items ++ 93 :: T |}
  = Some (map rq_item_val items, {| prev := Some 93; rest := T |}).
Proof.
  intros Hw Hall. unfold rq_extras. rewrite is_hd_cons. lit_eqb. rewrite !drop1_cons.
  destruct items as [|[[a e] b] more].
  - unfold rq_items_text. cbn [map rq_join app].
    rewrite !skip_ws_app by (auto; reflexivity). rewrite rq_ident_none by reflexivity.
    rewrite !skip_ws_id by reflexivity. rewrite is_hd_cons, drop1_cons. lit_eqb. reflexivity.
  - inversion Hall as [|? ? [Hi Hv] Hall']; subst. apply item_blank_split in Hi as [Ha Hb]. cbn [rq_item_val fst snd] in Hv.
    rewrite items_text_cons. rewrite <- !app_assoc. rewrite (app_assoc w a).
    rewrite !skip_ws_app by (try apply blank_app; auto; apply valid_ident_head; auto).
    rewrite rq_ident_ok; auto.
    2:{ apply blank_nonword; [reflexivity | now apply blank_app]. }
    2:{ apply (rest_text_head (fun e => e) (fun c => rq_is_ident c = false) b more (93 :: T)); auto. }
    cbn [rest].
    destruct (extras_more_ok more [e] (last_opt (last_opt (Some 91) (w ++ a)) e) b T
                (S (length (rq_rest_text (fun e => e) b more ++ 93 :: T))) Hall' Hb) as [q E].
    { pose proof (rest_text_len (fun e : list N => e) b more). rewrite app_length. lia. }
    unfold MText.str, MText.char in *. rewrite E. rewrite !skip_ws_id by reflexivity. rewrite is_hd_cons, drop1_cons. lit_eqb. reflexivity.
Qed.
Lemma extras_absent s : rq_is_hd 91 s = false -> rq_extras s = Some ([], s).
Proof. unfold rq_extras. now intros ->. Qed.

(* ------------------------------------------------------------------ version_many --------------------------------------- *)
Definition cl_ok (i : rq_item rq_clause) : Prop := rq_item_blank i = true /\ rq_wf_clause (rq_item_val i).
Lemma clause_head c X : nbhead (rq_clause_text c ++ X) /\
  match rq_clause_text c ++ X with d :: _ => (d =? 64) = false /\ (d =? 40) = false /\ (d =? 91) = false | [] => False end.
Proof. unfold rq_clause_text. destruct (c_op c); cbn; repeat split; reflexivity. Qed.
Lemma follow_trails arb q X : rq_follow arb X -> rq_prefix_trail {| prev := q; rest := X |} = false /\ rq_local_trail {| prev := q; rest := X |} = false.
Proof.
  unfold rq_prefix_trail, rq_local_trail. cbn [rest]. destruct X as [|c [|d t]]; auto. cbn [rq_follow].
  intros [->|[->|[->|[->|[_ ->]]]]]; lit_eqb; auto.
Qed.

Lemma version_many_ok : forall more c b acc p w T fuel,
  rq_wf_clause c -> rq_blank b = true -> Forall cl_ok more -> rq_no_d7 (([], c, b) :: more) -> rq_blank w = true -> rq_tail T ->
  (length more < fuel)%nat ->
  exists q, rq_version_many fuel acc {| prev := p; rest := rq_clause_text c ++ rq_rest_text rq_clause_text b more ++ w ++ T |}
            = Some (acc ++ rq_join [44] (map rq_clause_text (c :: map rq_item_val more)), {| prev := q; rest := T |}).
Proof.
  induction more as [|[[a' c'] b'] more IH]; intros c b acc p w T fuel Wc Hb Hall Hd7 Hw HT Hf; (destruct fuel as [|f]; [lia|]); cbn [rq_version_many].
  - (* last clause *)
    cbn [rq_rest_text]. rewrite app_nil_r.
    assert (F : rq_follow (rq_is_arb (c_op c)) (b ++ w ++ T)).
    { rewrite app_assoc. destruct (b ++ w) as [|d r] eqn:E; [cbn [app]; now apply tail_follow|].
      assert (Hd : is_wsb d = true).
      { assert (Hbw : rq_blank (b ++ w) = true) by now apply blank_app. rewrite E in Hbw. cbn [rq_blank forallb] in Hbw. now apply andb_prop in Hbw. }
      cbn [app rq_follow]. unfold is_wsb in Hd. apply orb_prop in Hd as [Hd|Hd]; apply N.eqb_eq in Hd; auto. }
    rewrite (spec_tok_ok p c _ Wc F).
    destruct (follow_trails _ (last_opt p (rq_clause_text c)) _ F) as [-> ->]. cbn [orb].
    rewrite app_assoc. rewrite skip_ws_app by (try apply blank_app; auto; now apply tail_nbhead).
    replace (rq_is_hd 44 {| prev := last_opt (last_opt p (rq_clause_text c)) (b ++ w); rest := T |}) with false.
    2:{ unfold rq_is_hd. cbn [rest]. destruct T as [|d t]; auto. cbn in HT. destruct HT as [->| ->]; reflexivity. }
    cbn [map rq_join]. eexists. reflexivity.
  - inversion Hall as [|? ? [Hi Wc'] Hall']; subst. apply item_blank_split in Hi as [Ha' Hb']. cbn [rq_item_val fst snd] in Wc'.
    cbn [rq_no_d7] in Hd7. destruct Hd7 as [Hd Hd7].
    cbn [rq_rest_text]. rewrite <- !app_assoc. cbn [app]. rewrite <- !app_assoc.
    assert (F : rq_follow (rq_is_arb (c_op c)) (b ++ 44 :: a' ++ rq_clause_text c' ++ rq_rest_text rq_clause_text b' more ++ w ++ T)).
    { destruct b as [|d r].
      - cbn [app rq_follow]. right. right. right. right. split; auto.
        destruct (rq_is_arb (c_op c)) eqn:E; auto. apply is_arb_true in E. now destruct (Hd E).
      - cbn [rq_blank forallb] in Hb. apply andb_prop in Hb as [Hd' _]. cbn [app rq_follow].
        unfold is_wsb in Hd'. apply orb_prop in Hd' as [Hd'|Hd']; apply N.eqb_eq in Hd'; auto. }
    rewrite (spec_tok_ok p c _ Wc F).
    destruct (follow_trails _ (last_opt p (rq_clause_text c)) _ F) as [-> ->]. cbn [orb].
    rewrite skip_ws_app by (auto; reflexivity).
    unfold rq_is_hd at 1. cbn [rest]. lit_eqb.
    unfold rq_drop1. cbn [rest]. unfold adv at 1. cbn [prev last_opt].
    rewrite skip_ws_app by (auto; apply clause_head).
    cbn [length] in Hf.
    assert (Hd7' : rq_no_d7 (([], c', b') :: more)) by (destruct more; cbn [rq_no_d7] in *; auto).
    destruct (IH c' b' (acc ++ rq_clause_text c ++ [44]) (last_opt (Some 44) a') w T f Wc' Hb' Hall' Hd7' Hw HT ltac:(lia)) as [q E].
    unfold MText.str, MText.char in *. rewrite E. eexists. f_equal. f_equal. cbn [map rq_join rq_item_val fst snd].
    rewrite <- !app_assoc. cbn [app]. destruct (map rq_clause_text (map rq_item_val more)); reflexivity.
Qed.
Lemma version_many_empty fuel p T : rq_tail T -> (0 < fuel)%nat ->
  rq_version_many fuel [] {| prev := p; rest := T |} = Some ([], {| prev := p; rest := T |}).
Proof. intros HT Hf. destruct fuel; [lia|]. cbn [rq_version_many]. now rewrite spec_tok_none. Qed.
Print Assumptions extras_ok.
Print Assumptions version_many_ok.
