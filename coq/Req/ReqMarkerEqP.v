(* C08 / C10: equal requirements carry markers that evaluate alike.
   Requirement.__eq__ compares the markers by their strings; the string of a constructed marker parses back (C09) to its peeled
   structure, which evaluates like the marker itself: so equal strings mean equal evaluation in every environment. *)
From Coq Require Import List Arith NArith Bool.
Import ListNotations.
Require Import MText MkModel MkEval MkShapeP MkFmtP MkRoundP.
Require Import ReqModel ReqEqP ReqSoundP.
Open Scope N_scope.

Lemma eval_peel_top m defaults ov : evaluate (peel_top m) defaults ov = evaluate m defaults ov.
Proof. unfold evaluate. destruct (effective_env defaults ov) as [env|]; [|reflexivity]. apply geval_peel_top. Qed.

Lemma req_marker_shape src r m : Requirement src = RqOk r -> q_marker r = Some m -> exists d, pfm d m.
Proof.
  intros H M. destruct (Requirement_marker_origin src r m H M) as (m0 & (fuel & s & s' & P) & L & ->).
  eexists. apply norm_l_shape. eapply p_marker_shape; eauto.
Qed.

Theorem equal_requirements_markers_alike sa sb a b : Requirement sa = RqOk a -> Requirement sb = RqOk b -> req_eq a b = true ->
  match q_marker a, q_marker b with
  | Some ma, Some mb => forall defaults ov, evaluate ma defaults ov = evaluate mb defaults ov
  | None, None => True
  | _, _ => False
  end.
Proof.
  intros Ha Hb E. apply req_eq_semantics in E as (_ & _ & _ & _ & Em).
  destruct (q_marker a) as [ma|] eqn:Ma, (q_marker b) as [mb|] eqn:Mb; cbn [option_map] in Em; try discriminate; auto.
  injection Em as Em. intros defaults ov.
  destruct (req_marker_shape sa a ma Ha Ma) as [da Sa]. destruct (req_marker_shape sb b mb Hb Mb) as [db Sb].
  pose proof (format_parses_strict da ma Sa) as Pa. pose proof (format_parses_strict db mb Sb) as Pb.
  rewrite Em in Pa. rewrite Pb in Pa. injection Pa as Pe.
  rewrite <- (eval_peel_top ma), <- (eval_peel_top mb). now rewrite Pe.
Qed.
Print Assumptions equal_requirements_markers_alike.

(* non-vacuity: two equal requirements that both carry a marker, spelled differently (variable alias, parentheses, quotes, the
   spelling of the extra name):   a; os.name=='x' and extra=='A_b'   and   A ;(os_name == <dq>x<dq>)and( extra == 'a-B') *)
Definition meq_a : list N := [97;59;32;111;115;46;110;97;109;101;61;61;39;120;39;32;97;110;100;32;101;120;116;114;97;61;61;39;65;95;98;39].
Definition meq_b : list N := [65;32;59;40;111;115;95;110;97;109;101;32;61;61;32;34;120;34;41;97;110;100;40;32;101;120;116;114;97;32;61;61;32;39;97;45;66;39;41].
Definition meq_check : bool :=
  match Requirement meq_a, Requirement meq_b with
  | RqOk x, RqOk y => req_eq x y && match q_marker x, q_marker y with Some _, Some _ => true | _, _ => false end
                      && negb (rq_str_eqb meq_a meq_b)
  | _, _ => false
  end.
Example meq_check_ok : meq_check = true.
Proof. vm_compute. reflexivity. Qed.
(* the hypotheses of equal_requirements_markers_alike are instantiated by them *)
Example meq_hyps : exists x y ma mb, Requirement meq_a = RqOk x /\ Requirement meq_b = RqOk y /\ req_eq x y = true /\
  q_marker x = Some ma /\ q_marker y = Some mb /\ forall defaults ov, evaluate ma defaults ov = evaluate mb defaults ov.
Proof.
  destruct (Requirement meq_a) as [x| |] eqn:Ea; try (exfalso; vm_compute in Ea; discriminate).
  destruct (Requirement meq_b) as [y| |] eqn:Eb; try (exfalso; vm_compute in Eb; discriminate).
  assert (E : req_eq x y = true).
  { vm_compute in Ea, Eb. injection Ea as <-. injection Eb as <-. vm_compute. reflexivity. }
  pose proof (equal_requirements_markers_alike meq_a meq_b x y Ea Eb E) as H.
  destruct (q_marker x) as [ma|] eqn:Ma; [|exfalso; vm_compute in Ea; injection Ea as <-; discriminate Ma].
  destruct (q_marker y) as [mb|] eqn:Mb; [|contradiction].
  exists x, y, ma, mb. repeat split; auto.
Qed.
