(* C08 / C10: equal requirements carry markers that evaluate alike.
   Requirement.__eq__ compares the markers by their strings; the string of a constructed marker parses back (C09) to its peeled
   structure, which evaluates like the marker itself: so equal strings mean equal evaluation in every environment. *)
From Coq Require Import List Arith NArith Bool.
Import ListNotations.
Require Import MText MkModel MkEval MkShapeP MkFmtP MkRoundP.
Require Import ReqModel ReqEqP ReqSoundP.
Open Scope N_scope.

Lemma eval_peel_top m defaults ov : evaluate (peel_top m) defaults ov = evaluate m defaults ov.
Proof. unfold evaluate. destruct (effective_env defaults ov) as [env|]; [|reflexivity]. apply geval_peel_top. Qed.

Lemma req_marker_shape src r m : Requirement src = RqOk r -> q_marker r = Some m -> exists d, pfm d m.
Proof.
  intros H M. destruct (Requirement_marker_origin src r m H M) as (m0 & (fuel & s & s' & P) & L & ->).
  eexists. apply norm_l_shape. eapply p_marker_shape; eauto.
Qed.

Theorem equal_requirements_markers_alike sa sb a b : Requirement sa = RqOk a -> Requirement sb = RqOk b -> req_eq a b = true ->
  match q_marker a, q_marker b with
  | Some ma, Some mb => forall defaults ov, evaluate ma defaults ov = evaluate mb defaults ov
  | None, None => True
  | _, _ => False
  end.
Proof.
  intros Ha Hb E. apply req_eq_semantics in E as (_ & _ & _ & _ & Em).
  destruct (q_marker a) as [ma|] eqn:Ma, (q_marker b) as [mb|] eqn:Mb; cbn [option_map] in Em; try discriminate; auto.
  injection Em as Em. intros defaults ov.
  destruct (req_marker_shape sa a ma Ha Ma) as [da Sa]. destruct (req_marker_shape sb b mb Hb Mb) as [db Sb].
  pose proof (format_parses_strict da ma Sa) as Pa. pose proof (format_parses_strict db mb Sb) as Pb.
  rewrite Em in Pa. rewrite Pb in Pa. injection Pa as Pe.
  rewrite <- (eval_peel_top ma), <- (eval_peel_top mb). now rewrite Pe.
Qed.
Print Assumptions equal_requirements_markers_alike.
