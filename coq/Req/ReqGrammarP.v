(* C08 proofs, part 15: the hypotheses of the decomposition theorem, stated on the GRAMMARS.
   - the marker: instead of "the stand-alone marker parser reads the text as m" the marker grammar itself - RList m t of
     MkLayoutP (variables, quoted literals, operators, and/or, parentheses, blanks wherever allowed) - via MkLayoutP.layout_mut;
   - a version clause: instead of "p_body consumes the text" the PEP 440 surface grammar VTop.wf_spelling (ANY derivation tree, not
     only the scanner's greedy one) under an operator that admits the form - via the completeness route of VGnfExists, sharpened
     here to: the scanner returns a tree with the SAME front part, local label and trailing whitespace, so "admits" is preserved.
   rq_wf_clause is shown to be exactly that grammar (wf_clause_grammar). *)
From Coq Require Import List Arith NArith Bool Lia.
Import ListNotations.
Require Import MText MRound MRound2 MRound3 MkModel MkLexP MkLayoutP.
Require Import VParse VComplete VTop VTop2 VGnfExists SpecParse SpecSound SpecContains.
Require Import ReqModel ReqSpec ReqScanP ReqTokP ReqListP ReqMarkP ReqParseP ReqSetP ReqTopP ReqPep440P.
Open Scope N_scope.
Arguments N.eqb : simpl never.
Arguments N.leb : simpl never.

(* ------------------------------------------------------------------ the version scanner keeps front, local label, blanks ---- *)
Theorem version_language_complete_exact sp : wf_spelling sp -> exists pr po dv,
  parse_spelling (render sp) =
  Some {| ws_l := ws_l sp; vpre := vpre sp; ep := ep sp; rel0 := rel0 sp; rels := rels sp;
          spre := pr; spost := po; sdev := dv; sloc := sloc sp; ws_r := ws_r sp |}.
Proof.
  intros (W1 & W2 & Wv & We & Wr0 & Wrs & Wpre & Wpost & Wdev & Wloc).
  set (B := fun t : list N => t = t_loc sp).
  assert (BH : forall t, B t -> hdA h_loc t = true).
  { intros t ->. apply L_loc_hd. exists (sloc sp), (ws_r sp). unfold t_loc. auto. }
  assert (WF : wf_front (vpre sp) (ep sp) (rel0 sp) (rels sp)) by (unfold wf_front; auto).
  assert (LT : L_pre B (t_pre sp)).
  { apply (L_pre_intro B (spre sp) (spost sp) (sdev sp) (t_loc sp)); auto. reflexivity. }
  destruct (L_pre_heads _ BH _ LT) as (Td & T33 & T46).
  destruct (stages _ BH _ LT) as (pr & po & dv & s6 & s7 & s8 & E6 & E7 & E8 & L8). red in L8. subst s8.
  assert (E9 : p_opt p_loc (t_loc sp) = (sloc sp, ws_r sp)).
  { unfold t_loc, p_opt. destruct (sloc sp) as [l|]; cbn [r_opt app].
    - rewrite p_loc_complete; [reflexivity|]. unfold wf_loc in Wloc. apply andb_prop in Wloc as [H1 H2]. unfold gnf_loc.
      rewrite H1, (segs_hd _ (ws_r sp) H2 W2), (gnf_segs_ok _ (ws_r sp) H2 W2). reflexivity.
    - assert (E : p_loc (ws_r sp) = None).
      { unfold p_loc. destruct (ws_r sp) as [|c w]; auto. cbn [forallb] in W2. apply andb_prop in W2 as [Hc _].
        apply ws_facts in Hc as (_ & _ & -> & _). reflexivity. }
      now rewrite E. }
  assert (ER : render sp = ws_l sp ++ r_front (vpre sp) (ep sp) (rel0 sp) (rels sp) ++ t_pre sp).
  { unfold render, r_front, t_pre, t_post, t_dev, t_loc. now rewrite <- !app_assoc. }
  rewrite ER, parse_spelling_front.
  rewrite span_complete by (auto; now apply front_not_ws).
  rewrite front_exact by assumption. rewrite E6, E7, E8, E9, W2. eauto.
Qed.
Print Assumptions version_language_complete_exact.

(* ------------------------------------------------------------------ a scanned spelling is a valid clause body ----------------- *)
Lemma p_loc_of_spelling s sp : parse_spelling s = Some sp -> p_opt p_loc (r_opt r_loc (sloc sp) ++ ws_r sp) = (sloc sp, ws_r sp).
Proof.
  unfold parse_spelling.
  destruct (span is_ws s) as [wl s1] eqn:E0.
  destruct (p_v s1) as [v s2] eqn:E2.
  destruct (span is_digit s2) as [d1 s3] eqn:E3.
  destruct (negb (nonempty d1)) eqn:N1; [discriminate|].
  destruct (if hd_is (N.eqb 33) s3 then let '(d2, t') := span is_digit (tl s3) in (Some d1, d2, t') else (None, d1, s3)) as [[e r0] s4] eqn:E4.
  destruct (negb (nonempty r0)) eqn:N2; [discriminate|].
  destruct (p_rels (length s4) s4) as [rs s5] eqn:E5.
  destruct (p_opt (p_lv pre_words) s5) as [pr s6] eqn:E6.
  destruct (p_opt p_post s6) as [po s7] eqn:E7.
  destruct (p_opt (p_lv dev_words) s7) as [dv s8] eqn:E8.
  destruct (p_opt p_loc s8) as [lo s9] eqn:E9.
  destruct (forallb is_ws s9); [|discriminate].
  intros [= <-]. cbn [sloc ws_r].
  pose proof E9 as E9'. eapply (p_opt_sound _ r_loc (fun l => wf_loc l = true)) in E9' as [-> _]; [|apply p_loc_sound]. exact E9.
Qed.

(* ReqPep440P.version_clause_valid with "the scanner returns this tree" in place of the syntactic normal form gnf *)
Theorem version_clause_valid_parsed o ws sp : parse_spelling (render sp) = Some sp -> ws_l sp = [] -> ws_r sp = [] ->
  forallb is_ws ws = true -> admits o sp ->
  rq_wf_clause {| c_op := o; c_ws := ws; c_body := BPub (pub_of sp) (match o with OEq | ONe => sloc sp | _ => None end) |} /\
  r_body (BPub (pub_of sp) (match o with OEq | ONe => sloc sp | _ => None end)) = render sp.
Proof.
  intros P Hl Hr Hw Ha.
  pose proof (p_pub_of_spelling _ _ P Hl) as Q. rewrite Hr, app_nil_r in Q.
  assert (Eloc : p_opt p_loc (r_opt r_loc (sloc sp)) = (sloc sp, [])).
  { pose proof (p_loc_of_spelling _ _ P) as X. now rewrite Hr, app_nil_r in X. }
  assert (Nw : hd2_is 46 (N.eqb 42) (r_opt r_loc (sloc sp)) = false).
  { destruct (sloc sp) as [[a b]|]; reflexivity. }
  assert (Ne : render sp <> []) by (intros E; rewrite E in Q; discriminate).
  assert (RB : render sp = r_pub (pub_of sp) ++ r_opt r_loc (sloc sp)) by (apply (render_bare sp Hl Hr)).
  assert (Body : p_body o (render sp) = Some (BPub (pub_of sp) (match o with OEq | ONe => sloc sp | _ => None end), []) /\
                 r_body (BPub (pub_of sp) (match o with OEq | ONe => sloc sp | _ => None end)) = render sp).
  { destruct o; cbn [admits] in Ha; try contradiction; cbn [p_body r_body]; rewrite Q.
    - destruct Ha as [Hs Hrels]. rewrite Hs in *. cbn [r_opt] in *. cbn [q_rels pub_of]. destruct (rels sp); [congruence|]. split; [reflexivity|now rewrite RB].
    - rewrite Nw, andb_false_r, Eloc. split; [reflexivity|now rewrite RB].
    - rewrite Nw, andb_false_r, Eloc. split; [reflexivity|now rewrite RB].
    - rewrite Ha in *. cbn [r_opt] in *. split; [reflexivity|now rewrite RB].
    - rewrite Ha in *. cbn [r_opt] in *. split; [reflexivity|now rewrite RB].
    - rewrite Ha in *. cbn [r_opt] in *. split; [reflexivity|now rewrite RB].
    - rewrite Ha in *. cbn [r_opt] in *. split; [reflexivity|now rewrite RB]. }
  destruct Body as [B1 B2]. split; [|exact B2].
  unfold rq_wf_clause. cbn [c_op c_ws c_body]. rewrite B2. repeat split; auto.
  apply nonstop_no_comma. eapply (body_all_nonstop o); [destruct o; cbn in Ha; try discriminate; contradiction|exact B1].
Qed.

(* every PEP 440 version spelling (ANY derivation tree of the surface grammar) under an operator that admits its form is a valid
   clause: the completeness theorem supplies the scanner's own tree, which has the same release part and local label *)
Theorem grammar_version_clause o ws vs : wf_spelling vs -> ws_l vs = [] -> ws_r vs = [] -> forallb is_ws ws = true -> admits o vs ->
  exists c, rq_wf_clause c /\ c_op c = o /\ c_ws c = ws /\ r_body (c_body c) = render vs.
Proof.
  intros W Hl Hr Hw Ha. destruct (version_language_complete_exact vs W) as (pr & po & dv & P).
  set (vs' := {| ws_l := ws_l vs; vpre := vpre vs; ep := ep vs; rel0 := rel0 vs; rels := rels vs;
                 spre := pr; spost := po; sdev := dv; sloc := sloc vs; ws_r := ws_r vs |}) in *.
  destruct (parse_spelling_sound _ _ P) as [R _].
  assert (P' : parse_spelling (render vs') = Some vs') by now rewrite R.
  assert (Ha' : admits o vs') by (destruct o; exact Ha).
  destruct (version_clause_valid_parsed o ws vs' P' Hl Hr Hw Ha') as [Wc Eb].
  eexists. split; [exact Wc|]. cbn [c_op c_ws c_body]. repeat split; auto. now rewrite Eb.
Qed.

(* ------------------------------------------------------------------ rq_wf_clause IS the PEP 440 clause grammar ---------------- *)
Definition rq_pep440_clause (o : oper) (ws x : list N) : Prop :=
  forallb is_ws ws = true /\
  ( (exists vs, wf_spelling vs /\ ws_l vs = [] /\ ws_r vs = [] /\ admits o vs /\ x = render vs)                 (* a version *)
    \/ ((o = OEq \/ o = ONe) /\ exists v e r0 rs,                                                                (* a prefix match V.* *)
           (match v with Some c => lc c = 118 | None => True end) /\ (match e with Some y => wf_digits y = true | None => True end) /\
           wf_digits r0 = true /\ forallb wf_digits rs = true /\ x = r_body (BWild v e r0 rs))
    \/ (o = OArb /\ x <> [] /\ forallb arb_char x = true /\ rq_no_comma x = true) ).                              (* === text *)
(* x <> [] in the last alternative cannot be dropped while wf_clause_grammar is an equivalence with rq_wf_clause, which demands a
   non-empty text: "===" followed by blanks is ONE token ("===" \s* [^\s;)]* ), so with an empty text the blanks after the clause
   would belong to it and rq_parse would not return the spelled clause text.  "a===" (accepted by code and model) is covered by
   ReqCanonP.str_roundtrip_nogap and ReqClauseP.clause_in_requirement only. *)

Definition spelling_of (q : pub_sp) (lo : option (list N * list (N * list N))) : spelling :=
  {| ws_l := []; vpre := q_v q; ep := q_ep q; rel0 := q_rel0 q; rels := q_rels q; spre := q_pre q; spost := q_post q; sdev := q_dev q;
     sloc := lo; ws_r := [] |}.
Lemma spelling_of_render q lo : render (spelling_of q lo) = r_pub q ++ r_opt r_loc lo.
Proof. unfold render, spelling_of, r_pub. cbn. rewrite app_nil_r, <- !app_assoc. reflexivity. Qed.
Lemma spelling_of_wf q lo : wf_pub q -> (match lo with Some l => wf_loc l = true | None => True end) -> wf_spelling (spelling_of q lo).
Proof. intros (A & B & C & D & E & F & G) L. unfold wf_spelling, spelling_of. cbn. repeat split; auto. Qed.

Theorem wf_clause_grammar o ws x :
  (exists c, rq_wf_clause c /\ c_op c = o /\ c_ws c = ws /\ r_body (c_body c) = x) <-> rq_pep440_clause o ws x.
Proof.
  split.
  - intros (c & (Hw & Hb & Hx & Hc) & <- & <- & <-). split; auto.
    pose proof (p_body_sound _ _ _ _ Hb) as [_ Wb]. destruct (c_body c) as [t|v e r0 rs|q lo] eqn:Eb; cbn [r_body] in *.
    + right. right. destruct (c_op c); cbn [wf_body] in Wb; try contradiction. auto.
    + right. left. destruct (c_op c); cbn [wf_body] in Wb; try contradiction; (split; [auto|]); exists v, e, r0, rs; tauto.
    + left. rewrite <- spelling_of_render.
      destruct (c_op c) eqn:Eo; cbn [wf_body] in Wb; try contradiction.
      * destruct lo; [contradiction|]. destruct Wb as [Wq Hr]. exists (spelling_of q None). split; [now apply spelling_of_wf|]. repeat split; auto.
      * destruct Wb as [Wq Wl]. exists (spelling_of q lo). split; [now apply spelling_of_wf|]. repeat split; auto.
      * destruct Wb as [Wq Wl]. exists (spelling_of q lo). split; [now apply spelling_of_wf|]. repeat split; auto.
      * destruct lo; [contradiction|]. exists (spelling_of q None). split; [now apply spelling_of_wf|]. repeat split; auto.
      * destruct lo; [contradiction|]. exists (spelling_of q None). split; [now apply spelling_of_wf|]. repeat split; auto.
      * destruct lo; [contradiction|]. exists (spelling_of q None). split; [now apply spelling_of_wf|]. repeat split; auto.
      * destruct lo; [contradiction|]. exists (spelling_of q None). split; [now apply spelling_of_wf|]. repeat split; auto.
  - intros (Hw & [(vs & W & Hl & Hr & Ha & ->)|[(Ho & v & e & r0 & rs & Hv & He & H0 & Hs & ->)|(-> & Hx & Ha & Hc)]]).
    + now apply grammar_version_clause.
    + eexists. split; [exact (wildcard_clause_valid o ws v e r0 rs Ho Hw Hv He H0 Hs)|]. auto.
    + eexists. split; [exact (arbitrary_clause_valid ws x Hw Hx Ha Hc)|]. auto.
Qed.
Print Assumptions wf_clause_grammar.

(* ------------------------------------------------------------------ the marker grammar ---------------------------------------- *)
(* MkLayoutP.layout_parse for MText.parse_marker (no final newline) *)
Theorem layout_parse_marker m t g0 g3 : RList m t -> is_ws_str g0 = true -> is_ws_str g3 = true ->
  MText.parse_marker (g0 ++ t ++ g3) = Some m.
Proof.
  intros HR W0 W3. destruct (list_text _ _ HR) as [Nt Wt].
  unfold MText.parse_marker. rewrite p_marker_seq, seq_skip.
  rewrite skip_gap by (try exact W0; now apply hd_not_ws_app).
  pose proof (proj2 size_text m t HR) as Hs.
  replace (t ++ g3) with (t ++ g3 ++ []) by now rewrite app_nil_r.
  nrm; rwn (proj2 layout_mut m t HR (length (g0 ++ t ++ g3 ++ [])) [] (S (length (g0 ++ t ++ g3 ++ []))) (last_opt None g0) g3 []).
  - reflexivity.
  - rewrite !app_length. lia.
  - pose proof (size_ge_len m). rewrite !app_length. lia.
  - intros _. rewrite gap_last by exact W0. destruct g0; reflexivity.
  - exact W3.
  - exact I.
Qed.

(* the marker text is generated by the marker grammar for the structure m *)
Definition rq_marker_grammar (mk : option (list N)) (m : option (list elem)) : Prop :=
  match mk, m with
  | None, None => True
  | Some mt, Some m' => exists t g0 g3, RList m' t /\ is_ws_str g0 = true /\ is_ws_str g3 = true /\ mt = g0 ++ t ++ g3
  | _, _ => False
  end.
(* everything in rq_wf but the marker *)
Definition rq_wf_parts (sp : rq_spelled) : Prop :=
  rq_blank (rs_w0 sp) = true /\ rq_blank (rs_w1 sp) = true /\ rq_blank (rs_w2 sp) = true /\ rq_blank (rs_w3 sp) = true /\
  rq_valid_ident (rs_name sp) = true /\
  (match rs_extras sp with
   | None => True
   | Some (w, items) => rq_blank w = true /\ Forall (fun i => rq_item_blank i = true /\ rq_valid_ident (rq_item_val i) = true) items
   end) /\
  rq_wf_body (rs_body sp) (match rs_marker sp with Some _ => true | None => false end) (rs_w3 sp).
Lemma rq_wf_split sp m : rq_wf sp m <-> rq_wf_parts sp /\ mk_rel (rs_marker sp) m.
Proof. unfold rq_wf, rq_wf_parts, mk_rel. tauto. Qed.
Lemma marker_grammar_rel mk m : rq_marker_grammar mk m -> mk_rel mk m.
Proof.
  destruct mk as [mt|], m as [m'|]; cbn; auto. intros (t & g0 & g3 & HR & W0 & W3 & ->). now apply layout_parse_marker.
Qed.
Theorem wf_of_grammar sp m : rq_wf_parts sp -> rq_marker_grammar (rs_marker sp) m -> rq_wf sp m.
Proof. intros A B. apply rq_wf_split. split; auto. now apply marker_grammar_rel. Qed.

(* the decomposition theorem with the marker given by its grammar *)
Theorem Requirement_render_grammar sp m : rq_wf_parts sp -> rq_marker_grammar (rs_marker sp) m -> rq_lits_ok m ->
  Requirement (rq_render sp) = RqOk (rq_denotes sp m).
Proof. intros A B L. apply Requirement_render; auto. now apply wf_of_grammar. Qed.
Theorem parse_render_grammar sp m : rq_wf_parts sp -> rq_marker_grammar (rs_marker sp) m -> rq_parse (rq_render sp) = Some (rq_expected sp m).
Proof. intros A B. apply parse_render. now apply wf_of_grammar. Qed.
Print Assumptions Requirement_render_grammar.

(* ------------------------------------------------------------------ the whole requirement at grammar level ------------------ *)
(* Only the TEXT of a clause matters (operator, blanks, version text): the body tree of an rq_clause is a carrier of its text.
   rq_wf_g is rq_wf with every parser-flavoured hypothesis replaced by a grammar: clause texts by rq_pep440_clause (wf_spelling),
   the marker text by the marker grammar RList. *)
Definition rq_clause_g (c : rq_clause) : Prop := rq_pep440_clause (c_op c) (c_ws c) (r_body (c_body c)).
Definition rq_wf_body_g (b : rq_sbody) (marker : bool) (w3 : list N) : Prop :=
  match b with
  | SB_clauses paren items =>
      (match paren with Some w => rq_blank w = true | None => True end) /\
      Forall (fun i => rq_item_blank i = true /\ rq_clause_g (rq_item_val i)) items /\ rq_no_d7 items
  | SB_url w u => rq_blank w = true /\ u <> [] /\ forallb rq_not_blank u = true /\ (marker = true -> w3 <> [])
  end.
Definition rq_wf_g (sp : rq_spelled) (m : option (list elem)) : Prop :=
  rq_blank (rs_w0 sp) = true /\ rq_blank (rs_w1 sp) = true /\ rq_blank (rs_w2 sp) = true /\ rq_blank (rs_w3 sp) = true /\
  rq_valid_ident (rs_name sp) = true /\
  (match rs_extras sp with
   | None => True
   | Some (w, items) => rq_blank w = true /\ Forall (fun i => rq_item_blank i = true /\ rq_valid_ident (rq_item_val i) = true) items
   end) /\
  rq_wf_body_g (rs_body sp) (match rs_marker sp with Some _ => true | None => false end) (rs_w3 sp) /\
  rq_marker_grammar (rs_marker sp) m.

Definition same_item (i i' : list N * rq_clause * list N) : Prop :=
  fst (fst i') = fst (fst i) /\ snd i' = snd i /\
  c_op (rq_item_val i') = c_op (rq_item_val i) /\ c_ws (rq_item_val i') = c_ws (rq_item_val i) /\
  r_body (c_body (rq_item_val i')) = r_body (c_body (rq_item_val i)).
Lemma items_regrammar items : Forall (fun i => rq_item_blank i = true /\ rq_clause_g (rq_item_val i)) items ->
  exists items', Forall2 same_item items items' /\ Forall (fun i => rq_item_blank i = true /\ rq_wf_clause (rq_item_val i)) items'.
Proof.
  induction 1 as [|[[a c] b] items [Hb Hg] _ (items' & F2 & W)]; [exists []; split; constructor|].
  cbn [rq_item_val fst snd] in Hg. apply wf_clause_grammar in Hg as (c' & Wc & E1 & E2 & E3).
  exists ((a, c', b) :: items'). split; constructor; auto.
  - unfold same_item. cbn. auto.
Qed.
Lemma same_items_text items items' : Forall2 same_item items items' ->
  rq_items_text rq_clause_text items' = rq_items_text rq_clause_text items /\
  map rq_clause_text (map rq_item_val items') = map rq_clause_text (map rq_item_val items) /\
  map rq_clause_spec (map rq_item_val items') = map rq_clause_spec (map rq_item_val items) /\
  (rq_no_d7 items -> rq_no_d7 items').
Proof.
  unfold rq_items_text. induction 1 as [|[[a c] b] [[a' c'] b'] items items' (E1 & E2 & E3 & E4 & E5) F (I1 & I2 & I3 & I4)].
  - repeat split; auto.
  - cbn [fst snd rq_item_val] in *. subst a' b'.
    assert (T : rq_clause_text c' = rq_clause_text c) by (unfold rq_clause_text; now rewrite E3, E4, E5).
    assert (S : rq_clause_spec c' = rq_clause_spec c) by (unfold rq_clause_spec; now rewrite E3, E5).
    cbn [map rq_item_text rq_item_val fst snd]. rewrite T, S, I2, I3.
    split; [|split; [|split]]; auto.
    + cbn [map] in I1. destruct F as [|x y l l' Hxy F']; [reflexivity|]. cbn [map rq_join] in *. now rewrite I1.
    + destruct F as [|[[xa xc] xb] [[ya yc] yb] l l' Hxy F']; [auto|]. cbn [rq_no_d7]. intros [D1 D2]. split; [now rewrite E3|]. now apply I4.
Qed.

(* Every PEP 508 requirement - identifier name, identifier extras, PEP 440 clauses (parenthesised or not) or "@ url", marker of the
   marker grammar, blanks wherever allowed, outside the gap D7 - is accepted and decomposed into exactly its parts *)
Theorem Requirement_render_pep508 sp m : rq_wf_g sp m -> rq_lits_ok m -> Requirement (rq_render sp) = RqOk (rq_denotes sp m).
Proof.
  intros (H0 & H1 & H2 & H3 & Hn & Hex & Hb & Hm) L.
  destruct (rs_body sp) as [paren items|w u] eqn:Eb.
  - cbn [rq_wf_body_g] in Hb. destruct Hb as (Hp & Hall & Hd7).
    destruct (items_regrammar items Hall) as (items' & F2 & W').
    destruct (same_items_text items items' F2) as (T1 & T2 & T3 & T4).
    set (sp' := {| rs_w0 := rs_w0 sp; rs_name := rs_name sp; rs_w1 := rs_w1 sp; rs_extras := rs_extras sp; rs_w2 := rs_w2 sp;
                   rs_body := SB_clauses paren items'; rs_w3 := rs_w3 sp; rs_marker := rs_marker sp |}).
    assert (R : rq_render sp' = rq_render sp).
    { unfold rq_render, sp'. cbn [rs_w0 rs_name rs_w1 rs_extras rs_w2 rs_body rs_w3 rs_marker]. rewrite Eb.
      destruct paren; cbn [rq_body_text]; now rewrite T1. }
    assert (D : rq_denotes sp' m = rq_denotes sp m).
    { unfold rq_denotes, rq_sp_extras, rq_sp_clauses, rq_sp_url, sp'. cbn [rs_name rs_extras rs_body]. rewrite Eb. now rewrite T3. }
    rewrite <- R, <- D. apply Requirement_render_grammar; auto.
    unfold rq_wf_parts, sp'. cbn [rs_w0 rs_name rs_w1 rs_extras rs_w2 rs_body rs_w3 rs_marker rq_wf_body]. repeat split; auto.
  - apply Requirement_render_grammar; auto. unfold rq_wf_parts. rewrite Eb. repeat split; auto; apply Hb.
Qed.
Print Assumptions Requirement_render_pep508.

(* ------------------------------------------------------------------ non-vacuity ---------------------------------------------- *)
(* "1.0a-1" as the tree (pre = a, implicit post = -1) - NOT the scanner's tree (pre = a-1) - is a valid body for ">=" *)
Definition gr_vs : spelling :=
  {| ws_l := []; vpre := None; ep := None; rel0 := [49]; rels := [[48]];
     spre := Some {| l_sep1 := None; l_word := [97]; l_sep2 := None; l_num := [] |};
     spost := Some (PostImplicit [49]); sdev := None; sloc := None; ws_r := [] |}.
Definition gr_check : bool :=
  match parse_spelling (render gr_vs) with
  | Some s' => match spost s' with None => true | Some _ => false end          (* the scanner chose another tree *)
  | None => false end
  && match p_body OGe (render gr_vs) with Some (_, []) => true | _ => false end.
Example gr_check_ok : gr_check = true.
Proof. vm_compute. reflexivity. Qed.
Example gr_vs_wf : wf_spelling gr_vs /\ admits OGe gr_vs.
Proof. unfold wf_spelling, gr_vs; cbn. repeat split; auto; cbn; auto. Qed.

(* " Foo [a] >=1.0a-1 ; os_name=='a' " satisfies every hypothesis of Requirement_render_pep508: the clause is given by its text only
   (carried by a BArb node), its version by the non-greedy tree gr_vs, the marker by a derivation in the marker grammar *)
Definition gr_mt : list N := [111;115;95;110;97;109;101] ++ [] ++ [61;61] ++ [] ++ (39 :: [97] ++ [39]).
Definition gr_m : list elem := [Item (SVar (norm_var [111;115;95;110;97;109;101])) [61;61] (SVal [97])].
Definition gr_sp : rq_spelled :=
  {| rs_w0 := [32]; rs_name := [70;111;111]; rs_w1 := [32]; rs_extras := Some ([], [([], [97], [])]); rs_w2 := [32];
     rs_body := SB_clauses None [([], {| c_op := OGe; c_ws := []; c_body := BArb (render gr_vs) |}, [32])];
     rs_w3 := []; rs_marker := Some ([32] ++ gr_mt ++ [32]) |}.
Ltac gr_sep := intros H1 H2; first [discriminate H1 | discriminate H2 | vm_compute in H1; discriminate H1 | vm_compute in H2; discriminate H2].
Example gr_sp_wf : rq_wf_g gr_sp (Some gr_m) /\ rq_lits_ok (Some gr_m) /\
  rq_render gr_sp = [32;70;111;111;32;91;97;93;32;62;61;49;46;48;97;45;49;32;59;32;111;115;95;110;97;109;101;61;61;39;97;39;32].
Proof.
  split; [|split; reflexivity]. unfold rq_wf_g, gr_sp. cbn [rs_w0 rs_name rs_w1 rs_extras rs_w2 rs_body rs_w3 rs_marker rq_wf_body_g rq_no_d7 rq_marker_grammar].
  repeat split; try reflexivity.
  - constructor; [split; reflexivity|constructor].
  - constructor; [|constructor]. split; [reflexivity|]. unfold rq_clause_g. cbn [rq_item_val fst snd c_op c_ws c_body r_body].
    split; [reflexivity|]. left. exists gr_vs. destruct gr_vs_wf as [W A]. split; [exact W|]. repeat split; auto.
  - exists gr_mt, [32], [32]. repeat split; try reflexivity. apply ROne. unfold gr_mt.
    apply (RItem (SVar (norm_var [111;115;95;110;97;109;101])) [111;115;95;110;97;109;101] [61;61] [61;61] (SVal [97]) (39 :: [97] ++ [39]) [] []);
      try reflexivity; try gr_sep.
    + apply RVar. vm_compute. tauto.
    + apply RSym. vm_compute. tauto.
    + apply RVal; [now right | reflexivity].
Qed.
