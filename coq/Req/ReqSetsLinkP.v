(* C08 / C10 / C05 link: the clause-set functions ReqModel carries for Requirement (rq_specset, rq_ckey, rq_dedup, rq_set_str) ARE the
   Sets domain's SpecifierSet: the set Requirement builds from the clause text t is SetsModel.SpecifierSet t None, its members are
   the collapsed clause list, its str() is set_str, and equality of canonical keys is Specifier.__eq__ (sp_eqb).  Consequence: equal
   requirements have equal specifier sets (set_eqb), and those match / filter / report prereleases alike (C10). *)
From Coq Require Import List Arith NArith Bool Lia Permutation.
Import ListNotations.
Require Import MText MkModel.
Require Names.
Require Import S1 VParse VDec Py VMeaning VCmp SpecModel SpecParse Prefix Canon SpecContains SortPerm.
Require Import SetModel SetsModel SetsFs SetsLaws SetsLink SetsC10 SetsEqual.
Require Import ReqModel ReqEqP ReqTopP ReqSoundP.
Open Scope N_scope.
Arguments N.eqb : simpl never.
Arguments N.leb : simpl never.

(* ------------------------------------------------------------------ the text side: split, strip, filter, map ---------------- *)
Lemma rq_split_is c s : rq_split c s = Prefix.split_on c s.
Proof. induction s as [|x s IH]; cbn [rq_split Prefix.split_on]; [reflexivity|]. now rewrite IH. Qed.
Lemma rq_lstrip_is s : rq_lstrip s = dropws s.
Proof. induction s as [|x s IH]; cbn [rq_lstrip dropws]; [reflexivity|]. now rewrite IH. Qed.
Lemma rq_strip_is s : rq_strip s = py_strip s.
Proof. unfold rq_strip, py_strip. now rewrite !rq_lstrip_is. Qed.
Lemma rq_nonempty_is s : rq_nonempty s = VParse.nonempty s.
Proof. destruct s; reflexivity. Qed.
Lemma rq_pieces_is t : rq_pieces t = clauses t.
Proof.
  unfold rq_pieces, clauses. rewrite rq_split_is. generalize (Prefix.split_on 44 t). intros L.
  induction L as [|a L IH]; [reflexivity|]. cbn [map filter]. rewrite rq_strip_is, rq_nonempty_is, IH. reflexivity.
Qed.
Lemma rq_all_some_is {A B} (f : A -> option B) l : rq_all_some (map f l) = map_opt f l.
Proof. induction l as [|a l IH]; cbn [map rq_all_some map_opt]; [reflexivity|]. destruct (f a); [now rewrite IH|reflexivity]. Qed.
Theorem rq_specset_is t : rq_specset t = map_opt Specifier (clauses t).
Proof. unfold rq_specset. now rewrite rq_pieces_is, rq_all_some_is. Qed.
Lemma rq_join_is sep l : rq_join sep l = join_with sep l.
Proof. induction l as [|a l IH]; [reflexivity|]. cbn [rq_join join_with]. destruct l; [reflexivity|]. now rewrite IH. Qed.

(* ------------------------------------------------------------------ keys: rq_ckey is Specifier._canonical_spec -------------- *)
Lemma canonical_spec_pair sp : canonical_spec sp = (sp_op sp, rq_ctext sp).
Proof. unfold canonical_spec, rq_ctext. destruct (sp_op sp); reflexivity. Qed.
Theorem ckey_sp_eqb a b : sp_eqb a b = true <-> rq_ckey a = rq_ckey b.
Proof.
  unfold sp_eqb. rewrite key_eqb_eq, !canonical_spec_pair, ckey_inj. split; [intros [= -> ->]; auto|intros [-> ->]; reflexivity].
Qed.
Corollary ckey_m_eqb x y : m_eqb x y = true <-> rq_ckey (m_sp x) = rq_ckey (m_sp y).
Proof. apply ckey_sp_eqb. Qed.

(* ------------------------------------------------------------------ frozenset: rq_dedup is fs_of ---------------------------- *)
Lemma fs_mem_keys y l : fs_mem y l = true <-> In (rq_ckey (m_sp y)) (map (fun m => rq_ckey (m_sp m)) l).
Proof.
  unfold fs_mem. rewrite existsb_exists. split.
  - intros (x & Hx & E). apply ckey_m_eqb in E. apply in_map_iff. exists x. auto.
  - intros H. apply in_map_iff in H as (x & E & Hx). exists x. split; auto. now apply ckey_m_eqb.
Qed.
Lemma dedup_is_novel : forall l seenK seenM,
  (forall k, In k seenK <-> In k (map (fun m => rq_ckey (m_sp m)) seenM)) ->
  map m_sp (novel seenM (map mk_member l)) = rq_dedup seenK l.
Proof.
  induction l as [|sp l IH]; intros seenK seenM Hs; cbn [map novel rq_dedup]; [reflexivity|].
  assert (E : fs_mem (mk_member sp) seenM = rq_mem (rq_ckey sp) seenK).
  { destruct (rq_mem (rq_ckey sp) seenK) eqn:M.
    - apply mem_in in M. apply fs_mem_keys. cbn [mk_member m_sp]. now apply Hs.
    - destruct (fs_mem (mk_member sp) seenM) eqn:F; auto. apply fs_mem_keys in F. cbn [mk_member m_sp] in F.
      apply Hs, mem_in in F. congruence. }
  rewrite E. destruct (rq_mem (rq_ckey sp) seenK); [now apply IH|]. cbn [map mk_member m_sp]. f_equal. apply IH.
  intros k. rewrite map_app, in_app_iff. cbn [map In mk_member m_sp]. rewrite <- Hs. tauto.
Qed.
Theorem dedup_is_fs_of l : map m_sp (fs_of (map mk_member l)) = rq_dedup [] l.
Proof. rewrite fs_of_novel. apply dedup_is_novel. intros k. cbn. tauto. Qed.

(* ------------------------------------------------------------------ the SpecifierSet of a requirement ----------------------- *)
(* the object Requirement holds in .specifier *)
Definition rq_sset (l : list specifier) : sset := SpecifierSet_of (map mk_member l) None.
Theorem set_str_is l : set_str (rq_sset l) = rq_set_str l.
Proof.
  unfold set_str, rq_set_str, rq_sset, SpecifierSet_of, rq_sort. cbn [ms].
  rewrite <- (dedup_is_fs_of l), map_map. symmetry. apply rq_join_is.
Qed.
(* 1. SpecifierSet(text) of the Sets domain accepts exactly when rq_specset does, and builds that set *)
Theorem specset_is_SpecifierSet t l : rq_specset t = Some l ->
  SpecifierSet t None = Some (rq_sset l) /\ map m_sp (ms (rq_sset l)) = rq_dedup [] l /\ set_str (rq_sset l) = rq_set_str l.
Proof.
  rewrite rq_specset_is. intros H. split; [|split].
  - unfold SpecifierSet. now rewrite H.
  - apply dedup_is_fs_of.
  - apply set_str_is.
Qed.
Theorem specset_exists_SpecifierSet t l : rq_specset t = Some l ->
  exists S, SpecifierSet t None = Some S /\ map m_sp (ms S) = rq_dedup [] l /\ set_str S = rq_set_str l.
Proof. intros H. exists (rq_sset l). now apply specset_is_SpecifierSet. Qed.
Theorem specset_none_iff t p : rq_specset t = None <-> SpecifierSet t p = None.
Proof.
  rewrite rq_specset_is. unfold SpecifierSet. destruct (map_opt Specifier (clauses t)); split; intros H; try discriminate; reflexivity.
Qed.
Theorem SpecifierSet_is_specset t p S : SpecifierSet t p = Some S -> exists l, rq_specset t = Some l /\ ms S = ms (rq_sset l) /\ ov S = p.
Proof.
  rewrite rq_specset_is. unfold SpecifierSet. destruct (map_opt Specifier (clauses t)) as [l|]; [|discriminate].
  intros [= <-]. exists l. auto.
Qed.

(* 2. every constructed Requirement holds the SpecifierSet of some clause text *)
Lemma Requirement_specset src r : Requirement src = RqOk r -> exists t, rq_specset t = Some (q_specs r).
Proof.
  unfold Requirement. destruct (rq_parse src) as [p|]; [|discriminate].
  destruct (rq_specset (pr_spec p)) as [specs|] eqn:E; [|discriminate]. intros H. exists (pr_spec p). rewrite E. f_equal.
  destruct (pr_marker p) as [m|]; [destruct (lit_class m)|]; inversion H; reflexivity.
Qed.
Theorem Requirement_SpecifierSet src r : Requirement src = RqOk r ->
  exists t, SpecifierSet t None = Some (rq_sset (q_specs r)) /\ set_str (rq_sset (q_specs r)) = rq_set_str (q_specs r).
Proof.
  intros H. destruct (Requirement_specset src r H) as [t Ht]. exists t. destruct (specset_is_SpecifierSet t _ Ht) as (A & _ & B). auto.
Qed.

(* 3. equal requirements have equal specifier sets ... *)
Lemma fs_mem_fs_of y l : fs_mem y (fs_of l) = fs_mem y l.
Proof. unfold fs_of. rewrite fs_mem_fs_union. reflexivity. Qed.
Lemma set_eqb_of_keys la lb : (forall k, In k (map rq_ckey la) <-> In k (map rq_ckey lb)) -> set_eqb (rq_sset la) (rq_sset lb) = true.
Proof.
  intros H. unfold set_eqb, rq_sset, SpecifierSet_of. cbn [ms]. apply fs_eqb_true; try apply fs_ok_of.
  intros y. rewrite !fs_mem_fs_of.
  assert (K : forall l, fs_mem y (map mk_member l) = true <-> In (rq_ckey (m_sp y)) (map rq_ckey l)).
  { intros l. rewrite fs_mem_keys, map_map. cbn [mk_member m_sp]. reflexivity. }
  destruct (fs_mem y (map mk_member la)) eqn:A, (fs_mem y (map mk_member lb)) eqn:B; auto.
  - apply K, H, K in A. congruence.
  - apply K, H, K in B. congruence.
Qed.
Theorem set_eqb_keys_iff la lb : set_eqb (rq_sset la) (rq_sset lb) = true <-> rq_set_eqb (map rq_ckey la) (map rq_ckey lb) = true.
Proof.
  split.
  - intros E. unfold rq_set_eqb. rewrite andb_true_iff, !incl_iff.
    assert (X : forall l l', fs_eqb (fs_of (map mk_member l)) (fs_of (map mk_member l')) = true -> incl (map rq_ckey l) (map rq_ckey l')).
    { intros l l' F k Hk. apply in_map_iff in Hk as (sp & <- & Hsp).
      assert (M : fs_mem (mk_member sp) (fs_of (map mk_member l)) = true).
      { rewrite fs_mem_fs_of. apply fs_mem_iff. exists (mk_member sp). split; auto. now apply in_map. }
      apply fs_mem_iff in M as (x & Hx & Kx).
      destruct (partner _ _ F x Hx) as (y & Hy & Exy). apply in_fs_of, in_map_iff in Hy as (sp' & <- & Hsp').
      apply in_map_iff. exists sp'. split; auto. apply ckey_m_eqb in Exy. cbn [mk_member m_sp] in Exy.
      assert (E2 : m_eqb x (mk_member sp) = true) by now apply m_eqb_eq. apply ckey_m_eqb in E2. cbn [mk_member m_sp] in E2. congruence. }
    unfold set_eqb, rq_sset, SpecifierSet_of in E. cbn [ms] in E. split; [now apply X|].
    apply X. apply fs_eqb_perm; try apply fs_ok_of. apply Permutation_sym. apply fs_eqb_perm; auto; apply fs_ok_of.
  - intros E. apply set_eqb_of_keys. unfold rq_set_eqb in E. rewrite andb_true_iff, !incl_iff in E. destruct E as [E1 E2].
    intros k. split; [apply E1|apply E2].
Qed.

(* ... which contain, filter and report prereleases alike (the C10 clause for the specifier part of a requirement) *)
Theorem equal_requirements_sets_alike sa sb a b : Requirement sa = RqOk a -> Requirement sb = RqOk b -> req_eq a b = true ->
  let A := rq_sset (q_specs a) in let B := rq_sset (q_specs b) in
  set_eqb A B = true /\ set_str A = rq_set_str (q_specs a) /\ set_str B = rq_set_str (q_specs b) /\
  (forall arg inst item, set_contains A arg inst item = set_contains B arg inst item) /\
  (forall arg texts, set_filter A arg texts = set_filter B arg texts) /\ set_pre A = set_pre B.
Proof.
  intros Ha Hb E. cbv zeta.
  destruct (Requirement_SpecifierSet sa a Ha) as (ta & TA & SA). destruct (Requirement_SpecifierSet sb b Hb) as (tb & TB & SB).
  assert (Q : set_eqb (rq_sset (q_specs a)) (rq_sset (q_specs b)) = true).
  { apply set_eqb_of_keys. apply req_eq_semantics in E. tauto. }
  split; auto. split; auto. split; auto. exact (equal_text_sets_behave_alike ta tb None _ _ TA TB Q).
Qed.
Print Assumptions specset_is_SpecifierSet.
Print Assumptions ckey_sp_eqb.
Print Assumptions equal_requirements_sets_alike.

(* non-vacuity: "a>=1.0, ==2.0.0" and "A ==2.0,>=1" are equal requirements with different member lists *)
Definition link_a : list N := [97;62;61;49;46;48;44;32;61;61;50;46;48;46;48].
Definition link_b : list N := [65;32;61;61;50;46;48;44;62;61;49].
Definition link_check : bool :=
  match Requirement link_a, Requirement link_b with
  | RqOk a, RqOk b => req_eq a b && set_eqb (rq_sset (q_specs a)) (rq_sset (q_specs b))
                      && negb (rq_str_eqb (rq_join [44] (map spec_str (q_specs a))) (rq_join [44] (map spec_str (q_specs b))))
                      && rq_str_eqb (set_str (rq_sset (q_specs a))) (rq_set_str (q_specs a))
  | _, _ => false
  end.
Example link_check_ok : link_check = true.
Proof. vm_compute. reflexivity. Qed.
