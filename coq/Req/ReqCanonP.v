(* C08 proofs, part 13: the str round trip for EVERY constructed requirement - no D7 hypothesis.
   On the canonical text (no blanks anywhere in the clause list) a "===" token swallows the rest of the list up to the end, ";" or
   ")"; every swallowed character is a comma or a non-blank clause character other than ";" and ")", so _parse_version_many returns
   the same text whether or not the tail was swallowed, and SpecifierSet re-splits it at the commas.  Also covered: "===" with an
   empty text (Specifier accepts it; rq_wf_clause does not). *)
From Coq Require Import List Arith NArith Bool Lia Permutation.
Import ListNotations.
Require Import MText MRound MRound2 MRound3 MkModel MkRoundP.
Require Names.
Require Import VParse VComplete VTop VTop2 SpecParse SpecSound SpecContains Py Canon Order SortPerm.
Require Import ReqModel ReqSpec ReqScanP ReqTokP ReqListP ReqMarkP ReqParseP ReqSetP ReqTopP ReqEqP ReqSoundP ReqRoundP ReqRoundFullP.
Open Scope N_scope.
Arguments N.eqb : simpl never.
Arguments N.leb : simpl never.

(* ------------------------------------------------------------------ what a constructed specifier looks like ---------------- *)
(* the text is a body the operator's scanner consumes completely, and holds no comma *)
Definition rq_spec_ok (sp : specifier) : Prop :=
  (exists b, p_body (sp_op sp) (sp_text sp) = Some (b, [])) /\ rq_no_comma (sp_text sp) = true.
Lemma clause_of_spec_ok sp : (exists c, clause_of sp c /\ rq_no_comma (r_body (c_body c)) = true) -> rq_spec_ok sp.
Proof.
  intros (c & (E & _ & _ & Hb) & Hc). subst sp. unfold rq_spec_ok, rq_clause_spec. cbn [sp_op sp_text]. split; eauto.
Qed.
Lemma sound_specs_ok r : rq_sound r -> Forall rq_spec_ok (q_specs r).
Proof. intros S. eapply Forall_impl; [|exact (snd_specs r S)]. intros sp. apply clause_of_spec_ok. Qed.

Lemma nonstop_arb c : stopc c = false -> arb_char c = true.
Proof.
  intros H. unfold arb_char. destruct (is_ws c) eqn:W; [apply ws_is_stop in W; congruence|].
  destruct (c =? 59) eqn:E1; [apply N.eqb_eq in E1; subst; discriminate|].
  destruct (c =? 41) eqn:E2; [apply N.eqb_eq in E2; subst; discriminate|]. reflexivity.
Qed.
Lemma op_txt_arb o : forallb arb_char (op_txt o) = true.
Proof. destruct o; reflexivity. Qed.
Lemma spec_ok_text_arb sp : rq_spec_ok sp -> forallb arb_char (sp_text sp) = true.
Proof.
  intros [[b Hb] _]. destruct (oper_eq_dec_arb (sp_op sp)) as [E|Ho].
  - rewrite E in Hb. now apply body_arb_all in Hb.
  - pose proof (body_all_nonstop _ _ _ Ho Hb) as A. rewrite forallb_forall in *. intros c Hc. apply nonstop_arb.
    specialize (A c Hc). now apply negb_true_iff in A.
Qed.
Lemma spec_ok_str_arb sp : rq_spec_ok sp -> forallb arb_char (spec_str sp) = true.
Proof. intros H. unfold spec_str. rewrite forallb_app, op_txt_arb, (spec_ok_text_arb sp H). reflexivity. Qed.

(* x :: rest joined = x ++ (the separator and the rest, if any) *)
Definition rq_join_tl (L : list (list N)) : list N := match L with [] => [] | _ :: _ => 44 :: rq_join [44] L end.
Lemma join_cons t L : rq_join [44] (t :: L) = t ++ rq_join_tl L.
Proof. destruct L; cbn [rq_join rq_join_tl app]; [now rewrite app_nil_r|reflexivity]. Qed.
Lemma join_arb L : Forall (fun t => forallb arb_char t = true) L -> forallb arb_char (rq_join [44] L) = true.
Proof.
  induction 1 as [|t L Ht _ IH]; [reflexivity|]. rewrite join_cons, forallb_app, Ht. destruct L; [reflexivity|].
  cbn [rq_join_tl forallb andb]. rewrite IH. reflexivity.
Qed.
Lemma join_tl_arb L : Forall (fun t => forallb arb_char t = true) L -> forallb arb_char (rq_join_tl L) = true.
Proof. intros H. destruct L; [reflexivity|]. cbn [rq_join_tl forallb]. now rewrite join_arb. Qed.

(* ------------------------------------------------------------------ the "===" token swallows up to the end, ";" or ")" ------ *)
Lemma tail_astop T : rq_tail T -> astop T.
Proof. destruct T; cbn; auto. intros [->| ->]; reflexivity. Qed.
Lemma tail_hd_ws T : rq_tail T -> hd_is is_ws T = false.
Proof. destruct T; cbn; auto. intros [->| ->]; reflexivity. Qed.
Lemma try_ops_arb x T : forallb arb_char x = true -> rq_tail T ->
  rq_try_ops ops_in_order ([61;61;61] ++ x ++ T) = Some ([61;61;61] ++ x, T).
Proof.
  intros Hx HT. unfold ops_in_order. cbn [app].
  rewrite (try_ops_skip1 OCompat _ 61) by (cbn [op_txt]; lit_eqb; reflexivity).
  cbn [rq_try_ops op_txt SpecParse.starts]. lit_eqb.
  cbn [VParse.span]. replace (is_ws 61) with false by reflexivity.
  replace (p_body OEq (61 :: x ++ T)) with (@None (body * list N)).
  2:{ symmetry. cbn [p_body]. destruct (p_pub (61 :: x ++ T)) as [[q r]|] eqn:E; auto.
      apply p_pub_head in E. destruct E; discriminate. }
  assert (S0 : VParse.span is_ws (x ++ T) = ([], x ++ T)).
  { apply span_none. destruct x as [|c x']; cbn [app]; [now apply tail_hd_ws|].
    cbn [forallb] in Hx. apply andb_prop in Hx as [Hc _]. cbn. now apply arb_not_ws. }
  rewrite S0.
  assert (B : p_body OArb (x ++ T) = Some (BArb x, T)).
  { rewrite p_body_arb_ext by now apply tail_astop.
    assert (B0 : p_body OArb x = Some (BArb x, [])).
    { cbn [p_body]. pose proof (span_complete arb_char x [] Hx eq_refl) as Q. rewrite app_nil_r in Q. now rewrite Q. }
    rewrite B0. reflexivity. }
  rewrite B. f_equal. f_equal.
  change (61 :: 61 :: 61 :: x ++ T) with (([61;61;61] ++ x) ++ T). rewrite firstn_len_app. reflexivity.
Qed.
Lemma tail_ufold T : rq_tail T -> rq_tail (map rq_ufold T).
Proof. destruct T; cbn; auto. intros [->| ->]; [left|right]; reflexivity. Qed.
Lemma spec_tok_arb p x T : forallb arb_char x = true -> rq_tail T ->
  rq_spec_tok {| prev := p; rest := [61;61;61] ++ x ++ T |}
  = Some ([61;61;61] ++ x, {| prev := last_opt p ([61;61;61] ++ x); rest := T |}).
Proof.
  intros Hx HT. unfold rq_spec_tok, rq_spec_len. cbn [rest]. rewrite !map_app.
  change (map rq_ufold [61;61;61]) with [61;61;61].
  rewrite (try_ops_arb (map rq_ufold x) (map rq_ufold T)).
  2:{ rewrite forallb_forall in *. intros y Hy. apply in_map_iff in Hy as (z & <- & Hz). rewrite ufold_arb. auto. }
  2:{ now apply tail_ufold. }
  assert (L : length ([61;61;61] ++ map rq_ufold x) = length ([61;61;61] ++ x)) by (rewrite !app_length, map_length; reflexivity).
  rewrite L. rewrite (app_assoc [61;61;61] x T).
  rewrite firstn_app, Nat.sub_diag, firstn_all, skipn_app, Nat.sub_diag, skipn_all. cbn [firstn skipn]. rewrite app_nil_r. reflexivity.
Qed.

(* ------------------------------------------------------------------ _parse_version_many on the canonical clause list -------- *)
Lemma spec_str_head sp X : nbhead (spec_str sp ++ X) /\
  match spec_str sp ++ X with d :: _ => (d =? 64) = false /\ (d =? 40) = false /\ (d =? 91) = false /\ rq_is_ident d = false | [] => False end.
Proof. unfold spec_str. destruct (sp_op sp); cbn; repeat split; reflexivity. Qed.

(* a constructed specifier with an operator other than "===" is a valid clause (the text is not empty) *)
Definition clause_of_spec (sp : specifier) (b : body) : rq_clause := {| c_op := sp_op sp; c_ws := []; c_body := b |}.
Lemma spec_ok_clause sp b : p_body (sp_op sp) (sp_text sp) = Some (b, []) -> rq_no_comma (sp_text sp) = true -> sp_text sp <> [] ->
  rq_wf_clause (clause_of_spec sp b) /\ rq_clause_text (clause_of_spec sp b) = spec_str sp /\ rq_clause_spec (clause_of_spec sp b) = sp.
Proof.
  intros Hb Hc Hx. pose proof (p_body_sound _ _ _ _ Hb) as [E _]. rewrite app_nil_r in E.
  unfold rq_wf_clause, rq_clause_text, rq_clause_spec, clause_of_spec, spec_str. cbn [c_op c_ws c_body app]. rewrite <- E.
  repeat split; auto. destruct sp; reflexivity.
Qed.
Lemma nonarb_text_nonempty sp : rq_spec_ok sp -> sp_op sp <> OArb -> sp_text sp <> [].
Proof. intros [[b Hb] _] Ho E. rewrite E, (p_body_nil _ Ho) in Hb. discriminate. Qed.

Lemma version_many_canon : forall P sp acc p T fuel, Forall rq_spec_ok (sp :: P) -> rq_tail T -> (length P < fuel)%nat ->
  exists q, rq_version_many fuel acc {| prev := p; rest := rq_join [44] (map spec_str (sp :: P)) ++ T |}
            = Some (acc ++ rq_join [44] (map spec_str (sp :: P)), {| prev := q; rest := T |}).
Proof.
  induction P as [|sp' P IH]; intros sp acc p T fuel Hall HT Hf; (destruct fuel as [|f]; [lia|]); cbn [rq_version_many];
    inversion Hall as [|? ? Hsp Hall']; subst.
  - (* the last clause *)
    cbn [map rq_join]. destruct (oper_eq_dec_arb (sp_op sp)) as [Eo|Ho].
    + unfold spec_str. rewrite Eo. cbn [op_txt]. rewrite <- app_assoc.
      rewrite (spec_tok_arb p (sp_text sp) T (spec_ok_text_arb sp Hsp) HT).
      destruct (follow_trails false (last_opt p ([61;61;61] ++ sp_text sp)) T (tail_follow _ _ HT)) as [-> ->]. cbn [orb].
      rewrite skip_ws_id by now apply tail_nbhead.
      replace (rq_is_hd 44 {| prev := last_opt p ([61;61;61] ++ sp_text sp); rest := T |}) with false.
      2:{ unfold rq_is_hd. cbn [rest]. destruct T as [|d t]; auto. cbn in HT. destruct HT as [->| ->]; reflexivity. }
      eexists. reflexivity.
    + destruct Hsp as [[b Hb] Hc]. pose proof (nonarb_text_nonempty sp (conj (ex_intro _ b Hb) Hc) Ho) as Hx.
      destruct (spec_ok_clause sp b Hb Hc Hx) as (W & <- & _).
      assert (F : rq_follow (rq_is_arb (c_op (clause_of_spec sp b))) T) by now apply tail_follow.
      rewrite (spec_tok_ok p _ _ W F).
      destruct (follow_trails _ (last_opt p (rq_clause_text (clause_of_spec sp b))) _ F) as [-> ->]. cbn [orb].
      rewrite skip_ws_id by now apply tail_nbhead.
      replace (rq_is_hd 44 {| prev := last_opt p (rq_clause_text (clause_of_spec sp b)); rest := T |}) with false.
      2:{ unfold rq_is_hd. cbn [rest]. destruct T as [|d t]; auto. cbn in HT. destruct HT as [->| ->]; reflexivity. }
      eexists. reflexivity.
  - (* more clauses follow *)
    assert (A' : Forall (fun t => forallb arb_char t = true) (map spec_str (sp' :: P))).
    { apply Forall_map. eapply Forall_impl; [|exact Hall']. intros a Ha. now apply spec_ok_str_arb. }
    destruct (oper_eq_dec_arb (sp_op sp)) as [Eo|Ho].
    + (* "===": the token takes the whole rest of the list *)
      change (map spec_str (sp :: sp' :: P)) with (spec_str sp :: map spec_str (sp' :: P)). rewrite join_cons.
      assert (Es : spec_str sp = [61;61;61] ++ sp_text sp) by (unfold spec_str; now rewrite Eo).
      rewrite Es. rewrite <- !app_assoc.
      set (x := sp_text sp ++ rq_join_tl (map spec_str (sp' :: P))).
      assert (Hx : forallb arb_char x = true).
      { unfold x. rewrite forallb_app, (spec_ok_text_arb sp Hsp). now rewrite join_tl_arb. }
      replace ([61;61;61] ++ sp_text sp ++ rq_join_tl (map spec_str (sp' :: P)) ++ T) with ([61;61;61] ++ x ++ T)
        by (unfold x; now rewrite <- !app_assoc).
      rewrite (spec_tok_arb p x T Hx HT).
      destruct (follow_trails false (last_opt p ([61;61;61] ++ x)) T (tail_follow _ _ HT)) as [-> ->]. cbn [orb].
      rewrite skip_ws_id by now apply tail_nbhead.
      replace (rq_is_hd 44 {| prev := last_opt p ([61;61;61] ++ x); rest := T |}) with false.
      2:{ unfold rq_is_hd. cbn [rest]. destruct T as [|d t]; auto. cbn in HT. destruct HT as [->| ->]; reflexivity. }
      eexists. reflexivity.
    + destruct Hsp as [[b Hb] Hc]. pose proof (nonarb_text_nonempty sp (conj (ex_intro _ b Hb) Hc) Ho) as Hx.
      destruct (spec_ok_clause sp b Hb Hc Hx) as (W & Et & _).
      change (map spec_str (sp :: sp' :: P)) with (spec_str sp :: map spec_str (sp' :: P)). rewrite join_cons.
      cbn [rq_join_tl map]. rewrite <- Et. rewrite <- !app_assoc. cbn [app].
      set (c := clause_of_spec sp b) in *.
      assert (F : rq_follow (rq_is_arb (c_op c)) (44 :: rq_join [44] (spec_str sp' :: map spec_str P) ++ T)).
      { cbn [rq_follow]. right. right. right. right. split; auto.
        destruct (rq_is_arb (c_op c)) eqn:E; auto. apply is_arb_true in E. cbn in E. congruence. }
      rewrite (spec_tok_ok p c _ W F).
      destruct (follow_trails _ (last_opt p (rq_clause_text c)) _ F) as [-> ->]. cbn [orb].
      rewrite skip_ws_id by reflexivity.
      unfold rq_is_hd at 1. cbn [rest]. lit_eqb.
      unfold rq_drop1. cbn [rest]. unfold adv at 1. cbn [prev last_opt].
      change (spec_str sp' :: map spec_str P) with (map spec_str (sp' :: P)).
      assert (NB : nbhead (rq_join [44] (map spec_str (sp' :: P)) ++ T)).
      { cbn [map]. rewrite join_cons, <- app_assoc. apply spec_str_head. }
      rewrite skip_ws_id by exact NB.
      cbn [length] in Hf.
      destruct (IH sp' (acc ++ rq_clause_text c ++ [44]) (Some 44) T f Hall' HT ltac:(lia)) as [q E].
      unfold MText.str, MText.char in *. rewrite E. eexists. f_equal. f_equal.
      rewrite <- !app_assoc. reflexivity.
Qed.

(* ------------------------------------------------------------------ SpecifierSet of the canonical clause list --------------- *)
Lemma spec_str_no_comma sp : rq_spec_ok sp -> rq_no_comma (spec_str sp) = true.
Proof. intros [_ Hc]. unfold spec_str. apply no_comma_app; auto. destruct (sp_op sp); reflexivity. Qed.
Lemma spec_str_nows sp : rq_spec_ok sp -> nows_ends (spec_str sp).
Proof.
  intros [[b Hb] _]. unfold nows_ends, spec_str.
  destruct (op_txt (sp_op sp) ++ sp_text sp) as [|d r] eqn:E; [destruct (sp_op sp); discriminate|]. split.
  - destruct (sp_op sp); cbn in E; inversion E; reflexivity.
  - rewrite <- E. destruct (sp_text sp) as [|c t] eqn:Et.
    + rewrite app_nil_r. destruct (sp_op sp); reflexivity.
    + rewrite last_app_ne by discriminate. rewrite <- Et in *. eapply body_last_nows; eauto. rewrite Et. discriminate.
Qed.
Lemma Specifier_spec_str sp : rq_spec_ok sp -> Specifier (spec_str sp) = Some sp.
Proof.
  intros [[b Hb] Hc]. destruct (sp_text sp) as [|c t] eqn:Et.
  - destruct (oper_eq_dec_arb (sp_op sp)) as [Eo|Ho]; [|rewrite (p_body_nil _ Ho) in Hb; discriminate].
    destruct sp as [o x]. cbn in *. subst. reflexivity.
  - rewrite <- Et in *. assert (Hx : sp_text sp <> []) by (rewrite Et; discriminate).
    destruct (spec_ok_clause sp b Hb Hc Hx) as (W & <- & E). rewrite (Specifier_clause _ W). now rewrite E.
Qed.
Theorem specset_canon P : Forall rq_spec_ok P -> rq_specset (rq_join [44] (map spec_str P)) = Some P.
Proof.
  intros H. unfold rq_specset, rq_pieces. destruct P as [|sp P]; [reflexivity|].
  rewrite split_join.
  2:{ discriminate. }
  2:{ apply Forall_map. eapply Forall_impl; [|exact H]. intros a Ha. now apply spec_str_no_comma. }
  assert (E : filter rq_nonempty (map rq_strip (map spec_str (sp :: P))) = map spec_str (sp :: P)).
  { induction H as [|a l Ha Hl IH]; [reflexivity|]. cbn [map filter]. rewrite (strip_id _ (spec_str_nows a Ha)).
    destruct (spec_str a) eqn:E; [unfold spec_str in E; destruct (sp_op a); discriminate|]. cbn [rq_nonempty]. now rewrite IH. }
  rewrite E. clear E. induction H as [|a l Ha Hl IH]; [reflexivity|].
  cbn [map rq_all_some]. rewrite (Specifier_spec_str a Ha). cbn [map] in IH. rewrite IH. reflexivity.
Qed.

(* ------------------------------------------------------------------ requirement_details on "clauses[; marker]" -------------- *)
Lemma details_canon P mk m p : Forall rq_spec_ok P -> mk_rel mk m ->
  let s' := {| prev := p; rest := rq_join [44] (map spec_str P) ++ mk_text mk |} in
  rq_is_hd 91 s' = false /\ skip_ws s' = s' /\ nihead (rest s') /\
  exists q, rq_details s' = Some (([], rq_join [44] (map spec_str P), m), {| prev := q; rest := [] |}).
Proof.
  intros Hall Hm. cbv zeta. destruct P as [|sp P].
  - cbn [map rq_join app].
    assert (H91 : rq_is_hd 91 {| prev := p; rest := mk_text mk |} = false) by (destruct mk; reflexivity).
    assert (H64 : rq_is_hd 64 {| prev := p; rest := mk_text mk |} = false) by (destruct mk; reflexivity).
    assert (H40 : rq_is_hd 40 {| prev := p; rest := mk_text mk |} = false) by (destruct mk; reflexivity).
    split; auto. rewrite skip_ws_id by (apply tail_nbhead, mk_tail). split; auto. split; [destruct mk; cbn; auto|].
    unfold rq_details. rewrite H64. unfold rq_specifier. rewrite H40.
    rewrite skip_ws_id by (apply tail_nbhead, mk_tail).
    rewrite version_many_empty by (try apply mk_tail; lia).
    rewrite !skip_ws_id by (apply tail_nbhead, mk_tail).
    apply end_or_marker_ok; auto.
  - destruct (spec_str_head sp (rq_join_tl (map spec_str P) ++ mk_text mk)) as [NB HD].
    change (map spec_str (sp :: P)) with (spec_str sp :: map spec_str P). rewrite join_cons, <- app_assoc.
    destruct (spec_str sp ++ rq_join_tl (map spec_str P) ++ mk_text mk) as [|d r] eqn:Er; [contradiction|].
    destruct HD as (H64 & H40 & H91 & Hid).
    rewrite skip_ws_id by exact NB. rewrite is_hd_cons, H91. split; auto. split; auto. split; [exact Hid|].
    unfold rq_details. rewrite is_hd_cons, H64. unfold rq_specifier. rewrite is_hd_cons, H40.
    rewrite skip_ws_id by exact NB. cbn [rest]. rewrite <- Er.
    match goal with |- context [rq_version_many ?fu [] _] =>
      destruct (version_many_canon P sp [] p (mk_text mk) fu Hall (mk_tail mk)) as [q E] end.
    { change (map spec_str (sp :: P)) with (spec_str sp :: map spec_str P) in *.
      assert (L : (length P <= length (rq_join_tl (map spec_str P)))%nat).
      { clear. induction P as [|a P IH]; [cbn; lia|]. cbn [map rq_join_tl length]. rewrite join_cons, app_length.
        cbn [map] in IH. destruct P; cbn [rq_join_tl map length] in *; lia. }
      rewrite !app_length. lia. }
    change (map spec_str (sp :: P)) with (spec_str sp :: map spec_str P) in E. rewrite join_cons, <- app_assoc in E.
    cbn [app] in E. unfold MText.str, MText.char in *. rewrite E. cbn [app].
    rewrite !skip_ws_id by (apply tail_nbhead, mk_tail).
    rewrite <- join_cons. apply end_or_marker_ok; auto.
Qed.

(* ------------------------------------------------------------------ the canonical text of a requirement without URL --------- *)
Definition rq_extras_text (E : list (list N)) : list N := match E with [] => [] | _ => 91 :: rq_join [44] E ++ [93] end.
Lemma parse_canon name E P mk m :
  rq_valid_ident name = true -> Forall (fun e => rq_valid_ident e = true) E -> Forall rq_spec_ok P -> mk_rel mk m ->
  rq_parse (name ++ rq_extras_text E ++ rq_join [44] (map spec_str P) ++ mk_text mk)
  = Some {| pr_name := name; pr_url := []; pr_extras := E; pr_spec := rq_join [44] (map spec_str P); pr_marker := m |}.
Proof.
  intros Hn HE HP Hm. unfold rq_parse.
  rewrite skip_ws_id by (apply valid_ident_head; auto).
  destruct (details_canon P mk m (Some 93) HP Hm) as (_ & _ & _ & q1 & D1).
  destruct (details_canon P mk m (last_opt None name) HP Hm) as (N91 & Sid & NI & q2 & D2). cbv zeta in *.
  destruct E as [|e E'] eqn:EE; cbn [rq_extras_text app].
  - rewrite rq_ident_ok; auto.
    unfold MText.str, MText.char in *. cbn [last_opt]. rewrite Sid.
    rewrite (extras_absent _ N91). rewrite Sid, D2. rewrite at_end_nil. reflexivity.
  - rewrite <- EE in *. rewrite rq_ident_ok; auto; [|reflexivity].
    rewrite skip_ws_id by reflexivity.
    pose proof (extras_ok (last_opt None name) [] (map bare E) (rq_join [44] (map spec_str P) ++ mk_text mk) eq_refl) as X.
    rewrite items_text_bare, map_id, map_val_bare in X. cbn [app] in X. rewrite <- app_assoc. cbn [app].
    unfold MText.str, MText.char in *. rewrite X.
    2:{ apply Forall_map. eapply Forall_impl; [|exact HE]. intros a Ha. split; [reflexivity|exact Ha]. }
    destruct (details_canon P mk m (Some 93) HP Hm) as (_ & Sid' & _ & _). cbv zeta in Sid'.
    rewrite Sid', D1, at_end_nil. reflexivity.
Qed.

(* ------------------------------------------------------------------ the round trip ------------------------------------------ *)
(* what is needed of the reparsed requirement r' to conclude (the second half of ReqRoundP.roundtrip, made a lemma) *)
Lemma roundtrip_finish r r' P :
  q_name r' = q_name r -> q_extras r' = match q_extras r with [] => [] | _ => rq_extras_sorted r end ->
  q_specs r' = P -> Permutation (rq_dedup [] (q_specs r)) P -> q_url r' = q_url r ->
  option_map format_marker (q_marker r') = option_map format_marker (q_marker r) ->
  req_eq r r' = true /\ req_str r' = req_str r.
Proof.
  intros Dn De Ds HP Du Dm.
  assert (Extras_sorted_same : rq_extras_sorted r' = rq_extras_sorted r).
  { unfold rq_extras_sorted at 1. rewrite De. destruct (q_extras r) eqn:Ee; [unfold rq_extras_sorted; rewrite Ee; reflexivity|].
    rewrite uniq_id.
    - apply sort_idem.
    - eapply Permutation_NoDup; [apply sort_perm|apply uniq_nodup].
    - intros x _ []. }
  assert (KP : forall k, In k (map rq_ckey P) <-> In k (map rq_ckey (q_specs r))).
  { intros k. destruct (dedup_spec (q_specs r) []) as (I1 & _ & _).
    split.
    - intros Hk. apply (Permutation_in _ (Permutation_sym (Permutation_map rq_ckey HP))) in Hk. apply I1 in Hk. tauto.
    - intros Hk. apply (Permutation_in _ (Permutation_map rq_ckey HP)). apply I1. split; auto. }
  split.
  - apply req_eq_semantics. rewrite Dn, Du, Dm, Ds, De. repeat split; auto.
    + destruct (q_extras r) eqn:Ee; [auto|]. rewrite <- Ee. intros He. eapply Permutation_in; [apply sort_perm|]. now apply uniq_in.
    + destruct (q_extras r) eqn:Ee; [auto|]. rewrite <- Ee. intros He. apply uniq_in. eapply Permutation_in; [apply Permutation_sym, sort_perm|exact He].
    + apply KP. + apply KP.
  - unfold req_str at 1. rewrite Dn, Du, Ds, Extras_sorted_same.
    assert (Epart : match q_extras r' with [] => [] | _ :: _ => 91 :: rq_join [44] (rq_extras_sorted r) ++ [93] end
                  = match q_extras r with [] => [] | _ :: _ => 91 :: rq_join [44] (rq_extras_sorted r) ++ [93] end).
    { rewrite De. destruct (q_extras r) as [|e es] eqn:Ee; [reflexivity|].
      destruct (rq_extras_sorted r) eqn:Es; [|reflexivity].
      exfalso. assert (In e (rq_extras_sorted r)).
      { eapply Permutation_in; [apply sort_perm|]. apply uniq_in. rewrite Ee. left. reflexivity. }
      rewrite Es in H. contradiction. }
    rewrite Epart.
    assert (Spart : match P with [] => [] | _ :: _ => rq_set_str P end = match q_specs r with [] => [] | _ :: _ => rq_set_str (q_specs r) end).
    { assert (NDP : NoDup (map rq_ckey P)).
      { destruct (dedup_spec (q_specs r) []) as (_ & ND & _). eapply Permutation_NoDup; [apply Permutation_map; exact HP|exact ND]. }
      assert (SP : rq_set_str P = rq_set_str (q_specs r)).
      { unfold rq_set_str. rewrite (dedup_id P []) by (auto; intros x _ []). f_equal. apply sort_perm_eq.
        apply Permutation_map. now apply Permutation_sym. }
      destruct (q_specs r) as [|s0 ss] eqn:Es.
      - cbn in HP. apply Permutation_nil in HP. now rewrite HP.
      - rewrite <- Es in *. destruct P as [|p0 P']; [|exact SP].
        exfalso. apply Permutation_sym, Permutation_nil in HP. rewrite Es in HP. cbn [rq_dedup rq_mem existsb] in HP. discriminate. }
    rewrite Spart.
    assert (Mpart : match q_marker r' with Some m => 59 :: 32 :: format_marker m | None => [] end
                  = match q_marker r with Some m => 59 :: 32 :: format_marker m | None => [] end).
    { destruct (q_marker r) as [m|] eqn:Em, (q_marker r') as [m2|] eqn:Em2; cbn [option_map] in Dm; try discriminate; auto.
      injection Dm as ->. reflexivity. }
    rewrite Mpart.
    assert (Msome : match q_marker r' with Some _ => [32] | None => [] end = match q_marker r with Some _ => [32] | None => [] end).
    { destruct (q_marker r), (q_marker r'); cbn [option_map] in Dm; try discriminate; auto. }
    unfold req_str. destruct (q_url r); [rewrite Msome|]; reflexivity.
Qed.

Section RoundAll.
Variable r : requirement.
Hypothesis Snd : rq_sound r.
Hypothesis Mrt : rq_marker_rt (q_marker r).

Theorem roundtrip_all : exists r', Requirement (req_str r) = RqOk r' /\ req_eq r r' = true /\ req_str r' = req_str r.
Proof.
  destruct (q_url r) as [u|] eqn:Eu.
  { (* with a URL there is no clause: the existing theorem applies *)
    apply (roundtrip r Snd); auto. pose proof (snd_url r Snd) as S1. rewrite Eu in S1. destruct S1 as (_ & _ & S1).
    split; [unfold rq_canon_clauses; rewrite S1; reflexivity|rewrite S1; constructor]. }
  destruct (@Permutation_map_inv _ _ spec_str (rq_canon_clauses r) (rq_dedup [] (q_specs r))) as (P & HP1 & HP2).
  { apply Permutation_sym, sort_perm. }
  assert (OKP : Forall rq_spec_ok P).
  { apply Forall_forall. intros sp Hsp. pose proof (sound_specs_ok r Snd) as S1. rewrite Forall_forall in S1. apply S1.
    destruct (dedup_spec (q_specs r) []) as (_ & _ & I). apply I. eapply Permutation_in; [apply Permutation_sym; exact HP2|exact Hsp]. }
  assert (HM : exists mo, rq_lits_ok mo /\
            match q_marker r, mo with
            | None, None => True
            | Some m, Some m' => MText.parse_marker (32 :: format_marker m) = Some m' /\ format_marker (norm_l m') = format_marker m
            | _, _ => False end).
  { destruct (q_marker r) as [m|]; [|exists None; cbn; auto]. destruct Mrt as (m' & H1 & H2 & H3).
    exists (Some m'). split; [exact H2|]. split; auto. now apply parse_marker_space. }
  destruct HM as (mo & Lok & HM).
  set (E := match q_extras r with [] => [] | _ => rq_extras_sorted r end).
  set (mk := option_map (fun m => 32 :: format_marker m) (q_marker r)).
  assert (Str : req_str r = q_name r ++ rq_extras_text E ++ rq_join [44] (map spec_str P) ++ mk_text mk).
  { unfold req_str. rewrite Eu. f_equal. f_equal.
    { unfold rq_extras_text, E. destruct (q_extras r) as [|e es] eqn:Ee; [reflexivity|].
      destruct (rq_extras_sorted r) eqn:Es; [|reflexivity].
      exfalso. assert (In e (rq_extras_sorted r)).
      { eapply Permutation_in; [apply sort_perm|]. apply uniq_in. rewrite Ee. left. reflexivity. }
      rewrite Es in H. contradiction. }
    cbn [app]. f_equal.
    - rewrite <- HP1. unfold rq_set_str, rq_canon_clauses. destruct (q_specs r); reflexivity.
    - unfold mk. destruct (q_marker r); reflexivity. }
  assert (HE : Forall (fun e => rq_valid_ident e = true) E).
  { unfold E. destruct (q_extras r); [constructor|]. now apply sorted_extras_valid. }
  assert (Hmk : mk_rel mk mo).
  { unfold mk. destruct (q_marker r) as [m|], mo as [m'|]; cbn [option_map mk_rel]; try contradiction; auto. exact (proj1 HM). }
  pose proof (parse_canon (q_name r) E P mk mo (snd_name r Snd) HE OKP Hmk) as PC. rewrite <- Str in PC.
  set (r' := {| q_name := q_name r; q_extras := E; q_specs := P; q_url := None; q_marker := option_map norm_l mo |}).
  exists r'. split.
  - unfold Requirement. rewrite PC. cbn [pr_spec pr_name pr_url pr_extras pr_marker]. rewrite (specset_canon P OKP).
    unfold r'. destruct mo as [m'|]; cbn [rq_lits_ok option_map] in *; [rewrite Lok|]; reflexivity.
  - apply (roundtrip_finish r r' P); auto.
    unfold r'. cbn [q_marker]. destruct (q_marker r) as [m|], mo as [m'|]; cbn [option_map]; try contradiction; auto.
    f_equal. exact (proj2 HM).
Qed.
End RoundAll.

(* every constructed requirement: soundness of the tokenizer rules + the marker domain's round-trip theorem (C09) *)
Theorem str_roundtrip_nogap src r : Requirement src = RqOk r ->
  exists r', Requirement (req_str r) = RqOk r' /\ req_eq r r' = true /\ req_str r' = req_str r.
Proof.
  intros H. apply roundtrip_all; [eapply Requirement_sound; eauto|].
  destruct (q_marker r) as [m|] eqn:M; [|exact I].
  destruct (Requirement_marker_origin src r m H M) as (m0 & (fuel & s & s' & P) & L & ->).
  exact (c09_holds fuel s m0 s' P L).
Qed.
Print Assumptions str_roundtrip_nogap.

(* non-vacuity: requirements the old hypothesis rq_no_gap excluded *)
Definition nogap_src1 : list N := [97;62;61;49;44;32;61;61;61;120].            (* "a>=1, ===x"   : "===" sorts before ">=" *)
Definition nogap_src2 : list N := [97;61;61;61].                               (* "a==="         : empty "===" text *)
Definition nogap_src3 : list N := [97;32;62;61;49;44;61;61;61;32;120;32;44;60;50].   (* "a >=1,=== x ,<2" *)
Definition nogap_rt (src : list N) : bool :=
  match Requirement src with
  | RqOk r => match Requirement (req_str r) with RqOk r' => req_eq r r' && rq_str_eqb (req_str r') (req_str r) | _ => false end
  | _ => false
  end.
Definition nogap_check : bool := nogap_rt nogap_src1 && nogap_rt nogap_src2 && nogap_rt nogap_src3.
Example nogap_check_ok : nogap_check = true.
Proof. vm_compute. reflexivity. Qed.
