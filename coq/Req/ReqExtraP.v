(* C08 proofs, part 17 (follow-up round): small strengthenings asked for by the re-audit.
   - rq_key_eqb (the decision procedure behind the observation r.eqh) IS equality of keys;
   - the clause string printed for a set of equal clauses is the string of the FIRST one supplied (a property of rq_dedup);
   - the SpecifierSet a Requirement holds is SpecifierSet(parsed.specifier) of ITS OWN source text;
   - "a marker after a URL needs whitespace" at the level of Requirement (not only rq_parse). *)
From Coq Require Import List Arith NArith Bool Lia Permutation.
Import ListNotations.
Require Import MText MkModel.
Require Names.
Require Import VParse SpecParse SpecSound SpecContains Py Canon SortPerm.
Require Import SetsModel.
Require Import ReqModel ReqSpec ReqParseP ReqTopP ReqEqP ReqSoundP ReqRoundP ReqCanonP ReqSetsLinkP ReqStrFormP.
Open Scope N_scope.
Arguments N.eqb : simpl never.

(* ------------------------------------------------------------------ rq_key_eqb ------------------------------------------------ *)
Lemma lists_eqb_eq a b : rq_lists_eqb a b = true <-> a = b.
Proof.
  revert b. induction a as [|x a IH]; intros [|y b]; cbn [rq_lists_eqb]; split; try discriminate; auto.
  - intros H. apply andb_prop in H as [H1 H2]. apply str_eqb_eq in H1. apply IH in H2. congruence.
  - intros [= -> ->]. apply andb_true_intro. split; [now apply str_eqb_eq|now apply IH].
Qed.
Theorem key_eqb_eq x y : rq_key_eqb x y = true <-> x = y.
Proof.
  unfold rq_key_eqb. rewrite !andb_true_iff, str_eqb_eq, !lists_eqb_eq, !opt_eqb_eq. destruct x, y; cbn. split.
  - intros ((((-> & ->) & ->) & ->) & ->). reflexivity.
  - intros [= -> -> -> -> ->]. auto.
Qed.
(* what r.eqh prints as its second letter is what it prints as its first *)
Theorem req_eq_key_eqb a b : req_eq a b = rq_key_eqb (req_key a) (req_key b).
Proof.
  destruct (req_eq a b) eqn:E, (rq_key_eqb (req_key a) (req_key b)) eqn:F; auto.
  - apply req_eq_key, key_eqb_eq in E. congruence.
  - apply key_eqb_eq, req_eq_key in F. congruence.
Qed.

(* ------------------------------------------------------------------ "the first one supplied" ---------------------------------- *)
Lemma dedup_first : forall l seen x, In x (rq_dedup seen l) ->
  exists l1 l2, l = l1 ++ x :: l2 /\ ~ In (rq_ckey x) (map rq_ckey l1) /\ ~ In (rq_ckey x) seen.
Proof.
  induction l as [|a l IH]; intros seen x; cbn [rq_dedup]; [intros []|].
  destruct (rq_mem (rq_ckey a) seen) eqn:M.
  - intros H. destruct (IH seen x H) as (l1 & l2 & -> & N1 & N2). exists (a :: l1), l2. split; [reflexivity|]. split; auto.
    cbn [map In]. intros [E|E]; [|auto]. apply mem_in in M. rewrite E in M. contradiction.
  - assert (Hn : ~ In (rq_ckey a) seen) by (intros H; apply mem_in in H; congruence).
    intros [<-|H].
    + exists [], l. split; [reflexivity|]. split; [intros []|exact Hn].
    + destruct (IH (rq_ckey a :: seen) x H) as (l1 & l2 & -> & N1 & N2). exists (a :: l1), l2. split; [reflexivity|]. split.
      * cbn [map In]. intros [E|E]; [|auto]. apply N2. left. exact E.
      * intros E. apply N2. right. exact E.
Qed.
(* every clause string of str(r) is the string of the first clause of r with that canonical key *)
Theorem clauses_first_supplied r s : In s (rq_canon_clauses r) ->
  exists l1 sp l2, q_specs r = l1 ++ sp :: l2 /\ s = spec_str sp /\ ~ In (rq_ckey sp) (map rq_ckey l1).
Proof.
  unfold rq_canon_clauses. intros H. apply (Permutation_in _ (Permutation_sym (sort_perm _))) in H.
  apply in_map_iff in H as (sp & <- & Hsp). destruct (dedup_first _ _ _ Hsp) as (l1 & l2 & E & N1 & _). exists l1, sp, l2. auto.
Qed.
Print Assumptions clauses_first_supplied.

(* ------------------------------------------------------------------ the SpecifierSet of THIS source text ----------------------- *)
Theorem Requirement_SpecifierSet_src src r : Requirement src = RqOk r ->
  exists p, rq_parse src = Some p /\ SpecifierSet (pr_spec p) None = Some (rq_sset (q_specs r)) /\
            q_name r = pr_name p /\ q_extras r = pr_extras p.
Proof.
  unfold Requirement. destruct (rq_parse src) as [p|]; [|discriminate].
  destruct (rq_specset (pr_spec p)) as [specs|] eqn:E; [|discriminate]. intros H. exists p. split; [reflexivity|].
  assert (R : q_specs r = specs /\ q_name r = pr_name p /\ q_extras r = pr_extras p).
  { destruct (pr_marker p) as [m|]; [destruct (lit_class m)|]; inversion H; auto. }
  destruct R as (-> & Rn & Re). split; auto. now apply specset_is_SpecifierSet.
Qed.

(* ------------------------------------------------------------------ URL ";..." without whitespace, at Requirement level -------- *)
Theorem url_marker_needs_ws_req sp x : rq_wf sp None -> rq_is_url sp -> rs_w3 sp = [] -> forallb rq_not_blank x = true ->
  Requirement (rq_render sp ++ 59 :: x) =
  RqOk {| q_name := rs_name sp; q_extras := rq_sp_extras sp; q_specs := []; q_url := Some (rq_sp_url sp ++ 59 :: x); q_marker := None |}.
Proof.
  intros W U W3 Hx. unfold Requirement. rewrite (url_marker_needs_ws_any sp x W U W3 Hx). cbn [pr_spec pr_name pr_url pr_extras pr_marker].
  change (rq_specset []) with (Some (@nil specifier)). cbv iota. destruct (rq_sp_url sp ++ 59 :: x) eqn:E; [|reflexivity].
  destruct (rq_sp_url sp); discriminate.
Qed.
Print Assumptions key_eqb_eq.
Print Assumptions url_marker_needs_ws_req.

(* closed check: " Foo [ a ,b] @ u;x" has URL "u;x" and no marker; "a==1.0,==1.0.0" prints the first spelling *)
Definition extra_check : bool :=
  match Requirement [32;70;111;111;32;91;32;97;32;44;98;93;32;64;32;117;59;120] with
  | RqOk r => rq_opt_eqb (q_url r) (Some [117;59;120]) && match q_marker r with None => true | Some _ => false end
  | _ => false end
  && match Requirement [97;61;61;49;46;48;44;61;61;49;46;48;46;48] with
     | RqOk r => rq_str_eqb (req_str r) [97;61;61;49;46;48] && rq_key_eqb (req_key r) (req_key r)
     | _ => false end.
Example extra_check_ok : extra_check = true.
Proof. vm_compute. reflexivity. Qed.
