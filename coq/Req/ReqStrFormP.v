(* C08 proofs, part 14: the shape of str(r): name, "[" extras "]" sorted strictly (code-point order, no duplicates, exactly the set
   of extras), the clause strings sorted strictly (one string per distinct clause), "@ url", "; marker";
   and "a marker after a URL needs separating whitespace" for every layout (extras, blanks) - both the accepted reading (the ";..."
   belongs to the URL) and the rejection when a blank follows inside the would-be marker ("a @ u; os_name=='a'"). *)
From Coq Require Import List Arith NArith Bool Lia Permutation Sorted.
Import ListNotations.
Require Import MText MkModel.
Require Names.
Require Import VParse VComplete VTop VTop2 SpecParse SpecSound SpecContains Py Canon Order SortPerm.
Require Import ReqModel ReqSpec ReqScanP ReqTokP ReqListP ReqMarkP ReqParseP ReqSetP ReqTopP ReqEqP ReqSoundP ReqRoundP ReqCanonP.
Open Scope N_scope.
Arguments N.eqb : simpl never.
Arguments N.leb : simpl never.

(* ------------------------------------------------------------------ sorted() ------------------------------------------------ *)
Definition str_le (a b : list N) : Prop := leb str_cmp a b = true.
Definition str_lt (a b : list N) : Prop := str_cmp a b = Lt.
Lemma sle_total a b : leb str_cmp a b = false -> str_le b a.
Proof. apply (leb_total str_cmp (ok_sym _ str_cmp_ok)). Qed.
Lemma sle_trans a b c : str_le a b -> str_le b c -> str_le a c.
Proof. apply (leb_trans str_cmp (ok_refl _ str_cmp_ok) str_cmp_eq str_lt_trans). Qed.
Lemma insert_sorted x l : StronglySorted str_le l -> StronglySorted str_le (insert str_cmp x l).
Proof.
  induction 1 as [|y t St IH Hy]; cbn [insert]; [repeat constructor|].
  destruct (leb str_cmp x y) eqn:E.
  - constructor; [constructor; auto|]. constructor; [exact E|]. eapply Forall_impl; [|exact Hy]. intros z Hz. eapply sle_trans; eauto.
  - constructor; auto. apply Forall_forall. intros z Hz.
    apply (Permutation_in _ (Permutation_sym (insert_perm str_cmp x t))) in Hz. destruct Hz as [<-|Hz].
    + now apply sle_total.
    + rewrite Forall_forall in Hy. auto.
Qed.
Lemma sort_sorted l : StronglySorted str_le (rq_sort l).
Proof. unfold rq_sort. induction l as [|x l IH]; cbn [isort]; [constructor|]. now apply insert_sorted. Qed.
Lemma sorted_nodup_strict l : StronglySorted str_le l -> NoDup l -> StronglySorted str_lt l.
Proof.
  induction 1 as [|x t St IH Hx]; intros ND; [constructor|]. inversion ND as [|? ? Hni ND']; subst. constructor; auto.
  apply Forall_forall. intros z Hz. rewrite Forall_forall in Hx. specialize (Hx z Hz). unfold str_le, leb in Hx. unfold str_lt.
  destruct (str_cmp x z) eqn:E; auto; [|discriminate]. apply str_cmp_eq in E. subst. contradiction.
Qed.
Lemma sort_strict l : NoDup l -> StronglySorted str_lt (rq_sort l) /\ NoDup (rq_sort l) /\ forall x, In x (rq_sort l) <-> In x l.
Proof.
  intros ND. assert (ND' : NoDup (rq_sort l)) by (eapply Permutation_NoDup; [apply sort_perm|exact ND]).
  split; [apply sorted_nodup_strict; auto; apply sort_sorted|]. split; auto. intros x. split; intros H.
  - eapply Permutation_in; [apply Permutation_sym, sort_perm|exact H].
  - eapply Permutation_in; [apply sort_perm|exact H].
Qed.

(* ------------------------------------------------------------------ extras ---------------------------------------------------- *)
Theorem extras_sorted_strict r :
  StronglySorted str_lt (rq_extras_sorted r) /\ NoDup (rq_extras_sorted r) /\ forall e, In e (rq_extras_sorted r) <-> In e (q_extras r).
Proof.
  unfold rq_extras_sorted. destruct (sort_strict (rq_uniq [] (q_extras r)) (uniq_nodup _)) as (A & B & C).
  split; auto. split; auto. intros e. rewrite C. apply uniq_in.
Qed.

(* ------------------------------------------------------------------ clauses --------------------------------------------------- *)
Lemma spec_str_inj a b : rq_spec_ok a -> rq_spec_ok b -> spec_str a = spec_str b -> a = b.
Proof. intros Ha Hb E. pose proof (Specifier_spec_str a Ha) as X. rewrite E, (Specifier_spec_str b Hb) in X. congruence. Qed.
Lemma nodup_map_in {A B} (f : A -> B) l : (forall x y, In x l -> In y l -> f x = f y -> x = y) -> NoDup l -> NoDup (map f l).
Proof.
  induction l as [|a l IH]; intros Hinj ND; [constructor|]. inversion ND as [|? ? Hni ND']; subst. cbn [map]. constructor.
  - intros H. apply in_map_iff in H as (y & E & Hy). assert (y = a) by (apply Hinj; cbn; auto). subst. contradiction.
  - apply IH; auto. intros x y Hx Hy. apply Hinj; cbn; auto.
Qed.
Lemma nodup_of_map {A B} (f : A -> B) l : NoDup (map f l) -> NoDup l.
Proof.
  induction l as [|a l IH]; intros H; [constructor|]. cbn [map] in H. inversion H as [|? ? Hni ND']; subst. constructor; auto.
  intros Hin. apply Hni. now apply in_map.
Qed.
(* the clause strings of str(r): strictly sorted; each is the string of a clause of r; every clause of r is represented by the
   string of an equal clause (the first one supplied with that canonical key) *)
Theorem clauses_sorted_strict r : Forall rq_spec_ok (q_specs r) ->
  StronglySorted str_lt (rq_canon_clauses r) /\ NoDup (rq_canon_clauses r) /\
  (forall s, In s (rq_canon_clauses r) -> exists sp, In sp (q_specs r) /\ s = spec_str sp) /\
  (forall sp, In sp (q_specs r) -> exists sp', In sp' (q_specs r) /\ rq_ckey sp' = rq_ckey sp /\ In (spec_str sp') (rq_canon_clauses r)).
Proof.
  intros OK. destruct (dedup_spec (q_specs r) []) as (I1 & I2 & I3).
  assert (ND : NoDup (map spec_str (rq_dedup [] (q_specs r)))).
  { apply nodup_map_in; [|eapply nodup_of_map; exact I2]. rewrite Forall_forall in OK. intros x y Hx Hy. apply spec_str_inj; auto. }
  unfold rq_canon_clauses. destruct (sort_strict _ ND) as (A & B & C). split; auto. split; auto. split.
  - intros s Hs. apply C, in_map_iff in Hs as (sp & <- & Hsp). exists sp. split; auto.
  - intros sp Hsp. assert (K : In (rq_ckey sp) (map rq_ckey (rq_dedup [] (q_specs r)))) by (apply I1; split; [now apply in_map|intros []]).
    apply in_map_iff in K as (sp' & E & Hsp'). exists sp'. split; [now apply I3|]. split; auto. apply C. now apply in_map.
Qed.

(* ------------------------------------------------------------------ str(r) ---------------------------------------------------- *)
Definition rq_url_text (r : requirement) : list N :=
  match q_url r with Some u => 64 :: 32 :: u ++ (match q_marker r with Some _ => [32] | None => [] end) | None => [] end.
Definition rq_marker_text (r : requirement) : list N :=
  match q_marker r with Some m => 59 :: 32 :: format_marker m | None => [] end.
Theorem req_str_form r :
  req_str r = q_name r ++ rq_extras_text (rq_extras_sorted r) ++ rq_join [44] (rq_canon_clauses r) ++ rq_url_text r ++ rq_marker_text r.
Proof.
  unfold req_str, rq_url_text, rq_marker_text. f_equal. f_equal; [|f_equal].
  - destruct (q_extras r) as [|e es] eqn:Ee; [unfold rq_extras_sorted; rewrite Ee; reflexivity|].
    unfold rq_extras_text. destruct (rq_extras_sorted r) eqn:Es; [|reflexivity].
    exfalso. assert (In e (rq_extras_sorted r)).
    { eapply Permutation_in; [apply sort_perm|]. apply uniq_in. rewrite Ee. left. reflexivity. }
    rewrite Es in H. contradiction.
  - unfold rq_set_str, rq_canon_clauses. destruct (q_specs r); reflexivity.
Qed.
(* all of it, for a constructed requirement *)
Theorem str_form_sorted src r : Requirement src = RqOk r ->
  req_str r = q_name r ++ rq_extras_text (rq_extras_sorted r) ++ rq_join [44] (rq_canon_clauses r) ++ rq_url_text r ++ rq_marker_text r /\
  StronglySorted str_lt (rq_extras_sorted r) /\ (forall e, In e (rq_extras_sorted r) <-> In e (q_extras r)) /\
  StronglySorted str_lt (rq_canon_clauses r) /\
  (forall s, In s (rq_canon_clauses r) -> exists sp, In sp (q_specs r) /\ s = spec_str sp) /\
  (forall sp, In sp (q_specs r) -> exists sp', In sp' (q_specs r) /\ rq_ckey sp' = rq_ckey sp /\ In (spec_str sp') (rq_canon_clauses r)).
Proof.
  intros H. pose proof (sound_specs_ok r (Requirement_sound src r H)) as OK.
  destruct (extras_sorted_strict r) as (E1 & _ & E3). destruct (clauses_sorted_strict r OK) as (C1 & _ & C3 & C4).
  split; [apply req_str_form|]. repeat split; auto; apply E3.
Qed.
Print Assumptions str_form_sorted.

(* ------------------------------------------------------------------ a marker after a URL needs whitespace: any layout ------- *)
Definition rq_is_url (sp : rq_spelled) : Prop := match rs_body sp with SB_url _ _ => True | _ => False end.
Definition rq_url_tail (sp : rq_spelled) (x : list N) : rq_spelled :=
  {| rs_w0 := rs_w0 sp; rs_name := rs_name sp; rs_w1 := rs_w1 sp; rs_extras := rs_extras sp; rs_w2 := rs_w2 sp;
     rs_body := match rs_body sp with SB_url w u => SB_url w (u ++ x) | b => b end; rs_w3 := rs_w3 sp; rs_marker := rs_marker sp |}.
Lemma render_url_tail sp x : rq_is_url sp -> rs_w3 sp = [] -> rs_marker sp = None -> rq_render sp ++ x = rq_render (rq_url_tail sp x).
Proof.
  unfold rq_is_url, rq_render, rq_url_tail. cbn [rs_w0 rs_name rs_w1 rs_extras rs_w2 rs_body rs_w3 rs_marker].
  destruct (rs_body sp) as [?|w u]; [contradiction|]. intros _ -> ->. cbn [rq_body_text app]. rewrite !app_nil_r.
  rewrite <- !app_assoc. cbn [app]. rewrite <- !app_assoc. reflexivity.
Qed.
Lemma wf_url_tail sp x : rq_wf sp None -> rq_is_url sp -> forallb rq_not_blank x = true -> rq_wf (rq_url_tail sp x) None.
Proof.
  unfold rq_wf, rq_is_url, rq_url_tail. cbn [rs_w0 rs_name rs_w1 rs_extras rs_w2 rs_body rs_w3 rs_marker].
  intros (H0 & H1 & H2 & H3 & Hn & Hex & Hb & Hm) U Hx. destruct (rs_body sp) as [?|w u]; [contradiction|].
  destruct (rs_marker sp); [contradiction|]. cbn [rq_wf_body] in *. destruct Hb as (Hw & Hu & Hnb & _).
  repeat split; auto; try discriminate.
  - destruct u; [congruence|discriminate].
  - rewrite forallb_app. now rewrite Hnb, Hx.
Qed.
(* without whitespace the ";..." (up to the next blank) is part of the URL, whatever the layout of the requirement before it *)
Theorem url_marker_needs_ws_any sp x : rq_wf sp None -> rq_is_url sp -> rs_w3 sp = [] -> forallb rq_not_blank x = true ->
  rq_parse (rq_render sp ++ 59 :: x) =
  Some {| pr_name := rs_name sp; pr_url := rq_sp_url sp ++ 59 :: x; pr_extras := rq_sp_extras sp; pr_spec := []; pr_marker := None |}.
Proof.
  intros W U W3 Hx. assert (M : rs_marker sp = None).
  { destruct W as (_ & _ & _ & _ & _ & _ & _ & Hm). destruct (rs_marker sp); [contradiction|reflexivity]. }
  rewrite (render_url_tail sp (59 :: x) U W3 M).
  rewrite (parse_render _ None (wf_url_tail sp (59 :: x) W U ltac:(cbn [forallb]; now rewrite Hx))).
  unfold rq_expected, rq_url_tail, rq_sp_url, rq_sp_extras, rq_sp_clauses, rq_is_url in *. cbn [rs_name rs_extras rs_body].
  destruct (rs_body sp); [contradiction|reflexivity].
Qed.

(* the text before the requirement details, and what rq_parse does with it *)
Definition rq_head_text (sp : rq_spelled) : list N :=
  rs_w0 sp ++ rs_name sp ++ rs_w1 sp
  ++ (match rs_extras sp with None => [] | Some (w, items) => 91 :: w ++ rq_items_text (fun e => e) items ++ [93] end) ++ rs_w2 sp.
Definition rq_wf_head (sp : rq_spelled) : Prop :=
  rq_blank (rs_w0 sp) = true /\ rq_blank (rs_w1 sp) = true /\ rq_blank (rs_w2 sp) = true /\ rq_valid_ident (rs_name sp) = true /\
  (match rs_extras sp with
   | None => True
   | Some (w, items) => rq_blank w = true /\ Forall (fun i => rq_item_blank i = true /\ rq_valid_ident (rq_item_val i) = true) items
   end).
Lemma wf_head_of sp m : rq_wf sp m -> rq_wf_head sp.
Proof. intros (H0 & H1 & H2 & _ & Hn & Hex & _). repeat split; auto. Qed.
(* after the name and the extras, "@..." is handed to requirement_details *)
Lemma parse_head_at sp X : rq_wf_head sp ->
  exists q, rq_parse (rq_head_text sp ++ 64 :: X) =
    match rq_details {| prev := q; rest := 64 :: X |} with
    | Some ((url, spec, m), s) =>
        if rq_at_end s then Some {| pr_name := rs_name sp; pr_url := url; pr_extras := rq_sp_extras sp; pr_spec := spec; pr_marker := m |} else None
    | None => None
    end.
Proof.
  intros (H0 & H1 & H2 & Hn & Hex). unfold rq_parse, rq_head_text, rq_sp_extras.
  destruct (rs_extras sp) as [[we items]|] eqn:Eex.
  - destruct Hex as [Hwe Hitems].
    rewrite <- !app_assoc. rewrite skip_ws_app by (auto; apply valid_ident_head; auto).
    rewrite rq_ident_ok; auto.
    2:{ apply blank_nonword; auto. }
    2:{ apply (blank_head_cases (rs_w1 sp) _ (fun c => rq_is_ident c = false)); auto; reflexivity. }
    cbn [app]. rewrite skip_ws_app by (auto; reflexivity).
    rewrite <- ?app_assoc. cbn [app].
    rewrite (extras_ok _ we items _ Hwe).
    2:{ eapply Forall_impl; [|exact Hitems]. intros i Hi. exact Hi. }
    rewrite skip_ws_app by (auto; reflexivity). eexists. reflexivity.
  - rewrite <- !app_assoc. cbn [app]. rewrite skip_ws_app by (auto; apply valid_ident_head; auto).
    rewrite rq_ident_ok; auto.
    2:{ apply blank_nonword; auto. }
    2:{ apply (blank_head_cases (rs_w1 sp) _ (fun c => rq_is_ident c = false)); auto.
        apply (blank_head_cases (rs_w2 sp) _ (fun c => rq_is_ident c = false)); auto; reflexivity. }
    rewrite (app_assoc (rs_w1 sp)). rewrite skip_ws_app by (try apply blank_app; auto; reflexivity).
    rewrite extras_absent by reflexivity. rewrite skip_ws_id by reflexivity. eexists. reflexivity.
Qed.

(* "name @ url;x1<blank>c..." with c neither a blank, ";" nor the end: rejected (the URL is "url;x1", and a marker must start with ";") *)
Theorem url_marker_blank_inside_rejected sp wu u x1 w c y : rq_wf_head sp -> rq_blank wu = true -> u <> [] -> forallb rq_not_blank u = true ->
  forallb rq_not_blank x1 = true -> w <> [] -> rq_blank w = true -> is_wsb c = false -> c <> 59 -> (c = 10 -> y <> []) ->
  rq_parse (rq_head_text sp ++ 64 :: wu ++ u ++ 59 :: x1 ++ w ++ c :: y) = None.
Proof.
  intros Hh Hwu Hu Hnb Hx1 Hw Hwb Hc H59 H10.
  destruct (parse_head_at sp (wu ++ u ++ 59 :: x1 ++ w ++ c :: y) Hh) as [q ->].
  replace (rq_details _) with (@None ((list N * list N * option (list elem)) * st)); [reflexivity|]. symmetry.
  unfold rq_details. rewrite is_hd_cons. lit_eqb. rewrite drop1_cons.
  set (U := u ++ 59 :: x1).
  assert (HU : forallb rq_not_blank U = true) by (unfold U; rewrite forallb_app; cbn [forallb]; now rewrite Hnb, Hx1).
  assert (NU : U <> []) by (unfold U; destruct u; [congruence|discriminate]).
  replace (wu ++ u ++ 59 :: x1 ++ w ++ c :: y) with (wu ++ U ++ w ++ c :: y) by (unfold U; rewrite <- !app_assoc; reflexivity).
  assert (NBU : nbhead (U ++ w ++ c :: y)).
  { destruct U as [|d U']; [congruence|]. cbn [forallb] in HU. apply andb_prop in HU as [Hd _]. cbn. unfold rq_not_blank in Hd. now apply negb_true_iff in Hd. }
  rewrite skip_ws_app by auto. cbn [rest].
  assert (Hw0 : match w ++ c :: y with d :: _ => rq_not_blank d = false | [] => True end).
  { destruct w as [|d w']; [congruence|]. cbn [app]. cbn [rq_blank forallb] in Hwb. apply andb_prop in Hwb as [Hd _]. unfold rq_not_blank. now rewrite Hd. }
  unfold MText.str, MText.char in *. rewrite (mspan_app rq_not_blank U (w ++ c :: y) HU Hw0).
  rewrite match_nonempty by exact NU. unfold adv. cbn [prev rest].
  assert (AE : forall q', rq_at_end {| prev := q'; rest := w ++ c :: y |} = false).
  { intros q'. destruct w as [|d w']; [congruence|]. cbn [app]. apply at_end_cons.
    cbn [rq_blank forallb] in Hwb. apply andb_prop in Hwb as [Hd _]. unfold is_wsb in Hd. apply orb_prop in Hd as [Hd|Hd]; apply N.eqb_eq in Hd; subst; reflexivity. }
  rewrite AE.
  rewrite (mspan_app is_wsb w (c :: y) Hwb Hc). rewrite match_nonempty by exact Hw.
  unfold rq_end_or_marker.
  replace (rq_at_end _) with false.
  2:{ symmetry. unfold rq_at_end. cbn [rest]. destruct y; auto. destruct (c =? 10) eqn:E; auto. apply N.eqb_eq in E. now destruct (H10 E). }
  unfold rq_req_marker. rewrite is_hd_cons. replace (c =? 59) with false; [reflexivity|].
  symmetry. apply N.eqb_neq. exact H59.
Qed.
Print Assumptions url_marker_needs_ws_any.
Print Assumptions url_marker_blank_inside_rejected.

(* non-vacuity: " Foo [ a ,b] @ http://x/y;python_version<'3'"  and  "a[x]@ u; os_name=='a'" *)
Definition sf_check : bool :=
  match rq_parse [32;70;111;111;32;91;32;97;32;44;98;93;32;64;32;117;59;120] with
  | Some p => rq_str_eqb (pr_url p) [117;59;120] && rq_str_eqb (rq_join [44] (pr_extras p)) [97;44;98]
  | None => false end
  && match rq_parse [97;91;120;93;64;32;117;59;32;111;115;95;110;97;109;101;61;61;39;97;39] with None => true | Some _ => false end
  && match Requirement [98;91;122;44;97;44;122;93;60;50;44;62;61;49;44;60;50;46;48] with
     | RqOk r => rq_str_eqb (req_str r) [98;91;97;44;122;93;60;50;44;62;61;49]
     | _ => false end.
Example sf_check_ok : sf_check = true.
Proof. vm_compute. reflexivity. Qed.
