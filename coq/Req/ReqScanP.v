(* C08 proofs, part 1: the PEP 440 scanner (VParse / SpecParse.p_body) is LOCAL - appending text that starts with a character no
   class of the pattern accepts ("stop character": blank, comma, semicolon, parenthesis, ...) does not change what is consumed.
   Consequences used later: a clause that Specifier accepts on its own is one SPECIFIER token inside a requirement, whatever
   follows; and a fully consumed version text contains no stop character (no whitespace, comma, semicolon, ")", non-ASCII). *)
From Coq Require Import List Arith NArith Bool Lia.
Import ListNotations.
Require Import VParse VComplete VTop VTop2 SpecParse SpecSound.
Open Scope N_scope.
Arguments N.eqb : simpl never.
Arguments N.leb : simpl never.

Definition stopc (c : N) : bool :=
  negb (is_digit c) && negb (is_lower (lc c)) && negb (is_sep c) && negb (c =? 43) && negb (c =? 33) && negb (c =? 42).
Definition hstop (T : list N) : Prop := match T with [] => True | c :: _ => stopc c = true end.
Definition ext2 {A} (x : A * list N) (T : list N) : A * list N := (fst x, snd x ++ T).
Definition exto {A} (x : option (A * list N)) (T : list N) : option (A * list N) :=
  match x with Some (a, r) => Some (a, r ++ T) | None => None end.

Lemma stop_digit c : stopc c = true -> is_digit c = false.
Proof. unfold stopc. intros H. repeat (apply andb_prop in H as [H ?]). now apply negb_true_iff in H. Qed.
Lemma stop_lower c : stopc c = true -> is_lower (lc c) = false.
Proof. unfold stopc. intros H. repeat (apply andb_prop in H as [H ?]). now apply negb_true_iff. Qed.
Lemma stop_alnum c : stopc c = true -> is_alnum_ci c = false.
Proof. intros H. unfold is_alnum_ci. now rewrite (stop_digit c H), (stop_lower c H). Qed.
Lemma stop_sep c : stopc c = true -> is_sep c = false.
Proof. unfold stopc. intros H. repeat (apply andb_prop in H as [H ?]). now apply negb_true_iff. Qed.
Lemma stop_43 c : stopc c = true -> (c =? 43) = false.
Proof. unfold stopc. intros H. repeat (apply andb_prop in H as [H ?]). now apply negb_true_iff. Qed.
Lemma stop_33 c : stopc c = true -> (c =? 33) = false.
Proof. unfold stopc. intros H. repeat (apply andb_prop in H as [H ?]). now apply negb_true_iff. Qed.
Lemma stop_42 c : stopc c = true -> (c =? 42) = false.
Proof. unfold stopc. intros H. repeat (apply andb_prop in H as [H ?]). now apply negb_true_iff. Qed.
Lemma stop_45 c : stopc c = true -> (c =? 45) = false.
Proof. intros H. apply stop_sep in H. unfold is_sep in H. destruct (c =? 45); auto. Qed.
Lemma stop_46 c : stopc c = true -> (c =? 46) = false.
Proof. intros H. apply stop_sep in H. unfold is_sep in H. destruct (c =? 46); auto. now rewrite orb_true_r in H. Qed.
Lemma stop_lc_ne c p : stopc c = true -> is_lower p = true -> (lc c =? p) = false.
Proof.
  intros H Hp. destruct (lc c =? p) eqn:E; auto. apply N.eqb_eq in E. rewrite <- E in Hp. now rewrite (stop_lower c H) in Hp.
Qed.

Section Ext.
Variable T : list N.
Hypothesis HT : hstop T.

Lemma span_ext p x : (forall c, stopc c = true -> p c = false) -> span p (x ++ T) = ext2 (span p x) T.
Proof.
  intros Hp. induction x as [|c x IH]; cbn [app span].
  - unfold ext2; cbn. destruct T as [|c t]; cbn; auto. now rewrite (Hp c HT).
  - destruct (p c); [|reflexivity]. rewrite IH. destruct (span p x); reflexivity.
Qed.
Lemma hd_is_ext p x : (forall c, stopc c = true -> p c = false) -> hd_is p (x ++ T) = hd_is p x.
Proof. intros Hp. destruct x; cbn; auto. destruct T; cbn; auto. Qed.
Lemma hd2_is_ext c0 p x : (forall c, stopc c = true -> (c =? c0) = false) -> (forall c, stopc c = true -> p c = false) ->
  hd2_is c0 p (x ++ T) = hd2_is c0 p x.
Proof.
  intros H0 Hp. destruct x as [|c x]; cbn [app hd2_is].
  - destruct T as [|c t]; cbn; auto. now rewrite (H0 c HT).
  - now rewrite hd_is_ext.
Qed.
Lemma opt_sep_ext x : opt_sep (x ++ T) = ext2 (opt_sep x) T.
Proof.
  destruct x as [|c x]; cbn [app opt_sep].
  - destruct T as [|c t]; cbn; auto. now rewrite (stop_sep c HT).
  - destruct (is_sep c); reflexivity.
Qed.
Lemma p_v_ext x : p_v (x ++ T) = ext2 (p_v x) T.
Proof.
  destruct x as [|c x]; cbn [app p_v].
  - destruct T as [|c t]; cbn; auto. rewrite (stop_lc_ne c 118 HT); reflexivity.
  - destruct (lc c =? 118); reflexivity.
Qed.
Lemma match_word_ext w : forallb is_lower w = true -> forall x, match_word w (x ++ T) = exto (match_word w x) T.
Proof.
  induction w as [|p w IH]; intros Hw x; cbn [match_word]; [reflexivity|].
  cbn [forallb] in Hw. apply andb_prop in Hw as [Hp Hw].
  destruct x as [|c x]; cbn [app].
  - destruct T as [|c t]; cbn; auto. now rewrite (stop_lc_ne c p HT Hp).
  - destruct (lc c =? p); [|reflexivity]. rewrite (IH Hw x). destruct (match_word w x) as [[a r]|]; reflexivity.
Qed.
Lemma first_word_ext ws : forallb (forallb is_lower) ws = true -> forall x, first_word ws (x ++ T) = exto (first_word ws x) T.
Proof.
  induction ws as [|w ws IH]; intros Hws x; cbn [first_word]; [reflexivity|].
  cbn [forallb] in Hws. apply andb_prop in Hws as [Hw Hws].
  rewrite (match_word_ext w Hw x). destruct (match_word w x) as [[a r]|]; cbn [exto]; auto.
Qed.
Lemma p_lv_ext words x : forallb (forallb is_lower) words = true -> p_lv words (x ++ T) = exto (p_lv words x) T.
Proof.
  intros Hw. unfold p_lv. rewrite opt_sep_ext. destruct (opt_sep x) as [s1 t1]; cbn [ext2 fst snd].
  rewrite (first_word_ext words Hw t1). destruct (first_word words t1) as [[w t2]|]; cbn [exto]; [|reflexivity].
  rewrite opt_sep_ext. destruct (opt_sep t2) as [s2 t3]; cbn [ext2 fst snd].
  rewrite (span_ext is_digit t3 stop_digit). destruct (span is_digit t3) as [n t4]; reflexivity.
Qed.
Lemma tl_app (x : list N) : x <> [] -> tl (x ++ T) = tl x ++ T.
Proof. destruct x; [congruence|reflexivity]. Qed.
Lemma p_post_ext x : p_post (x ++ T) = exto (p_post x) T.
Proof.
  unfold p_post. rewrite (hd2_is_ext 45 is_digit x stop_45 stop_digit).
  destruct (hd2_is 45 is_digit x) eqn:E.
  - apply hd2_is_true in E as (d & t & -> & _). cbn [app tl].
    change (d :: t ++ T) with ((d :: t) ++ T). rewrite (span_ext is_digit _ stop_digit).
    destruct (span is_digit (d :: t)); reflexivity.
  - rewrite (p_lv_ext post_words x eq_refl). destruct (p_lv post_words x) as [[l r]|]; reflexivity.
Qed.
Lemma span_len p (s : list N) : (length (snd (span p s)) <= length s)%nat.
Proof. induction s as [|c s IH]; cbn; auto. destruct (p c); cbn; auto. destruct (span p s); cbn in *. lia. Qed.
Lemma p_rels_ext : forall f f' x, (length x <= f)%nat -> (length x <= f')%nat -> p_rels f (x ++ T) = ext2 (p_rels f' x) T.
Proof.
  induction f as [|f IH]; intros f' x Hf Hf'.
  - destruct x; [|cbn in Hf; lia]. destruct f'; reflexivity.
  - cbn [p_rels]. rewrite (hd2_is_ext 46 is_digit x stop_46 stop_digit).
    destruct (hd2_is 46 is_digit x) eqn:E.
    + apply hd2_is_true in E as E'. destruct E' as (d & t & -> & Hd). cbn [length] in Hf, Hf'.
      destruct f' as [|f']; [lia|]. cbn [p_rels]. rewrite E. cbn [app tl].
      change (d :: t ++ T) with ((d :: t) ++ T). rewrite (span_ext is_digit _ stop_digit).
      pose proof (span_len is_digit (d :: t)) as L. destruct (span is_digit (d :: t)) as [n r]; cbn [ext2 fst snd] in *.
      rewrite (IH f' r) by (cbn [length] in L; lia). destruct (p_rels f' r); reflexivity.
    + destruct f'; cbn [p_rels]; rewrite ?E; reflexivity.
Qed.
Lemma p_segs_ext : forall f f' x, (length x <= f)%nat -> (length x <= f')%nat -> p_segs f (x ++ T) = ext2 (p_segs f' x) T.
Proof.
  induction f as [|f IH]; intros f' x Hf Hf'.
  - destruct x; [|cbn in Hf; lia]. destruct f'; reflexivity.
  - cbn [p_segs]. destruct x as [|c t]; cbn [app].
    + destruct f'; cbn [p_segs]; destruct T as [|c t]; cbn; auto; now rewrite (stop_sep c HT).
    + cbn [length] in Hf, Hf'. rewrite (hd_is_ext is_alnum_ci t stop_alnum).
      destruct f' as [|f']; [lia|]. cbn [p_segs].
      destruct (is_sep c && hd_is is_alnum_ci t); [|reflexivity].
      rewrite (span_ext is_alnum_ci _ stop_alnum).
      pose proof (span_len is_alnum_ci t) as L. destruct (span is_alnum_ci t) as [n r]; cbn [ext2 fst snd] in *.
      rewrite (IH f' r) by lia. destruct (p_segs f' r); reflexivity.
Qed.
Lemma p_loc_ext x : p_loc (x ++ T) = exto (p_loc x) T.
Proof.
  unfold p_loc. destruct x as [|c t]; cbn [app].
  - destruct T as [|c t]; cbn; auto. now rewrite (stop_43 c HT).
  - rewrite (hd_is_ext is_alnum_ci t stop_alnum). destruct ((c =? 43) && hd_is is_alnum_ci t); [|reflexivity].
    rewrite (span_ext is_alnum_ci _ stop_alnum).
    pose proof (span_len is_alnum_ci t) as L. destruct (span is_alnum_ci t) as [n r]; cbn [ext2 fst snd] in *.
    rewrite (p_segs_ext (length (r ++ T)) (length r) r) by (rewrite ?app_length; lia).
    destruct (p_segs (length r) r); reflexivity.
Qed.
Lemma p_opt_ext {A} (p : list N -> option (A * list N)) x :
  p (x ++ T) = exto (p x) T -> p_opt p (x ++ T) = ext2 (p_opt p x) T.
Proof. unfold p_opt. intros ->. destruct (p x) as [[a r]|]; reflexivity. Qed.

Lemma p_pub_ext x : p_pub (x ++ T) = exto (p_pub x) T.
Proof.
  unfold p_pub. rewrite p_v_ext. destruct (p_v x) as [v s2]; cbn [ext2 fst snd].
  rewrite (span_ext is_digit s2 stop_digit). destruct (span is_digit s2) as [d1 s3]; cbn [ext2 fst snd].
  destruct (negb (nonempty d1)); [reflexivity|].
  rewrite (hd_is_ext (N.eqb 33) s3) by (intros c Hc; rewrite N.eqb_sym; now apply stop_33).
  assert (E4 : (if hd_is (N.eqb 33) s3 then let '(d2, t') := span is_digit (tl (s3 ++ T)) in (Some d1, d2, t') else (None, d1, s3 ++ T))
             = (let '(e, r0, s4) := (if hd_is (N.eqb 33) s3 then let '(d2, t') := span is_digit (tl s3) in (Some d1, d2, t') else (None, d1, s3)) in
                (e, r0, s4 ++ T))).
  { destruct (hd_is (N.eqb 33) s3) eqn:E; [|reflexivity].
    apply hd_is_true in E as (c & t & -> & _). cbn [app tl]. rewrite (span_ext is_digit t stop_digit).
    destruct (span is_digit t); reflexivity. }
  rewrite E4. clear E4.
  destruct (if hd_is (N.eqb 33) s3 then let '(d2, t') := span is_digit (tl s3) in (Some d1, d2, t') else (None, d1, s3)) as [[e r0] s4].
  destruct (negb (nonempty r0)); [reflexivity|].
  rewrite (p_rels_ext (length (s4 ++ T)) (length s4) s4) by (rewrite ?app_length; lia).
  destruct (p_rels (length s4) s4) as [rs s5]; cbn [ext2 fst snd].
  rewrite (p_opt_ext (p_lv pre_words) s5 (p_lv_ext pre_words s5 eq_refl)). destruct (p_opt (p_lv pre_words) s5) as [pr s6]; cbn [ext2 fst snd].
  rewrite (p_opt_ext p_post s6 (p_post_ext s6)). destruct (p_opt p_post s6) as [po s7]; cbn [ext2 fst snd].
  rewrite (p_opt_ext (p_lv dev_words) s7 (p_lv_ext dev_words s7 eq_refl)). destruct (p_opt (p_lv dev_words) s7) as [dv s8]; reflexivity.
Qed.

(* every operator but "===" *)
Lemma p_body_ext o x : o <> OArb -> p_body o (x ++ T) = exto (p_body o x) T.
Proof.
  intros Ho. destruct o; try congruence; cbn [p_body]; rewrite p_pub_ext; destruct (p_pub x) as [[q r]|]; cbn [exto]; try reflexivity.
  - destruct (q_rels q); reflexivity.
  - rewrite (hd2_is_ext 46 (N.eqb 42) r stop_46) by (intros c Hc; rewrite N.eqb_sym; now apply stop_42).
    destruct (is_plain q && hd2_is 46 (N.eqb 42) r) eqn:E.
    + apply andb_prop in E as [_ E]. apply hd2_is_true in E as (d & t & -> & _). reflexivity.
    + rewrite (p_opt_ext p_loc r (p_loc_ext r)). destruct (p_opt p_loc r); reflexivity.
  - rewrite (hd2_is_ext 46 (N.eqb 42) r stop_46) by (intros c Hc; rewrite N.eqb_sym; now apply stop_42).
    destruct (is_plain q && hd2_is 46 (N.eqb 42) r) eqn:E.
    + apply andb_prop in E as [_ E]. apply hd2_is_true in E as (d & t & -> & _). reflexivity.
    + rewrite (p_opt_ext p_loc r (p_loc_ext r)). destruct (p_opt p_loc r); reflexivity.
Qed.
End Ext.

(* "===": the body is the run of characters other than whitespace, ";" and ")" *)
Definition astop (T : list N) : Prop := match T with [] => True | c :: _ => arb_char c = false end.
Lemma p_body_arb_ext T x : astop T -> p_body OArb (x ++ T) = exto (p_body OArb x) T.
Proof.
  intros HT. cbn [p_body]. induction x as [|c x IH]; cbn [app span].
  - destruct T as [|c t]; cbn; auto. cbn in HT. now rewrite HT.
  - destruct (arb_char c); [|reflexivity].
    destruct (span arb_char (x ++ T)) as [a r]. destruct (span arb_char x) as [a' r']. cbn [exto] in *. now inversion IH.
Qed.

(* ---- a fully consumed body contains no stop character ---- *)
Lemma body_no_stop o b x c y : o <> OArb -> p_body o (x ++ c :: y) = Some (b, []) -> stopc c = false.
Proof.
  intros Ho H. destruct (stopc c) eqn:E; auto. exfalso.
  rewrite (p_body_ext (c :: y) E o x Ho) in H. destruct (p_body o x) as [[b' r']|]; cbn in H; [|discriminate].
  inversion H. destruct r'; discriminate.
Qed.
Lemma body_all_nonstop o b x : o <> OArb -> p_body o x = Some (b, []) -> forallb (fun c => negb (stopc c)) x = true.
Proof.
  intros Ho H. apply forallb_forall. intros c Hc. apply in_split in Hc as (x1 & x2 & ->).
  apply negb_true_iff. eapply body_no_stop; eauto.
Qed.
Lemma body_arb_all x b : p_body OArb x = Some (b, []) -> b = BArb x /\ forallb arb_char x = true.
Proof.
  cbn [p_body]. destruct (span arb_char x) as [t r] eqn:E. intros [= <- ->]. apply span_sound in E as [-> H].
  rewrite app_nil_r. auto.
Qed.

(* the head of a public-version body is a digit or "v" *)
Lemma p_pub_head c x q r : p_pub (c :: x) = Some (q, r) -> is_digit c = true \/ lc c = 118.
Proof.
  unfold p_pub. cbn [p_v]. destruct (lc c =? 118) eqn:E; [right; now apply N.eqb_eq|].
  cbn [span]. destruct (is_digit c); auto. cbn. discriminate.
Qed.
Lemma p_pub_nil : p_pub [] = None.
Proof. reflexivity. Qed.
Lemma p_body_head o c x b r : o <> OArb -> p_body o (c :: x) = Some (b, r) -> is_digit c = true \/ lc c = 118.
Proof.
  intros Ho. destruct o; try congruence; cbn [p_body]; destruct (p_pub (c :: x)) as [[q r0]|] eqn:E; try discriminate;
    intros _; eapply p_pub_head; eauto.
Qed.
Lemma p_body_nil o : o <> OArb -> p_body o [] = None.
Proof. intros Ho. destruct o; try congruence; reflexivity. Qed.
Print Assumptions p_body_ext.
Print Assumptions body_all_nonstop.
