(* C08 proofs, part 16: the known gap D7, exactly.
   A "===" SPECIFIER token ("===" \s* [^\s;)]* ) that is directly followed by the comma swallows it and goes on swallowing the
   following clauses until a blank, ")" , ";" or the end.  The requirement is still read correctly iff every swallowed clause is
   spelled without a blank after its comma and without whitespace after its operator (rq_chain_okb); otherwise the token ends in
   the middle of a clause and the requirement is rejected.
     parse_render_x / Requirement_render_x : the decomposition theorem under the exact condition (weaker than rq_no_d7)
     d7_rejected                           : Requirement = RqInvalid on the whole complementary class (not one witness) *)
From Coq Require Import List Arith NArith Bool Lia.
Import ListNotations.
Require Import MText MRound MkModel.
Require Import VParse VComplete VTop VTop2 SpecParse SpecSound SpecContains.
Require Import ReqModel ReqSpec ReqScanP ReqTokP ReqListP ReqMarkP ReqParseP ReqSetP ReqTopP ReqSoundP ReqCanonP ReqClauseP.
Open Scope N_scope.
Arguments N.eqb : simpl never.
Arguments N.leb : simpl never.

Notation item := (list N * rq_clause * list N)%type (only parsing).
Definition is_nil {A} (l : list A) : bool := match l with [] => true | _ => false end.
Lemma is_nil_true {A} (l : list A) : is_nil l = true <-> l = [].
Proof. destruct l; cbn; split; congruence. Qed.

(* chain = true: a "===" token that started at an earlier clause is still running when this item begins *)
Fixpoint rq_chain_okb (chain : bool) (items : list item) : bool :=
  match items with
  | [] => true
  | (a, c, b) :: more =>
      (negb chain || (is_nil a && is_nil (c_ws c))) &&
      match more with [] => true | _ :: _ => rq_chain_okb ((chain || rq_is_arb (c_op c)) && is_nil b) more end
  end.
Definition rq_d7_ok (items : list item) : Prop := rq_chain_okb false items = true.

(* the old hypothesis is a special case *)
Lemma no_d7_chain_ok items : rq_no_d7 items -> rq_d7_ok items.
Proof.
  unfold rq_d7_ok. induction items as [|[[a c] b] more IH]; [reflexivity|]. destruct more as [|i more']; [reflexivity|].
  cbn [rq_no_d7]. intros [Hd Hm]. cbn [rq_chain_okb negb orb andb].
  replace ((rq_is_arb (c_op c)) && is_nil b) with false; [now apply IH|].
  symmetry. destruct (rq_is_arb (c_op c)) eqn:E; auto. apply is_arb_true in E. destruct b; [now destruct (Hd E)|reflexivity].
Qed.
Lemma chain_okb_cons2 ch a c b i more : rq_chain_okb ch ((a, c, b) :: i :: more) =
  (negb ch || (is_nil a && is_nil (c_ws c))) && rq_chain_okb ((ch || rq_is_arb (c_op c)) && is_nil b) (i :: more).
Proof. reflexivity. Qed.
Lemma chain_head_irrelevant a c b more : rq_chain_okb false ((a, c, b) :: more) = rq_chain_okb false (([], c, b) :: more).
Proof. reflexivity. Qed.

(* ------------------------------------------------------------------ the "===" token with swallowed text ---------------------- *)
Definition tok_end (F : list N) : Prop := match F with [] => True | h :: _ => is_ws h = true \/ h = 41 \/ h = 59 end.
Lemma tok_end_stop F : tok_end F -> hstop (map rq_ufold F) /\ astop (map rq_ufold F).
Proof.
  destruct F as [|h t]; cbn [tok_end map hstop astop]; auto. intros [H|[->| ->]]; [|split; reflexivity|split; reflexivity].
  rewrite (ufold_ws h H). split; [now apply ws_is_stop|]. unfold arb_char. now rewrite H.
Qed.
Lemma follow_tok_end arb F : rq_follow arb F -> arb = true -> tok_end F.
Proof. destruct F; cbn; auto. intros [->|[->|[->|[->|[E _]]]]] A; [left; reflexivity|left; reflexivity|right; left; reflexivity|right; right; reflexivity|congruence]. Qed.
Lemma spec_tok_arb_ext p c x F : rq_wf_clause c -> c_op c = OArb -> forallb arb_char x = true -> tok_end F ->
  rq_spec_tok {| prev := p; rest := rq_clause_text c ++ x ++ F |}
  = Some (rq_clause_text c ++ x, {| prev := last_opt p (rq_clause_text c ++ x); rest := F |}).
Proof.
  intros (Hw & Hb & Hx & _) Eo Hxa HF. destruct (tok_end_stop F HF) as [HS HA].
  rewrite Eo in Hb. apply body_arb_all in Hb as [Eb Hall].
  set (y := r_body (c_body c) ++ x).
  assert (Ey : rq_clause_text c ++ x = op_txt OArb ++ c_ws c ++ y) by (unfold rq_clause_text, y; rewrite Eo, <- !app_assoc; reflexivity).
  assert (L : rq_spec_len ((rq_clause_text c ++ x) ++ F) = Some (length (rq_clause_text c ++ x))).
  { rewrite Ey. unfold rq_spec_len. rewrite !map_app, map_ufold_op.
    rewrite (map_id_on rq_ufold (c_ws c)) by (intros z Hz; apply ufold_ws; eapply forallb_forall in Hw; eauto).
    set (y' := map rq_ufold y).
    assert (Hy' : forallb arb_char y' = true).
    { unfold y', y. rewrite forallb_forall. intros z Hz. apply in_map_iff in Hz as (u & <- & Hu). rewrite ufold_arb.
      apply in_app_or in Hu as [Hu|Hu]; [rewrite forallb_forall in Hall|rewrite forallb_forall in Hxa]; auto. }
    assert (Hb' : p_body OArb y' = Some (BArb y', [])).
    { cbn [p_body]. pose proof (span_complete arb_char y' [] Hy' eq_refl) as Q. rewrite app_nil_r in Q. now rewrite Q. }
    assert (Hne : y' <> []) by (unfold y', y; destruct (r_body (c_body c)); [congruence|discriminate]).
    rewrite <- !app_assoc.
    rewrite (try_ops_text OArb (c_ws c) y' (BArb y') (map rq_ufold F) Hw Hb' Hne HS) by (intros _; exact HA).
    f_equal. unfold y'. rewrite !app_length, map_length. reflexivity. }
  unfold rq_spec_tok. cbn [rest]. rewrite app_assoc, L.
  rewrite firstn_app, Nat.sub_diag, firstn_all, skipn_app, Nat.sub_diag, skipn_all. cbn [firstn skipn app]. rewrite app_nil_r. reflexivity.
Qed.

Lemma arb_cons44 X : forallb arb_char X = true -> forallb arb_char (44 :: X) = true.
Proof. intros H. change (arb_char 44 && forallb arb_char X = true). rewrite H. reflexivity. Qed.
(* a clause spelled without inner whitespace consists of characters the "===" token takes *)
Lemma clause_text_arb c : rq_wf_clause c -> c_ws c = [] -> forallb arb_char (rq_clause_text c) = true.
Proof.
  intros (_ & Hb & _ & _) Ew. unfold rq_clause_text. rewrite Ew. cbn [app]. rewrite forallb_app, op_txt_arb. cbn [andb].
  destruct (oper_eq_dec_arb (c_op c)) as [E|Ho].
  - rewrite E in Hb. now apply body_arb_all in Hb.
  - pose proof (body_all_nonstop _ _ _ Ho Hb) as A. rewrite forallb_forall in *. intros z Hz. apply nonstop_arb.
    specialize (A z Hz). now apply negb_true_iff in A.
Qed.

(* ------------------------------------------------------------------ the items a running token swallows ---------------------- *)
(* every swallowed item is spelled ",clause" with no blank after the comma and none after the operator *)
Fixpoint chain_pre_okb (more : list item) : bool :=
  match more with
  | [] => true
  | (a, c, b) :: more' => is_nil a && is_nil (c_ws c) && (if is_nil b then chain_pre_okb more' else true)
  end.
(* the swallowed text (starting with the comma) ... *)
Fixpoint chain_text (more : list item) : list N :=
  match more with
  | [] => []
  | (a, c, b) :: more' => 44 :: rq_clause_text c ++ (if is_nil b then chain_text more' else [])
  end.
(* ... the blanks at which the token ends, and the items that are read normally again *)
Fixpoint chain_rest (more : list item) : list N * list item :=
  match more with
  | [] => ([], [])
  | (a, c, b) :: more' => if is_nil b then chain_rest more' else (b, more')
  end.

Lemma chain_ok_split more : more <> [] ->
  rq_chain_okb true more = chain_pre_okb more && match snd (chain_rest more) with [] => true | r => rq_chain_okb false r end.
Proof.
  induction more as [|[[a c] b] more' IH]; [congruence|]. intros _. cbn [rq_chain_okb chain_pre_okb chain_rest negb orb].
  destruct (is_nil a && is_nil (c_ws c)); [|reflexivity]. cbn [andb].
  destruct b as [|d b']; cbn [is_nil andb].
  - destruct more' as [|i more'']; [reflexivity|]. apply IH. discriminate.
  - cbn [snd]. destruct more'; reflexivity.
Qed.

Lemma rest_text_nil_blank {A} (f : A -> list N) more : rq_rest_text f [] more = match more with [] => [] | (a, x, b') :: more' => 44 :: a ++ f x ++ rq_rest_text f b' more' end.
Proof. destruct more; reflexivity. Qed.

Lemma chain_facts : forall more, Forall cl_ok more -> chain_pre_okb more = true ->
  let bl := fst (chain_rest more) in let rest := snd (chain_rest more) in
  rq_rest_text rq_clause_text [] more = chain_text more ++ rq_rest_text rq_clause_text bl rest /\
  forallb arb_char (chain_text more) = true /\
  rq_join_tl (map rq_clause_text (map rq_item_val more)) = chain_text more ++ rq_join_tl (map rq_clause_text (map rq_item_val rest)) /\
  rq_blank bl = true /\ Forall cl_ok rest /\ (length rest <= pred (length more))%nat /\ (bl = [] -> rest = []).
Proof.
  induction more as [|[[a c] b] more' IH]; intros Hall Hp; cbv zeta.
  - cbn. repeat split; auto.
  - inversion Hall as [|? ? [Hi Wc] Hall']; subst. apply item_blank_split in Hi as [Ha Hb]. cbn [rq_item_val fst snd] in Wc.
    cbn [chain_pre_okb] in Hp. apply andb_prop in Hp as [Hp Hp3]. apply andb_prop in Hp as [Hp1 Hp2].
    apply is_nil_true in Hp1, Hp2. subst a.
    pose proof (clause_text_arb c Wc Hp2) as Ac.
    cbn [chain_text chain_rest]. rewrite rest_text_nil_blank. cbn [app map rq_item_val fst snd rq_join_tl].
    rewrite join_cons.
    destruct b as [|d b']; cbn [is_nil] in *.
    + specialize (IH Hall' Hp3). cbv zeta in IH. destruct IH as (I1 & I2 & I3 & I4 & I5 & I6 & I7).
      rewrite I1. repeat split; auto.
      * now rewrite <- app_assoc.
      * apply arb_cons44. rewrite forallb_app, Ac, I2. reflexivity.
      * rewrite I3. now rewrite <- app_assoc.
      * cbn [length pred]. lia.
    + cbn [fst snd]. rewrite !app_nil_r. repeat split; auto; try (apply arb_cons44; exact Ac); try discriminate; try (cbn [length pred]; lia).
Qed.

(* ------------------------------------------------------------------ _parse_version_many, exactly: acceptance ----------------- *)
Lemma version_many_exact : forall n more, (length more <= n)%nat -> forall c b acc p w T fuel,
  rq_wf_clause c -> rq_blank b = true -> Forall cl_ok more -> rq_d7_ok (([], c, b) :: more) -> rq_blank w = true -> rq_tail T ->
  (length more < fuel)%nat ->
  exists q, rq_version_many fuel acc {| prev := p; rest := rq_clause_text c ++ rq_rest_text rq_clause_text b more ++ w ++ T |}
            = Some (acc ++ rq_join [44] (map rq_clause_text (c :: map rq_item_val more)), {| prev := q; rest := T |}).
Proof.
  unfold rq_d7_ok. induction n as [|n IHn]; intros more Hlen c b acc p w T fuel Wc Hb Hall Hd7 Hw HT Hf.
  { destruct more; [|cbn in Hlen; lia]. apply version_many_ok; auto. exact I. }
  destruct more as [|[[a' c'] b'] more']; [apply version_many_ok; auto; exact I|].
  destruct fuel as [|f]; [lia|]. cbn [rq_version_many].
  inversion Hall as [|? ? [Hi Wc'] Hall']; subst. apply item_blank_split in Hi as [Ha' Hb']. cbn [rq_item_val fst snd] in Wc'.
  rewrite chain_okb_cons2 in Hd7. cbn [negb orb andb] in Hd7.
  destruct (rq_is_arb (c_op c) && is_nil b) eqn:Ch.
  - (* the token of c swallows the comma *)
    apply andb_prop in Ch as [Earb Enil]. apply is_arb_true in Earb. apply is_nil_true in Enil. subst b.
    set (more1 := (a', c', b') :: more') in *.
    rewrite chain_ok_split in Hd7 by discriminate. apply andb_prop in Hd7 as [Hpre Hrest].
    destruct (chain_facts more1 Hall Hpre) as (I1 & I2 & I3 & I4 & I5 & I6 & I7). cbv zeta in *.
    destruct (chain_rest more1) as [bl rest] eqn:ER. cbn [fst snd] in *.
    rewrite I1. rewrite <- !app_assoc.
    assert (TE : tok_end (rq_rest_text rq_clause_text bl rest ++ w ++ T)).
    { destruct bl as [|d bl'].
      - rewrite (I7 eq_refl). cbn [rq_rest_text app]. destruct w as [|e w']; cbn [app].
        + destruct T as [|t0 T']; [exact I|]. cbn [tok_end]. cbn [rq_tail] in HT. destruct HT as [->| ->]; auto.
        + cbn [rq_blank forallb] in Hw. apply andb_prop in Hw as [He _]. left. now apply wsb_ws.
      - destruct rest as [|[[? ?] ?] ?]; cbn [rq_rest_text app]; cbn [rq_blank forallb] in I4; apply andb_prop in I4 as [Hd _]; left; now apply wsb_ws. }
    rewrite (spec_tok_arb_ext p c (chain_text more1) _ Wc Earb I2 TE).
    set (tok := rq_clause_text c ++ chain_text more1).
    assert (Jn : rq_join [44] (map rq_clause_text (c :: map rq_item_val more1)) = tok ++ rq_join_tl (map rq_clause_text (map rq_item_val rest))).
    { cbn [map]. rewrite join_cons. unfold tok. now rewrite I3, <- app_assoc. }
    destruct rest as [|[[a2 c2] b2] rest'].
    + (* the token runs to the end of the list *)
      cbn [rq_rest_text]. rewrite app_nil_r.
      assert (F : rq_follow true (bl ++ w ++ T)).
      { rewrite app_assoc. destruct (bl ++ w) as [|d r] eqn:E; [cbn [app]; now apply tail_follow|].
        assert (Hd : is_wsb d = true).
        { assert (Hbw : rq_blank (bl ++ w) = true) by now apply blank_app. rewrite E in Hbw. cbn [rq_blank forallb] in Hbw. now apply andb_prop in Hbw. }
        cbn [app rq_follow]. unfold is_wsb in Hd. apply orb_prop in Hd as [Hd|Hd]; apply N.eqb_eq in Hd; auto. }
      destruct (follow_trails _ (last_opt p tok) _ F) as [-> ->]. cbn [orb].
      rewrite app_assoc. rewrite skip_ws_app by (try apply blank_app; auto; now apply tail_nbhead).
      replace (rq_is_hd 44 {| prev := last_opt (last_opt p tok) (bl ++ w); rest := T |}) with false.
      2:{ unfold rq_is_hd. cbn [rest]. destruct T as [|d t]; auto. cbn in HT. destruct HT as [->| ->]; reflexivity. }
      rewrite Jn. cbn [map rq_join_tl]. rewrite app_nil_r. eexists. reflexivity.
    + (* the token ends at the blanks bl; "," and the next clause follow *)
      assert (Nbl : bl <> []) by (intros E; specialize (I7 E); discriminate).
      inversion I5 as [|? ? [Hi2 Wc2] Hall2]; subst. apply item_blank_split in Hi2 as [Ha2 Hb2]. cbn [rq_item_val fst snd] in Wc2.
      cbn [rq_rest_text]. rewrite <- !app_assoc. cbn [app]. rewrite <- !app_assoc.
      assert (F : rq_follow true (bl ++ 44 :: a2 ++ rq_clause_text c2 ++ rq_rest_text rq_clause_text b2 rest' ++ w ++ T)).
      { destruct bl as [|d r]; [congruence|]. cbn [rq_blank forallb] in I4. apply andb_prop in I4 as [Hd' _]. cbn [app rq_follow].
        unfold is_wsb in Hd'. apply orb_prop in Hd' as [Hd'|Hd']; apply N.eqb_eq in Hd'; auto. }
      destruct (follow_trails _ (last_opt p tok) _ F) as [-> ->]. cbn [orb].
      rewrite skip_ws_app by (auto; reflexivity).
      unfold rq_is_hd at 1. cbn [rest]. lit_eqb.
      unfold rq_drop1. cbn [rest]. unfold adv at 1. cbn [prev last_opt].
      rewrite skip_ws_app by (auto; apply clause_head).
      cbn [length pred] in I6, Hf, Hlen.
      assert (Hd7' : rq_chain_okb false (([], c2, b2) :: rest') = true) by exact Hrest.
      destruct (IHn rest' ltac:(lia) c2 b2 (acc ++ tok ++ [44]) (last_opt (Some 44) a2) w T f Wc2 Hb2 Hall2 Hd7' Hw HT ltac:(lia)) as [q E].
      unfold MText.str, MText.char in *. rewrite E. eexists. f_equal. f_equal.
      rewrite Jn. cbn [map rq_item_val fst snd rq_join_tl]. rewrite <- !app_assoc. reflexivity.
  - (* the token of c ends before the comma *)
    cbn [rq_rest_text]. rewrite <- !app_assoc. cbn [app]. rewrite <- !app_assoc.
    assert (F : rq_follow (rq_is_arb (c_op c)) (b ++ 44 :: a' ++ rq_clause_text c' ++ rq_rest_text rq_clause_text b' more' ++ w ++ T)).
    { destruct b as [|d r].
      - cbn [app rq_follow]. right. right. right. right. split; auto.
        destruct (rq_is_arb (c_op c)); [discriminate Ch|reflexivity].
      - cbn [rq_blank forallb] in Hb. apply andb_prop in Hb as [Hd' _]. cbn [app rq_follow].
        unfold is_wsb in Hd'. apply orb_prop in Hd' as [Hd'|Hd']; apply N.eqb_eq in Hd'; auto. }
    rewrite (spec_tok_ok p c _ Wc F).
    destruct (follow_trails _ (last_opt p (rq_clause_text c)) _ F) as [-> ->]. cbn [orb].
    rewrite skip_ws_app by (auto; reflexivity).
    unfold rq_is_hd at 1. cbn [rest]. lit_eqb.
    unfold rq_drop1. cbn [rest]. unfold adv at 1. cbn [prev last_opt].
    rewrite skip_ws_app by (auto; apply clause_head).
    cbn [length] in Hf, Hlen.
    destruct (IHn more' ltac:(lia) c' b' (acc ++ rq_clause_text c ++ [44]) (last_opt (Some 44) a') w T f Wc' Hb' Hall' Hd7 Hw HT ltac:(lia)) as [q E].
    unfold MText.str, MText.char in *. rewrite E. eexists. f_equal. f_equal. cbn [map rq_join rq_item_val fst snd].
    rewrite <- !app_assoc. cbn [app]. destruct (map rq_clause_text (map rq_item_val more')); reflexivity.
Qed.

(* ------------------------------------------------------------------ _parse_version_many, exactly: rejection ------------------ *)
(* where reading stops in the middle of a clause: not a blank, not "," ")" ";" and not the end *)
Definition bad_rest (R : list N) : Prop :=
  match R with [] => False | h :: R' => is_wsb h = false /\ h <> 44 /\ h <> 41 /\ h <> 59 /\ (h = 10 -> R' <> []) end.
Lemma op_head_bad c X : bad_rest (rq_clause_text c ++ X).
Proof. unfold rq_clause_text. destruct (c_op c); cbn; repeat split; try discriminate. Qed.
Lemma ws_char_facts h : is_ws h = true -> h <> 44 /\ h <> 41 /\ h <> 59 /\ (h =? 46) = false /\ (h =? 43) = false.
Proof.
  unfold is_ws, ws_table. cbn [existsb]. intros W.
  repeat (apply orb_prop in W as [W|W]; [apply N.eqb_eq in W; subst h; repeat split; discriminate|]). discriminate.
Qed.
Lemma body_head_bad c X : rq_wf_clause c -> bad_rest (r_body (c_body c) ++ X).
Proof.
  intros (_ & Hb & Hx & Hc). destruct (r_body (c_body c)) as [|h t] eqn:E; [congruence|]. cbn [app bad_rest].
  destruct (body_head _ _ _ h t Hb eq_refl) as [_ Hws].
  cbn [rq_no_comma forallb] in Hc. apply andb_prop in Hc as [H44 _]. apply negb_true_iff, N.eqb_neq in H44.
  assert (Hnb : is_wsb h = false) by (destruct (is_wsb h) eqn:B; auto; apply wsb_ws in B; congruence).
  assert (A : arb_char h = true \/ stopc h = false).
  { destruct (oper_eq_dec_arb (c_op c)) as [Eo|Ho].
    - left. rewrite Eo in Hb. apply body_arb_all in Hb as [_ Hall]. cbn [forallb] in Hall. now apply andb_prop in Hall.
    - right. pose proof (body_all_nonstop _ _ _ Ho Hb) as Hall. cbn [forallb] in Hall. apply andb_prop in Hall as [Hh _]. now apply negb_true_iff in Hh. }
  assert (A' : arb_char h = true) by (destruct A as [A|A]; [exact A|now apply nonstop_arb]).
  unfold arb_char in A'. apply andb_prop in A' as [A1 A3]. apply andb_prop in A1 as [_ A2].
  apply negb_true_iff, N.eqb_neq in A2, A3. repeat split; auto. intros ->. discriminate.
Qed.

Lemma mspan_split (p : N -> bool) s : exists g r, s = g ++ r /\ forallb p g = true /\ (match r with [] => True | h :: _ => p h = false end).
Proof.
  induction s as [|c s (g & r & E & Hg & Hr)]; [exists [], []; auto|]. destruct (p c) eqn:Pc.
  - exists (c :: g), r. subst s. cbn [forallb app]. rewrite Pc. auto.
  - exists [], (c :: s). cbn. auto.
Qed.

(* a swallowed item that is not spelled ",clause": the token stops inside it *)
Lemma chain_pre_bad : forall more Z, Forall cl_ok more -> chain_pre_okb more = false ->
  exists x g R, rq_rest_text rq_clause_text [] more ++ Z = x ++ g ++ R /\ forallb arb_char x = true /\ rq_blank g = true /\
                tok_end (g ++ R) /\ bad_rest R.
Proof.
  induction more as [|[[a c] b] more' IH]; intros Z Hall Hp; [discriminate|].
  inversion Hall as [|? ? [Hi Wc] Hall']; subst. apply item_blank_split in Hi as [Ha Hb]. cbn [rq_item_val fst snd] in Wc.
  rewrite rest_text_nil_blank. cbn [chain_pre_okb] in Hp.
  destruct a as [|d a'].
  - destruct (c_ws c) as [|e cw] eqn:Ew.
    + (* this item is fine: the failure is further on *)
      cbn [is_nil andb] in Hp. destruct b as [|d b']; [|discriminate]. cbn [is_nil] in Hp.
      destruct (IH Z Hall' Hp) as (x & g & R & E & Hx & Hg & HT & HB).
      exists (44 :: rq_clause_text c ++ x), g, R. cbn [app]. rewrite <- !app_assoc. cbn [rq_rest_text app] in *. rewrite E.
      repeat split; auto. apply arb_cons44. rewrite forallb_app, (clause_text_arb c Wc Ew), Hx. reflexivity.
    + (* whitespace after the operator *)
      pose proof Wc as (Hws & _ & _ & _).
      destruct (mspan_split is_wsb (c_ws c)) as (g & cw' & Ecw & Hg & Hcw').
      exists (44 :: op_txt (c_op c)), g, (cw' ++ r_body (c_body c) ++ rq_rest_text rq_clause_text b more' ++ Z).
      unfold rq_clause_text. rewrite Ecw. cbn [app]. rewrite <- !app_assoc. repeat split; auto.
      * apply arb_cons44. apply op_txt_arb.
      * (* the character after the operator is whitespace *)
        rewrite app_assoc, <- Ecw, Ew. cbn [app tok_end]. left. rewrite Ew in Hws. cbn [forallb] in Hws. now apply andb_prop in Hws.
      * destruct cw' as [|h cw'']; [cbn [app]; now apply body_head_bad|]. cbn [app bad_rest].
        assert (Hh : is_ws h = true).
        { rewrite forallb_forall in Hws. apply Hws. rewrite Ecw. apply in_or_app. right. left. reflexivity. }
        destruct (ws_char_facts h Hh) as (H1 & H2 & H3 & _). repeat split; auto.
        intros _. destruct Wc as (_ & _ & Hne & _). destruct cw''; cbn [app]; [|discriminate].
        destruct (r_body (c_body c)); [congruence|discriminate].
  - (* a blank after the comma *)
    exists [44], (d :: a'), (rq_clause_text c ++ rq_rest_text rq_clause_text b more' ++ Z).
    cbn [app]. rewrite <- !app_assoc. repeat split; auto.
    + cbn [app tok_end]. left. cbn [rq_blank forallb] in Ha. apply andb_prop in Ha as [Hd _]. now apply wsb_ws.
    + apply op_head_bad.
Qed.

Lemma bad_rest_nbhead R : bad_rest R -> nbhead R.
Proof. destruct R; cbn; tauto. Qed.
Lemma tok_end_trails q F : tok_end F -> rq_prefix_trail {| prev := q; rest := F |} = false /\ rq_local_trail {| prev := q; rest := F |} = false.
Proof.
  unfold rq_prefix_trail, rq_local_trail. cbn [rest]. destruct F as [|c [|d t]]; auto. cbn [tok_end].
  intros [H|[->| ->]]; [|split; reflexivity|split; reflexivity]. destruct (ws_char_facts c H) as (_ & _ & _ & -> & ->). auto.
Qed.

Definition vm_bad (r : option (list N * st)) : Prop := r = None \/ exists t q R, r = Some (t, {| prev := q; rest := R |}) /\ bad_rest R.

Lemma version_many_bad : forall n more, (length more <= n)%nat -> forall c b acc p w T fuel,
  rq_wf_clause c -> rq_blank b = true -> Forall cl_ok more -> rq_chain_okb false (([], c, b) :: more) = false -> rq_blank w = true -> rq_tail T ->
  (length more < fuel)%nat ->
  vm_bad (rq_version_many fuel acc {| prev := p; rest := rq_clause_text c ++ rq_rest_text rq_clause_text b more ++ w ++ T |}).
Proof.
  induction n as [|n IHn]; intros more Hlen c b acc p w T fuel Wc Hb Hall Hd7 Hw HT Hf.
  { destruct more; [discriminate Hd7|cbn in Hlen; lia]. }
  destruct more as [|[[a' c'] b'] more']; [discriminate Hd7|].
  destruct fuel as [|f]; [lia|]. cbn [rq_version_many].
  inversion Hall as [|? ? [Hi Wc'] Hall']; subst. apply item_blank_split in Hi as [Ha' Hb']. cbn [rq_item_val fst snd] in Wc'.
  rewrite chain_okb_cons2 in Hd7. cbn [negb orb andb] in Hd7.
  destruct (rq_is_arb (c_op c) && is_nil b) eqn:Ch.
  - apply andb_prop in Ch as [Earb Enil]. apply is_arb_true in Earb. apply is_nil_true in Enil. subst b.
    set (more1 := (a', c', b') :: more') in *.
    rewrite chain_ok_split in Hd7 by discriminate.
    destruct (chain_pre_okb more1) eqn:Hpre.
    + (* the swallowed items are fine; the failure comes after the token *)
      cbn [andb] in Hd7.
      destruct (chain_facts more1 Hall Hpre) as (I1 & I2 & I3 & I4 & I5 & I6 & I7). cbv zeta in *.
      destruct (chain_rest more1) as [bl rest] eqn:ER. cbn [fst snd] in *.
      destruct rest as [|[[a2 c2] b2] rest']; [discriminate Hd7|].
      assert (Nbl : bl <> []) by (intros E; specialize (I7 E); discriminate).
      inversion I5 as [|? ? [Hi2 Wc2] Hall2]; subst. apply item_blank_split in Hi2 as [Ha2 Hb2]. cbn [rq_item_val fst snd] in Wc2.
      rewrite I1. rewrite <- !app_assoc.
      assert (F : rq_follow true (rq_rest_text rq_clause_text bl ((a2, c2, b2) :: rest') ++ w ++ T)).
      { cbn [rq_rest_text]. destruct bl as [|d r]; [congruence|]. cbn [rq_blank forallb] in I4. apply andb_prop in I4 as [Hd' _]. cbn [app rq_follow].
        unfold is_wsb in Hd'. apply orb_prop in Hd' as [Hd'|Hd']; apply N.eqb_eq in Hd'; auto. }
      rewrite (spec_tok_arb_ext p c (chain_text more1) _ Wc Earb I2 (follow_tok_end _ _ F eq_refl)).
      set (tok := rq_clause_text c ++ chain_text more1).
      destruct (follow_trails _ (last_opt p tok) _ F) as [-> ->]. cbn [orb].
      cbn [rq_rest_text]. rewrite <- !app_assoc. cbn [app]. rewrite <- !app_assoc.
      rewrite skip_ws_app by (auto; reflexivity).
      unfold rq_is_hd at 1. cbn [rest]. lit_eqb.
      unfold rq_drop1. cbn [rest]. unfold adv at 1. cbn [prev last_opt].
      rewrite skip_ws_app by (auto; apply clause_head).
      cbn [length pred] in I6, Hf, Hlen.
      exact (IHn rest' ltac:(lia) c2 b2 (acc ++ tok ++ [44]) (last_opt (Some 44) a2) w T f Wc2 Hb2 Hall2 Hd7 Hw HT ltac:(lia)).
    + (* the token stops inside a swallowed item *)
      destruct (chain_pre_bad more1 (w ++ T) Hall Hpre) as (x & g & R & E & Hx & Hg & HTe & HB).
      rewrite E.
      rewrite (spec_tok_arb_ext p c x _ Wc Earb Hx HTe).
      destruct (tok_end_trails (last_opt p (rq_clause_text c ++ x)) _ HTe) as [-> ->]. cbn [orb].
      rewrite skip_ws_app by (auto; now apply bad_rest_nbhead).
      replace (rq_is_hd 44 {| prev := last_opt (last_opt p (rq_clause_text c ++ x)) g; rest := R |}) with false.
      2:{ unfold rq_is_hd. cbn [rest]. destruct R as [|h R']; auto. destruct HB as (_ & H44 & _). symmetry. now apply N.eqb_neq. }
      right. eexists _, _, R. split; [reflexivity|exact HB].
  - cbn [rq_rest_text]. rewrite <- !app_assoc. cbn [app]. rewrite <- !app_assoc.
    assert (F : rq_follow (rq_is_arb (c_op c)) (b ++ 44 :: a' ++ rq_clause_text c' ++ rq_rest_text rq_clause_text b' more' ++ w ++ T)).
    { destruct b as [|d r].
      - cbn [app rq_follow]. right. right. right. right. split; auto.
        destruct (rq_is_arb (c_op c)); [discriminate Ch|reflexivity].
      - cbn [rq_blank forallb] in Hb. apply andb_prop in Hb as [Hd' _]. cbn [app rq_follow].
        unfold is_wsb in Hd'. apply orb_prop in Hd' as [Hd'|Hd']; apply N.eqb_eq in Hd'; auto. }
    rewrite (spec_tok_ok p c _ Wc F).
    destruct (follow_trails _ (last_opt p (rq_clause_text c)) _ F) as [-> ->]. cbn [orb].
    rewrite skip_ws_app by (auto; reflexivity).
    unfold rq_is_hd at 1. cbn [rest]. lit_eqb.
    unfold rq_drop1. cbn [rest]. unfold adv at 1. cbn [prev last_opt].
    rewrite skip_ws_app by (auto; apply clause_head).
    cbn [length] in Hf, Hlen.
    exact (IHn more' ltac:(lia) c' b' (acc ++ rq_clause_text c ++ [44]) (last_opt (Some 44) a') w T f Wc' Hb' Hall' Hd7 Hw HT ltac:(lia)).
Qed.

(* ------------------------------------------------------------------ the spelled requirement under the exact condition -------- *)
Definition rq_wf_body_x (b : rq_sbody) (marker : bool) (w3 : list N) : Prop :=
  match b with
  | SB_clauses paren items =>
      (match paren with Some w => rq_blank w = true | None => True end) /\
      Forall (fun i => rq_item_blank i = true /\ rq_wf_clause (rq_item_val i)) items /\ rq_d7_ok items
  | SB_url w u => rq_blank w = true /\ u <> [] /\ forallb rq_not_blank u = true /\ (marker = true -> w3 <> [])
  end.
Definition rq_wf_x (sp : rq_spelled) (m : option (list elem)) : Prop :=
  rq_blank (rs_w0 sp) = true /\ rq_blank (rs_w1 sp) = true /\ rq_blank (rs_w2 sp) = true /\ rq_blank (rs_w3 sp) = true /\
  rq_valid_ident (rs_name sp) = true /\
  (match rs_extras sp with
   | None => True
   | Some (w, items) => rq_blank w = true /\ Forall (fun i => rq_item_blank i = true /\ rq_valid_ident (rq_item_val i) = true) items
   end) /\
  rq_wf_body_x (rs_body sp) (match rs_marker sp with Some _ => true | None => false end) (rs_w3 sp) /\
  (match rs_marker sp, m with
   | None, None => True
   | Some mt, Some m' => MText.parse_marker mt = Some m'
   | _, _ => False
   end).
(* the old well-formedness is a special case *)
Lemma wf_is_wf_x sp m : rq_wf sp m -> rq_wf_x sp m.
Proof.
  intros (H0 & H1 & H2 & H3 & Hn & Hex & Hb & Hm). repeat split; auto. destruct (rs_body sp); cbn [rq_wf_body rq_wf_body_x] in *; auto.
  destruct Hb as (A & B & C). repeat split; auto. now apply no_d7_chain_ok.
Qed.

(* requirement_details, entered after the blanks w (whatever precedes) have been skipped *)
Lemma details_x b mk m w3 p w :
  rq_blank w = true -> rq_blank w3 = true -> rq_wf_body_x b (match mk with Some _ => true | None => false end) w3 -> mk_rel mk m ->
  let s' := skip_ws {| prev := p; rest := w ++ rq_body_text b ++ w3 ++ mk_text mk |} in
  rq_is_hd 91 s' = false /\ skip_ws s' = s' /\
  exists q, rq_details s' = Some ((body_url b, rq_join [44] (map rq_clause_text (body_clauses b)), m), {| prev := q; rest := [] |}).
Proof.
  intros Hw Hw3 Wb Hm. destruct b as [paren items|wu u]; cbn [rq_wf_body_x] in Wb.
  - destruct Wb as (Hp & Hall & Hd7). cbn [body_url body_clauses].
    destruct paren as [wp|]; cbn [rq_body_text].
    + (* "(" wp items ")" *)
      cbv zeta. cbn [app]. rewrite <- !app_assoc. cbn [app].
      rewrite skip_ws_app by (auto; reflexivity). rewrite is_hd_cons. lit_eqb. rewrite skip_ws_id by reflexivity.
      split; [reflexivity|]. split; [reflexivity|].
      unfold rq_details. rewrite is_hd_cons. lit_eqb. unfold rq_specifier. rewrite is_hd_cons. lit_eqb. rewrite drop1_cons. cbn [rest].
      destruct items as [|[[a c] b] more].
      * unfold rq_items_text. cbn [map rq_join app].
        rewrite skip_ws_app by (auto; reflexivity).
        rewrite version_many_empty by (cbn; auto; lia).
        rewrite skip_ws_id by reflexivity. rewrite is_hd_cons. lit_eqb. rewrite drop1_cons.
        rewrite skip_ws_app by (auto; apply tail_nbhead, mk_tail).
        apply end_or_marker_ok; auto.
      * inversion Hall as [|? ? [Hi Wc] Hall']; subst. apply item_blank_split in Hi as [Ha Hb]. cbn [rq_item_val fst snd] in Wc.
        rewrite items_text_cons. rewrite <- !app_assoc. rewrite (app_assoc wp a).
        rewrite skip_ws_app by (try apply blank_app; auto; apply clause_head).
        assert (Hd7' : rq_d7_ok (([], c, b) :: more)) by exact Hd7.
        match goal with |- context [rq_version_many ?fu [] _] =>
          destruct (version_many_exact (length more) more (le_n _) c b [] (last_opt (Some 40) (wp ++ a)) [] (41 :: w3 ++ mk_text mk) fu Wc Hb Hall' Hd7' eq_refl) as [q E] end.
        { cbn; auto. }
        { pose proof (rest_text_len rq_clause_text b more). cbn [length]. rewrite !app_length. cbn [length]. rewrite ?app_length. lia. }
        cbn [app] in E. unfold MText.str, MText.char in *. rewrite E. cbn [app].
        rewrite skip_ws_id by reflexivity. rewrite is_hd_cons. lit_eqb. rewrite drop1_cons.
        rewrite skip_ws_app by (auto; apply tail_nbhead, mk_tail).
        apply end_or_marker_ok; auto.
    + (* no parentheses *)
      destruct items as [|[[a c] b] more].
      * unfold rq_items_text. cbn [map rq_join app]. cbv zeta. rewrite app_assoc.
        rewrite skip_ws_app by (try apply blank_app; auto; apply tail_nbhead, mk_tail).
        assert (H91 : rq_is_hd 91 {| prev := last_opt p (w ++ w3); rest := mk_text mk |} = false) by (destruct mk; reflexivity).
        assert (H64 : rq_is_hd 64 {| prev := last_opt p (w ++ w3); rest := mk_text mk |} = false) by (destruct mk; reflexivity).
        assert (H40 : rq_is_hd 40 {| prev := last_opt p (w ++ w3); rest := mk_text mk |} = false) by (destruct mk; reflexivity).
        rewrite skip_ws_id by (apply tail_nbhead, mk_tail). split; auto. split; auto.
        unfold rq_details. rewrite H64. unfold rq_specifier. rewrite H40.
        rewrite skip_ws_id by (apply tail_nbhead, mk_tail).
        rewrite version_many_empty by (try apply mk_tail; lia).
        rewrite !skip_ws_id by (apply tail_nbhead, mk_tail).
        apply end_or_marker_ok; auto.
      * inversion Hall as [|? ? [Hi Wc] Hall']; subst. apply item_blank_split in Hi as [Ha Hb]. cbn [rq_item_val fst snd] in Wc.
        rewrite items_text_cons. cbv zeta. rewrite <- !app_assoc. rewrite (app_assoc w a).
        rewrite skip_ws_app by (try apply blank_app; auto; apply clause_head).
        destruct (clause_head c (rq_rest_text rq_clause_text b more ++ w3 ++ mk_text mk)) as [NB HD].
        destruct (rq_clause_text c ++ rq_rest_text rq_clause_text b more ++ w3 ++ mk_text mk) as [|d r] eqn:Er; [contradiction|].
        destruct HD as (H64 & H40 & H91).
        rewrite skip_ws_id by exact NB. rewrite is_hd_cons, H91. split; auto. split; auto.
        unfold rq_details. rewrite is_hd_cons, H64. unfold rq_specifier. rewrite is_hd_cons, H40.
        rewrite skip_ws_id by exact NB. cbn [rest]. rewrite <- Er.
        assert (Hd7' : rq_d7_ok (([], c, b) :: more)) by exact Hd7.
        match goal with |- context [rq_version_many ?fu [] _] =>
          destruct (version_many_exact (length more) more (le_n _) c b [] (last_opt p (w ++ a)) w3 (mk_text mk) fu Wc Hb Hall' Hd7' Hw3 (mk_tail mk)) as [q E] end.
        { pose proof (rest_text_len rq_clause_text b more). rewrite !app_length. lia. }
        cbn [app] in E. unfold MText.str, MText.char in *. rewrite E. cbn [app].
        rewrite !skip_ws_id by (apply tail_nbhead, mk_tail).
        apply end_or_marker_ok; auto.
  - (* "@" wu url *)
    destruct Wb as (Hwu & Hu & Hnb & Hsep). cbn [body_url body_clauses rq_body_text map rq_join]. cbv zeta.
    cbn [app]. rewrite <- !app_assoc. cbn [app].
    rewrite skip_ws_app by (auto; reflexivity). rewrite is_hd_cons. lit_eqb. rewrite skip_ws_id by reflexivity.
    split; [reflexivity|]. split; [reflexivity|].
    unfold rq_details. rewrite is_hd_cons. lit_eqb. rewrite drop1_cons.
    destruct u as [|c0 u'] eqn:Eu; [congruence|]. rewrite <- Eu in *.
    assert (NBu : forall X, nbhead (u ++ X)).
    { intros X. rewrite Eu. cbn. rewrite Eu in Hnb. cbn [forallb] in Hnb. apply andb_prop in Hnb as [Hc _]. unfold rq_not_blank in Hc. now apply negb_true_iff in Hc. }
    rewrite skip_ws_app by (auto; apply NBu). cbn [rest].
    assert (SP : MText.span rq_not_blank (u ++ w3 ++ mk_text mk) = (u, w3 ++ mk_text mk)).
    { apply mspan_app; auto. destruct w3 as [|d w3'].
      - destruct mk; [now destruct (Hsep eq_refl)|]. exact I.
      - cbn [app]. cbn [rq_blank forallb] in Hw3. apply andb_prop in Hw3 as [Hd _]. unfold rq_not_blank. now rewrite Hd. }
    unfold MText.str, MText.char in *. rewrite SP.
    rewrite match_nonempty by (rewrite Eu; discriminate).
    unfold adv. cbn [prev rest].
    destruct w3 as [|d w3'] eqn:Ew3.
    + destruct mk; [now destruct (Hsep eq_refl)|]. destruct m; [contradiction|]. cbn [app mk_text]. rewrite at_end_nil. eexists. reflexivity.
    + rewrite <- Ew3 in *.
      assert (Hd : is_wsb d = true) by (rewrite Ew3 in Hw3; cbn [rq_blank forallb] in Hw3; now apply andb_prop in Hw3).
      assert (AE : forall q, rq_at_end {| prev := q; rest := w3 ++ mk_text mk |} = false).
      { intros q. rewrite Ew3. cbn [app]. apply at_end_cons. unfold is_wsb in Hd. apply orb_prop in Hd as [Hd|Hd]; apply N.eqb_eq in Hd; subst; reflexivity. }
      rewrite AE.
      rewrite (mspan_app is_wsb w3 (mk_text mk) Hw3 (tail_nbhead _ (mk_tail mk))).
      rewrite match_nonempty by (rewrite Ew3; discriminate).
      apply end_or_marker_ok; auto.
Qed.


Theorem parse_render_x sp m : rq_wf_x sp m -> rq_parse (rq_render sp) = Some (rq_expected sp m).
Proof.
  intros (H0 & H1 & H2 & H3 & Hn & Hex & Hb & Hm).
  assert (Hm' : mk_rel (rs_marker sp) m) by exact Hm.
  unfold rq_parse, rq_render.
  change (match rs_marker sp with None => [] | Some mt => 59 :: mt end) with (mk_text (rs_marker sp)).
  destruct (rs_extras sp) as [[we items]|] eqn:Eex.
  - destruct Hex as [Hwe Hitems].
    rewrite skip_ws_app by (auto; apply valid_ident_head; auto).
    rewrite <- ?app_assoc.
    rewrite rq_ident_ok; auto.
    2:{ apply blank_nonword; auto. }
    2:{ apply (blank_head_cases (rs_w1 sp) _ (fun c => rq_is_ident c = false)); auto; reflexivity. }
    cbn [app]. rewrite skip_ws_app by (auto; reflexivity).
    rewrite <- ?app_assoc. cbn [app].
    rewrite (extras_ok _ we items _ Hwe).
    2:{ eapply Forall_impl; [|exact Hitems]. intros i Hi. exact Hi. }
    destruct (details_x (rs_body sp) (rs_marker sp) m (rs_w3 sp) (Some 93) (rs_w2 sp) H2 H3 Hb Hm') as (_ & _ & q & E).
    cbv zeta in E. unfold MText.str, MText.char in *. rewrite E. rewrite at_end_nil.
    unfold rq_expected, rq_sp_extras, rq_sp_url, rq_sp_clauses. rewrite Eex.
    destruct (rs_body sp); reflexivity.
  - rewrite skip_ws_app by (auto; apply valid_ident_head; auto).
    rewrite <- ?app_assoc. cbn [app].
    destruct (details_x (rs_body sp) (rs_marker sp) m (rs_w3 sp) (last_opt (last_opt None (rs_w0 sp)) (rs_name sp)) (rs_w1 sp ++ rs_w2 sp)
                (blank_app _ _ H1 H2) H3 Hb Hm') as (N91 & Sid & q & E).
    cbv zeta in N91, Sid, E. rewrite <- ?app_assoc in N91, Sid, E.
    assert (NI : nihead (rs_w1 sp ++ rs_w2 sp ++ rq_body_text (rs_body sp) ++ rs_w3 sp ++ mk_text (rs_marker sp))).
    { apply (blank_head_cases (rs_w1 sp) _ (fun c => rq_is_ident c = false)); auto.
      apply (blank_head_cases (rs_w2 sp) _ (fun c => rq_is_ident c = false)); auto.
      destruct (rs_body sp) as [[wp|] items|wu u]; cbn [rq_body_text app]; auto.
      destruct items as [|[[a c] b] more].
      + unfold rq_items_text. cbn [map rq_join app].
        apply (blank_head_cases (rs_w3 sp) _ (fun c => rq_is_ident c = false)); auto. destruct (rs_marker sp); cbn; auto.
      + rewrite items_text_cons. cbn [rq_wf_body_x] in Hb. destruct Hb as (_ & Hall & _).
        inversion Hall as [|? ? [Hi _] _]; subst. apply item_blank_split in Hi as [Ha _]. rewrite <- ?app_assoc.
        apply (blank_head_cases a _ (fun c => rq_is_ident c = false)); auto.
        unfold rq_clause_text. destruct (c_op c); cbn; reflexivity. }
    rewrite rq_ident_ok; auto.
    2:{ apply blank_nonword; auto. }
    unfold MText.str, MText.char in *.
    rewrite (extras_absent _ N91). rewrite Sid. rewrite E. rewrite at_end_nil.
    unfold rq_expected, rq_sp_extras, rq_sp_url, rq_sp_clauses. rewrite Eex.
    destruct (rs_body sp); reflexivity.
Qed.
Print Assumptions parse_render_x.

Lemma wf_x_clauses sp m : rq_wf_x sp m -> Forall rq_wf_clause (rq_sp_clauses sp).
Proof.
  intros (_ & _ & _ & _ & _ & _ & Hb & _). unfold rq_sp_clauses. destruct (rs_body sp) as [paren items|w u]; [|constructor].
  cbn [rq_wf_body_x] in Hb. destruct Hb as (_ & Hall & _). apply Forall_map. eapply Forall_impl; [|exact Hall]. intros a [_ Ha]. exact Ha.
Qed.
(* the decomposition theorem under the exact condition *)
Theorem Requirement_render_x sp m : rq_wf_x sp m -> rq_lits_ok m -> Requirement (rq_render sp) = RqOk (rq_denotes sp m).
Proof.
  intros W L. unfold Requirement. rewrite (parse_render_x sp m W). cbn [rq_expected pr_spec pr_name pr_url pr_extras pr_marker].
  rewrite (specset_clauses _ (wf_x_clauses sp m W)). unfold rq_denotes, rq_opt_url.
  destruct m as [m'|]; cbn [rq_lits_ok option_map] in *; [rewrite L|]; destruct (rq_sp_url sp); reflexivity.
Qed.
Print Assumptions Requirement_render_x.

(* ------------------------------------------------------------------ rejection on the complementary class ---------------------- *)
Lemma bad_rest_not_end q R : bad_rest R -> rq_at_end {| prev := q; rest := R |} = false /\ rq_is_hd 59 {| prev := q; rest := R |} = false /\
  rq_is_hd 41 {| prev := q; rest := R |} = false.
Proof.
  destruct R as [|h R']; [contradiction|]. intros (_ & _ & H41 & H59 & H10). unfold rq_at_end, rq_is_hd. cbn [rest]. repeat split.
  - destruct R'; auto. destruct (h =? 10) eqn:E; auto. apply N.eqb_eq in E. now destruct (H10 E).
  - now apply N.eqb_neq.
  - now apply N.eqb_neq.
Qed.

Lemma details_bad paren items mk w3 p w :
  rq_blank w = true -> rq_blank w3 = true -> (match paren with Some wp => rq_blank wp = true | None => True end) ->
  Forall (fun i => rq_item_blank i = true /\ rq_wf_clause (rq_item_val i)) items -> rq_chain_okb false items = false ->
  let s' := skip_ws {| prev := p; rest := w ++ rq_body_text (SB_clauses paren items) ++ w3 ++ mk_text mk |} in
  rq_is_hd 91 s' = false /\ skip_ws s' = s' /\ nihead (rest s') /\ rq_details s' = None.
Proof.
  intros Hw Hw3 Hp Hall Hbad. destruct items as [|[[a c] b] more]; [discriminate Hbad|].
  inversion Hall as [|? ? [Hi Wc] Hall']; subst. apply item_blank_split in Hi as [Ha Hb]. cbn [rq_item_val fst snd] in Wc.
  assert (Hbad' : rq_chain_okb false (([], c, b) :: more) = false) by exact Hbad.
  destruct paren as [wp|]; cbn [rq_body_text].
  - cbv zeta. cbn [app]. rewrite <- !app_assoc. cbn [app].
    rewrite skip_ws_app by (auto; reflexivity). rewrite is_hd_cons. lit_eqb. rewrite skip_ws_id by reflexivity.
    split; [reflexivity|]. split; [reflexivity|]. split; [reflexivity|].
    unfold rq_details. rewrite is_hd_cons. lit_eqb. unfold rq_specifier. rewrite is_hd_cons. lit_eqb. rewrite drop1_cons. cbn [rest].
    rewrite items_text_cons. rewrite <- !app_assoc. rewrite (app_assoc wp a).
    rewrite skip_ws_app by (try apply blank_app; auto; apply clause_head).
    match goal with |- context [rq_version_many ?fu [] _] =>
      destruct (version_many_bad (length more) more (le_n _) c b [] (last_opt (Some 40) (wp ++ a)) [] (41 :: w3 ++ mk_text mk) fu Wc Hb Hall' Hbad' eq_refl)
        as [E|(t & q & R & E & HB)] end.
    { cbn; auto. }
    { pose proof (rest_text_len rq_clause_text b more). cbn [length]. rewrite !app_length. cbn [length]. rewrite ?app_length. lia. }
    + cbn [app] in E. unfold MText.str, MText.char in *. rewrite E. reflexivity.
    + cbn [app] in E. unfold MText.str, MText.char in *. rewrite E.
      rewrite skip_ws_id by now apply bad_rest_nbhead. destruct (bad_rest_not_end q R HB) as (_ & _ & ->). reflexivity.
  - rewrite items_text_cons. cbv zeta. rewrite <- !app_assoc. rewrite (app_assoc w a).
    rewrite skip_ws_app by (try apply blank_app; auto; apply clause_head).
    destruct (clause_head c (rq_rest_text rq_clause_text b more ++ w3 ++ mk_text mk)) as [NB HD].
    assert (NI : nihead (rq_clause_text c ++ rq_rest_text rq_clause_text b more ++ w3 ++ mk_text mk)).
    { unfold rq_clause_text. destruct (c_op c); cbn; reflexivity. }
    destruct (rq_clause_text c ++ rq_rest_text rq_clause_text b more ++ w3 ++ mk_text mk) as [|d r] eqn:Er; [contradiction|].
    destruct HD as (H64 & H40 & H91).
    rewrite skip_ws_id by exact NB. rewrite is_hd_cons, H91. split; auto. split; auto. split; [exact NI|].
    unfold rq_details. rewrite is_hd_cons, H64. unfold rq_specifier. rewrite is_hd_cons, H40.
    rewrite skip_ws_id by exact NB. cbn [rest]. rewrite <- Er.
    match goal with |- context [rq_version_many ?fu [] _] =>
      destruct (version_many_bad (length more) more (le_n _) c b [] (last_opt p (w ++ a)) w3 (mk_text mk) fu Wc Hb Hall' Hbad' Hw3 (mk_tail mk))
        as [E|(t & q & R & E & HB)] end.
    { pose proof (rest_text_len rq_clause_text b more). rewrite !app_length. lia. }
    + unfold MText.str, MText.char in *. rewrite E. reflexivity.
    + unfold MText.str, MText.char in *. rewrite E.
      rewrite !skip_ws_id by now apply bad_rest_nbhead.
      unfold rq_end_or_marker. destruct (bad_rest_not_end q R HB) as (-> & H59 & _). unfold rq_req_marker. rewrite H59. reflexivity.
Qed.

(* every other hypothesis of the decomposition theorem holds, the exact condition fails: the requirement is rejected *)
Definition rq_wf_d7 (sp : rq_spelled) : Prop :=
  rq_blank (rs_w0 sp) = true /\ rq_blank (rs_w1 sp) = true /\ rq_blank (rs_w2 sp) = true /\ rq_blank (rs_w3 sp) = true /\
  rq_valid_ident (rs_name sp) = true /\
  (match rs_extras sp with
   | None => True
   | Some (w, items) => rq_blank w = true /\ Forall (fun i => rq_item_blank i = true /\ rq_valid_ident (rq_item_val i) = true) items
   end) /\
  (match rs_body sp with
   | SB_clauses paren items =>
       (match paren with Some w => rq_blank w = true | None => True end) /\
       Forall (fun i => rq_item_blank i = true /\ rq_wf_clause (rq_item_val i)) items /\ rq_chain_okb false items = false
   | SB_url _ _ => False
   end).
Theorem d7_parse_rejected sp : rq_wf_d7 sp -> rq_parse (rq_render sp) = None.
Proof.
  intros (H0 & H1 & H2 & H3 & Hn & Hex & Hb).
  destruct (rs_body sp) as [paren items|] eqn:Eb; [|contradiction]. destruct Hb as (Hp & Hall & Hbad).
  unfold rq_parse, rq_render. rewrite Eb.
  change (match rs_marker sp with None => [] | Some mt => 59 :: mt end) with (mk_text (rs_marker sp)).
  destruct (rs_extras sp) as [[we eitems]|] eqn:Eex.
  - destruct Hex as [Hwe Hitems].
    rewrite skip_ws_app by (auto; apply valid_ident_head; auto).
    rewrite <- ?app_assoc.
    rewrite rq_ident_ok; auto.
    2:{ apply blank_nonword; auto. }
    2:{ apply (blank_head_cases (rs_w1 sp) _ (fun c => rq_is_ident c = false)); auto; reflexivity. }
    cbn [app]. rewrite skip_ws_app by (auto; reflexivity).
    rewrite <- ?app_assoc. cbn [app].
    rewrite (extras_ok _ we eitems _ Hwe).
    2:{ eapply Forall_impl; [|exact Hitems]. intros i Hi. exact Hi. }
    destruct (details_bad paren items (rs_marker sp) (rs_w3 sp) (Some 93) (rs_w2 sp) H2 H3 Hp Hall Hbad) as (_ & _ & _ & E).
    cbv zeta in E. unfold MText.str, MText.char in *. rewrite E. reflexivity.
  - rewrite skip_ws_app by (auto; apply valid_ident_head; auto).
    rewrite <- ?app_assoc. cbn [app].
    destruct (details_bad paren items (rs_marker sp) (rs_w3 sp) (last_opt (last_opt None (rs_w0 sp)) (rs_name sp)) (rs_w1 sp ++ rs_w2 sp)
                (blank_app _ _ H1 H2) H3 Hp Hall Hbad) as (N91 & Sid & NI0 & E).
    cbv zeta in N91, Sid, NI0, E. rewrite <- ?app_assoc in N91, Sid, NI0, E.
    assert (NI : nihead (rs_w1 sp ++ rs_w2 sp ++ rq_body_text (SB_clauses paren items) ++ rs_w3 sp ++ mk_text (rs_marker sp))).
    { destruct (skip_ws_rest {| prev := last_opt (last_opt None (rs_w0 sp)) (rs_name sp);
                                rest := rs_w1 sp ++ rs_w2 sp ++ rq_body_text (SB_clauses paren items) ++ rs_w3 sp ++ mk_text (rs_marker sp) |}) as (w & Ew & Hwb).
      cbn [rest] in Ew. unfold MText.str, MText.char in *. rewrite Ew.
      apply (blank_head_cases w _ (fun c => rq_is_ident c = false)); auto. }
    rewrite rq_ident_ok; auto.
    2:{ apply blank_nonword; auto. }
    unfold MText.str, MText.char in *.
    rewrite (extras_absent _ N91). rewrite Sid. rewrite E. reflexivity.
Qed.
Theorem d7_rejected sp : rq_wf_d7 sp -> Requirement (rq_render sp) = RqInvalid.
Proof. intros W. unfold Requirement. now rewrite (d7_parse_rejected sp W). Qed.
Print Assumptions d7_rejected.

(* exactness: with every other hypothesis in place, acceptance is equivalent to the chain condition *)
Theorem d7_exact sp m : rq_lits_ok m ->
  rq_blank (rs_w0 sp) = true -> rq_blank (rs_w1 sp) = true -> rq_blank (rs_w2 sp) = true -> rq_blank (rs_w3 sp) = true ->
  rq_valid_ident (rs_name sp) = true ->
  (match rs_extras sp with
   | None => True
   | Some (w, items) => rq_blank w = true /\ Forall (fun i => rq_item_blank i = true /\ rq_valid_ident (rq_item_val i) = true) items
   end) ->
  forall paren items, rs_body sp = SB_clauses paren items ->
  (match paren with Some w => rq_blank w = true | None => True end) ->
  Forall (fun i => rq_item_blank i = true /\ rq_wf_clause (rq_item_val i)) items ->
  (match rs_marker sp, m with None, None => True | Some mt, Some m' => MText.parse_marker mt = Some m' | _, _ => False end) ->
  (Requirement (rq_render sp) = RqOk (rq_denotes sp m) <-> rq_d7_ok items) /\
  (Requirement (rq_render sp) = RqInvalid <-> rq_chain_okb false items = false).
Proof.
  intros L H0 H1 H2 H3 Hn Hex paren items Eb Hp Hall Hm.
  destruct (rq_chain_okb false items) eqn:C.
  - assert (W : rq_wf_x sp m) by (repeat split; auto; rewrite Eb; cbn [rq_wf_body_x]; auto).
    pose proof (Requirement_render_x sp m W L) as R. split; split.
    + intros _. exact C. + intros _. exact R. + rewrite R. discriminate. + discriminate.
  - assert (W : rq_wf_d7 sp) by (repeat split; auto; rewrite Eb; auto).
    pose proof (d7_rejected sp W) as R. split; split.
    + rewrite R. discriminate. + unfold rq_d7_ok. rewrite C. discriminate. + reflexivity. + intros _. exact R.
Qed.

(* non-vacuity: "a===x,>=1 ,<2" satisfies the exact condition but not the old one; "a===x, >=1" and "a===x,>= 1" fail it *)
Definition xc (o : oper) (ws t : list N) (b : body) : rq_clause := {| c_op := o; c_ws := ws; c_body := b |}.
Definition x_pub (r0 : list N) : pub_sp := {| q_v := None; q_ep := None; q_rel0 := r0; q_rels := []; q_pre := None; q_post := None; q_dev := None |}.
Definition x_items1 : list item :=
  [([], xc OArb [] [120] (BArb [120]), []); ([], xc OGe [] [49] (BPub (x_pub [49]) None), [32]); ([], xc OLt [] [50] (BPub (x_pub [50]) None), [])].
Definition x_items2 : list item := [([], xc OArb [] [120] (BArb [120]), []); ([32], xc OGe [] [49] (BPub (x_pub [49]) None), [])].
Definition x_items3 : list item := [([], xc OArb [] [120] (BArb [120]), []); ([], xc OGe [32] [49] (BPub (x_pub [49]) None), [])].
Definition x_sp (items : list item) : rq_spelled :=
  {| rs_w0 := []; rs_name := [97]; rs_w1 := []; rs_extras := None; rs_w2 := []; rs_body := SB_clauses None items; rs_w3 := []; rs_marker := None |}.
Definition x_check : bool :=
  rq_chain_okb false x_items1 && negb (rq_chain_okb false x_items2) && negb (rq_chain_okb false x_items3)
  && rq_str_eqb (rq_render (x_sp x_items1)) [97;61;61;61;120;44;62;61;49;32;44;60;50]
  && match Requirement (rq_render (x_sp x_items1)) with RqOk r => Nat.eqb (length (q_specs r)) 3 | _ => false end
  && match Requirement (rq_render (x_sp x_items2)) with RqInvalid => true | _ => false end
  && match Requirement (rq_render (x_sp x_items3)) with RqInvalid => true | _ => false end.
Example x_check_ok : x_check = true.
Proof. vm_compute. reflexivity. Qed.
Example x_items1_not_old : ~ rq_no_d7 x_items1.
Proof. cbn. intros [H _]. now destruct (H eq_refl). Qed.
