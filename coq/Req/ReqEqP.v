(* C08 proofs, part 8: Requirement.__eq__ is equality of an explicit key (PEP 503 name, set of extras, set of canonical specs,
   url, marker string); __hash__ is a function of that key. *)
From Coq Require Import List Arith NArith Bool Lia Permutation.
Import ListNotations.
Require Import MText MkModel.
Require Names.
Require Import VParse SpecParse SpecSound SpecContains Py Canon Order SortPerm ReqModel.
Open Scope N_scope.
Arguments N.eqb : simpl never.
Arguments N.leb : simpl never.

Lemma str_eqb_eq a b : rq_str_eqb a b = true <-> a = b.
Proof.
  revert b. induction a as [|x a IH]; intros [|y b]; cbn [rq_str_eqb]; split; try discriminate; auto.
  - intros H. apply andb_prop in H as [H1 H2]. apply N.eqb_eq in H1. apply IH in H2. congruence.
  - intros [= -> ->]. rewrite N.eqb_refl. now apply IH.
Qed.
Lemma opt_eqb_eq a b : rq_opt_eqb a b = true <-> a = b.
Proof.
  destruct a, b; cbn [rq_opt_eqb]; split; try discriminate; auto.
  - intros H. apply str_eqb_eq in H. congruence.
  - intros [= ->]. now apply str_eqb_eq.
Qed.
Lemma mem_in x l : rq_mem x l = true <-> In x l.
Proof.
  unfold rq_mem. rewrite existsb_exists. split.
  - intros (y & Hy & E). apply str_eqb_eq in E. now subst.
  - intros H. exists x. split; auto. now apply str_eqb_eq.
Qed.
Lemma incl_iff a b : rq_incl a b = true <-> incl a b.
Proof.
  unfold rq_incl. rewrite forallb_forall. split; intros H x Hx; [apply mem_in|apply mem_in]; auto.
Qed.

(* rq_uniq: the elements of l not already seen, each once *)
Lemma uniq_spec : forall l seen, (forall x, In x (rq_uniq seen l) <-> In x l /\ ~ In x seen) /\ NoDup (rq_uniq seen l).
Proof.
  induction l as [|a l IH]; intros seen; cbn [rq_uniq].
  - split; [intros x; cbn; tauto|constructor].
  - destruct (rq_mem a seen) eqn:M.
    + apply mem_in in M. destruct (IH seen) as [I1 I2]. split; auto. intros x. rewrite I1. cbn. split; [tauto|].
      intros [[->|H] Hn]; [contradiction|auto].
    + assert (Hn : ~ In a seen) by (intros H; apply mem_in in H; congruence).
      destruct (IH (a :: seen)) as [I1 I2]. split.
      * intros x. cbn [In]. rewrite I1. cbn [In]. split.
        -- intros [<-|[H1 H2]]; [auto|]. split; auto.
        -- intros [[<-|H1] H2]; auto. destruct (list_eq_dec N.eq_dec a x) as [->|Ne]; auto. right. split; auto. intros [E|E]; auto.
      * constructor; auto. rewrite I1. cbn. tauto.
Qed.
Lemma uniq_in l x : In x (rq_uniq [] l) <-> In x l.
Proof. destruct (uniq_spec l []) as [H _]. rewrite H. cbn. tauto. Qed.
Lemma uniq_nodup l : NoDup (rq_uniq [] l).
Proof. apply uniq_spec. Qed.

Lemma str_lt_trans a b c : str_cmp a b = Lt -> str_cmp b c = Lt -> str_cmp a c = Lt.
Proof. intros H1 H2. apply (ok_trans_lt _ str_cmp_ok a b c H1). congruence. Qed.
Lemma sort_perm_eq l l' : Permutation l l' -> rq_sort l = rq_sort l'.
Proof. apply (isort_perm_invariant str_cmp (ok_refl _ str_cmp_ok) str_cmp_eq (ok_sym _ str_cmp_ok) str_lt_trans). Qed.
Lemma sort_perm l : Permutation l (rq_sort l).
Proof. apply isort_perm. Qed.

(* set equality of two lists = equality of their sorted duplicate-free representatives *)
Theorem set_eqb_repr a b : rq_set_eqb a b = true <-> rq_setrepr a = rq_setrepr b.
Proof.
  unfold rq_set_eqb, rq_setrepr. rewrite andb_true_iff, !incl_iff. split.
  - intros [H1 H2]. apply sort_perm_eq. apply NoDup_Permutation; try apply uniq_nodup.
    intros x. rewrite !uniq_in. split; auto.
  - intros E.
    assert (P : Permutation (rq_uniq [] a) (rq_uniq [] b)).
    { eapply perm_trans; [apply sort_perm|]. rewrite E. apply Permutation_sym, sort_perm. }
    split; intros x Hx.
    + apply uniq_in. eapply Permutation_in; [exact P|]. now apply uniq_in.
    + apply uniq_in. eapply Permutation_in; [apply Permutation_sym; exact P|]. now apply uniq_in.
Qed.

(* ---- __eq__ is equality of keys ---- *)
Theorem req_eq_key a b : req_eq a b = true <-> req_key a = req_key b.
Proof.
  unfold req_eq, req_key. rewrite !andb_true_iff, str_eqb_eq, !set_eqb_repr, !opt_eqb_eq. split.
  - intros ((((-> & ->) & ->) & ->) & ->). reflexivity.
  - intros [= -> -> -> -> ->]. auto.
Qed.
Corollary req_eq_refl a : req_eq a a = true.
Proof. now apply req_eq_key. Qed.
Corollary req_eq_sym a b : req_eq a b = req_eq b a.
Proof.
  destruct (req_eq a b) eqn:E, (req_eq b a) eqn:F; auto.
  - apply req_eq_key in E. symmetry in E. apply req_eq_key in E. congruence.
  - apply req_eq_key in F. symmetry in F. apply req_eq_key in F. congruence.
Qed.
Corollary req_eq_trans a b c : req_eq a b = true -> req_eq b c = true -> req_eq a c = true.
Proof. rewrite !req_eq_key. congruence. Qed.

(* ---- the canonical spec key "op text" determines (operator, canonical text) ---- *)
Lemma op_txt_no_space o : forallb (fun c => negb (c =? 32)) (op_txt o) = true.
Proof. destruct o; reflexivity. Qed.
Lemma ckey_inj a b : rq_ckey a = rq_ckey b <-> sp_op a = sp_op b /\ rq_ctext a = rq_ctext b.
Proof.
  unfold rq_ckey. split; [|intros [-> ->]; reflexivity].
  destruct (sp_op a), (sp_op b); cbn [op_txt app]; intros H; try (injection H as H; auto); try discriminate;
    try (repeat match goal with H : _ :: _ = _ :: _ |- _ => injection H as ? H end; subst; try discriminate; auto).
Qed.
(* what equality of requirements means, part by part *)
Theorem req_eq_semantics a b : req_eq a b = true <->
  Names.canon_name (q_name a) = Names.canon_name (q_name b) /\
  (forall e, In e (q_extras a) <-> In e (q_extras b)) /\
  (forall k, In k (map rq_ckey (q_specs a)) <-> In k (map rq_ckey (q_specs b))) /\
  q_url a = q_url b /\
  option_map format_marker (q_marker a) = option_map format_marker (q_marker b).
Proof.
  unfold req_eq. rewrite !andb_true_iff, str_eqb_eq, !opt_eqb_eq. unfold rq_set_eqb. rewrite !andb_true_iff, !incl_iff.
  split.
  - intros ((((H1 & [H2 H2']) & [H3 H3']) & H4) & H5). repeat split; auto.
  - intros (H1 & H2 & H3 & H4 & H5). repeat split; auto; intros x Hx; try (now apply H2); now apply H3.
Qed.
Print Assumptions req_eq_key.
Print Assumptions req_eq_semantics.
