(* C08 proofs, part 9: what every successfully constructed Requirement looks like (soundness of the tokenizer rules):
   the name and the extras are identifiers, every specifier is a valid clause, the URL has no blanks. *)
From Coq Require Import List Arith NArith Bool Lia.
Import ListNotations.
Require Import MText MkModel.
Require Import VParse VComplete VTop VTop2 SpecParse SpecSound SpecContains ReqModel ReqSpec ReqScanP ReqTokP ReqSetP ReqTopP.
Open Scope N_scope.
Arguments N.eqb : simpl never.
Arguments N.leb : simpl never.

(* ------------------------------------------------------------------ IDENTIFIER ------------------------------------------ *)
Lemma mspan_sound (p : N -> bool) s : forallb p (fst (MText.span p s)) = true /\ s = fst (MText.span p s) ++ snd (MText.span p s).
Proof.
  induction s as [|c s IH]; cbn [MText.span]; [auto|]. destruct (p c) eqn:E; [|auto].
  destruct (MText.span p s) as [a r]. cbn [fst snd] in *. destruct IH as [H1 H2]. cbn [forallb]. rewrite E, H1. split; auto. cbn. congruence.
Qed.
Lemma trim_spec l : exists pre, l = pre ++ rq_trim_nonword l /\ forallb (fun c => negb (is_word c)) pre = true /\
  match rq_trim_nonword l with [] => True | c :: _ => is_word c = true end.
Proof.
  induction l as [|c l IH]; cbn [rq_trim_nonword]; [exists []; auto|].
  destruct (is_word c) eqn:E.
  - exists []. cbn. rewrite E. auto.
  - destruct IH as (pre & H1 & H2 & H3). exists (c :: pre). cbn [app forallb]. rewrite E, H2. repeat split; auto. congruence.
Qed.
Lemma ident_word c : rq_is_alnum c = true -> is_word c = true.
Proof. apply alnum_word. Qed.
Lemma rq_ident_sound s tok s' : rq_ident s = Some (tok, s') -> rq_valid_ident tok = true.
Proof.
  unfold rq_ident. destruct (rest s) as [|c t] eqn:R; [discriminate|].
  destruct (rq_is_alnum c && boundary (prev s) (Some c)) eqn:B; [|discriminate]. apply andb_prop in B as [Hc _].
  destruct (mspan_sound rq_is_ident (c :: t)) as [Hall _].
  destruct (MText.span rq_is_ident (c :: t)) as [run r0] eqn:Sp. cbn [fst] in Hall.
  assert (Hrun : exists run', run = c :: run').
  { cbn [MText.span] in Sp. assert (rq_is_ident c = true) by (unfold rq_is_ident; now rewrite Hc). rewrite H in Sp.
    destruct (MText.span rq_is_ident t); inversion Sp; eauto. }
  destruct Hrun as [run' ->]. remember (rev (c :: run')) as rr eqn:Err. intros [= <- _].
  destruct (trim_spec rr) as (pre & H1 & H2 & H3).
  set (tr := rq_trim_nonword rr) in *.
  assert (E : c :: run' = rev tr ++ rev pre).
  { rewrite <- rev_app_distr, <- H1, Err. now rewrite rev_involutive. }
  destruct (rev tr) as [|d tk] eqn:Et.
  - (* everything trimmed: impossible, c is a word character *)
    exfalso. cbn [app] in E. assert (In c (rev pre)) by (rewrite <- E; left; reflexivity).
    apply in_rev in H. rewrite forallb_forall in H2. specialize (H2 c H). rewrite (ident_word c Hc) in H2. discriminate.
  - cbn [app] in E. injection E as <- E'. cbn [rq_valid_ident]. rewrite Hc. cbn [andb].
    assert (Hpre : forallb rq_is_ident (c :: tk) = true).
    { rewrite forallb_forall in *. intros x Hx. apply Hall. destruct Hx as [<-|Hx]; [left; reflexivity|]. right. rewrite E'. apply in_or_app. auto. }
    unfold MText.str, MText.char in *. rewrite Hpre. cbn [andb].
    (* the last character of the token is the head of the trimmed reversed run *)
    rewrite last_rev_hd. rewrite <- Et. rewrite rev_involutive. destruct tr as [|x tr']; [discriminate|]. exact H3.
Qed.

Lemma extras_more_sound : forall fuel acc s es s', Forall (fun e => rq_valid_ident e = true) acc ->
  rq_extras_more fuel acc s = Some (es, s') -> Forall (fun e => rq_valid_ident e = true) es.
Proof.
  induction fuel as [|f IH]; intros acc s es s' Hacc; cbn [rq_extras_more]; [discriminate|].
  destruct (rq_ident (skip_ws s)); [discriminate|].
  destruct (rq_is_hd 44 (skip_ws s)); [|intros [= <- _]; auto].
  destruct (rq_ident _) as [[e s2]|] eqn:E; [|discriminate]. apply IH. apply Forall_app. split; auto.
  constructor; auto. eapply rq_ident_sound; eauto.
Qed.
Lemma extras_sound s es s' : rq_extras s = Some (es, s') -> Forall (fun e => rq_valid_ident e = true) es.
Proof.
  unfold rq_extras. destruct (rq_is_hd 91 s); [|intros [= <- _]; constructor]. cbv zeta.
  destruct (rq_ident _) as [[e s2]|] eqn:E.
  - destruct (rq_extras_more _ [e] s2) as [[es' s3]|] eqn:M; [|discriminate].
    destruct (rq_is_hd 93 _); [|discriminate]. intros [= <- _]. eapply extras_more_sound; [|exact M].
    constructor; auto. eapply rq_ident_sound; eauto.
  - destruct (rq_is_hd 93 _); [|discriminate]. intros [= <- _]. constructor.
Qed.

(* ------------------------------------------------------------------ URL ------------------------------------------------- *)
Lemma details_url_sound s u spc m s' : rq_details s = Some ((u, spc, m), s') -> forallb rq_not_blank u = true.
Proof.
  unfold rq_details. destruct (rq_is_hd 64 s).
  - cbv zeta. destruct (mspan_sound rq_not_blank (rest (skip_ws (rq_drop1 s)))) as [Hall _].
    destruct (MText.span rq_not_blank _) as [u0 r]. cbn [fst] in Hall. destruct u0 as [|c u0]; [discriminate|].
    destruct (rq_at_end _); [intros [= <- _ _ _]; exact Hall|].
    destruct (MText.span is_wsb _) as [w r']. destruct w; [discriminate|].
    intros H. apply end_or_marker_parts in H. cbn in H. destruct H as [-> _]. exact Hall.
  - destruct (rq_specifier s) as [[spc0 s4]|]; [|discriminate]. intros H. apply end_or_marker_parts in H. cbn in H. destruct H as [-> _]. reflexivity.
Qed.

(* ------------------------------------------------------------------ specifiers ------------------------------------------ *)
(* a Specifier accepted from a comma-free piece of text is a valid clause (without inner whitespace) *)
Lemma try_ops_sound ops wl s0 sp : try_ops ops wl s0 = Some sp ->
  exists s2, p_body (s_op sp) s2 = Some (s_body sp, s_wr sp) /\ all_ws (s_wr sp) = true /\
             s0 = op_txt (s_op sp) ++ s_ws sp ++ s2.
Proof.
  induction ops as [|o ops IH]; cbn [try_ops]; [discriminate|].
  destruct (SpecParse.starts (op_txt o) s0) as [s1|] eqn:E1; auto.
  destruct (VParse.span is_ws s1) as [ws s2] eqn:E2.
  destruct (p_body o s2) as [[b r]|] eqn:E3; auto.
  destruct (all_ws r) eqn:E4; auto.
  intros [= <-]. cbn. exists s2. apply starts_sound in E1. apply span_sound in E2 as [-> _]. subst s0. auto.
Qed.
Lemma all_ws_stop r : all_ws r = true -> hstop r /\ astop r.
Proof.
  destruct r as [|c r]; [cbn; auto|]. unfold all_ws. cbn [forallb]. intros H. apply andb_prop in H as [Hc _].
  split; [exact (ws_is_stop c Hc)|]. unfold astop, arb_char. rewrite Hc. reflexivity.
Qed.
Lemma body_restrict o x b r : all_ws r = true -> p_body o (x ++ r) = Some (b, r) -> p_body o x = Some (b, []).
Proof.
  intros Hr H. destruct (all_ws_stop r Hr) as [HS HA].
  assert (E : exto (p_body o x) r = Some (b, r)).
  { destruct (oper_eq_dec_arb o) as [->|Ho]; [rewrite <- p_body_arb_ext by auto | rewrite <- (p_body_ext r HS o x Ho)]; exact H. }
  destruct (p_body o x) as [[b' r']|]; cbn [exto] in E; [|discriminate]. injection E as -> E.
  assert (r' = []) by (apply (app_inv_tail r); cbn; exact E). now subst.
Qed.
Definition clause_of (sp : specifier) (c : rq_clause) : Prop :=
  rq_clause_spec c = sp /\ c_ws c = [] /\ forallb is_ws (c_ws c) = true /\ p_body (c_op c) (r_body (c_body c)) = Some (c_body c, []).
Lemma Specifier_sound piece sp : Specifier piece = Some sp ->
  exists c, clause_of sp c /\ (rq_no_comma piece = true -> rq_no_comma (r_body (c_body c)) = true).
Proof.
  unfold Specifier. destruct (parse_specifier piece) as [ps|] eqn:P; [|discriminate]. intros [= <-].
  pose proof (C12_spec_sound piece ps P) as (Hr & _ & _ & _ & _).
  unfold parse_specifier in P. destruct (VParse.span is_ws piece) as [wl s0]. apply try_ops_sound in P as (s2 & Hb & Hws & _).
  pose proof (p_body_sound _ _ _ _ Hb) as [-> _].
  exists {| c_op := s_op ps; c_ws := []; c_body := s_body ps |}. split.
  - unfold clause_of, rq_clause_spec. cbn. repeat split; auto. eapply body_restrict; eauto.
  - cbn [c_body]. intros Hc. rewrite <- Hr in Hc. unfold render_spec, rq_no_comma in *. rewrite !forallb_app in Hc.
    repeat (apply andb_prop in Hc as [? Hc]). auto.
Qed.

Lemma split_no_comma_pieces s : Forall (fun t => rq_no_comma t = true) (rq_split 44 s).
Proof.
  induction s as [|c s IH]; cbn [rq_split]; [repeat constructor|].
  destruct (c =? 44) eqn:E; [constructor; auto|].
  destruct (rq_split 44 s) as [|h r]; [repeat constructor; cbn; now rewrite E|].
  inversion IH; subst. constructor; auto. cbn. now rewrite E.
Qed.
Lemma lstrip_no_comma s : rq_no_comma s = true -> rq_no_comma (rq_lstrip s) = true.
Proof.
  induction s as [|c s IH]; [auto|]. cbn [rq_lstrip]. intros H. destruct (is_ws c); auto.
  unfold rq_no_comma in *. cbn [forallb] in H. apply andb_prop in H as [_ H]. auto.
Qed.
Lemma rev_no_comma s : rq_no_comma s = true -> rq_no_comma (rev s) = true.
Proof. unfold rq_no_comma. rewrite !forallb_forall. intros H x Hx. apply H. now apply in_rev. Qed.
Lemma strip_no_comma s : rq_no_comma s = true -> rq_no_comma (rq_strip s) = true.
Proof. intros H. unfold rq_strip. apply rev_no_comma, lstrip_no_comma, rev_no_comma, lstrip_no_comma, H. Qed.
Lemma all_some_forall {A B} (f : A -> option B) (P : A -> Prop) (Q : B -> Prop) l out :
  (forall a b, P a -> f a = Some b -> Q b) -> Forall P l -> rq_all_some (map f l) = Some out -> Forall Q out.
Proof.
  intros H. revert out. induction l as [|a l IH]; intros out HP; cbn [map rq_all_some].
  - intros [= <-]. constructor.
  - inversion HP; subst. destruct (f a) as [b|] eqn:E; [|discriminate].
    destruct (rq_all_some (map f l)) as [out'|]; [|discriminate]. intros [= <-]. constructor; eauto.
Qed.
Lemma specset_sound txt specs : rq_specset txt = Some specs ->
  Forall (fun sp => exists c, clause_of sp c /\ rq_no_comma (r_body (c_body c)) = true) specs.
Proof.
  unfold rq_specset, rq_pieces. intros H.
  eapply (all_some_forall Specifier (fun t => rq_no_comma t = true)); [| |exact H].
  - intros a b Ha Hb. destruct (Specifier_sound a b Hb) as (c & H1 & H2). exists c. auto.
  - apply Forall_forall. intros t Ht. apply filter_In in Ht as [Ht _]. apply in_map_iff in Ht as (u & <- & Hu).
    apply strip_no_comma. pose proof (split_no_comma_pieces txt) as F. rewrite Forall_forall in F. auto.
Qed.

(* ------------------------------------------------------------------ the constructed Requirement ------------------------ *)
Record rq_sound (r : requirement) : Prop := {
  snd_name : rq_valid_ident (q_name r) = true;
  snd_extras : Forall (fun e => rq_valid_ident e = true) (q_extras r);
  snd_specs : Forall (fun sp => exists c, clause_of sp c /\ rq_no_comma (r_body (c_body c)) = true) (q_specs r);
  snd_url : match q_url r with Some u => u <> [] /\ forallb rq_not_blank u = true /\ q_specs r = [] | None => True end }.
Theorem Requirement_sound src r : Requirement src = RqOk r -> rq_sound r.
Proof.
  intros H. pose proof (Requirement_url_xor_spec src r H) as X. revert H.
  unfold Requirement. destruct (rq_parse src) as [p|] eqn:P; [|discriminate].
  destruct (rq_specset (pr_spec p)) as [specs|] eqn:S0; [|discriminate].
  assert (Hp : rq_valid_ident (pr_name p) = true /\ Forall (fun e => rq_valid_ident e = true) (pr_extras p) /\ forallb rq_not_blank (pr_url p) = true).
  { revert P. unfold rq_parse. cbv zeta. destruct (rq_ident _) as [[name s1]|] eqn:I; [|discriminate].
    destruct (rq_extras _) as [[extras s2]|] eqn:E; [|discriminate].
    destruct (rq_details (skip_ws s2)) as [[[[url spc] m] s3]|] eqn:D; [|discriminate].
    destruct (rq_at_end s3); [|discriminate]. intros [= <-]. cbn. repeat split.
    - eapply rq_ident_sound; eauto. - eapply extras_sound; eauto. - eapply details_url_sound; eauto. }
  destruct Hp as (Hn & He & Hu). pose proof (specset_sound _ _ S0) as Hs.
  intros H.
  assert (E : exists mk, r = {| q_name := pr_name p; q_extras := pr_extras p; q_specs := specs;
                                q_url := match pr_url p with [] => None | u => Some u end; q_marker := mk |}).
  { destruct (pr_marker p) as [m|]; [destruct (lit_class m)|]; inversion H; eauto. }
  destruct E as [mk ->]. cbn in X. split; cbn; auto.
  destruct (pr_url p) as [|c u]; auto. repeat split; auto; [discriminate|]. destruct X; [discriminate|auto].
Qed.
Print Assumptions Requirement_sound.

(* ------------------------------------------------------------------ where the marker of a Requirement comes from ---------- *)
Definition from_p_marker (m0 : list elem) : Prop := exists fuel s s', p_marker fuel s = Some (m0, s').
Lemma req_marker_origin s m s' : rq_req_marker s = Some (m, s') -> from_p_marker m.
Proof.
  unfold rq_req_marker. destruct (rq_is_hd 59 s); [|discriminate].
  destruct (p_marker _ _) as [[m0 s0]|] eqn:E; [|discriminate]. intros [= <- _]. red. eauto.
Qed.
Lemma end_or_marker_origin u spc s u' spc' m s' : rq_end_or_marker u spc s = Some ((u', spc', Some m), s') -> from_p_marker m.
Proof.
  unfold rq_end_or_marker. destruct (rq_at_end s); [discriminate|].
  destruct (rq_req_marker s) as [[m0 s0]|] eqn:E; [|discriminate]. intros [= _ _ <- _]. eapply req_marker_origin; eauto.
Qed.
Lemma parse_marker_origin src p m : rq_parse src = Some p -> pr_marker p = Some m -> from_p_marker m.
Proof.
  unfold rq_parse. cbv zeta. destruct (rq_ident _) as [[name s1]|]; [|discriminate].
  destruct (rq_extras _) as [[extras s2]|]; [|discriminate].
  destruct (rq_details (skip_ws s2)) as [[[[url spc] mo] s3]|] eqn:D; [|discriminate].
  destruct (rq_at_end s3); [|discriminate]. intros [= <-]. cbn [pr_marker]. intros ->.
  unfold rq_details in D. destruct (rq_is_hd 64 (skip_ws s2)).
  - cbv zeta in D. destruct (MText.span rq_not_blank _) as [u r]. destruct u as [|c u]; [discriminate|].
    destruct (rq_at_end _); [discriminate|]. destruct (MText.span is_wsb _) as [w r']. destruct w; [discriminate|].
    eapply end_or_marker_origin; eauto.
  - destruct (rq_specifier (skip_ws s2)) as [[spc0 s4]|]; [|discriminate]. eapply end_or_marker_origin; eauto.
Qed.
Theorem Requirement_marker_origin src r m : Requirement src = RqOk r -> q_marker r = Some m ->
  exists m0, from_p_marker m0 /\ lit_class m0 = LOk /\ m = norm_l m0.
Proof.
  unfold Requirement. destruct (rq_parse src) as [p|] eqn:P; [|discriminate].
  destruct (rq_specset (pr_spec p)); [|discriminate].
  destruct (pr_marker p) as [m0|] eqn:M.
  - destruct (lit_class m0) eqn:L; try discriminate. intros [= <-]. cbn [q_marker]. intros [= <-].
    exists m0. repeat split; auto. eapply parse_marker_origin; eauto.
  - intros [= <-]. discriminate.
Qed.
Print Assumptions Requirement_marker_origin.
