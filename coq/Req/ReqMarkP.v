(* C08 proofs, part 4: the marker grammar MText.p_marker as a black box.  Two facts are needed to relate the marker read inside a
   requirement (after ";", with more fuel) to the stand-alone parse of the same text:
   more fuel never changes a result, and the character before the cursor matters only through "is it a word character" (\b). *)
From Coq Require Import List Arith NArith Bool Lia.
Import ListNotations.
Require Import MText.
Require Import ReqModel.
Open Scope N_scope.
Arguments N.eqb : simpl never.
Arguments N.leb : simpl never.

(* ------------------------------------------------------------------ fuel ------------------------------------------------ *)
Definition le_p {A} (f g : st -> option (A * st)) : Prop := forall s r, f s = Some r -> g s = Some r.
Lemma atom_mono pm pm' : le_p pm pm' -> le_p (p_atom_with pm) (p_atom_with pm').
Proof.
  intros H s r. unfold p_atom_with. cbv zeta. destruct (hd_is_c 40 (rest (skip_ws s))); auto.
  destruct (pm _) as [[m s2]|] eqn:E; [|discriminate]. rewrite (H _ _ E). auto.
Qed.
Lemma loop_mono pa pa' : le_p pa pa' -> forall k k' acc s r, (k <= k')%nat -> loop_with pa k acc s = Some r -> loop_with pa' k' acc s = Some r.
Proof.
  intros H. induction k as [|k IH]; intros k' acc s r Hk; cbn [loop_with]; [discriminate|].
  destruct k' as [|k']; [lia|]. cbn [loop_with]. destruct (bword bool_alts s) as [[w s']|]; auto.
  destruct (pa s') as [[a' s'']|] eqn:E; [|discriminate]. rewrite (H _ _ E). apply IH. lia.
Qed.
Lemma p_marker_mono : forall f, le_p (p_marker f) (p_marker (S f)).
Proof.
  induction f as [|f IH]; intros s r; [discriminate|].
  change (p_marker (S f) s) with (match p_atom_with (p_marker f) s with None => None | Some (a, s1) => loop_with (p_atom_with (p_marker f)) (S f) [a] s1 end).
  change (p_marker (S (S f)) s) with (match p_atom_with (p_marker (S f)) s with None => None | Some (a, s1) => loop_with (p_atom_with (p_marker (S f))) (S (S f)) [a] s1 end).
  destruct (p_atom_with (p_marker f) s) as [[a s1]|] eqn:E; [|discriminate].
  rewrite (atom_mono _ _ IH _ _ E). intros L. eapply loop_mono; [apply atom_mono; exact IH| |exact L]. lia.
Qed.
Lemma p_marker_fuel f f' s r : (f <= f')%nat -> p_marker f s = Some r -> p_marker f' s = Some r.
Proof. intros Hle. induction Hle as [|f' Hle IH]; auto. intros H0. apply p_marker_mono. auto. Qed.

(* ------------------------------------------------------------------ the character before the cursor ---------------------- *)
Definition seq (s t : st) : Prop := rest s = rest t /\ wordness (prev s) = wordness (prev t).
Definition req {A} (x y : option (A * st)) : Prop :=
  match x, y with None, None => True | Some (a, s), Some (b, t) => a = b /\ seq s t | _, _ => False end.
Definition resp {A} (f : st -> option (A * st)) : Prop := forall s t, seq s t -> req (f s) (f t).

Lemma seq_refl s : seq s s. Proof. split; reflexivity. Qed.
Lemma last_opt_cons p c w : last_opt p (c :: w) = last_opt (Some c) w.
Proof. reflexivity. Qed.
Lemma last_opt_word p q w : wordness p = wordness q -> wordness (last_opt p w) = wordness (last_opt q w).
Proof. destruct w; cbn [last_opt]; auto. Qed.
Lemma adv_seq s t tok r : seq s t -> seq (adv s tok r) (adv t tok r).
Proof. intros [_ H]. split; cbn; auto. now apply last_opt_word. Qed.
Lemma skip_ws_seq s t : seq s t -> seq (skip_ws s) (skip_ws t).
Proof. intros [H1 H2]. unfold skip_ws. rewrite H1. destruct (span is_wsb (rest t)). apply adv_seq. split; auto. Qed.

Lemma first_bword_resp ws : resp (first_bword ws).
Proof.
  induction ws as [|w ws IH]; intros s t Hst; cbn [first_bword]; [exact I|].
  destruct Hst as [H1 H2]. rewrite H1. destruct (starts w (rest t)) as [r|]; [|apply IH; split; auto].
  rewrite (last_opt_word _ _ w H2) || idtac.
  unfold boundary. rewrite (last_opt_word (prev s) (prev t) w H2).
  destruct (xorb _ _); [|apply IH; split; auto]. split; auto. apply adv_seq. split; auto.
Qed.
Lemma bword_resp ws : resp (bword ws).
Proof.
  intros s t Hst. unfold bword. destruct Hst as [H1 H2]. unfold boundary. rewrite H1, H2.
  destruct (xorb _ _); [|exact I]. apply first_bword_resp. split; auto.
Qed.
Lemma first_plain_resp ws : resp (first_plain ws).
Proof.
  induction ws as [|w ws IH]; intros s t Hst; cbn [first_plain]; [exact I|].
  destruct Hst as [H1 H2]. rewrite H1. destruct (starts w (rest t)) as [r|]; [|apply IH; split; auto].
  split; auto. apply adv_seq. split; auto.
Qed.
Lemma p_quoted_resp : resp p_quoted.
Proof.
  intros [ps rs] [pt rt] [H1 H2]. cbn [rest prev] in *. subst rs. unfold p_quoted. cbn [rest]. destruct rt as [|q r]; [exact I|].
  destruct ((q =? 39) || (q =? 34)); [|exact I]. destruct (span (plain_char q) r) as [body r0]. destruct r0 as [|q' r']; [exact I|].
  split; auto. apply adv_seq. split; auto.
Qed.

Ltac step_resp H s t Hst :=
  let X := fresh "X" in pose proof (H s t Hst) as X; unfold req in X;
  let a := fresh "a" in let s1 := fresh "s" in let b := fresh "b" in let t1 := fresh "t" in
  destruct (_ s) as [[a s1]|]; destruct (_ t) as [[b t1]|]; try contradiction.

Lemma p_var_resp : resp p_var.
Proof.
  intros s t Hst. unfold p_var.
  pose proof (bword_resp var_alts s t Hst) as X. unfold req in X.
  destruct (bword var_alts s) as [[a s1]|], (bword var_alts t) as [[b t1]|]; try contradiction.
  - destruct X as [-> X]. split; auto.
  - pose proof (p_quoted_resp s t Hst) as Y. unfold req in Y.
    destruct (p_quoted s) as [[a s1]|], (p_quoted t) as [[b t1]|]; try contradiction; auto.
    destruct Y as [-> Y]. split; auto.
Qed.
Lemma p_op_resp : resp p_op.
Proof.
  intros s t Hst. unfold p_op.
  pose proof (bword_resp [w_in] s t Hst) as X. unfold req in X.
  destruct (bword [w_in] s) as [[a s1]|], (bword [w_in] t) as [[b t1]|]; try contradiction.
  - destruct X as [_ X]. split; auto.
  - pose proof (bword_resp [w_not] s t Hst) as Y. unfold req in Y.
    destruct (bword [w_not] s) as [[a s1]|], (bword [w_not] t) as [[b t1]|]; try contradiction.
    + destruct Y as [_ [Y1 Y2]]. rewrite Y1. destruct (span is_wsb (rest t1)) as [w r]. destruct w as [|c w]; [exact I|].
      assert (Z : seq (adv s1 (c :: w) r) (adv t1 (c :: w) r)) by (apply adv_seq; split; auto).
      pose proof (bword_resp [w_in] _ _ Z) as Q. unfold req in Q.
      destruct (bword [w_in] (adv s1 (c :: w) r)) as [[a' s2]|], (bword [w_in] (adv t1 (c :: w) r)) as [[b' t2]|]; try contradiction; auto.
      destruct Q as [_ Q]. split; auto.
    + apply first_plain_resp; auto.
Qed.
Lemma p_item_resp : resp p_item.
Proof.
  intros s t Hst. unfold p_item. cbv zeta.
  pose proof (p_var_resp _ _ (skip_ws_seq _ _ Hst)) as X. unfold req in X.
  destruct (p_var (skip_ws s)) as [[l s1]|], (p_var (skip_ws t)) as [[l' t1]|]; try contradiction; auto.
  destruct X as [-> X].
  pose proof (p_op_resp _ _ (skip_ws_seq _ _ X)) as Y. unfold req in Y.
  destruct (p_op (skip_ws s1)) as [[o s2]|], (p_op (skip_ws t1)) as [[o' t2]|]; try contradiction; auto.
  destruct Y as [-> Y].
  pose proof (p_var_resp _ _ (skip_ws_seq _ _ Y)) as Z. unfold req in Z.
  destruct (p_var (skip_ws s2)) as [[r s3]|], (p_var (skip_ws t2)) as [[r' t3]|]; try contradiction; auto.
  destruct Z as [-> Z]. split; auto. now apply skip_ws_seq.
Qed.
Lemma atom_resp pm : resp pm -> resp (p_atom_with pm).
Proof.
  intros H s t Hst. unfold p_atom_with. cbv zeta.
  pose proof (skip_ws_seq _ _ Hst) as [K1 K2]. rewrite K1.
  destruct (hd_is_c 40 (rest (skip_ws t))).
  - assert (Z : seq (skip_ws (adv (skip_ws s) [40] (tl (rest (skip_ws t))))) (skip_ws (adv (skip_ws t) [40] (tl (rest (skip_ws t))))))
      by (apply skip_ws_seq, adv_seq; split; auto).
    pose proof (H _ _ Z) as X. unfold req in X.
    destruct (pm (skip_ws (adv (skip_ws s) [40] (tl (rest (skip_ws t)))))) as [[m s2]|],
             (pm (skip_ws (adv (skip_ws t) [40] (tl (rest (skip_ws t)))))) as [[m' t2]|]; try contradiction; auto.
    destruct X as [-> X]. pose proof (skip_ws_seq _ _ X) as [L1 L2]. rewrite L1.
    destruct (hd_is_c 41 (rest (skip_ws t2))); [|exact I]. split; auto.
    apply skip_ws_seq, adv_seq. split; auto.
  - assert (Z : seq (skip_ws s) (skip_ws t)) by (split; auto).
    pose proof (p_item_resp _ _ Z) as X. unfold req in X.
    destruct (p_item (skip_ws s)) as [[e s1]|], (p_item (skip_ws t)) as [[e' t1]|]; try contradiction; auto.
    destruct X as [-> X]. split; auto. now apply skip_ws_seq.
Qed.
Lemma loop_resp pa : resp pa -> forall k acc, resp (loop_with pa k acc).
Proof.
  intros H. induction k as [|k IH]; intros acc s t Hst; cbn [loop_with]; [exact I|].
  pose proof (bword_resp bool_alts s t Hst) as X. unfold req in X.
  destruct (bword bool_alts s) as [[w s1]|], (bword bool_alts t) as [[w' t1]|]; try contradiction.
  - destruct X as [-> X]. pose proof (H _ _ X) as Y. unfold req in Y.
    destruct (pa s1) as [[a s2]|], (pa t1) as [[a' t2]|]; try contradiction; auto.
    destruct Y as [-> Y]. apply IH; auto.
  - split; auto.
Qed.
Lemma p_marker_resp : forall f, resp (p_marker f).
Proof.
  induction f as [|f IH]; intros s t Hst; [exact I|].
  change (p_marker (S f) s) with (match p_atom_with (p_marker f) s with None => None | Some (a, s1) => loop_with (p_atom_with (p_marker f)) (S f) [a] s1 end).
  change (p_marker (S f) t) with (match p_atom_with (p_marker f) t with None => None | Some (a, s1) => loop_with (p_atom_with (p_marker f)) (S f) [a] s1 end).
  pose proof (atom_resp _ IH s t Hst) as X. unfold req in X.
  destruct (p_atom_with (p_marker f) s) as [[a s1]|], (p_atom_with (p_marker f) t) as [[a' t1]|]; try contradiction; auto.
  destruct X as [-> X]. apply loop_resp; auto. apply atom_resp; auto.
Qed.

(* ------------------------------------------------------------------ the marker of a requirement -------------------------- *)
(* "; M" at the end of a requirement is read as the stand-alone marker parser reads M *)
Theorem req_marker_ok p mt m : MText.parse_marker mt = Some m ->
  exists q, rq_req_marker {| prev := p; rest := 59 :: mt |} = Some (m, {| prev := q; rest := [] |}).
Proof.
  unfold MText.parse_marker. destruct (p_marker (S (length mt)) {| prev := None; rest := mt |}) as [[m0 s0]|] eqn:E; [|discriminate].
  destruct (rest s0) eqn:R; [|discriminate]. intros [= ->].
  apply (p_marker_fuel _ (S (S (length mt)))) in E; [|lia].
  assert (Z : seq {| prev := None; rest := mt |} {| prev := Some 59; rest := mt |}) by (split; reflexivity).
  pose proof (p_marker_resp (S (S (length mt))) _ _ Z) as X. unfold req in X. rewrite E in X.
  destruct (p_marker (S (S (length mt))) {| prev := Some 59; rest := mt |}) as [[m1 s1]|] eqn:E2; [|contradiction].
  destruct X as [<- [X1 X2]]. rewrite R in X1. destruct s1 as [q r1]. cbn [rest] in X1. subst r1.
  exists q.
  replace (rq_req_marker {| prev := p; rest := 59 :: mt |})
     with (match p_marker (S (S (length mt))) {| prev := Some 59; rest := mt |} with Some (m', s') => Some (m', skip_ws s') | None => None end)
     by reflexivity.
  rewrite E2. reflexivity.
Qed.
Print Assumptions req_marker_ok.
