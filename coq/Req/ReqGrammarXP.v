(* C08 proofs, part 18 (follow-up round): ONE theorem that is both on the grammars and exact about D7.
   rq_wf_gx = rq_wf_g (marker by the marker grammar RList, clauses by the PEP 440 clause grammar rq_pep440_clause) with the exact
   chain condition rq_d7_ok in place of the sufficient condition rq_no_d7.  No parser (p_body, parse_marker) in the hypotheses.
   Not covered (as in theorems 1, 2, 13): a "===" clause with an EMPTY text - rq_wf_clause, hence rq_pep440_clause, demands a non-empty
   text, because "===" followed by blanks is read with the blanks inside the token; "a===" is covered by the str round trip (7') and by
   clause_in_requirement (12) only. *)
From Coq Require Import List Arith NArith Bool Lia.
Import ListNotations.
Require Import MText MkModel MkLexP MkLayoutP.
Require Import VParse VComplete VTop VTop2 SpecParse SpecSound SpecContains.
Require Import ReqModel ReqSpec ReqScanP ReqTokP ReqListP ReqMarkP ReqParseP ReqSetP ReqTopP ReqPep440P ReqGrammarP ReqExactP.
Open Scope N_scope.
Arguments N.eqb : simpl never.

Definition rq_wf_body_gx (b : rq_sbody) (marker : bool) (w3 : list N) : Prop :=
  match b with
  | SB_clauses paren items =>
      (match paren with Some w => rq_blank w = true | None => True end) /\
      Forall (fun i => rq_item_blank i = true /\ rq_clause_g (rq_item_val i)) items /\ rq_d7_ok items
  | SB_url w u => rq_blank w = true /\ u <> [] /\ forallb rq_not_blank u = true /\ (marker = true -> w3 <> [])
  end.
Definition rq_wf_gx (sp : rq_spelled) (m : option (list elem)) : Prop :=
  rq_blank (rs_w0 sp) = true /\ rq_blank (rs_w1 sp) = true /\ rq_blank (rs_w2 sp) = true /\ rq_blank (rs_w3 sp) = true /\
  rq_valid_ident (rs_name sp) = true /\
  (match rs_extras sp with
   | None => True
   | Some (w, items) => rq_blank w = true /\ Forall (fun i => rq_item_blank i = true /\ rq_valid_ident (rq_item_val i) = true) items
   end) /\
  rq_wf_body_gx (rs_body sp) (match rs_marker sp with Some _ => true | None => false end) (rs_w3 sp) /\
  rq_marker_grammar (rs_marker sp) m.

(* the sufficient condition is a special case *)
Lemma wf_g_is_wf_gx sp m : rq_wf_g sp m -> rq_wf_gx sp m.
Proof.
  intros (H0 & H1 & H2 & H3 & Hn & Hex & Hb & Hm). repeat split; auto. destruct (rs_body sp); cbn [rq_wf_body_g rq_wf_body_gx] in *; auto.
  destruct Hb as (A & B & C). repeat split; auto. now apply no_d7_chain_ok.
Qed.

(* replacing the body trees by the scanner's trees keeps the blanks, operators and operator whitespace the chain condition reads *)
Lemma same_items_chain items items' : Forall2 same_item items items' -> forall ch, rq_chain_okb ch items' = rq_chain_okb ch items.
Proof.
  induction 1 as [|[[a c] b] [[a' c'] b'] items items' (E1 & E2 & E3 & E4 & _) F IH]; intros ch; [reflexivity|].
  cbn [fst snd rq_item_val] in *. subst a' b'. cbn [rq_chain_okb]. rewrite E3, E4.
  destruct F as [|x y l l' Hxy F']; [reflexivity|]. now rewrite IH.
Qed.

Theorem Requirement_render_pep508_x sp m : rq_wf_gx sp m -> rq_lits_ok m -> Requirement (rq_render sp) = RqOk (rq_denotes sp m).
Proof.
  intros (H0 & H1 & H2 & H3 & Hn & Hex & Hb & Hm) L.
  pose proof (marker_grammar_rel _ _ Hm) as Hm'.
  destruct (rs_body sp) as [paren items|w u] eqn:Eb.
  - cbn [rq_wf_body_gx] in Hb. destruct Hb as (Hp & Hall & Hd7).
    destruct (items_regrammar items Hall) as (items' & F2 & W').
    destruct (same_items_text items items' F2) as (T1 & T2 & T3 & _).
    set (sp' := {| rs_w0 := rs_w0 sp; rs_name := rs_name sp; rs_w1 := rs_w1 sp; rs_extras := rs_extras sp; rs_w2 := rs_w2 sp;
                   rs_body := SB_clauses paren items'; rs_w3 := rs_w3 sp; rs_marker := rs_marker sp |}).
    assert (R : rq_render sp' = rq_render sp).
    { unfold rq_render, sp'. cbn [rs_w0 rs_name rs_w1 rs_extras rs_w2 rs_body rs_w3 rs_marker]. rewrite Eb.
      destruct paren; cbn [rq_body_text]; now rewrite T1. }
    assert (D : rq_denotes sp' m = rq_denotes sp m).
    { unfold rq_denotes, rq_sp_extras, rq_sp_clauses, rq_sp_url, sp'. cbn [rs_name rs_extras rs_body]. rewrite Eb. now rewrite T3. }
    rewrite <- R, <- D. apply Requirement_render_x; auto.
    unfold rq_wf_x, sp'. cbn [rs_w0 rs_name rs_w1 rs_extras rs_w2 rs_body rs_w3 rs_marker rq_wf_body_x]. repeat split; auto.
    unfold rq_d7_ok. rewrite (same_items_chain items items' F2). exact Hd7.
  - apply Requirement_render_x; auto. unfold rq_wf_x. rewrite Eb. cbn [rq_wf_body_gx rq_wf_body_x] in *. repeat split; auto; apply Hb.
Qed.
Print Assumptions Requirement_render_pep508_x.

(* ------------------------------------------------------------------ non-vacuity (Prop hypotheses really instantiated) --------- *)
(* "a===x,>=1 ,<2" : the exact well-formedness holds (the old rq_no_d7 does not: ReqExactP.x_items1_not_old) *)
Example x_items1_wf_x : rq_wf_x (x_sp x_items1) None.
Proof.
  unfold rq_wf_x, x_sp, x_items1, rq_d7_ok. cbn [rs_w0 rs_name rs_w1 rs_extras rs_w2 rs_body rs_w3 rs_marker rq_wf_body_x].
  repeat split; try reflexivity.
  repeat (constructor; [split; [reflexivity|unfold rq_wf_clause, xc; cbn; repeat split; try reflexivity; discriminate]|]). constructor.
Qed.
(* "a===x, >=1" : every hypothesis of the rejection theorem d7_rejected holds *)
Example x_items2_wf_d7 : rq_wf_d7 (x_sp x_items2).
Proof.
  unfold rq_wf_d7, x_sp, x_items2. cbn [rs_w0 rs_name rs_w1 rs_extras rs_w2 rs_body rs_w3 rs_marker].
  repeat split; try reflexivity.
  repeat (constructor; [split; [reflexivity|unfold rq_wf_clause, xc; cbn; repeat split; try reflexivity; discriminate]|]). constructor.
Qed.
(* "a===x,>=1.0a-1 ; os_name=='a'": grammar-level AND inside the D7 class - the clause texts are carried by BArb nodes, the version by
   the non-greedy tree gr_vs, the marker by a derivation in the marker grammar *)
Definition gx_sp : rq_spelled :=
  {| rs_w0 := []; rs_name := [97]; rs_w1 := []; rs_extras := None; rs_w2 := [];
     rs_body := SB_clauses None [([], {| c_op := OArb; c_ws := []; c_body := BArb [120] |}, []);
                                 ([], {| c_op := OGe; c_ws := []; c_body := BArb (render gr_vs) |}, [32])];
     rs_w3 := []; rs_marker := Some ([32] ++ gr_mt ++ []) |}.
Example gx_sp_wf : rq_wf_gx gx_sp (Some gr_m) /\ rq_lits_ok (Some gr_m) /\ ~ rq_wf_g gx_sp (Some gr_m) /\
  rq_render gx_sp = [97;61;61;61;120;44;62;61;49;46;48;97;45;49;32;59;32;111;115;95;110;97;109;101;61;61;39;97;39].
Proof.
  split; [|split; [reflexivity|split; [|reflexivity]]].
  - unfold rq_wf_gx, gx_sp, rq_d7_ok. cbn [rs_w0 rs_name rs_w1 rs_extras rs_w2 rs_body rs_w3 rs_marker rq_wf_body_gx rq_marker_grammar].
    repeat split; try reflexivity.
    + constructor; [|constructor; [|constructor]]; (split; [reflexivity|]); unfold rq_clause_g; cbn [rq_item_val fst snd c_op c_ws c_body r_body];
        (split; [reflexivity|]).
      * right. right. repeat split; try reflexivity. discriminate.
      * left. exists gr_vs. destruct gr_vs_wf as [W A]. split; [exact W|]. repeat split; auto.
    + exists gr_mt, [32], []. repeat split; try reflexivity. apply ROne. unfold gr_mt.
      apply (RItem (SVar (norm_var [111;115;95;110;97;109;101])) [111;115;95;110;97;109;101] [61;61] [61;61] (SVal [97]) (39 :: [97] ++ [39]) [] []);
        try reflexivity; try gr_sep.
      * apply RVar. vm_compute. tauto.
      * apply RSym. vm_compute. tauto.
      * apply RVal; [now right | reflexivity].
  - intros (_ & _ & _ & _ & _ & _ & Hb & _). unfold gx_sp in Hb. cbn [rs_body rq_wf_body_g rq_no_d7] in Hb.
    destruct Hb as (_ & _ & (H & _)). now destruct (H eq_refl).
Qed.
Definition gx_check : bool :=
  match Requirement (rq_render gx_sp) with RqOk r => Nat.eqb (length (q_specs r)) 2 | _ => false end.
Example gx_check_ok : gx_check = true.
Proof. vm_compute. reflexivity. Qed.
