(* C08.  Model of packaging.requirements.Requirement as the code is now (requirements.py, _parser.py: parse_requirement and
   its helpers, _tokenizer.py: the rules IDENTIFIER, URL, SPECIFIER, VERSION_PREFIX_TRAIL, VERSION_LOCAL_LABEL_TRAIL, WS, END, AT,
   COMMA, SEMICOLON, brackets, parentheses).  Definitions only (this file is extracted).

   Tokenizer state  = MText.st (character before the cursor, remaining input): the only context a rule can see is "\b".
   Marker grammar   = MText.p_marker (black box here); literal_eval / _normalize_extra_values / str(Marker) = MkModel.
   Specifier        = SpecContains.Specifier (Specifier._regex + the isascii check), spec_str = Specifier.__str__.
   canonicalize_*   = Canon.canon (canonicalize_version), Names.canon_name (canonicalize_name).

   No Python-level failure is reachable in the modelled code (every Tokenizer.read() follows a successful non-peek check(),
   every check() starts with next_token = None), so "None" below always stands for ParserSyntaxError / InvalidSpecifier, which
   Requirement.__init__ turns into InvalidRequirement. *)
From Coq Require Import List Arith NArith Bool.
Import ListNotations.
Require Import MText MkModel.
Require Names.
Require Import VParse SpecParse SpecSound SpecContains Py Canon SortPerm.
Open Scope N_scope.

(* ------------------------------------------------------------------ token rules ---------------------------------------- *)
(* IDENTIFIER = \b[a-zA-Z0-9][a-zA-Z0-9._-]*\b  (no flags: ASCII letters only; "\b" on ASCII word characters - a non-ASCII
   word character next to an identifier cannot be consumed by any later rule, so the requirement is rejected either way) *)
Definition rq_is_alnum (c : N) : bool := MText.is_digit c || MText.is_lower c || MText.is_upper c.
Definition rq_is_ident (c : N) : bool := rq_is_alnum c || (c =? 46) || (c =? 95) || (c =? 45).
(* greedy run, then back off over trailing "." / "-" until the closing \b holds (on the reversed run) *)
Fixpoint rq_trim_nonword (r : list N) : list N :=
  match r with c :: t => if is_word c then r else rq_trim_nonword t | [] => [] end.
Definition rq_ident (s : st) : option (list N * st) :=
  match rest s with
  | c :: _ =>
      if rq_is_alnum c && boundary (prev s) (Some c) then
        let '(run, _) := MText.span rq_is_ident (rest s) in
        let tok := rev (rq_trim_nonword (rev run)) in
        Some (tok, adv s tok (skipn (length tok) (rest s)))
      else None
  | [] => None
  end.

(* END = "$": at the end, or just before a final newline *)
Definition rq_at_end (s : st) : bool := match rest s with [] => true | [c] => c =? 10 | _ => false end.
Definition rq_is_hd (c0 : N) (s : st) : bool := match rest s with c :: _ => c =? c0 | [] => false end.
Definition rq_drop1 (s : st) : st := match rest s with c :: r => adv s [c] r | [] => s end.

(* SPECIFIER = Specifier._operator_regex_str + Specifier._version_regex_str, VERBOSE | IGNORECASE, un-anchored (no "\s*$").
   IGNORECASE on a str pattern also lets U+0130, U+0131 (i), U+017F (s), U+212A (k) match ASCII letters: the token is what the
   ASCII scanner finds on the text with these four replaced by their ASCII partner (every other class of the pattern treats a
   confusable like the letter: both are outside [0-9], \s, [-_.], and inside [^\s;)]). *)
Definition rq_ufold (c : N) : N :=
  if (c =? 304) || (c =? 305) then 105 else if c =? 383 then 115 else if c =? 8490 then 107 else c.
(* first operator alternative (in the order of the pattern) whose version alternative matches; (length of token) *)
Fixpoint rq_try_ops (ops : list oper) (s : list N) : option (list N * list N) :=     (* (token text, rest) *)
  match ops with
  | [] => None
  | o :: more =>
      match SpecParse.starts (op_txt o) s with
      | None => rq_try_ops more s
      | Some s1 =>
          let '(ws, s2) := VParse.span is_ws s1 in
          match p_body o s2 with
          | Some (_, r) => Some (firstn (length s - length r) s, r)
          | None => rq_try_ops more s
          end
      end
  end.
Definition rq_spec_len (s : list N) : option nat :=
  match rq_try_ops ops_in_order (map rq_ufold s) with Some (tok, _) => Some (length tok) | None => None end.
Definition rq_spec_tok (s : st) : option (list N * st) :=
  match rq_spec_len (rest s) with
  | Some n => let tok := firstn n (rest s) in Some (tok, adv s tok (skipn n (rest s)))
  | None => None
  end.
(* VERSION_PREFIX_TRAIL = \.\*   VERSION_LOCAL_LABEL_TRAIL = \+[a-z0-9]+(?:[-_\.][a-z0-9]+)*  (peeked only: two characters decide) *)
Definition rq_lower_alnum (c : N) : bool := MText.is_digit c || MText.is_lower c.
Definition rq_prefix_trail (s : st) : bool := match rest s with c :: d :: _ => (c =? 46) && (d =? 42) | _ => false end.
Definition rq_local_trail (s : st) : bool := match rest s with c :: d :: _ => (c =? 43) && rq_lower_alnum d | _ => false end.

(* ------------------------------------------------------------------ _parser.py ----------------------------------------- *)
(* _parse_version_many: accumulates the token texts and the commas (whitespace is dropped) *)
Fixpoint rq_version_many (fuel : nat) (acc : list N) (s : st) : option (list N * st) :=
  match fuel with O => None | S f =>
    match rq_spec_tok s with
    | None => Some (acc, s)
    | Some (tok, s1) =>
        if rq_prefix_trail s1 || rq_local_trail s1 then None
        else let s2 := skip_ws s1 in
             if rq_is_hd 44 s2 then rq_version_many f (acc ++ tok ++ [44]) (skip_ws (rq_drop1 s2))
             else Some (acc ++ tok, s2)
    end
  end.
(* _parse_specifier: enclosing_tokens("(", ")") around  WS? version_many WS? *)
Definition rq_specifier (s : st) : option (list N * st) :=
  if rq_is_hd 40 s then
    match rq_version_many (S (length (rest s))) [] (skip_ws (rq_drop1 s)) with
    | Some (t, s1) => let s2 := skip_ws s1 in if rq_is_hd 41 s2 then Some (t, rq_drop1 s2) else None
    | None => None end
  else match rq_version_many (S (length (rest s))) [] (skip_ws s) with Some (t, s1) => Some (t, skip_ws s1) | None => None end.

(* _parse_extras_list after its first identifier *)
Fixpoint rq_extras_more (fuel : nat) (acc : list (list N)) (s : st) : option (list (list N) * st) :=
  match fuel with O => None | S f =>
    let s := skip_ws s in
    match rq_ident s with
    | Some _ => None                                    (* "Expected comma between extra names" *)
    | None => if rq_is_hd 44 s then
                let s1 := skip_ws (rq_drop1 s) in
                match rq_ident s1 with Some (e, s2) => rq_extras_more f (acc ++ [e]) s2 | None => None end
              else Some (acc, s)
    end
  end.
(* _parse_extras *)
Definition rq_extras (s : st) : option (list (list N) * st) :=
  if rq_is_hd 91 s then
    let s1 := skip_ws (rq_drop1 s) in
    match (match rq_ident s1 with Some (e, s2) => rq_extras_more (S (length (rest s2))) [e] s2 | None => Some ([], s1) end) with
    | Some (es, s3) => let s4 := skip_ws s3 in if rq_is_hd 93 s4 then Some (es, rq_drop1 s4) else None
    | None => None end
  else Some ([], s).

(* _parse_requirement_marker = SEMICOLON marker WS? *)
Definition rq_req_marker (s : st) : option (list elem * st) :=
  if rq_is_hd 59 s then
    match p_marker (S (length (rest s))) (rq_drop1 s) with Some (m, s') => Some (m, skip_ws s') | None => None end
  else None.

(* ParsedRequirement *)
Record rq_parsed := { pr_name : list N; pr_url : list N; pr_extras : list (list N); pr_spec : list N; pr_marker : option (list elem) }.
Definition rq_not_blank (c : N) : bool := negb (is_wsb c).          (* URL = [^ \t]+ *)

(* the common end of both branches of _parse_requirement_details:
     if tokenizer.check("END", peek=True): return (url, specifier, None);  marker = _parse_requirement_marker(...) *)
Definition rq_end_or_marker (url spec : list N) (s : st) : option ((list N * list N * option (list elem)) * st) :=
  if rq_at_end s then Some ((url, spec, None), s)
  else match rq_req_marker s with Some (m, s) => Some ((url, spec, Some m), s) | None => None end.
(* _parse_requirement_details = AT URL (WS requirement_marker?)? | specifier WS? requirement_marker? ;  None = ParserSyntaxError *)
Definition rq_details (s : st) : option ((list N * list N * option (list elem)) * st) :=
  if rq_is_hd 64 s then
    let s := skip_ws (rq_drop1 s) in
    let '(url, r) := MText.span rq_not_blank (rest s) in
    match url with [] => None | _ =>                         (* "Expected URL after @" *)
      let s := adv s url r in
      if rq_at_end s then Some ((url, [], None), s) else
      let '(w, r') := MText.span is_wsb (rest s) in
      match w with [] => None | _ =>                         (* "Expected whitespace after URL" *)
        rq_end_or_marker url [] (adv s w r')
      end
    end
  else
    match rq_specifier s with None => None | Some (spec, s) => rq_end_or_marker [] spec (skip_ws s) end.
(* _parse_requirement = WS? IDENTIFIER WS? extras WS? requirement_details END *)
Definition rq_parse (src : list N) : option rq_parsed :=
  let s := skip_ws {| prev := None; rest := src |} in
  match rq_ident s with None => None | Some (name, s) =>
  let s := skip_ws s in
  match rq_extras s with None => None | Some (extras, s) =>
  let s := skip_ws s in
  match rq_details s with None => None | Some ((url, spec, m), s) =>
  if rq_at_end s then Some {| pr_name := name; pr_url := url; pr_extras := extras; pr_spec := spec; pr_marker := m |} else None
  end end end.

(* ------------------------------------------------------------------ SpecifierSet (the part Requirement uses) ------------- *)
(* The full model of SpecifierSet lives in coq/Sets/; Requirement needs only construction from text, str(), == and the hash key. *)
Fixpoint rq_split (c0 : N) (s : list N) : list (list N) :=            (* str.split(",") *)
  match s with
  | [] => [[]]
  | c :: t => if c =? c0 then [] :: rq_split c0 t
              else match rq_split c0 t with h :: r => (c :: h) :: r | [] => [[c]] end
  end.
Fixpoint rq_lstrip (s : list N) : list N := match s with c :: t => if is_ws c then rq_lstrip t else s | [] => [] end.
Definition rq_strip (s : list N) : list N := rev (rq_lstrip (rev (rq_lstrip s))).        (* str.strip() *)
Definition rq_nonempty (s : list N) : bool := match s with [] => false | _ => true end.
Fixpoint rq_all_some {A} (l : list (option A)) : option (list A) :=
  match l with [] => Some [] | Some a :: t => option_map (cons a) (rq_all_some t) | None :: _ => None end.
(* SpecifierSet(text)._specs, in insertion order, duplicates still present;  None = InvalidSpecifier *)
Definition rq_pieces (txt : list N) : list (list N) := filter rq_nonempty (map rq_strip (rq_split 44 txt)).
Definition rq_specset (txt : list N) : option (list specifier) := rq_all_some (map Specifier (rq_pieces txt)).

Definition rq_oper_eqb (a b : oper) : bool :=
  match a, b with OCompat, OCompat | OEq, OEq | ONe, ONe | OLe, OLe | OGe, OGe | OLt, OLt | OGt, OGt | OArb, OArb => true | _, _ => false end.
(* Specifier._canonical_spec = (operator, canonicalize_version(text, strip_trailing_zero = op != "~=")), raw text for "===";
   written as one string "op text" (no operator contains a space, so this is injective on pairs) *)
Definition rq_ctext (sp : specifier) : list N :=
  match sp_op sp with
  | OArb => sp_text sp
  | OCompat => canon false (sp_text sp)
  | _ => canon true (sp_text sp)
  end.
Definition rq_ckey (sp : specifier) : list N := op_txt (sp_op sp) ++ 32 :: rq_ctext sp.

Fixpoint rq_str_eqb (a b : list N) : bool :=
  match a, b with [], [] => true | x :: a', y :: b' => (x =? y) && rq_str_eqb a' b' | _, _ => false end.
Definition rq_mem (x : list N) (l : list (list N)) : bool := existsb (rq_str_eqb x) l.
(* frozenset(iterable of Specifier): an element equal (same canonical spec) to one already present is dropped *)
Fixpoint rq_dedup (seen : list (list N)) (l : list specifier) : list specifier :=
  match l with
  | [] => []
  | x :: t => if rq_mem (rq_ckey x) seen then rq_dedup seen t else x :: rq_dedup (rq_ckey x :: seen) t
  end.
Fixpoint rq_uniq (seen : list (list N)) (l : list (list N)) : list (list N) :=      (* set(list of str) *)
  match l with
  | [] => []
  | x :: t => if rq_mem x seen then rq_uniq seen t else x :: rq_uniq (x :: seen) t
  end.
Definition rq_sort (l : list (list N)) : list (list N) := isort str_cmp l.            (* sorted() on str: code point order *)
Fixpoint rq_join (sep : list N) (l : list (list N)) : list N :=
  match l with [] => [] | [x] => x | x :: t => x ++ sep ++ rq_join sep t end.
(* str(SpecifierSet) = ",".join(sorted(str(s) for s in self._specs)) *)
Definition rq_set_str (specs : list specifier) : list N := rq_join [44] (rq_sort (map spec_str (rq_dedup [] specs))).
(* set equality: same length after collapsing and every element of one in the other = mutual inclusion *)
Definition rq_incl (a b : list (list N)) : bool := forallb (fun x => rq_mem x b) a.
Definition rq_set_eqb (a b : list (list N)) : bool := rq_incl a b && rq_incl b a.

(* ------------------------------------------------------------------ Requirement ----------------------------------------- *)
Record requirement := { q_name : list N; q_extras : list (list N); q_specs : list specifier; q_url : option (list N);
                        q_marker : option (list elem) }.
(* RqOracle: a marker literal contains a backslash, ast.literal_eval is outside the model (see MkModel) *)
Inductive rq_res := RqOk (r : requirement) | RqInvalid | RqOracle.

Definition Requirement (src : list N) : rq_res :=
  match rq_parse src with
  | None => RqInvalid
  | Some p =>
      match rq_specset (pr_spec p) with
      | None => RqInvalid                                   (* InvalidSpecifier -> InvalidRequirement *)
      | Some specs =>
          let mk m := RqOk {| q_name := pr_name p; q_extras := pr_extras p; q_specs := specs;
                              q_url := match pr_url p with [] => None | u => Some u end; q_marker := m |} in
          match pr_marker p with
          | None => mk None
          | Some m => match lit_class m with LOk => mk (Some (norm_l m)) | LInvalid => RqInvalid | LOracle => RqOracle end
          end
      end
  end.

(* sorted(self.extras) *)
Definition rq_extras_sorted (r : requirement) : list (list N) := rq_sort (rq_uniq [] (q_extras r)).
(* _iter_parts / __str__ *)
Definition req_str (r : requirement) : list N :=
  q_name r
  ++ (match q_extras r with [] => [] | _ => 91 :: rq_join [44] (rq_extras_sorted r) ++ [93] end)
  ++ (match q_specs r with [] => [] | _ => rq_set_str (q_specs r) end)
  ++ (match q_url r with Some u => 64 :: 32 :: u ++ (match q_marker r with Some _ => [32] | None => [] end) | None => [] end)
  ++ (match q_marker r with Some m => 59 :: 32 :: format_marker m | None => [] end).

Definition rq_opt_eqb (a b : option (list N)) : bool :=
  match a, b with None, None => true | Some x, Some y => rq_str_eqb x y | _, _ => false end.
(* __eq__ *)
Definition req_eq (a b : requirement) : bool :=
  rq_str_eqb (Names.canon_name (q_name a)) (Names.canon_name (q_name b))
  && rq_set_eqb (q_extras a) (q_extras b)
  && rq_set_eqb (map rq_ckey (q_specs a)) (map rq_ckey (q_specs b))
  && rq_opt_eqb (q_url a) (q_url b)
  && rq_opt_eqb (option_map format_marker (q_marker a)) (option_map format_marker (q_marker b)).
(* __hash__ = hash((class name, canonicalize_name(name), frozenset(extras), specifier, url, marker)): hash of a frozenset depends on
   the set only, hash(SpecifierSet) = hash(frozenset of specs) with hash(spec) = hash(_canonical_spec), hash(Marker) = hash((cls, str)).
   The hash is therefore a function of this key (sets represented by their sorted duplicate-free lists). *)
Definition rq_setrepr (l : list (list N)) : list (list N) := rq_sort (rq_uniq [] l).
Record rq_key := { k_name : list N; k_extras : list (list N); k_specs : list (list N); k_url : option (list N); k_marker : option (list N) }.
Definition req_key (r : requirement) : rq_key :=
  {| k_name := Names.canon_name (q_name r); k_extras := rq_setrepr (q_extras r); k_specs := rq_setrepr (map rq_ckey (q_specs r));
     k_url := q_url r; k_marker := option_map format_marker (q_marker r) |}.

(* decidable equality of keys (used by the observation r.eqh: "the hashes are equal") *)
Fixpoint rq_lists_eqb (a b : list (list N)) : bool :=
  match a, b with [], [] => true | x :: a', y :: b' => rq_str_eqb x y && rq_lists_eqb a' b' | _, _ => false end.
Definition rq_key_eqb (x y : rq_key) : bool :=
  rq_str_eqb (k_name x) (k_name y) && rq_lists_eqb (k_extras x) (k_extras y) && rq_lists_eqb (k_specs x) (k_specs y)
  && rq_opt_eqb (k_url x) (k_url y) && rq_opt_eqb (k_marker x) (k_marker y).
