(* C08 proofs, part 10: str(r) parses back to an equal requirement with the same string. *)
From Coq Require Import List Arith NArith Bool Lia Permutation.
Import ListNotations.
Require Import MText MRound MRound2 MRound3 MkModel.
Require Names.
Require Import VParse SpecParse SpecSound SpecContains Py Canon Order SortPerm.
Require Import ReqModel ReqSpec ReqScanP ReqTokP ReqListP ReqMarkP ReqParseP ReqSetP ReqTopP ReqEqP ReqSoundP.
Open Scope N_scope.
Arguments N.eqb : simpl never.
Arguments N.leb : simpl never.

(* ------------------------------------------------------------------ the hypotheses ---------------------------------------- *)
(* (1) the known gap D7, on the canonical string: no "===" clause before the last position of the sorted clause list,
       and no "===" clause with an empty text (Specifier accepts "===" alone; PEP 508 does not) *)
Definition rq_starts_arb (t : list N) : bool := match SpecParse.starts [61;61;61] t with Some _ => true | None => false end.
Fixpoint rq_arb_only_last (L : list (list N)) : bool :=
  match L with
  | [] => true
  | t :: more => match more with [] => true | _ :: _ => negb (rq_starts_arb t) && rq_arb_only_last more end
  end.
Definition rq_canon_clauses (r : requirement) : list (list N) := rq_sort (map spec_str (rq_dedup [] (q_specs r))).
Definition rq_no_gap (r : requirement) : Prop :=
  rq_arb_only_last (rq_canon_clauses r) = true /\ Forall (fun sp => sp_text sp <> []) (q_specs r).
(* (2) the marker's string form parses back to a marker with the same string form: the round-trip clause of C09, used as a black box *)
Definition rq_marker_rt (mk : option (list elem)) : Prop :=
  match mk with
  | None => True
  | Some m => exists m', MText.parse_marker (format_marker m) = Some m' /\ lit_class m' = LOk /\ format_marker (norm_l m') = format_marker m
  end.

(* ------------------------------------------------------------------ sets as lists ---------------------------------------- *)
Lemma dedup_spec : forall l seen,
  (forall k, In k (map rq_ckey (rq_dedup seen l)) <-> In k (map rq_ckey l) /\ ~ In k seen) /\
  NoDup (map rq_ckey (rq_dedup seen l)) /\ incl (rq_dedup seen l) l.
Proof.
  induction l as [|a l IH]; intros seen; cbn [rq_dedup].
  - split; [|split]; [intros k; cbn; tauto|constructor|apply incl_refl].
  - destruct (rq_mem (rq_ckey a) seen) eqn:M.
    + apply mem_in in M. destruct (IH seen) as (I1 & I2 & I3). split; [|split]; auto.
      * intros k. rewrite I1. cbn [map In]. split; [tauto|]. intros [[<-|H] Hn]; [contradiction|auto].
      * now apply incl_tl.
    + assert (Hn : ~ In (rq_ckey a) seen) by (intros H; apply mem_in in H; congruence).
      destruct (IH (rq_ckey a :: seen)) as (I1 & I2 & I3). split; [|split].
      * intros k. cbn [map In]. rewrite I1. cbn [In]. split.
        -- intros [<-|[H1 H2]]; [auto|]. split; auto.
        -- intros [[<-|H1] H2]; auto.
           destruct (list_eq_dec N.eq_dec (rq_ckey a) k) as [->|Ne]; auto. right. split; auto. intros [E|E]; auto.
      * cbn [map]. constructor; auto. rewrite I1. cbn. tauto.
      * intros x [<-|Hx]; [left; reflexivity|right; auto].
Qed.
Lemma dedup_id : forall l seen, NoDup (map rq_ckey l) -> (forall x, In x l -> ~ In (rq_ckey x) seen) -> rq_dedup seen l = l.
Proof.
  induction l as [|a l IH]; intros seen ND Hs; cbn [rq_dedup]; auto.
  replace (rq_mem (rq_ckey a) seen) with false.
  2:{ symmetry. destruct (rq_mem (rq_ckey a) seen) eqn:M; auto. apply mem_in in M. destruct (Hs a (or_introl eq_refl) M). }
  cbn [map] in ND. inversion ND as [|? ? Hni ND']; subst. f_equal. apply IH; auto.
  intros x Hx [E|E]; [|exact (Hs x (or_intror Hx) E)]. apply Hni. rewrite E. now apply in_map.
Qed.
Lemma uniq_id : forall l seen, NoDup l -> (forall x, In x l -> ~ In x seen) -> rq_uniq seen l = l.
Proof.
  induction l as [|a l IH]; intros seen ND Hs; cbn [rq_uniq]; auto.
  replace (rq_mem a seen) with false.
  2:{ symmetry. destruct (rq_mem a seen) eqn:M; auto. apply mem_in in M. destruct (Hs a (or_introl eq_refl) M). }
  inversion ND as [|? ? Hni ND']; subst. f_equal. apply IH; auto.
  intros x Hx [E|E]; [subst; contradiction|exact (Hs x (or_intror Hx) E)].
Qed.
Lemma sort_idem l : rq_sort (rq_sort l) = rq_sort l.
Proof. apply sort_perm_eq. apply Permutation_sym, sort_perm. Qed.
Lemma forall_exists_list {A B} (R : A -> B -> Prop) l : Forall (fun a => exists b, R a b) l -> exists bs, Forall2 R l bs.
Proof. induction 1 as [|a l [b Hb] _ [bs IH]]; [exists []; constructor|exists (b :: bs); constructor; auto]. Qed.

(* ------------------------------------------------------------------ the marker text after "; " --------------------------- *)
Lemma p_marker_skip f s : p_marker f s = p_marker f (skip_ws s).
Proof.
  destruct f as [|f]; [reflexivity|].
  change (p_marker (S f) s) with (match p_atom_with (p_marker f) s with None => None | Some (a, s1) => loop_with (p_atom_with (p_marker f)) (S f) [a] s1 end).
  change (p_marker (S f) (skip_ws s)) with (match p_atom_with (p_marker f) (skip_ws s) with None => None | Some (a, s1) => loop_with (p_atom_with (p_marker f)) (S f) [a] s1 end).
  now rewrite <- atom_skip.
Qed.
Lemma parse_marker_space X m : MText.parse_marker X = Some m -> MText.parse_marker (32 :: X) = Some m.
Proof.
  unfold MText.parse_marker. destruct (p_marker (S (length X)) {| prev := None; rest := X |}) as [[m0 s0]|] eqn:E; [|discriminate].
  destruct (rest s0) eqn:R; [|discriminate]. intros [= ->].
  apply (p_marker_fuel _ (S (length (32 :: X)))) in E; [|unfold MText.str, MText.char in *; cbn [length]; lia].
  rewrite p_marker_skip in E. rewrite (p_marker_skip _ {| prev := None; rest := 32 :: X |}).
  assert (Z : seq (skip_ws {| prev := None; rest := X |}) (skip_ws {| prev := None; rest := 32 :: X |})).
  { unfold skip_ws. cbn [rest MText.span]. replace (is_wsb 32) with true by reflexivity.
    destruct (MText.span is_wsb X) as [w r]. split; cbn [rest prev adv]; auto. destruct w; reflexivity. }
  pose proof (p_marker_resp (S (length (32 :: X))) _ _ Z) as Q. unfold req in Q. rewrite E in Q.
  destruct (p_marker (S (length (32 :: X))) (skip_ws {| prev := None; rest := 32 :: X |})) as [[m1 s1]|] eqn:E2; [|contradiction].
  destruct Q as [<- [Q1 _]]. unfold MText.str, MText.char in *. rewrite E2. rewrite <- Q1, R. reflexivity.
Qed.

(* ------------------------------------------------------------------ the canonical spelling of a requirement --------------- *)
Definition bare {A} (x : A) : list N * A * list N := ([], x, []).
Definition rq_canon_sp (r : requirement) (cs : list rq_clause) : rq_spelled :=
  {| rs_w0 := []; rs_name := q_name r; rs_w1 := [];
     rs_extras := match q_extras r with [] => None | _ => Some ([], map bare (rq_extras_sorted r)) end;
     rs_w2 := [];
     rs_body := match q_url r with Some u => SB_url [32] u | None => SB_clauses None (map bare cs) end;
     rs_w3 := match q_url r, q_marker r with Some _, Some _ => [32] | _, _ => [] end;
     rs_marker := option_map (fun m => 32 :: format_marker m) (q_marker r) |}.

Lemma items_text_bare {A} (f : A -> list N) l : rq_items_text f (map bare l) = rq_join [44] (map f l).
Proof.
  unfold rq_items_text. rewrite map_map. f_equal. apply map_ext. intros a. cbn. now rewrite app_nil_r.
Qed.
Lemma map_val_bare {A} (l : list A) : map rq_item_val (map bare l) = l.
Proof. rewrite map_map. cbn. apply map_id. Qed.

Lemma clause_text_spec c : c_ws c = [] -> rq_clause_text c = spec_str (rq_clause_spec c).
Proof. unfold rq_clause_text, spec_str, rq_clause_spec. intros ->. reflexivity. Qed.
Lemma starts_arb_op c : c_op c = OArb -> rq_starts_arb (rq_clause_text c) = true.
Proof. unfold rq_clause_text. intros ->. reflexivity. Qed.
Lemma no_d7_bare cs : rq_arb_only_last (map rq_clause_text cs) = true -> rq_no_d7 (map bare cs).
Proof.
  induction cs as [|c cs IH]; [constructor|]. destruct cs as [|c' cs']; [cbn; auto|].
  cbn [map rq_arb_only_last]. intros H. apply andb_prop in H as [H1 H2]. cbn [rq_no_d7 bare]. split.
  - intros E. apply starts_arb_op in E. rewrite E in H1. discriminate.
  - apply IH. exact H2.
Qed.

Section Round.
Variable r : requirement.
Hypothesis Snd : rq_sound r.
Hypothesis Gap : rq_no_gap r.
Hypothesis Mrt : rq_marker_rt (q_marker r).

(* the clauses of the canonical string: a permutation P of the collapsed specifier list, in the order of the sorted strings *)
Lemma canon_clauses : exists P cs, Permutation (rq_dedup [] (q_specs r)) P /\ map spec_str P = rq_canon_clauses r /\
  map rq_clause_spec cs = P /\ Forall rq_wf_clause cs /\ map rq_clause_text cs = rq_canon_clauses r.
Proof.
  destruct (@Permutation_map_inv _ _ spec_str (rq_canon_clauses r) (rq_dedup [] (q_specs r))) as (P & HP1 & HP2).
  { apply Permutation_sym, sort_perm. }
  assert (HinP : forall sp, In sp P -> In sp (q_specs r)).
  { intros sp Hsp. destruct (dedup_spec (q_specs r) []) as (_ & _ & I). apply I. eapply Permutation_in; [apply Permutation_sym; exact HP2|exact Hsp]. }
  assert (F : Forall (fun sp => exists c, clause_of sp c /\ rq_wf_clause c) P).
  { apply Forall_forall. intros sp Hsp. specialize (HinP sp Hsp).
    pose proof (snd_specs r Snd) as S1. rewrite Forall_forall in S1. destruct (S1 sp HinP) as (c & Hc & Hnc).
    destruct Gap as [_ G2]. rewrite Forall_forall in G2. specialize (G2 sp HinP).
    exists c. split; auto. destruct Hc as (E1 & E2 & E3 & E4). repeat split; auto.
    rewrite <- E1 in G2. exact G2. }
  apply forall_exists_list in F as [cs F]. exists P, cs. split; [exact HP2|]. split; [now symmetry|].
  assert (M1 : map rq_clause_spec cs = P).
  { clear -F. induction F as [|sp c P cs [[E _] _] _ IH]; cbn; congruence. }
  assert (M2 : map rq_clause_text cs = map spec_str P).
  { clear -F. induction F as [|sp c P cs [[E [Ew _]] _] _ IH]; cbn; auto. rewrite IH. f_equal. rewrite (clause_text_spec c Ew). congruence. }
  repeat split; auto.
  - clear -F. induction F as [|sp c P cs [_ W] _ IH]; constructor; auto.
  - now rewrite M2.
Qed.

Lemma sorted_extras_valid : Forall (fun e => rq_valid_ident e = true) (rq_extras_sorted r).
Proof.
  apply Forall_forall. intros e He. pose proof (snd_extras r Snd) as S1. rewrite Forall_forall in S1. apply S1.
  apply uniq_in. eapply Permutation_in; [apply Permutation_sym, sort_perm|exact He].
Qed.

Theorem roundtrip : exists r', Requirement (req_str r) = RqOk r' /\ req_eq r r' = true /\ req_str r' = req_str r.
Proof.
  destruct canon_clauses as (P & cs & HP & HPs & Hcs & Wcs & Htx).
  (* the marker, read back *)
  assert (HM : exists mo, rq_lits_ok mo /\
            match q_marker r, mo with
            | None, None => True
            | Some m, Some m' => MText.parse_marker (32 :: format_marker m) = Some m' /\ format_marker (norm_l m') = format_marker m
            | _, _ => False end).
  { destruct (q_marker r) as [m|]; [|exists None; cbn; auto]. destruct Mrt as (m' & H1 & H2 & H3).
    exists (Some m'). split; [exact H2|]. split; auto. now apply parse_marker_space. }
  destruct HM as (mo & Lok & HM).
  set (sp := rq_canon_sp r cs).
  assert (Hspecs_url : forall u, q_url r = Some u -> cs = [] /\ q_specs r = []).
  { intros u Eu. pose proof (snd_url r Snd) as S1. rewrite Eu in S1. destruct S1 as (_ & _ & S1). split; auto.
    assert (rq_canon_clauses r = []) by (unfold rq_canon_clauses; rewrite S1; reflexivity). rewrite H in Htx. destruct cs; [auto|discriminate]. }
  (* 1. the canonical spelling renders to str(r) *)
  assert (Rnd : rq_render sp = req_str r).
  { unfold rq_render, req_str, sp, rq_canon_sp. cbn [rs_w0 rs_name rs_w1 rs_extras rs_w2 rs_body rs_w3 rs_marker app].
    f_equal. f_equal.
    { destruct (q_extras r); [reflexivity|]. cbn [app]. now rewrite items_text_bare, map_id. }
    destruct (q_url r) as [u|] eqn:Eu.
    - destruct (Hspecs_url u eq_refl) as [_ ->]. cbn [rq_body_text app]. destruct (q_marker r); cbn [option_map]; rewrite <- ?app_assoc; reflexivity.
    - cbn [rq_body_text]. rewrite items_text_bare, Htx.
      assert (E : rq_join [44] (rq_canon_clauses r) = match q_specs r with [] => [] | _ :: _ => rq_set_str (q_specs r) end).
      { unfold rq_set_str, rq_canon_clauses. destruct (q_specs r); reflexivity. }
      rewrite E. destruct (q_marker r); cbn [option_map app]; rewrite ?app_nil_r; reflexivity. }
  (* 2. it is well formed *)
  assert (Wf : rq_wf sp mo).
  { unfold rq_wf, sp, rq_canon_sp. cbn [rs_w0 rs_name rs_w1 rs_extras rs_w2 rs_body rs_w3 rs_marker].
    repeat split; try reflexivity.
    - destruct (q_url r), (q_marker r); reflexivity.
    - exact (snd_name r Snd).
    - destruct (q_extras r); [exact I|]. split; [reflexivity|]. apply Forall_map.
      eapply Forall_impl; [|exact sorted_extras_valid]. intros e He. split; [reflexivity|exact He].
    - destruct (q_url r) as [u|] eqn:Eu; cbn [rq_wf_body].
      + pose proof (snd_url r Snd) as S1. rewrite Eu in S1. destruct S1 as (S1 & S2 & _). repeat split; auto.
        destruct (q_marker r); cbn [option_map]; [discriminate|discriminate].
      + repeat split.
        * apply Forall_map. eapply Forall_impl; [|exact Wcs]. intros c Hc. split; [reflexivity|exact Hc].
        * apply no_d7_bare. rewrite Htx. exact (proj1 Gap).
    - destruct (q_marker r) as [m|], mo as [m'|]; cbn [option_map]; try contradiction; auto. exact (proj1 HM). }
  (* 3. so it parses to the requirement it denotes *)
  exists (rq_denotes sp mo). split; [rewrite <- Rnd; now apply Requirement_render|].
  assert (Dn : q_name (rq_denotes sp mo) = q_name r) by reflexivity.
  assert (De : q_extras (rq_denotes sp mo) = match q_extras r with [] => [] | _ => rq_extras_sorted r end).
  { unfold rq_denotes, rq_sp_extras, sp, rq_canon_sp. cbn. destruct (q_extras r); [reflexivity|]. apply map_val_bare. }
  assert (Ds : q_specs (rq_denotes sp mo) = P).
  { unfold rq_denotes, rq_sp_clauses, sp, rq_canon_sp. cbn. destruct (q_url r) as [u|] eqn:Eu.
    - destruct (Hspecs_url u eq_refl) as [-> _]. cbn in Hcs. now rewrite <- Hcs.
    - now rewrite map_val_bare. }
  assert (Du : q_url (rq_denotes sp mo) = q_url r).
  { unfold rq_denotes, rq_sp_url, sp, rq_canon_sp. cbn. destruct (q_url r) as [u|] eqn:Eu; [|reflexivity].
    pose proof (snd_url r Snd) as S1. rewrite Eu in S1. destruct S1 as (S1 & _). destruct u; [congruence|reflexivity]. }
  assert (Dm : option_map format_marker (q_marker (rq_denotes sp mo)) = option_map format_marker (q_marker r)).
  { unfold rq_denotes. cbn [q_marker]. destruct (q_marker r) as [m|], mo as [m'|]; cbn [option_map]; try contradiction; auto.
    f_equal. exact (proj2 HM). }
  assert (Extras_sorted_same : rq_extras_sorted (rq_denotes sp mo) = rq_extras_sorted r).
  { unfold rq_extras_sorted at 1. rewrite De. destruct (q_extras r) eqn:Ee; [unfold rq_extras_sorted; rewrite Ee; reflexivity|].
    rewrite uniq_id.
    - apply sort_idem.
    - eapply Permutation_NoDup; [apply sort_perm|apply uniq_nodup].
    - intros x _ []. }
  assert (KP : forall k, In k (map rq_ckey P) <-> In k (map rq_ckey (q_specs r))).
  { intros k. destruct (dedup_spec (q_specs r) []) as (I1 & _ & _).
    split.
    - intros Hk. apply (Permutation_in _ (Permutation_sym (Permutation_map rq_ckey HP))) in Hk. apply I1 in Hk. tauto.
    - intros Hk. apply (Permutation_in _ (Permutation_map rq_ckey HP)). apply I1. split; auto. }
  split.
  - (* equal *)
    apply req_eq_semantics. rewrite Dn, Du, Dm, Ds, De. repeat split; auto.
    + destruct (q_extras r) eqn:Ee; [auto|]. rewrite <- Ee. intros He. eapply Permutation_in; [apply sort_perm|]. now apply uniq_in.
    + destruct (q_extras r) eqn:Ee; [auto|]. rewrite <- Ee. intros He. apply uniq_in. eapply Permutation_in; [apply Permutation_sym, sort_perm|exact He].
    + apply KP. + apply KP.
  - (* same string *)
    unfold req_str at 1. rewrite Dn, Du, Ds, Extras_sorted_same.
    assert (Epart : match q_extras (rq_denotes sp mo) with [] => [] | _ :: _ => 91 :: rq_join [44] (rq_extras_sorted r) ++ [93] end
                  = match q_extras r with [] => [] | _ :: _ => 91 :: rq_join [44] (rq_extras_sorted r) ++ [93] end).
    { rewrite De. destruct (q_extras r) as [|e es] eqn:Ee; [reflexivity|].
      destruct (rq_extras_sorted r) eqn:Es; [|reflexivity].
      exfalso. assert (In e (rq_extras_sorted r)).
      { eapply Permutation_in; [apply sort_perm|]. apply uniq_in. rewrite Ee. left. reflexivity. }
      rewrite Es in H. contradiction. }
    rewrite Epart.
    assert (Spart : match P with [] => [] | _ :: _ => rq_set_str P end = match q_specs r with [] => [] | _ :: _ => rq_set_str (q_specs r) end).
    { assert (NDP : NoDup (map rq_ckey P)).
      { destruct (dedup_spec (q_specs r) []) as (_ & ND & _). eapply Permutation_NoDup; [apply Permutation_map; exact HP|exact ND]. }
      assert (SP : rq_set_str P = rq_set_str (q_specs r)).
      { unfold rq_set_str. rewrite (dedup_id P []) by (auto; intros x _ []). f_equal. apply sort_perm_eq.
        apply Permutation_map. now apply Permutation_sym. }
      destruct (q_specs r) as [|s0 ss] eqn:Es.
      - cbn in HP. apply Permutation_nil in HP. now rewrite HP.
      - rewrite <- Es in *. destruct P as [|p0 P']; [|exact SP].
        exfalso. apply Permutation_sym, Permutation_nil in HP. rewrite Es in HP. cbn [rq_dedup rq_mem existsb] in HP. discriminate. }
    rewrite Spart.
    assert (Mpart : match q_marker (rq_denotes sp mo) with Some m => 59 :: 32 :: format_marker m | None => [] end
                  = match q_marker r with Some m => 59 :: 32 :: format_marker m | None => [] end).
    { destruct (q_marker r) as [m|] eqn:Em, (q_marker (rq_denotes sp mo)) as [m2|] eqn:Em2; cbn [option_map] in Dm; try discriminate; auto.
      injection Dm as ->. reflexivity. }
    rewrite Mpart.
    assert (Msome : match q_marker (rq_denotes sp mo) with Some _ => [32] | None => [] end = match q_marker r with Some _ => [32] | None => [] end).
    { destruct (q_marker r), (q_marker (rq_denotes sp mo)); cbn [option_map] in Dm; try discriminate; auto. }
    unfold req_str. destruct (q_url r); [rewrite Msome|]; reflexivity.
Qed.
End Round.

Theorem str_roundtrip src r : Requirement src = RqOk r -> rq_no_gap r -> rq_marker_rt (q_marker r) ->
  exists r', Requirement (req_str r) = RqOk r' /\ req_eq r r' = true /\ req_str r' = req_str r.
Proof. intros H. apply roundtrip. eapply Requirement_sound; eauto. Qed.
Print Assumptions str_roundtrip.

(* ------------------------------------------------------------------ str() is a deterministic rendering ------------------- *)
(* the string depends on the extras only as a set, and on the clauses only as a multiset - as long as no two clauses are equal with
   different spellings (then the first one supplied is printed: finding D33, reported under C20) *)
Theorem req_str_deterministic a b :
  q_name a = q_name b -> (forall e, In e (q_extras a) <-> In e (q_extras b)) ->
  Permutation (q_specs a) (q_specs b) -> NoDup (map rq_ckey (q_specs a)) ->
  q_url a = q_url b -> q_marker a = q_marker b -> req_str a = req_str b.
Proof.
  intros Hn He Hs Hnd Hu Hm. unfold req_str. rewrite Hn, Hu, Hm.
  assert (E1 : rq_extras_sorted a = rq_extras_sorted b).
  { apply set_eqb_repr. unfold rq_set_eqb. rewrite andb_true_iff, !incl_iff. split; intros x Hx; now apply He. }
  assert (E2 : match q_extras a with [] => [] | _ :: _ => 91 :: rq_join [44] (rq_extras_sorted a) ++ [93] end
             = match q_extras b with [] => [] | _ :: _ => 91 :: rq_join [44] (rq_extras_sorted b) ++ [93] end).
  { rewrite E1. destruct (q_extras a) as [|x xs] eqn:Ea, (q_extras b) as [|y ys] eqn:Eb; auto; exfalso.
    - exact (proj2 (He y) (or_introl eq_refl)).
    - exact (proj1 (He x) (or_introl eq_refl)). }
  assert (E3 : match q_specs a with [] => [] | _ :: _ => rq_set_str (q_specs a) end
             = match q_specs b with [] => [] | _ :: _ => rq_set_str (q_specs b) end).
  { assert (Hnd' : NoDup (map rq_ckey (q_specs b))) by (eapply Permutation_NoDup; [apply Permutation_map; exact Hs|exact Hnd]).
    assert (S : rq_set_str (q_specs a) = rq_set_str (q_specs b)).
    { unfold rq_set_str. rewrite (dedup_id (q_specs a) []), (dedup_id (q_specs b) []) by (auto; intros x _ []).
      f_equal. apply sort_perm_eq. now apply Permutation_map. }
    destruct (q_specs a) as [|x xs] eqn:Ea, (q_specs b) as [|y ys] eqn:Eb; auto. }
  rewrite E2, E3. reflexivity.
Qed.
Print Assumptions req_str_deterministic.

(* ------------------------------------------------------------------ composition with the marker domain (C09) -------------- *)
(* the round-trip clause of C09, for whatever the marker grammar returns (statement only; proved in the marker domain as
   MkRoundP.parsed_marker_roundtrip) *)
Definition rq_c09_roundtrip : Prop :=
  forall fuel s m0 s', p_marker fuel s = Some (m0, s') -> lit_class m0 = LOk ->
  exists m', MText.parse_marker (format_marker (norm_l m0)) = Some m' /\ lit_class m' = LOk /\
             format_marker (norm_l m') = format_marker (norm_l m0).
Theorem str_roundtrip_given_c09 : rq_c09_roundtrip ->
  forall src r, Requirement src = RqOk r -> rq_no_gap r ->
  exists r', Requirement (req_str r) = RqOk r' /\ req_eq r r' = true /\ req_str r' = req_str r.
Proof.
  intros C09 src r H G. apply (str_roundtrip src r H G).
  destruct (q_marker r) as [m|] eqn:M; [|exact I].
  destruct (Requirement_marker_origin src r m H M) as (m0 & (fuel & s & s' & P) & L & ->).
  exact (C09 fuel s m0 s' P L).
Qed.
Print Assumptions str_roundtrip_given_c09.
