(* C08 proofs, part 2: single tokens inside a requirement - blanks, IDENTIFIER, SPECIFIER. *)
From Coq Require Import List Arith NArith Bool Lia.
Import ListNotations.
Require Import MText MRound.
Require Import VParse VComplete VTop VTop2 SpecParse SpecSound SpecContains ReqModel ReqSpec ReqScanP.
Open Scope N_scope.
Arguments N.eqb : simpl never.
Arguments N.leb : simpl never.

Ltac lit_eqb := repeat match goal with |- context [N.eqb (Npos ?a) (Npos ?b)] =>
   let v := eval vm_compute in (N.eqb (Npos a) (Npos b)) in
   match v with true => idtac | false => idtac end; change (N.eqb (Npos a) (Npos b)) with v end.

(* ------------------------------------------------------------------ blanks ---------------------------------------------- *)
Definition nbhead (T : list N) : Prop := match T with c :: _ => is_wsb c = false | [] => True end.
Lemma mspan_app (p : N -> bool) a T : forallb p a = true -> (match T with c :: _ => p c = false | [] => True end) ->
  MText.span p (a ++ T) = (a, T).
Proof.
  induction a as [|c a IH]; cbn [app MText.span forallb]; intros Ha HT.
  - destruct T as [|c t]; cbn [MText.span]; auto. now rewrite HT.
  - apply andb_prop in Ha as [Hc Ha]. rewrite Hc. now rewrite IH.
Qed.
Lemma skip_ws_app p w T : rq_blank w = true -> nbhead T ->
  skip_ws {| prev := p; rest := w ++ T |} = {| prev := last_opt p w; rest := T |}.
Proof. intros Hw HT. unfold skip_ws. cbn [rest]. rewrite (mspan_app is_wsb w T Hw HT). reflexivity. Qed.
Lemma skip_ws_id p T : nbhead T -> skip_ws {| prev := p; rest := T |} = {| prev := p; rest := T |}.
Proof. intros HT. apply (skip_ws_app p [] T eq_refl HT). Qed.
Lemma blank_app a b : rq_blank a = true -> rq_blank b = true -> rq_blank (a ++ b) = true.
Proof. unfold rq_blank. intros. rewrite forallb_app. now apply andb_true_intro. Qed.
Lemma blank_nonword p w : wordness p = false -> rq_blank w = true -> wordness (last_opt p w) = false.
Proof.
  revert p. induction w as [|c w IH]; intros p Hp Hw; cbn [last_opt]; auto.
  cbn [rq_blank forallb] in Hw. apply andb_prop in Hw as [Hc Hw]. apply IH; auto.
  cbn [wordness]. unfold is_wsb in Hc. apply orb_prop in Hc as [Hc|Hc]; apply N.eqb_eq in Hc; subst; reflexivity.
Qed.

(* ------------------------------------------------------------------ IDENTIFIER ------------------------------------------ *)
Definition nihead (T : list N) : Prop := match T with c :: _ => rq_is_ident c = false | [] => True end.
Lemma alnum_word c : rq_is_alnum c = true -> is_word c = true.
Proof. unfold rq_is_alnum, is_word. intros ->. reflexivity. Qed.
Lemma last_rev_hd (l : list N) d : last l d = hd d (rev l).
Proof.
  induction l as [|a l IH]; [reflexivity|]. destruct l as [|b l']; [reflexivity|].
  change (last (a :: b :: l') d) with (last (b :: l') d). rewrite IH. cbn [rev].
  destruct (rev l' ++ [b]) eqn:E; [destruct (rev l'); discriminate|]. reflexivity.
Qed.
Lemma rq_ident_ok p name T : wordness p = false -> rq_valid_ident name = true -> nihead T ->
  rq_ident {| prev := p; rest := name ++ T |} = Some (name, {| prev := last_opt p name; rest := T |}).
Proof.
  intros Hp Hn HT. destruct name as [|c n]; [discriminate|]. cbn [rq_valid_ident] in Hn.
  apply andb_prop in Hn as [Hn Hl]. apply andb_prop in Hn as [Hc Hall].
  unfold rq_ident. cbn [rest prev app]. rewrite Hc. unfold boundary. rewrite Hp. cbn [wordness]. rewrite (alnum_word c Hc). cbn [xorb andb].
  change (c :: n ++ T) with ((c :: n) ++ T). rewrite (mspan_app rq_is_ident (c :: n) T Hall HT).
  assert (E : rev (rq_trim_nonword (rev (c :: n))) = c :: n).
  { rewrite last_rev_hd in Hl. destruct (rev (c :: n)) as [|x r] eqn:Er.
    - apply (f_equal (@rev N)) in Er. rewrite rev_involutive in Er. discriminate.
    - cbn [hd] in Hl. cbn [rq_trim_nonword]. rewrite Hl. rewrite <- Er. apply rev_involutive. }
  unfold MText.str, MText.char in *. rewrite E. unfold adv. cbn [prev]. do 3 f_equal.
  rewrite skipn_app, skipn_all, Nat.sub_diag. reflexivity.
Qed.
Lemma rq_ident_none p c T : rq_is_alnum c = false -> rq_ident {| prev := p; rest := c :: T |} = None.
Proof. intros H. unfold rq_ident. cbn [rest]. now rewrite H. Qed.
Lemma valid_ident_head n T : rq_valid_ident n = true -> nbhead (n ++ T).
Proof.
  destruct n as [|c n]; [discriminate|]. cbn [rq_valid_ident]. intros H. apply andb_prop in H as [H _]. apply andb_prop in H as [H _].
  cbn. unfold rq_is_alnum in H. unfold is_wsb.
  destruct (c =? 32) eqn:E1; [apply N.eqb_eq in E1; subst; discriminate|].
  destruct (c =? 9) eqn:E2; [apply N.eqb_eq in E2; subst; discriminate|]. reflexivity.
Qed.

(* ------------------------------------------------------------------ SPECIFIER ------------------------------------------- *)
Lemma starts_app w s : SpecParse.starts w (w ++ s) = Some s.
Proof. induction w as [|p w IH]; cbn; auto. now rewrite N.eqb_refl. Qed.
Lemma vspan_ws ws x T : forallb is_ws ws = true -> (match x ++ T with c :: _ => is_ws c = false | [] => True end) ->
  VParse.span is_ws (ws ++ x ++ T) = (ws, x ++ T).
Proof.
  intros Hw Hx. apply span_complete; auto. destruct (x ++ T); cbn; auto.
Qed.
Lemma ws_not_eq c : is_ws c = true -> (c =? 61) = false.
Proof. intros H. destruct (c =? 61) eqn:E; auto. apply N.eqb_eq in E. subst. discriminate. Qed.
Lemma digit_v_not c : is_digit c = true \/ lc c = 118 -> (c =? 61) = false /\ is_ws c = false.
Proof.
  intros H. destruct (c =? 61) eqn:E.
  { apply N.eqb_eq in E. subst. destruct H as [H|H]; discriminate. }
  split; auto. destruct (is_ws c) eqn:W; auto. exfalso.
  unfold is_ws, ws_table in W. cbn [existsb] in W.
  repeat (apply orb_prop in W as [W|W]; [apply N.eqb_eq in W; subst c; destruct H as [H|H]; discriminate|]). discriminate.
Qed.
Lemma arb_not_ws c : arb_char c = true -> is_ws c = false.
Proof. unfold arb_char. intros H. apply andb_prop in H as [H _]. apply andb_prop in H as [H _]. now apply negb_true_iff. Qed.

Lemma oper_eq_dec_arb (o : oper) : {o = OArb} + {o <> OArb}.
Proof. destruct o; (left; reflexivity) || (right; discriminate). Qed.
(* the head of a non-empty body text: not "=", not whitespace *)
Lemma body_head o x b c t : p_body o x = Some (b, []) -> x = c :: t -> (o <> OArb -> (c =? 61) = false) /\ is_ws c = false.
Proof.
  intros H ->. destruct (oper_eq_dec_arb o) as [->|Ho].
  - apply body_arb_all in H as [_ H]. cbn [forallb] in H. apply andb_prop in H as [H _]. split; [congruence|]. now apply arb_not_ws.
  - apply (p_body_head o c t b [] Ho) in H. apply digit_v_not in H as [H1 H2]. auto.
Qed.

Lemma firstn_len_app (a T : list N) : firstn (length (a ++ T) - length T) (a ++ T) = a.
Proof. rewrite app_length, Nat.add_sub. rewrite firstn_app, Nat.sub_diag, firstn_all. cbn. now rewrite app_nil_r. Qed.

(* the operator's own turn *)
Lemma try_ops_hit o more ws x b T : forallb is_ws ws = true -> p_body o x = Some (b, []) -> x <> [] ->
  hstop T -> (o = OArb -> astop T) ->
  rq_try_ops (o :: more) (op_txt o ++ ws ++ x ++ T) = Some (op_txt o ++ ws ++ x, T).
Proof.
  intros Hw Hb Hx HT HA. cbn [rq_try_ops]. rewrite starts_app.
  destruct x as [|c t] eqn:Ex; [congruence|]. rewrite <- Ex in *.
  destruct (body_head o x b c t Hb Ex) as [_ Hc].
  rewrite vspan_ws; auto. 2:{ rewrite Ex. cbn. exact Hc. }
  assert (E : p_body o (x ++ T) = Some (b, T)).
  { destruct (oper_eq_dec_arb o) as [->|Ho].
    - rewrite p_body_arb_ext by auto. rewrite Hb. reflexivity.
    - rewrite (p_body_ext T HT o x Ho). rewrite Hb. reflexivity. }
  rewrite E. f_equal. f_equal.
  replace (op_txt o ++ ws ++ x ++ T) with ((op_txt o ++ ws ++ x) ++ T) by (rewrite <- !app_assoc; reflexivity).
  apply firstn_len_app.
Qed.

Lemma starts_hd_ne w0 w c s : (c =? w0) = false -> SpecParse.starts (w0 :: w) (c :: s) = None.
Proof. cbn. now intros ->. Qed.

Lemma try_ops_skip1 o' more h s : (match op_txt o' with w0 :: _ => (h =? w0) = false | [] => False end) ->
  rq_try_ops (o' :: more) (h :: s) = rq_try_ops more (h :: s).
Proof. cbn [rq_try_ops]. destruct (op_txt o') as [|w0 w]; [contradiction|]. intros H. now rewrite (starts_hd_ne w0 w h s H). Qed.
Lemma try_ops_skip2 o' more h d s : op_txt o' = [h; 61] -> (d =? 61) = false ->
  rq_try_ops (o' :: more) (h :: d :: s) = rq_try_ops more (h :: d :: s).
Proof. intros E H. cbn [rq_try_ops]. rewrite E. cbn [SpecParse.starts]. rewrite N.eqb_refl, H. reflexivity. Qed.

(* the whole alternation: earlier operators do not match *)
Lemma try_ops_text o ws x b T : forallb is_ws ws = true -> p_body o x = Some (b, []) -> x <> [] ->
  hstop T -> (o = OArb -> astop T) ->
  rq_try_ops ops_in_order (op_txt o ++ ws ++ x ++ T) = Some (op_txt o ++ ws ++ x, T).
Proof.
  intros Hw Hb Hx HT HA.
  destruct x as [|c t] eqn:Ex; [congruence|]. rewrite <- Ex in *.
  destruct (body_head o x b c t Hb Ex) as [Hc61 Hcws].
  (* the character after a one-character operator is not "=" *)
  assert (H2 : forall Y, o <> OArb -> match ws ++ x ++ Y with d :: _ => (d =? 61) = false | [] => True end).
  { intros Y Ho. destruct ws as [|d ws']; cbn [app].
    - rewrite Ex. cbn [app]. now apply Hc61.
    - cbn [forallb] in Hw. apply andb_prop in Hw as [Hd _]. now apply ws_not_eq. }
  unfold ops_in_order.
  destruct o; cbn [op_txt app];
    repeat (match goal with
            | |- rq_try_ops (?o' :: _) (?h :: _) = _ =>
                first [ rewrite (try_ops_skip1 o' _ h) by (cbn [op_txt]; lit_eqb; reflexivity) ]
            end).
  - apply (try_ops_hit OCompat _ ws x b T); auto.
  - apply (try_ops_hit OEq _ ws x b T); auto.
  - apply (try_ops_hit ONe _ ws x b T); auto.
  - apply (try_ops_hit OLe _ ws x b T); auto.
  - apply (try_ops_hit OGe _ ws x b T); auto.
  - (* "<": "<=" is tried first *)
    specialize (H2 T ltac:(discriminate)). destruct (ws ++ x ++ T) as [|d r] eqn:Er.
    + destruct ws; [rewrite Ex in Er|]; discriminate.
    + rewrite (try_ops_skip2 OLe _ 60 d r eq_refl H2).
      rewrite (try_ops_skip1 OGe _ 60) by (cbn [op_txt]; lit_eqb; reflexivity).
      rewrite <- Er. apply (try_ops_hit OLt _ ws x b T); auto.
  - specialize (H2 T ltac:(discriminate)). destruct (ws ++ x ++ T) as [|d r] eqn:Er.
    + destruct ws; [rewrite Ex in Er|]; discriminate.
    + rewrite (try_ops_skip2 OGe _ 62 d r eq_refl H2).
      rewrite (try_ops_skip1 OLt _ 62) by (cbn [op_txt]; lit_eqb; reflexivity).
      rewrite <- Er. apply (try_ops_hit OGt _ ws x b T); auto.
  - (* "===": "==" is tried first and finds no version after it *)
    cbn [rq_try_ops op_txt SpecParse.starts]. lit_eqb.
    cbn [VParse.span]. replace (is_ws 61) with false by reflexivity.
    replace (p_body OEq (61 :: ws ++ x ++ T)) with (@None (body * list N)).
    2:{ symmetry. cbn [p_body]. destruct (p_pub (61 :: ws ++ x ++ T)) as [[q r]|] eqn:E; auto.
        apply p_pub_head in E. destruct E; discriminate. }
    change (rq_try_ops [OArb] (op_txt OArb ++ ws ++ x ++ T) = Some (op_txt OArb ++ ws ++ x, T)).
    apply (try_ops_hit OArb _ ws x b T); auto.
Qed.

(* ---- the IGNORECASE confusables: the token length is computed on the folded text ---- *)
Lemma ufold_cases c : rq_ufold c = c \/ c = 304 \/ c = 305 \/ c = 383 \/ c = 8490.
Proof.
  unfold rq_ufold. destruct (c =? 304) eqn:E1; [apply N.eqb_eq in E1; auto|]. destruct (c =? 305) eqn:E2; [apply N.eqb_eq in E2; auto|].
  cbn [orb]. destruct (c =? 383) eqn:E3; [apply N.eqb_eq in E3; auto|]. destruct (c =? 8490) eqn:E4; [apply N.eqb_eq in E4; auto 6|]. auto.
Qed.
Lemma ufold_ws c : is_ws c = true -> rq_ufold c = c.
Proof. intros H. destruct (ufold_cases c) as [E|[E|[E|[E|E]]]]; auto; subst c; vm_compute in H; discriminate. Qed.
Lemma ufold_nonstop c : stopc c = false -> rq_ufold c = c.
Proof. intros H. destruct (ufold_cases c) as [E|[E|[E|[E|E]]]]; auto; subst c; vm_compute in H; discriminate. Qed.
Lemma ufold_arb c : arb_char (rq_ufold c) = arb_char c.
Proof. destruct (ufold_cases c) as [E|[E|[E|[E|E]]]]; [now rewrite E| | | |]; subst c; reflexivity. Qed.
Lemma map_ufold_op o : map rq_ufold (op_txt o) = op_txt o.
Proof. destruct o; reflexivity. Qed.
Lemma map_id_on {A} (f : A -> A) l : (forall x, In x l -> f x = x) -> map f l = l.
Proof. induction l as [|a l IH]; cbn; intros H; auto. rewrite H by auto. rewrite IH; auto. Qed.

Definition rq_is_arb (o : oper) : bool := rq_oper_eqb o OArb.
(* what may follow a clause inside a requirement: a blank, ")", ";", the end - and "," unless the clause is a "===" clause *)
Definition rq_follow (arb : bool) (T : list N) : Prop :=
  match T with [] => True | c :: _ => c = 32 \/ c = 9 \/ c = 41 \/ c = 59 \/ (arb = false /\ c = 44) end.
Lemma follow_stop arb T : rq_follow arb T -> hstop (map rq_ufold T) /\ (arb = true -> astop (map rq_ufold T)).
Proof.
  destruct T as [|c t]; cbn [rq_follow map hstop astop]; auto.
  intros [->|[->|[->|[->|[-> ->]]]]]; split; try reflexivity; discriminate.
Qed.
Lemma is_arb_true o : rq_is_arb o = true <-> o = OArb.
Proof. destruct o; cbn; split; congruence. Qed.

Lemma spec_len_ok c T : rq_wf_clause c -> rq_follow (rq_is_arb (c_op c)) T ->
  rq_spec_len (rq_clause_text c ++ T) = Some (length (rq_clause_text c)).
Proof.
  intros (Hw & Hb & Hx & _) HF. destruct (follow_stop _ _ HF) as [HS HA].
  unfold rq_spec_len, rq_clause_text. rewrite !map_app, map_ufold_op.
  rewrite (map_id_on rq_ufold (c_ws c)) by (intros y Hy; apply ufold_ws; eapply forallb_forall in Hw; eauto).
  destruct (oper_eq_dec_arb (c_op c)) as [Eo|Ho].
  - rewrite Eo in *. apply body_arb_all in Hb as [Eb Hall].
    set (x' := map rq_ufold (r_body (c_body c))).
    assert (Hb' : p_body OArb x' = Some (BArb x', [])).
    { cbn [p_body]. rewrite <- (app_nil_r x'). rewrite span_complete; [now rewrite app_nil_r| |reflexivity].
      unfold x'. rewrite forallb_forall in *. intros y Hy. apply in_map_iff in Hy as (z & <- & Hz). rewrite ufold_arb. auto. }
    assert (Hx' : x' <> []) by (unfold x'; destruct (r_body (c_body c)); [congruence|discriminate]).
    rewrite <- !app_assoc.
    rewrite (try_ops_text OArb (c_ws c) x' (BArb x') (map rq_ufold T) Hw Hb' Hx' HS) by (intros _; apply HA; reflexivity).
    f_equal. unfold x'. rewrite !app_length, map_length. reflexivity.
  - rewrite (map_id_on rq_ufold (r_body (c_body c))).
    2:{ intros y Hy. apply ufold_nonstop. pose proof (body_all_nonstop _ _ _ Ho Hb) as Hall.
        eapply forallb_forall in Hall; eauto. now apply negb_true_iff in Hall. }
    rewrite <- !app_assoc.
    rewrite (try_ops_text (c_op c) (c_ws c) _ (c_body c) (map rq_ufold T) Hw Hb Hx HS) by (intros E; congruence).
    reflexivity.
Qed.

Lemma spec_tok_ok p c T : rq_wf_clause c -> rq_follow (rq_is_arb (c_op c)) T ->
  rq_spec_tok {| prev := p; rest := rq_clause_text c ++ T |} = Some (rq_clause_text c, {| prev := last_opt p (rq_clause_text c); rest := T |}).
Proof.
  intros W F. unfold rq_spec_tok. cbn [rest]. rewrite (spec_len_ok c T W F).
  rewrite firstn_app, Nat.sub_diag, firstn_all, skipn_app, Nat.sub_diag, skipn_all. cbn [firstn skipn app]. rewrite app_nil_r. reflexivity.
Qed.

(* no SPECIFIER token at the end of the text, before ")" or ";" *)
Definition rq_tail (T : list N) : Prop := match T with [] => True | c :: _ => c = 41 \/ c = 59 end.
Lemma spec_tok_none p T : rq_tail T -> rq_spec_tok {| prev := p; rest := T |} = None.
Proof.
  destruct T as [|c t]; [reflexivity|]. cbn [rq_tail]. unfold rq_spec_tok, rq_spec_len. cbn [rest map].
  intros [->| ->].
  - change (rq_ufold 41) with 41. unfold ops_in_order.
    repeat (rewrite try_ops_skip1 by (cbn [op_txt]; lit_eqb; reflexivity)). reflexivity.
  - change (rq_ufold 59) with 59. unfold ops_in_order.
    repeat (rewrite try_ops_skip1 by (cbn [op_txt]; lit_eqb; reflexivity)). reflexivity.
Qed.
Lemma tail_follow arb T : rq_tail T -> rq_follow arb T.
Proof. destruct T; cbn; auto. intros [->| ->]; auto. Qed.
Lemma tail_nbhead T : rq_tail T -> nbhead T.
Proof. destruct T; cbn; auto. intros [->| ->]; reflexivity. Qed.
Print Assumptions spec_tok_ok.
