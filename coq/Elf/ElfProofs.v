(* C16 - lemmas about the ELF model (ElfFile.v): reads, header decoding for the four layouts, program-header scan,
   and "decoding what the encoder laid out". *)
From Coq Require Import List Arith NArith Bool Lia.
Import ListNotations.
Require Import Elf ElfFile.
Open Scope N_scope.
Arguments N.eqb : simpl never.
Arguments N.leb : simpl never.

(* ---------------------------------------------------------------- reads *)
Lemma flen_app a b : flen (a ++ b) = flen a + flen b.
Proof. unfold flen. rewrite app_length. lia. Qed.
(* the bounded read is the plain  f[pos : pos + n] *)
Lemma read_at_spec f pos n : read_at f pos n = firstn (N.to_nat n) (skipn (N.to_nat pos) f).
Proof.
  unfold read_at, flen. destruct (N.leb_spec (N.of_nat (length f)) pos) as [H|H].
  - rewrite skipn_all2 by lia. now rewrite firstn_nil.
  - set (l := skipn (N.to_nat pos) f). assert (L : (length l <= length f)%nat) by (subst l; rewrite skipn_length; lia).
    destruct (N.le_gt_cases n (N.of_nat (length f))) as [Hn|Hn].
    + now rewrite N.min_l.
    + rewrite N.min_r by lia. rewrite !firstn_all2 by lia. reflexivity.
Qed.
Lemma read_at_mid pre mid post : read_at (pre ++ mid ++ post) (flen pre) (flen mid) = mid.
Proof.
  rewrite read_at_spec. unfold flen. rewrite !Nat2N.id. rewrite skipn_app, Nat.sub_diag, skipn_all. cbn [skipn app].
  rewrite firstn_app, Nat.sub_diag, firstn_all. cbn [firstn]. now rewrite app_nil_r.
Qed.
Lemma read_at_head a rest : read_at (a ++ rest) 0 (flen a) = a.
Proof. change 0 with (flen []). change (a ++ rest) with ([] ++ a ++ rest). apply read_at_mid. Qed.
Lemma read_at_short f pos n : (length (read_at f pos n) <= N.to_nat n)%nat.
Proof. rewrite read_at_spec. apply firstn_le_length. Qed.

(* ---------------------------------------------------------------- the struct codec on whole records *)
Lemma pack_length big sizes : forall vals, fits sizes vals -> length (pack big sizes vals) = fold_right Nat.add 0%nat sizes.
Proof.
  induction sizes as [|k t IH]; intros [|v vt] F; cbn in F; try contradiction; auto.
  destruct F as [_ F]. cbn [pack fold_right]. rewrite app_length, enc_len. f_equal. auto.
Qed.
Lemma flen_pack big sizes vals : fits sizes vals -> flen (pack big sizes vals) = total sizes.
Proof. intros F. unfold flen, total. now rewrite (pack_length big sizes vals F). Qed.
Lemma fits_len sizes : forall vals, fits sizes vals -> length vals = length sizes.
Proof. induction sizes as [|k t IH]; intros [|v vt]; cbn; try tauto. intros [_ H]. f_equal. auto. Qed.
Lemma layout_of is64 big : layout (cap_of is64) (enc_of big) = Some (is64, big).
Proof. destruct is64, big; reflexivity. Qed.

(* ---------------------------------------------------------------- header: any file holding the packed fields decodes to them *)
Section Header.
Variable f : bytes.
Variables is64 big : bool.
Variable pad : bytes.
Variable hdr : list N.                    (* the 10 header fields after e_ident *)
Hypothesis pad_len : length pad = 10%nat.
Hypothesis ident_ok : read_at f 0 16 = magic ++ [cap_of is64; enc_of big] ++ pad.
Hypothesis hdr_fits : fits (e_sizes is64) hdr.
Hypothesis hdr_ok : read_at f 16 (total (e_sizes is64)) = pack big (e_sizes is64) hdr.

Lemma header_decodes :
  parse_header f = Ok {| capacity := cap_of is64; encoding := enc_of big; machine := nth 1 hdr 0; flags := nth 6 hdr 0;
                         e_phoff := nth 4 hdr 0; e_phentsize := nth 8 hdr 0; e_phnum := nth 9 hdr 0 |}.
Proof.
  unfold parse_header. rewrite ident_ok.
  assert (L : length (magic ++ [cap_of is64; enc_of big] ++ pad) = 16%nat) by (unfold magic; cbn [app length]; now rewrite pad_len).
  rewrite L. cbn [Nat.eqb negb]. unfold magic. cbn [app firstn nth].
  replace (bytes_eqb [127; 69; 76; 70] [127; 69; 76; 70]) with true by reflexivity. cbn [negb].
  rewrite layout_of, hdr_ok, unpack_pack by assumption.
  assert (Len : length hdr = 10%nat).
  { rewrite (fits_len _ _ hdr_fits). destruct is64; reflexivity. }
  clear - Len. destruct hdr as [|h0 [|h1 [|h2 [|h3 [|h4 [|h5 [|h6 [|h7 [|h8 [|h9 [|h10 r]]]]]]]]]]]; try discriminate. reflexivity.
Qed.
End Header.

(* ---------------------------------------------------------------- rejection: what is not an ELF header is ELFInvalid *)
Lemma short_file_invalid f : (length f < 16)%nat -> parse_header f = Invalid.
Proof.
  intros H. unfold parse_header. rewrite read_at_spec. cbn [N.to_nat skipn].
  replace (Nat.eqb (length (firstn (Pos.to_nat 16) f)) 16) with false; [reflexivity|].
  symmetry. apply Nat.eqb_neq. rewrite firstn_length. lia.
Qed.

(* ---------------------------------------------------------------- the program-header scan *)
Definition ph_type (is64 : bool) (ph : list N) : N := nth (fst (fst (p_idx is64))) ph 0.
Definition ph_off (is64 : bool) (ph : list N) : N := nth (snd (fst (p_idx is64))) ph 0.
Definition ph_size (is64 : bool) (ph : list N) : N := nth (snd (p_idx is64)) ph 0.
(* the first PT_INTERP entry of a table *)
Fixpoint first_interp (is64 : bool) (phs : list (list N)) : option (list N) :=
  match phs with [] => None | ph :: more => if ph_type is64 ph =? 3 then Some ph else first_interp is64 more end.
(* what ELFFile.interpreter returns for the entry it stops at *)
Definition interp_result (f : bytes) (is64 : bool) (o : option (list N)) : ires :=
  match o with
  | None => INone
  | Some ph => if (ssize_limit <=? ph_off is64 ph) || (ssize_limit <=? ph_size is64 ph) then IInvalid
               else ISome (strip_nul (read_at f (ph_off is64 ph) (ph_size is64 ph)))
  end.

Lemma scan_step_packed f is64 big phoff entsize i more ph :
  phoff + entsize * i < ssize_limit ->
  fits (p_sizes is64) ph ->
  read_at f (phoff + entsize * i) (total (p_sizes is64)) = pack big (p_sizes is64) ph ->
  scan f is64 big phoff entsize (i :: more) =
  if ph_type is64 ph =? 3 then interp_result f is64 (Some ph) else scan f is64 big phoff entsize more.
Proof.
  intros Hpos F R. cbn [scan]. destruct (N.leb_spec ssize_limit (phoff + entsize * i)); [lia|].
  rewrite R, unpack_pack by assumption. unfold ph_type, ph_off, ph_size, interp_result.
  destruct is64; cbn [p_idx fst snd]; match goal with |- context [nth ?k ph 0 =? 3] => destruct (nth k ph 0 =? 3) end; reflexivity.
Qed.
(* an entry that cannot be read completely (short read) or lies beyond the seekable range is skipped *)
Lemma scan_step_unreadable f is64 big phoff entsize i more :
  ssize_limit <= phoff + entsize * i \/ (length (read_at f (phoff + entsize * i) (total (p_sizes is64))) < N.to_nat (total (p_sizes is64)))%nat ->
  scan f is64 big phoff entsize (i :: more) = scan f is64 big phoff entsize more.
Proof.
  intros [H|H]; cbn [scan].
  - destruct (N.leb_spec ssize_limit (phoff + entsize * i)); [reflexivity | lia].
  - destruct (N.leb_spec ssize_limit (phoff + entsize * i)); [reflexivity|].
    assert (U : forall big sizes bs, (length bs < fold_right Nat.add 0%nat sizes)%nat -> unpack big sizes bs = None).
    { clear. intros big sizes. induction sizes as [|k t IH]; intros bs L; cbn in L; [lia|]. cbn [unpack].
      destruct (Nat.ltb_spec (length bs) k); [reflexivity|]. rewrite IH; [reflexivity|]. rewrite skipn_length. lia. }
    rewrite U; [reflexivity|]. unfold total in H. now rewrite Nat2N.id in H.
Qed.

(* ---------------------------------------------------------------- decoding what the encoder laid out *)
Definition wf_spec (s : elf_spec) : Prop :=
  fits (e_sizes (s_is64 s)) (hdr_of s) /\ Forall (fits (p_sizes (s_is64 s))) (s_phdrs s).
Definition elf_of (s : elf_spec) : elf :=
  {| capacity := cap_of (s_is64 s); encoding := enc_of (s_big s); machine := s_machine s; flags := s_flags s;
     e_phoff := 16 + total (e_sizes (s_is64 s)); e_phentsize := total (p_sizes (s_is64 s)); e_phnum := N.of_nat (length (s_phdrs s)) |}.

Lemma ident_len s : length (ident_of s) = 16%nat.
Proof.
  unfold ident_of. rewrite !app_length, firstn_length, app_length, repeat_length. cbn [length magic]. lia.
Qed.
Lemma encode_header s : wf_spec s -> parse_header (encode s) = Ok (elf_of s).
Proof.
  intros [F _]. unfold encode.
  pose proof (header_decodes (encode s) (s_is64 s) (s_big s) (firstn 10 (s_pad s ++ repeat 0 10%nat)) (hdr_of s)) as H.
  unfold encode in H. rewrite H; [reflexivity| | |assumption|].
  - rewrite firstn_length, app_length, repeat_length. lia.
  - pose proof (read_at_head (ident_of s) (pack (s_big s) (e_sizes (s_is64 s)) (hdr_of s) ++ table_of s ++ s_payload s)) as R.
    unfold flen in R. rewrite ident_len in R. exact R.
  - pose proof (read_at_mid (ident_of s) (pack (s_big s) (e_sizes (s_is64 s)) (hdr_of s)) (table_of s ++ s_payload s)) as R.
    rewrite (flen_pack _ _ _ F) in R. unfold flen in R. rewrite ident_len in R. exact R.
Qed.

Lemma range_from_succ k start : range_from (S k) start = start :: range_from k (start + 1).
Proof. reflexivity. Qed.
Lemma scan_table (file : bytes) is64 big (P : bytes) : forall phs pre start,
  file = pre ++ flat_map (pack big (p_sizes is64)) phs ++ P ->
  flen pre = (16 + total (e_sizes is64)) + total (p_sizes is64) * start ->
  Forall (fits (p_sizes is64)) phs ->
  start + N.of_nat (length phs) <= 65536 ->
  scan file is64 big (16 + total (e_sizes is64)) (total (p_sizes is64)) (range_from (length phs) start) =
  interp_result file is64 (first_interp is64 phs).
Proof.
  induction phs as [|ph more IH]; intros pre start E L F B; [reflexivity|].
  cbn [length]. rewrite range_from_succ. inversion F as [|? ? Fph Fmore]; subst.
  assert (T : total (e_sizes is64) <= 48 /\ total (p_sizes is64) <= 56) by (destruct is64; cbv; split; discriminate).
  cbn [length] in B.
  rewrite (scan_step_packed _ _ _ _ _ _ _ ph); auto.
  - cbn [first_interp]. destruct (ph_type is64 ph =? 3); [reflexivity|].
    apply (IH (pre ++ pack big (p_sizes is64) ph) (start + 1)); auto.
    + cbn [flat_map]. now rewrite <- !app_assoc.
    + rewrite flen_app, L, (flen_pack _ _ _ Fph). lia.
    + lia.
  - unfold ssize_limit. nia.
  - rewrite <- L, <- (flen_pack big _ _ Fph). cbn [flat_map]. rewrite <- app_assoc. apply read_at_mid.
Qed.

Lemma encode_interpreter s : wf_spec s ->
  interpreter (encode s) (elf_of s) = interp_result (encode s) (s_is64 s) (first_interp (s_is64 s) (s_phdrs s)).
Proof.
  intros [F G]. unfold interpreter, elf_of. cbn [capacity encoding e_phoff e_phentsize e_phnum].
  rewrite layout_of. unfold range_N. rewrite Nat2N.id.
  apply (scan_table (encode s) (s_is64 s) (s_big s) (s_payload s) (s_phdrs s)
           (ident_of s ++ pack (s_big s) (e_sizes (s_is64 s)) (hdr_of s)) 0); auto.
  - unfold encode, table_of. now rewrite <- !app_assoc.
  - rewrite flen_app, (flen_pack _ _ _ F). unfold flen. rewrite ident_len. lia.
  - (* e_phnum fits in 16 bits *)
    unfold hdr_of in F. destruct (s_is64 s); cbn [e_sizes fits] in F; decompose [and] F;
      match goal with H : N.of_nat (length (s_phdrs s)) < _ |- _ => cbn in H; lia end.
Qed.

(* the payload read back: an entry pointing at the payload yields exactly the payload (NULs stripped) *)
Lemma payload_read s : wf_spec s -> read_at (encode s) (payload_off s) (flen (s_payload s)) = s_payload s.
Proof.
  intros [F G]. unfold encode, payload_off.
  assert (TL : flen (table_of s) = total (p_sizes (s_is64 s)) * N.of_nat (length (s_phdrs s))).
  { unfold table_of. induction G as [|ph l Fph _ IH]; cbn [flat_map length]; [unfold flen; cbn; lia|].
    rewrite flen_app, IH, (flen_pack _ _ _ Fph). lia. }
  replace (16 + total (e_sizes (s_is64 s)) + total (p_sizes (s_is64 s)) * N.of_nat (length (s_phdrs s)))
    with (flen (ident_of s ++ pack (s_big s) (e_sizes (s_is64 s)) (hdr_of s) ++ table_of s)).
  - rewrite <- (app_nil_r (s_payload s)) at 1. rewrite !app_assoc. rewrite <- (app_assoc _ (s_payload s) []). apply read_at_mid.
  - rewrite !flen_app, TL, (flen_pack _ _ _ F). unfold flen. rewrite ident_len. lia.
Qed.
