(* C16 / C11 - ELFFile.interpreter over a regular file (open(path, "rb")), as the code is now.
   A regular file differs from io.BytesIO at extreme values: lseek refuses offsets beyond the filesystem's limit with OSError
   (and Python raises ValueError, not OverflowError, from 2^63 on), read(n) of an absurd n raises MemoryError (OverflowError
   close to 2^63).  The code treats all of them like the OverflowError of BytesIO: an unreadable program-header entry is
   skipped, an unreadable interpreter path is ELFInvalid.  The two limits are parameters (they depend on the filesystem and on
   the memory of the machine).  Definitions only (extracted); theorems in ElfDiskProofs.v. *)
From Coq Require Import List Arith NArith Bool.
Import ListNotations.
Require Import Elf ElfFile.
Open Scope N_scope.

Record file_limits := { seek_max : N;        (* the first offset f.seek refuses *)
                        read_max : N }.      (* the first size f.read refuses *)
(* io.BytesIO: both are 2^63 (Py_ssize_t) *)
Definition mem_limits : file_limits := {| seek_max := ssize_limit; read_max := ssize_limit |}.

Fixpoint scan_disk (lim : file_limits) (f : bytes) (is64 big : bool) (phoff entsize : N) (idxs : list N) : ires :=
  match idxs with
  | [] => INone
  | i :: more =>
      let pos := phoff + entsize * i in
      if seek_max lim <=? pos then scan_disk lim f is64 big phoff entsize more      (* OSError / ValueError / OverflowError -> continue *)
      else
      match unpack big (p_sizes is64) (read_at f pos (total (p_sizes is64))) with
      | None => scan_disk lim f is64 big phoff entsize more                         (* struct.error -> continue *)
      | Some data =>
          let '(it, io, isz) := p_idx is64 in
          if negb (nth it data 0 =? 3) then scan_disk lim f is64 big phoff entsize more
          else
            let off := nth io data 0 in let sz := nth isz data 0 in
            if (seek_max lim <=? off) || (read_max lim <=? sz) then IInvalid        (* OSError / ValueError / MemoryError / OverflowError -> ELFInvalid *)
            else ISome (strip_nul (read_at f off sz))
      end
  end.
Definition interpreter_disk (lim : file_limits) (f : bytes) (e : elf) : ires :=
  match layout (capacity e) (encoding e) with
  | None => INone
  | Some (is64, big) => scan_disk lim f is64 big (e_phoff e) (e_phentsize e) (range_N (e_phnum e))
  end.
