From Coq Require Import List Arith NArith Bool Lia.
Import ListNotations.
Require Import Elf.
Open Scope N_scope.

(* f.seek(pos); f.read(n) on an in-memory file: may return fewer than n bytes *)
Definition read_at (f : bytes) (pos n : nat) : bytes := firstn n (skipn pos f).
Definition total (sizes : list nat) : nat := fold_right Nat.add 0%nat sizes.
Fixpoint bytes_eqb (a b : bytes) : bool :=
  match a, b with [], [] => true | x :: a', y :: b' => (x =? y) && bytes_eqb a' b' | _, _ => false end.

Inductive res (A : Type) := Ok (a : A) | Invalid.       (* Invalid = ELFInvalid *)
Arguments Ok {A}. Arguments Invalid {A}.
Record elf := { capacity : N; encoding : N; machine : N; flags : N; e_phoff : N; e_phentsize : N; e_phnum : N }.

Definition layout (cap enc : N) : option (bool * bool) :=       (* (is64, big-endian) *)
  match cap, enc with 1, 1 => Some (false, false) | 1, 2 => Some (false, true) | 2, 1 => Some (true, false) | 2, 2 => Some (true, true) | _, _ => None end.
Definition magic : bytes := [127; 69; 76; 70].
(* ELFFile.__init__ *)
Definition parse_header (f : bytes) : res elf :=
  let ident := read_at f 0 16 in
  if negb (Nat.eqb (length ident) 16) then Invalid else
  if negb (bytes_eqb (firstn 4 ident) magic) then Invalid else
  let cap := nth 4 ident 0 in let enc := nth 5 ident 0 in
  match layout cap enc with
  | None => Invalid
  | Some (is64, big) =>
      match unpack big (e_sizes is64) (read_at f 16 (total (e_sizes is64))) with
      | Some [_; mach; _; _; phoff; _; fl; _; phentsize; phnum] =>
          Ok {| capacity := cap; encoding := enc; machine := mach; flags := fl; e_phoff := phoff; e_phentsize := phentsize; e_phnum := phnum |}
      | _ => Invalid
      end
  end.

(* ELFFile.interpreter: first PT_INTERP entry whose program header can be read completely *)
Fixpoint strip0 (b : bytes) : bytes := match b with 0 :: t => strip0 t | _ => b end.
Definition strip_nul (b : bytes) : bytes := rev (strip0 (rev (strip0 b))).
Fixpoint scan (f : bytes) (is64 big : bool) (phoff entsize : nat) (idxs : list nat) : option bytes :=
  match idxs with
  | [] => None
  | i :: more =>
      match unpack big (p_sizes is64) (read_at f (phoff + entsize * i) (total (p_sizes is64))) with
      | None => scan f is64 big phoff entsize more                                  (* struct.error: continue *)
      | Some data =>
          let '(it, io, isz) := p_idx is64 in
          if negb (nth it data 0 =? 3) then scan f is64 big phoff entsize more
          else Some (strip_nul (read_at f (N.to_nat (nth io data 0)) (N.to_nat (nth isz data 0))))
      end
  end.
Definition interpreter (f : bytes) (e : elf) : option bytes :=
  match layout (capacity e) (encoding e) with
  | None => None
  | Some (is64, big) => scan f is64 big (N.to_nat (e_phoff e)) (N.to_nat (e_phentsize e)) (seq 0 (N.to_nat (e_phnum e)))
  end.

Lemma fits_len sizes : forall vals, fits sizes vals -> length vals = length sizes.
Proof. induction sizes as [|k t IH]; intros [|v vt]; cbn; try tauto. intros [_ H]. f_equal. auto. Qed.
(* ---------------- "decode exactly what the file encodes" ---------------- *)
(* a file is described by what it holds at the offsets the ELF specification prescribes *)
Section File.
Variable f : bytes.
Variables is64 big : bool.
Variable hdr : list N.                    (* the 10 header fields after e_ident *)
Definition cap_of := if is64 then 2 else 1.
Definition enc_of := if big then 2 else 1.
Hypothesis ident_ok : read_at f 0 16 = magic ++ [cap_of; enc_of] ++ repeat 0 10.
Hypothesis hdr_fits : fits (e_sizes is64) hdr.
Hypothesis hdr_ok : read_at f 16 (total (e_sizes is64)) = pack big (e_sizes is64) hdr.

Theorem C16_header_decodes :
  parse_header f = Ok {| capacity := cap_of; encoding := enc_of; machine := nth 1 hdr 0; flags := nth 6 hdr 0;
                         e_phoff := nth 4 hdr 0; e_phentsize := nth 8 hdr 0; e_phnum := nth 9 hdr 0 |}.
Proof.
  unfold parse_header. rewrite ident_ok. cbn [app length repeat Nat.eqb negb firstn magic bytes_eqb nth].
  replace (bytes_eqb [127; 69; 76; 70] [127; 69; 76; 70]) with true by reflexivity. cbn [negb].
  assert (L : layout cap_of enc_of = Some (is64, big)) by (unfold cap_of, enc_of; destruct is64, big; reflexivity).
  rewrite L, hdr_ok, unpack_pack by assumption.
  assert (Len : length hdr = 10%nat).
  { rewrite (fits_len _ _ hdr_fits). destruct is64; reflexivity. }
  clear - Len. destruct hdr as [|h0 [|h1 [|h2 [|h3 [|h4 [|h5 [|h6 [|h7 [|h8 [|h9 [|h10 r]]]]]]]]]]]; try discriminate. reflexivity.
Qed.
End File.
Print Assumptions C16_header_decodes.
