From Coq Require Import List Arith NArith Bool Lia.
Import ListNotations.
Open Scope N_scope.

Definition byte := N.
Definition bytes := list byte.

(* struct.unpack("<H"/"<I"/"<Q"/">H"...): unsigned integers, little/big endian *)
Fixpoint le_dec (bs : bytes) : N := match bs with [] => 0 | b :: t => b + 256 * le_dec t end.
Definition be_dec (bs : bytes) : N := le_dec (rev bs).
Fixpoint le_enc (k : nat) (n : N) : bytes := match k with O => [] | S k' => (n mod 256) :: le_enc k' (n / 256) end.
Definition be_enc (k : nat) (n : N) : bytes := rev (le_enc k n).

Lemma le_enc_len k : forall n, length (le_enc k n) = k.
Proof. induction k; intros; cbn; auto. Qed.
Lemma le_dec_enc k : forall n, n < 256 ^ N.of_nat k -> le_dec (le_enc k n) = n.
Proof.
  induction k as [|k IH]; intros n H.
  - cbn in *. lia.
  - cbn [le_enc le_dec]. rewrite IH.
    + rewrite N.add_comm. symmetry. apply N.div_mod'.
    + rewrite Nat2N.inj_succ, N.pow_succ_r' in H. apply N.div_lt_upper_bound; lia.
Qed.
Lemma be_dec_enc k n : n < 256 ^ N.of_nat k -> be_dec (be_enc k n) = n.
Proof. intros. unfold be_dec, be_enc. rewrite rev_involutive. now apply le_dec_enc. Qed.

(* a field list read with a format string: sizes in bytes, one endianness *)
Definition dec (big : bool) (bs : bytes) : N := if big then be_dec bs else le_dec bs.
Definition enc (big : bool) (k : nat) (n : N) : bytes := if big then be_enc k n else le_enc k n.
Lemma enc_len big k n : length (enc big k n) = k.
Proof. destruct big; cbn; unfold be_enc; rewrite ?rev_length; apply le_enc_len. Qed.
Lemma dec_enc big k n : n < 256 ^ N.of_nat k -> dec big (enc big k n) = n.
Proof. destruct big; cbn; [apply be_dec_enc | apply le_dec_enc]. Qed.

(* struct.unpack(fmt, data) for a list of field sizes; None = struct.error (short read) *)
Fixpoint unpack (big : bool) (sizes : list nat) (bs : bytes) : option (list N) :=
  match sizes with
  | [] => match bs with [] => Some [] | _ => None end
  | k :: t => if Nat.ltb (length bs) k then None
              else match unpack big t (skipn k bs) with Some r => Some (dec big (firstn k bs) :: r) | None => None end
  end.
Fixpoint pack (big : bool) (sizes : list nat) (vals : list N) : bytes :=
  match sizes, vals with k :: t, v :: vt => enc big k v ++ pack big t vt | _, _ => [] end.
Fixpoint fits (sizes : list nat) (vals : list N) : Prop :=
  match sizes, vals with
  | [], [] => True | k :: t, v :: vt => v < 256 ^ N.of_nat k /\ fits t vt | _, _ => False end.
Lemma unpack_pack big sizes : forall vals, fits sizes vals -> unpack big sizes (pack big sizes vals) = Some vals.
Proof.
  induction sizes as [|k t IH]; intros [|v vt] F; cbn in F; try contradiction; auto.
  destruct F as [Fv Ft]. cbn [pack unpack].
  rewrite app_length, enc_len. replace (Nat.ltb (k + length (pack big t vt)) k) with false by (symmetry; apply Nat.ltb_ge; lia).
  rewrite skipn_app, enc_len, Nat.sub_diag. rewrite skipn_all2 by (rewrite enc_len; lia). cbn [skipn app].
  rewrite IH by assumption. rewrite firstn_app, enc_len, Nat.sub_diag. cbn [firstn]. rewrite app_nil_r.
  rewrite firstn_all2 by (rewrite enc_len; lia). now rewrite dec_enc.
Qed.
Print Assumptions unpack_pack.

(* the four header layouts of _elffile.py *)
Definition e_sizes (is64 : bool) : list nat := if is64 then [2;2;4;8;8;8;4;2;2;2]%nat else [2;2;4;4;4;4;4;2;2;2]%nat.
Definition p_sizes (is64 : bool) : list nat := if is64 then [4;4;8;8;8;8;8;8]%nat else [4;4;4;4;4;4;4;4]%nat.
Definition p_idx (is64 : bool) : nat * nat * nat := if is64 then (0, 2, 5)%nat else (0, 1, 4)%nat.
