(* C16 - executable model of src/packaging/_elffile.py (ELFFile.__init__, ELFFile.interpreter, as the code is now, i.e. with
   offsets too large to seek to treated as unreadable) over an in-memory file, plus an ELF encoder.
   The struct codec (pack/unpack, both endiannesses) and the four layouts are in Elf.v.  Definitions only. *)
From Coq Require Import List Arith NArith Bool.
Import ListNotations.
Require Import Elf.
Open Scope N_scope.

Definition flen (f : bytes) : N := N.of_nat (length f).
(* f.seek(pos); f.read(n) on io.BytesIO / a regular file, for pos, n below 2^63: may return fewer than n bytes *)
Definition read_at (f : bytes) (pos n : N) : bytes :=
  if flen f <=? pos then [] else firstn (N.to_nat (N.min n (flen f))) (skipn (N.to_nat pos) f).
(* seek()/read() arguments from 2^63 on raise OverflowError (Py_ssize_t) *)
Definition ssize_limit : N := 9223372036854775808.
Definition total (sizes : list nat) : N := N.of_nat (fold_right Nat.add 0%nat sizes).
Fixpoint bytes_eqb (a b : bytes) : bool :=
  match a, b with [], [] => true | x :: a', y :: b' => (x =? y) && bytes_eqb a' b' | _, _ => false end.

Inductive res (A : Type) := Ok (a : A) | Invalid.       (* Invalid = ELFInvalid (a ValueError) *)
Arguments Ok {A}. Arguments Invalid {A}.
Record elf := { capacity : N; encoding : N; machine : N; flags : N; e_phoff : N; e_phentsize : N; e_phnum : N }.

(* the dict lookup on (capacity, encoding): (is64, big-endian) *)
Definition layout (cap enc : N) : option (bool * bool) :=
  if (cap =? 1) && (enc =? 1) then Some (false, false) else if (cap =? 1) && (enc =? 2) then Some (false, true)
  else if (cap =? 2) && (enc =? 1) then Some (true, false) else if (cap =? 2) && (enc =? 2) then Some (true, true) else None.
Definition magic : bytes := [127; 69; 76; 70].
(* ELFFile.__init__: two sequential reads from position 0 *)
Definition parse_header (f : bytes) : res elf :=
  let ident := read_at f 0 16 in
  if negb (Nat.eqb (length ident) 16) then Invalid else
  if negb (bytes_eqb (firstn 4 ident) magic) then Invalid else
  let cap := nth 4 ident 0 in let enc := nth 5 ident 0 in
  match layout cap enc with
  | None => Invalid
  | Some (is64, big) =>
      match unpack big (e_sizes is64) (read_at f 16 (total (e_sizes is64))) with
      | Some [_; mach; _; _; phoff; _; fl; _; phentsize; phnum] =>
          Ok {| capacity := cap; encoding := enc; machine := mach; flags := fl; e_phoff := phoff; e_phentsize := phentsize; e_phnum := phnum |}
      | _ => Invalid
      end
  end.

(* str.strip("\0") after os.fsdecode (a NUL byte and only a NUL byte decodes to U+0000) *)
Fixpoint strip0 (b : bytes) : bytes := match b with [] => [] | c :: t => if c =? 0 then strip0 t else b end.
Definition strip_nul (b : bytes) : bytes := rev (strip0 (rev (strip0 b))).

(* ELFFile.interpreter: None | path | ELFInvalid *)
Inductive ires := INone | ISome (path : bytes) | IInvalid.
Fixpoint scan (f : bytes) (is64 big : bool) (phoff entsize : N) (idxs : list N) : ires :=
  match idxs with
  | [] => INone
  | i :: more =>
      let pos := phoff + entsize * i in
      if ssize_limit <=? pos then scan f is64 big phoff entsize more                (* seek: OverflowError -> continue *)
      else
      match unpack big (p_sizes is64) (read_at f pos (total (p_sizes is64))) with
      | None => scan f is64 big phoff entsize more                                  (* struct.error -> continue *)
      | Some data =>
          let '(it, io, isz) := p_idx is64 in
          if negb (nth it data 0 =? 3) then scan f is64 big phoff entsize more      (* not PT_INTERP *)
          else
            let off := nth io data 0 in let sz := nth isz data 0 in
            if (ssize_limit <=? off) || (ssize_limit <=? sz) then IInvalid          (* OverflowError -> ELFInvalid *)
            else ISome (strip_nul (read_at f off sz))
      end
  end.
Fixpoint range_from (k : nat) (start : N) : list N := match k with O => [] | S k' => start :: range_from k' (start + 1) end.
Definition range_N (n : N) : list N := range_from (N.to_nat n) 0.          (* range(e_phnum) *)
Definition interpreter (f : bytes) (e : elf) : ires :=
  match layout (capacity e) (encoding e) with
  | None => INone
  | Some (is64, big) => scan f is64 big (e_phoff e) (e_phentsize e) (range_N (e_phnum e))
  end.

(* ---- an ELF encoder: identification, header, a program-header table at e_phoff with stride e_phentsize, payload bytes ---- *)
Fixpoint write_at (f : bytes) (pos : nat) (data : bytes) : bytes :=        (* overwrite, extending with zeros *)
  match pos with
  | O => data ++ skipn (length data) f
  | S p => match f with [] => 0 :: write_at [] p data | b :: t => b :: write_at t p data end
  end.
Record elf_spec := { s_is64 : bool; s_big : bool; s_pad : bytes;           (* 10 bytes after EI_DATA *)
                     s_hdr : list N;                                       (* the 10 header fields *)
                     s_phdrs : list (list N);                              (* 8 fields each *)
                     s_blobs : list (nat * bytes) }.                       (* (offset, bytes) written last *)
Definition ident_of (s : elf_spec) : bytes :=
  magic ++ [if s_is64 s then 2 else 1; if s_big s then 2 else 1] ++ firstn 10 (s_pad s ++ repeat 0 10).
Fixpoint write_phdrs (f : bytes) (big : bool) (sizes : list nat) (pos stride : nat) (phs : list (list N)) : bytes :=
  match phs with [] => f | ph :: more => write_phdrs (write_at f pos (pack big sizes ph)) big sizes (pos + stride) stride more end.
Definition encode (s : elf_spec) : bytes :=
  let base := ident_of s ++ pack (s_big s) (e_sizes (s_is64 s)) (s_hdr s) in
  let f1 := write_phdrs base (s_big s) (p_sizes (s_is64 s)) (N.to_nat (nth 4 (s_hdr s) 0)) (N.to_nat (nth 8 (s_hdr s) 0)) (s_phdrs s) in
  fold_left (fun f ob => write_at f (fst ob) (snd ob)) (s_blobs s) f1.
