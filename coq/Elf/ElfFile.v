(* C16 - executable model of src/packaging/_elffile.py (ELFFile.__init__, ELFFile.interpreter, as the code is now, i.e. with
   offsets too large to seek to treated as unreadable) over an in-memory file, plus an ELF encoder.
   The struct codec (pack/unpack, both endiannesses) and the four layouts are in Elf.v.  Definitions only. *)
From Coq Require Import List Arith NArith Bool.
Import ListNotations.
Require Import Elf.
Open Scope N_scope.

Definition flen (f : bytes) : N := N.of_nat (length f).
(* f.seek(pos); f.read(n) on io.BytesIO / a regular file, for pos, n below 2^63: may return fewer than n bytes *)
Definition read_at (f : bytes) (pos n : N) : bytes :=
  if flen f <=? pos then [] else firstn (N.to_nat (N.min n (flen f))) (skipn (N.to_nat pos) f).
(* seek()/read() arguments from 2^63 on raise OverflowError (Py_ssize_t) *)
Definition ssize_limit : N := 9223372036854775808.
Definition total (sizes : list nat) : N := N.of_nat (fold_right Nat.add 0%nat sizes).
Fixpoint bytes_eqb (a b : bytes) : bool :=
  match a, b with [], [] => true | x :: a', y :: b' => (x =? y) && bytes_eqb a' b' | _, _ => false end.

Inductive res (A : Type) := Ok (a : A) | Invalid.       (* Invalid = ELFInvalid (a ValueError) *)
Arguments Ok {A}. Arguments Invalid {A}.
Record elf := { capacity : N; encoding : N; machine : N; flags : N; e_phoff : N; e_phentsize : N; e_phnum : N }.

(* the dict lookup on (capacity, encoding): (is64, big-endian) *)
Definition layout (cap enc : N) : option (bool * bool) :=
  if (cap =? 1) && (enc =? 1) then Some (false, false) else if (cap =? 1) && (enc =? 2) then Some (false, true)
  else if (cap =? 2) && (enc =? 1) then Some (true, false) else if (cap =? 2) && (enc =? 2) then Some (true, true) else None.
Definition magic : bytes := [127; 69; 76; 70].
(* ELFFile.__init__: two sequential reads from position 0 *)
Definition parse_header (f : bytes) : res elf :=
  let ident := read_at f 0 16 in
  if negb (Nat.eqb (length ident) 16) then Invalid else
  if negb (bytes_eqb (firstn 4 ident) magic) then Invalid else
  let cap := nth 4 ident 0 in let enc := nth 5 ident 0 in
  match layout cap enc with
  | None => Invalid
  | Some (is64, big) =>
      match unpack big (e_sizes is64) (read_at f 16 (total (e_sizes is64))) with
      | Some [_; mach; _; _; phoff; _; fl; _; phentsize; phnum] =>
          Ok {| capacity := cap; encoding := enc; machine := mach; flags := fl; e_phoff := phoff; e_phentsize := phentsize; e_phnum := phnum |}
      | _ => Invalid
      end
  end.

(* str.strip("\0") after os.fsdecode (a NUL byte and only a NUL byte decodes to U+0000) *)
Fixpoint strip0 (b : bytes) : bytes := match b with [] => [] | c :: t => if c =? 0 then strip0 t else b end.
Definition strip_nul (b : bytes) : bytes := rev (strip0 (rev (strip0 b))).

(* ELFFile.interpreter: None | path | ELFInvalid *)
Inductive ires := INone | ISome (path : bytes) | IInvalid.
Fixpoint scan (f : bytes) (is64 big : bool) (phoff entsize : N) (idxs : list N) : ires :=
  match idxs with
  | [] => INone
  | i :: more =>
      let pos := phoff + entsize * i in
      if ssize_limit <=? pos then scan f is64 big phoff entsize more                (* seek: OverflowError -> continue *)
      else
      match unpack big (p_sizes is64) (read_at f pos (total (p_sizes is64))) with
      | None => scan f is64 big phoff entsize more                                  (* struct.error -> continue *)
      | Some data =>
          let '(it, io, isz) := p_idx is64 in
          if negb (nth it data 0 =? 3) then scan f is64 big phoff entsize more      (* not PT_INTERP *)
          else
            let off := nth io data 0 in let sz := nth isz data 0 in
            if (ssize_limit <=? off) || (ssize_limit <=? sz) then IInvalid          (* OverflowError -> ELFInvalid *)
            else ISome (strip_nul (read_at f off sz))
      end
  end.
Fixpoint range_from (k : nat) (start : N) : list N := match k with O => [] | S k' => start :: range_from k' (start + 1) end.
Definition range_N (n : N) : list N := range_from (N.to_nat n) 0.          (* range(e_phnum) *)
Definition interpreter (f : bytes) (e : elf) : ires :=
  match layout (capacity e) (encoding e) with
  | None => INone
  | Some (is64, big) => scan f is64 big (e_phoff e) (e_phentsize e) (range_N (e_phnum e))
  end.

(* ---- an ELF encoder (canonical contiguous layout): identification, header, program-header table right after the header
   with stride = entry size, then payload bytes.  e_phoff / e_phentsize / e_phnum are filled in by the encoder. ---- *)
Record elf_spec := { s_is64 : bool; s_big : bool; s_pad : bytes;           (* EI_VERSION .. EI_PAD: the 10 bytes after EI_DATA *)
                     s_type : N; s_machine : N; s_version : N; s_entry : N; s_shoff : N; s_flags : N; s_ehsize : N;
                     s_phdrs : list (list N);                              (* 8 fields each, in the layout's field order *)
                     s_payload : bytes }.
Definition cap_of (is64 : bool) : N := if is64 then 2 else 1.
Definition enc_of (big : bool) : N := if big then 2 else 1.
Definition ident_of (s : elf_spec) : bytes := magic ++ [cap_of (s_is64 s); enc_of (s_big s)] ++ firstn 10 (s_pad s ++ repeat 0 10%nat).
Definition hdr_of (s : elf_spec) : list N :=
  [s_type s; s_machine s; s_version s; s_entry s; 16 + total (e_sizes (s_is64 s)); s_shoff s; s_flags s; s_ehsize s;
   total (p_sizes (s_is64 s)); N.of_nat (length (s_phdrs s))].
Definition table_of (s : elf_spec) : bytes := flat_map (pack (s_big s) (p_sizes (s_is64 s))) (s_phdrs s).
Definition encode (s : elf_spec) : bytes :=
  ident_of s ++ pack (s_big s) (e_sizes (s_is64 s)) (hdr_of s) ++ table_of s ++ s_payload s.
(* where the payload starts *)
Definition payload_off (s : elf_spec) : N :=
  16 + total (e_sizes (s_is64 s)) + total (p_sizes (s_is64 s)) * N.of_nat (length (s_phdrs s)).
