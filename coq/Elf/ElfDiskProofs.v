(* C16 / C11 - theorems about the program-header scan: (1) the in-memory scan is the disk scan at the Py_ssize_t limits, and a
   disk scan whose touched offsets/sizes stay below the limits answers what the in-memory scan answers; ELFFile.interpreter has
   exactly three outcomes (None, a path, ELFInvalid) in both - no other exception; (2) the general table theorem: ANY table
   (any e_phoff, any stride e_phentsize) whose entries up to the first PT_INTERP are present in the file is decoded to
   "the first PT_INTERP entry decides". *)
From Coq Require Import List Arith NArith Bool Lia.
Import ListNotations.
Require Import Elf ElfFile ElfProofs ElfDisk.
Open Scope N_scope.
Arguments N.eqb : simpl never.
Arguments N.leb : simpl never.

(* ---------------------------------------------------------------- memory = disk at the Py_ssize_t limits *)
Lemma scan_is_scan_disk f is64 big phoff entsize idxs : scan f is64 big phoff entsize idxs = scan_disk mem_limits f is64 big phoff entsize idxs.
Proof. induction idxs as [|i more IH]; [reflexivity|]. cbn [scan scan_disk mem_limits seek_max read_max]. rewrite IH. reflexivity. Qed.
Lemma interpreter_is_disk f e : interpreter f e = interpreter_disk mem_limits f e.
Proof. unfold interpreter, interpreter_disk. destruct (layout _ _) as [[is64 big]|]; [apply scan_is_scan_disk | reflexivity]. Qed.

(* ---------------------------------------------------------------- a disk scan that stays below the limits *)
(* what the scan touches at index i: the entry position, and - if the entry there is a readable PT_INTERP - its offset and size *)
Definition entry_within (lim : file_limits) (f : bytes) (is64 big : bool) (pos : N) : Prop :=
  pos < seek_max lim /\
  match unpack big (p_sizes is64) (read_at f pos (total (p_sizes is64))) with
  | Some data => nth (fst (fst (p_idx is64))) data 0 = 3 ->
                 nth (snd (fst (p_idx is64))) data 0 < seek_max lim /\ nth (snd (p_idx is64)) data 0 < read_max lim
  | None => True
  end.
Lemma scan_disk_within lim f is64 big phoff entsize idxs :
  seek_max lim <= ssize_limit -> read_max lim <= ssize_limit ->
  Forall (fun i => entry_within lim f is64 big (phoff + entsize * i)) idxs ->
  scan_disk lim f is64 big phoff entsize idxs = scan f is64 big phoff entsize idxs.
Proof.
  intros S R. induction 1 as [|i more [Hpos Hent] _ IH]; [reflexivity|]. cbn [scan scan_disk].
  destruct (N.leb_spec (seek_max lim) (phoff + entsize * i)); [lia|]. destruct (N.leb_spec ssize_limit (phoff + entsize * i)); [lia|].
  destruct (unpack big (p_sizes is64) _) as [data|]; [|exact IH].
  destruct is64; cbn [p_idx fst snd] in *;
    (match goal with |- context [nth ?k data 0 =? 3] => destruct (N.eqb_spec (nth k data 0) 3) as [E|E] end; cbn [negb]; [|exact IH];
     destruct (Hent E) as [H1 H2];
     repeat match goal with |- context [?a <=? ?b] => destruct (N.leb_spec a b); try lia end; reflexivity).
Qed.
Theorem interpreter_disk_within lim f e is64 big :
  layout (capacity e) (encoding e) = Some (is64, big) ->
  seek_max lim <= ssize_limit -> read_max lim <= ssize_limit ->
  Forall (fun i => entry_within lim f is64 big (e_phoff e + e_phentsize e * i)) (range_N (e_phnum e)) ->
  interpreter_disk lim f e = interpreter f e.
Proof. intros L S R H. unfold interpreter_disk, interpreter. rewrite L. now apply scan_disk_within. Qed.
(* beyond the limits the two differ, and the disk answer is the rejection: a PT_INTERP entry whose offset the file cannot seek to *)
Lemma scan_disk_interp_unreadable lim f is64 big phoff entsize i more ph :
  phoff + entsize * i < seek_max lim -> fits (p_sizes is64) ph ->
  read_at f (phoff + entsize * i) (total (p_sizes is64)) = pack big (p_sizes is64) ph ->
  ph_type is64 ph = 3 -> (seek_max lim <= ph_off is64 ph \/ read_max lim <= ph_size is64 ph) ->
  scan_disk lim f is64 big phoff entsize (i :: more) = IInvalid.
Proof.
  intros Hpos F R T B. cbn [scan_disk]. destruct (N.leb_spec (seek_max lim) (phoff + entsize * i)); [lia|].
  rewrite R, unpack_pack by assumption. unfold ph_type, ph_off, ph_size in *.
  destruct is64; cbn [p_idx fst snd] in *; rewrite T; cbn [N.eqb negb];
    (replace (3 =? 3) with true by reflexivity); cbn [negb];
    destruct B as [B|B]; repeat match goal with |- context [?a <=? ?b] => destruct (N.leb_spec a b); try lia end; reflexivity.
Qed.

(* ---------------------------------------------------------------- the general program-header table theorem *)
(* the entries of [phs] are in the file at phoff + entsize * (start + k), k = 0, 1, ... (positions below the seek limit B):
   required only up to and including the first PT_INTERP entry (what lies behind it is never read) *)
Fixpoint table_within (B : N) (f : bytes) (is64 big : bool) (phoff entsize start : N) (phs : list (list N)) : Prop :=
  match phs with
  | [] => True
  | ph :: more =>
      phoff + entsize * start < B /\ fits (p_sizes is64) ph /\
      read_at f (phoff + entsize * start) (total (p_sizes is64)) = pack big (p_sizes is64) ph /\
      (ph_type is64 ph <> 3 -> table_within B f is64 big phoff entsize (start + 1) more)
  end.
Definition table_at := table_within ssize_limit.
Theorem scan_any_table f is64 big phoff entsize : forall phs start,
  table_at f is64 big phoff entsize start phs ->
  scan f is64 big phoff entsize (range_from (length phs) start) = interp_result f is64 (first_interp is64 phs).
Proof.
  induction phs as [|ph more IH]; intros start T; [reflexivity|]. cbn [length]. rewrite range_from_succ.
  destruct T as (Hpos & F & R & Rest). rewrite (scan_step_packed _ _ _ _ _ _ _ ph Hpos F R). cbn [first_interp].
  destruct (N.eqb_spec (ph_type is64 ph) 3) as [E|E]; [reflexivity|]. apply IH. now apply Rest.
Qed.
Theorem interpreter_any_table f e is64 big phs :
  layout (capacity e) (encoding e) = Some (is64, big) -> e_phnum e = N.of_nat (length phs) ->
  table_at f is64 big (e_phoff e) (e_phentsize e) 0 phs ->
  interpreter f e = interp_result f is64 (first_interp is64 phs).
Proof.
  intros L Nn T. unfold interpreter. rewrite L. unfold range_N. rewrite Nn, Nat2N.id. now apply scan_any_table.
Qed.
(* the same over a regular file *)
Definition interp_result_disk (lim : file_limits) (f : bytes) (is64 : bool) (o : option (list N)) : ires :=
  match o with
  | None => INone
  | Some ph => if (seek_max lim <=? ph_off is64 ph) || (read_max lim <=? ph_size is64 ph) then IInvalid
               else ISome (strip_nul (read_at f (ph_off is64 ph) (ph_size is64 ph)))
  end.
Lemma scan_disk_step_packed lim f is64 big phoff entsize i more ph :
  phoff + entsize * i < seek_max lim -> fits (p_sizes is64) ph ->
  read_at f (phoff + entsize * i) (total (p_sizes is64)) = pack big (p_sizes is64) ph ->
  scan_disk lim f is64 big phoff entsize (i :: more) =
  if ph_type is64 ph =? 3 then interp_result_disk lim f is64 (Some ph) else scan_disk lim f is64 big phoff entsize more.
Proof.
  intros Hpos F R. cbn [scan_disk]. destruct (N.leb_spec (seek_max lim) (phoff + entsize * i)); [lia|].
  rewrite R, unpack_pack by assumption. unfold ph_type, ph_off, ph_size, interp_result_disk.
  destruct is64; cbn [p_idx fst snd]; match goal with |- context [nth ?k ph 0 =? 3] => destruct (nth k ph 0 =? 3) end; reflexivity.
Qed.
Theorem scan_disk_any_table lim f is64 big phoff entsize : forall phs start,
  table_within (seek_max lim) f is64 big phoff entsize start phs ->
  scan_disk lim f is64 big phoff entsize (range_from (length phs) start) = interp_result_disk lim f is64 (first_interp is64 phs).
Proof.
  induction phs as [|ph more IH]; intros start T; [reflexivity|]. cbn [length]. rewrite range_from_succ.
  destruct T as (Hpos & F & R & Rest). rewrite (scan_disk_step_packed _ _ _ _ _ _ _ _ ph Hpos F R). cbn [first_interp].
  destruct (N.eqb_spec (ph_type is64 ph) 3) as [E|E]; [reflexivity|]. apply IH. now apply Rest.
Qed.
Lemma table_within_le B B' f is64 big phoff entsize : B <= B' -> forall phs start,
  table_within B f is64 big phoff entsize start phs -> table_within B' f is64 big phoff entsize start phs.
Proof.
  intros L. induction phs as [|ph more IH]; intros start T; [exact I|]. destruct T as (H1 & H2 & H3 & H4).
  cbn [table_within]. split; [lia|]. split; [assumption|]. split; [assumption|]. intros E. apply IH. auto.
Qed.
(* the encoder's images are such tables (contiguous layout); all positions are below 2^22 *)
Lemma encoded_table_within (file : bytes) is64 big (P : bytes) : forall phs pre start,
  file = pre ++ flat_map (pack big (p_sizes is64)) phs ++ P ->
  flen pre = (16 + total (e_sizes is64)) + total (p_sizes is64) * start ->
  Forall (fits (p_sizes is64)) phs -> start + N.of_nat (length phs) <= 65536 ->
  table_within 4194304 file is64 big (16 + total (e_sizes is64)) (total (p_sizes is64)) start phs.
Proof.
  induction phs as [|ph more IH]; intros pre start E L F B; [exact I|].
  inversion F as [|? ? Fph Fmore]; subst. cbn [length] in B.
  assert (T : total (e_sizes is64) <= 48 /\ total (p_sizes is64) <= 56) by (destruct is64; cbv; split; discriminate).
  cbn [table_within]. split; [nia|]. split; [assumption|]. split.
  - rewrite <- L, <- (flen_pack big _ _ Fph). cbn [flat_map]. rewrite <- app_assoc. apply read_at_mid.
  - intros _. apply (IH (pre ++ pack big (p_sizes is64) ph) (start + 1)); auto.
    + cbn [flat_map]. now rewrite <- !app_assoc.
    + rewrite flen_app, L, (flen_pack _ _ _ Fph). lia.
    + lia.
Qed.
Lemma encode_table_within s : wf_spec s ->
  table_within 4194304 (encode s) (s_is64 s) (s_big s) (16 + total (e_sizes (s_is64 s))) (total (p_sizes (s_is64 s))) 0 (s_phdrs s).
Proof.
  intros [F G]. apply (encoded_table_within (encode s) (s_is64 s) (s_big s) (s_payload s) (s_phdrs s)
                         (ident_of s ++ pack (s_big s) (e_sizes (s_is64 s)) (hdr_of s)) 0); auto.
  - unfold encode, table_of. now rewrite <- !app_assoc.
  - rewrite flen_app, (flen_pack _ _ _ F). unfold flen. rewrite ident_len. lia.
  - unfold hdr_of in F. destruct (s_is64 s); cbn [e_sizes fits] in F; decompose [and] F;
      match goal with H : N.of_nat (length (s_phdrs s)) < _ |- _ => cbn in H; lia end.
Qed.
Theorem encode_interpreter_disk lim s : wf_spec s -> 4194304 <= seek_max lim ->
  interpreter_disk lim (encode s) (elf_of s) = interp_result_disk lim (encode s) (s_is64 s) (first_interp (s_is64 s) (s_phdrs s)).
Proof.
  intros W L. unfold interpreter_disk, elf_of. cbn [capacity encoding e_phoff e_phentsize e_phnum].
  rewrite layout_of. unfold range_N. rewrite Nat2N.id. apply scan_disk_any_table.
  eapply table_within_le; [exact L | now apply encode_table_within].
Qed.
(* a declared count larger than the table: the entries behind the table that cannot be read completely are skipped *)
Lemma scan_app f is64 big phoff entsize a b :
  scan f is64 big phoff entsize (a ++ b) =
  match scan f is64 big phoff entsize a with INone => scan f is64 big phoff entsize b | r => r end.
Proof.
  induction a as [|i a IH]; [reflexivity|]. cbn [app scan]. destruct (ssize_limit <=? phoff + entsize * i); [exact IH|].
  destruct (unpack big (p_sizes is64) _) as [data|]; [|exact IH]. destruct (p_idx is64) as [[it io] isz].
  destruct (negb (nth it data 0 =? 3)); [exact IH|]. destruct ((ssize_limit <=? nth io data 0) || (ssize_limit <=? nth isz data 0)); reflexivity.
Qed.
