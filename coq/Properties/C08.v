(* C08 placeholder - replaced below by the real statements *)
From Coq Require Import List NArith Bool.
Import ListNotations.
Require Import ReqModel.
Open Scope N_scope.
Theorem C08_placeholder : rq_strip [32;49;32] = [49].
Proof. reflexivity. Qed.
Print Assumptions C08_placeholder.
