(* C08  Requirement parsing decomposes PEP 508 strings faithfully.

   Model (coq/Req/ReqModel.v): the tokenizer rules and the recursive-descent requirement grammar of _parser.py/_tokenizer.py as the
   functions rq_ident / rq_spec_tok / rq_extras / rq_specifier / rq_details / rq_parse, Requirement.__init__ (SpecifierSet of the clause
   text, literal_eval boundary and _normalize_extra_values of the marker), req_str = __str__, req_eq = __eq__, req_key = what __hash__ hashes.
   Spec (coq/Req/ReqSpec.v): a requirement AS SPELLED (rq_spelled: name, extras, clauses - parenthesised or not - or "@ url", marker
   text, and a blank string at every place where PEP 508 allows whitespace) and its rendering rq_render.
   The marker grammar (MText.p_marker) is used as a black box: the marker text is any text the stand-alone marker parser accepts.

   Known gap D7 (kept as a finding, excluded by the hypotheses rq_no_d7 / rq_no_gap): a "===" clause directly followed by a comma.
   Round 5 (second half of this file): the str round trip holds for EVERY constructed requirement (theorem 7', no rq_no_gap); D7 is
   characterised exactly (theorem 13: decomposition under rq_d7_ok, rejection on the whole complementary class); theorem 2' states the
   decomposition on the grammars (marker grammar RList, PEP 440 clause grammar wf_spelling); 3' links the clause set to SetsModel.
   The marker side of the str round trip (hypothesis rq_marker_rt of C08_str_roundtrip) is the round-trip clause of C09; it is discharged
   in C08_str_roundtrip_all by the marker domain's theorem MkRoundP.parsed_marker_roundtrip. *)
From Coq Require Import List Arith NArith Bool Lia.
Import ListNotations.
Require Import MText MkModel.
Require Names.
Require Import VParse SpecParse SpecSound SpecContains.
Require Import VComplete VTop VTop2.
Require Import ReqModel ReqSpec ReqScanP ReqTokP ReqListP ReqMarkP ReqParseP ReqSetP ReqTopP ReqEqP ReqSoundP ReqRoundP ReqPep440P ReqRoundFullP.
Require Import MkLayoutP MkLexP SetsModel Sorted.
Require Import ReqCanonP ReqSetsLinkP ReqClauseP ReqStrFormP ReqGrammarP ReqExactP ReqMarkerEqP ReqExtraP ReqGrammarXP.
Require MkEval.
Open Scope N_scope.

(* 1. however whitespace is laid out, the grammar recovers name, extras, the text of exactly the clause list, URL and the marker as the
      stand-alone marker parser reads the same text *)
Theorem C08_parse_render sp m : rq_wf sp m -> rq_parse (rq_render sp) = Some (rq_expected sp m).
Proof. exact (parse_render sp m). Qed.
Print Assumptions C08_parse_render.

(* 2. ... and Requirement() builds exactly: that name, those extras, the SpecifierSet of exactly those clauses, that URL, that marker
      (extra names normalised) *)
Theorem C08_requirement_render sp m : rq_wf sp m -> rq_lits_ok m ->
  Requirement (rq_render sp) =
  RqOk {| q_name := rs_name sp; q_extras := rq_sp_extras sp; q_specs := map rq_clause_spec (rq_sp_clauses sp);
          q_url := rq_opt_url (rq_sp_url sp); q_marker := option_map norm_l m |}.
Proof. exact (Requirement_render sp m). Qed.
Print Assumptions C08_requirement_render.

(* 3. the clause list text is split back into exactly the clauses, each read as the Specifier it denotes *)
Theorem C08_specifier_set_exact cls : Forall rq_wf_clause cls ->
  rq_specset (rq_join [44] (map rq_clause_text cls)) = Some (map rq_clause_spec cls).
Proof. exact (specset_clauses cls). Qed.
Print Assumptions C08_specifier_set_exact.

(* 4. the marker of the requirement equals the Marker built from the same text *)
Theorem C08_marker_is_Marker sp mt m : rq_wf sp (Some m) -> rs_marker sp = Some mt -> lit_class m = LOk ->
  Marker mt = MOk (norm_l m) /\ exists r, Requirement (rq_render sp) = RqOk r /\ q_marker r = Some (norm_l m).
Proof. exact (Requirement_marker_is_Marker sp mt m). Qed.
Print Assumptions C08_marker_is_Marker.

(* 5. a URL and a version list are mutually exclusive (for every input string) *)
Theorem C08_url_xor_spec src r : Requirement src = RqOk r -> q_url r = None \/ q_specs r = [].
Proof. exact (Requirement_url_xor_spec src r). Qed.
Print Assumptions C08_url_xor_spec.

(* 6. a marker after a URL needs separating whitespace: without it, ";..." up to the next blank belongs to the URL *)
Theorem C08_url_marker_needs_ws name u x : rq_valid_ident name = true -> u <> [] -> forallb rq_not_blank u = true -> forallb rq_not_blank x = true ->
  rq_parse (name ++ 32 :: 64 :: 32 :: u ++ 59 :: x) =
  Some {| pr_name := name; pr_url := u ++ 59 :: x; pr_extras := []; pr_spec := []; pr_marker := None |}.
Proof.
  intros Hn Hu Hb Hx.
  pose (sp := {| rs_w0 := []; rs_name := name; rs_w1 := [32]; rs_extras := None; rs_w2 := []; rs_body := SB_url [32] (u ++ 59 :: x);
                 rs_w3 := []; rs_marker := None |}).
  assert (W : rq_wf sp None).
  { unfold rq_wf, sp; cbn. repeat split; auto; try discriminate.
    - destruct u; discriminate.
    - rewrite forallb_app. cbn [forallb]. now rewrite Hb, Hx. }
  pose proof (parse_render sp None W) as P. unfold rq_render, sp in P. cbn [rs_w0 rs_name rs_w1 rs_extras rs_w2 rs_body rs_w3 rs_marker rq_body_text app] in P.
  rewrite !app_nil_r in P. cbn [app] in P. exact P.
Qed.
Print Assumptions C08_url_marker_needs_ws.
(* ... and with it, it is the marker *)
Theorem C08_url_marker_with_ws name u w mt m : rq_valid_ident name = true -> u <> [] -> forallb rq_not_blank u = true ->
  w <> [] -> rq_blank w = true -> MText.parse_marker mt = Some m ->
  rq_parse (name ++ 32 :: 64 :: 32 :: u ++ w ++ 59 :: mt) =
  Some {| pr_name := name; pr_url := u; pr_extras := []; pr_spec := []; pr_marker := Some m |}.
Proof.
  intros Hn Hu Hb Hw Hwb Hm.
  pose (sp := {| rs_w0 := []; rs_name := name; rs_w1 := [32]; rs_extras := None; rs_w2 := []; rs_body := SB_url [32] u;
                 rs_w3 := w; rs_marker := Some mt |}).
  assert (W : rq_wf sp (Some m)) by (unfold rq_wf, sp; cbn; repeat split; auto).
  pose proof (parse_render sp (Some m) W) as P. unfold rq_render, sp in P. cbn [rs_w0 rs_name rs_w1 rs_extras rs_w2 rs_body rs_w3 rs_marker rq_body_text app] in P.
  rewrite <- ?app_assoc in P. exact P.
Qed.
Print Assumptions C08_url_marker_with_ws.

(* 7. str(r) of every constructed requirement parses back to an equal requirement with the same string *)
Theorem C08_str_roundtrip src r : Requirement src = RqOk r -> rq_no_gap r -> rq_marker_rt (q_marker r) ->
  exists r', Requirement (req_str r) = RqOk r' /\ req_eq r r' = true /\ req_str r' = req_str r.
Proof. exact (str_roundtrip src r). Qed.
Print Assumptions C08_str_roundtrip.
(* ... for every constructed requirement, once the marker domain's round-trip theorem (C09: MkRoundP.parsed_marker_roundtrip,
   statement rq_c09_roundtrip) is supplied *)
Theorem C08_str_roundtrip_given_C09 : rq_c09_roundtrip ->
  forall src r, Requirement src = RqOk r -> rq_no_gap r ->
  exists r', Requirement (req_str r) = RqOk r' /\ req_eq r r' = true /\ req_str r' = req_str r.
Proof. exact str_roundtrip_given_c09. Qed.
Print Assumptions C08_str_roundtrip_given_C09.
(* ... and with the marker domain's theorem MkRoundP.parsed_marker_roundtrip plugged in: every constructed requirement outside the
   known gap D7 *)
Theorem C08_str_roundtrip_all src r : Requirement src = RqOk r -> rq_no_gap r ->
  exists r', Requirement (req_str r) = RqOk r' /\ req_eq r r' = true /\ req_str r' = req_str r.
Proof. exact (str_roundtrip_full src r). Qed.
Print Assumptions C08_str_roundtrip_all.
Corollary C08_str_roundtrip_no_marker src r : Requirement src = RqOk r -> rq_no_gap r -> q_marker r = None ->
  exists r', Requirement (req_str r) = RqOk r' /\ req_eq r r' = true /\ req_str r' = req_str r.
Proof. intros H G M. apply (str_roundtrip src r H G). now rewrite M. Qed.
Print Assumptions C08_str_roundtrip_no_marker.

(* 8. equality: names per PEP 503, extras as sets, clause sets per specifier equality (operator + canonical version), URL, marker string *)
Theorem C08_eq_semantics a b : req_eq a b = true <->
  Names.canon_name (q_name a) = Names.canon_name (q_name b) /\
  (forall e, In e (q_extras a) <-> In e (q_extras b)) /\
  (forall k, In k (map rq_ckey (q_specs a)) <-> In k (map rq_ckey (q_specs b))) /\
  q_url a = q_url b /\
  option_map format_marker (q_marker a) = option_map format_marker (q_marker b).
Proof. exact (req_eq_semantics a b). Qed.
Print Assumptions C08_eq_semantics.
Theorem C08_spec_key_is_pair a b : rq_ckey a = rq_ckey b <-> sp_op a = sp_op b /\ rq_ctext a = rq_ctext b.
Proof. exact (ckey_inj a b). Qed.
Print Assumptions C08_spec_key_is_pair.
(* 9. __eq__ is equality of the key that __hash__ hashes: an equivalence relation, and equal requirements have equal hashes *)
Theorem C08_eq_is_key a b : req_eq a b = true <-> req_key a = req_key b.
Proof. exact (req_eq_key a b). Qed.
Print Assumptions C08_eq_is_key.
Theorem C08_eq_equivalence : (forall a, req_eq a a = true) /\ (forall a b, req_eq a b = req_eq b a) /\
  (forall a b c, req_eq a b = true -> req_eq b c = true -> req_eq a c = true).
Proof. split; [exact req_eq_refl|split; [exact req_eq_sym|exact req_eq_trans]]. Qed.
Print Assumptions C08_eq_equivalence.
Theorem C08_hash_respects_eq {H : Type} (hash : rq_key -> H) a b : req_eq a b = true -> hash (req_key a) = hash (req_key b).
Proof. intros E. apply req_eq_key in E. now rewrite E. Qed.
Print Assumptions C08_hash_respects_eq.

(* 10. which clauses are valid (hypothesis rq_wf_clause of 1-3): every PEP 440 version spelling (greedy normal form, the completeness
       domain of C02/C12) under an operator that admits it, prefix matches under == / !=, and any text under ===; conversely a valid
       clause has a form of the PEP 440 operator table *)
Theorem C08_version_clause_valid o ws sp : gnf sp = true -> ws_l sp = [] -> ws_r sp = [] -> forallb is_ws ws = true -> admits o sp ->
  rq_wf_clause {| c_op := o; c_ws := ws; c_body := BPub (pub_of sp) (match o with OEq | ONe => sloc sp | _ => None end) |} /\
  r_body (BPub (pub_of sp) (match o with OEq | ONe => sloc sp | _ => None end)) = render sp.
Proof. exact (version_clause_valid o ws sp). Qed.
Print Assumptions C08_version_clause_valid.
Theorem C08_wildcard_clause_valid o ws v e r0 rs : o = OEq \/ o = ONe -> forallb is_ws ws = true ->
  (match v with Some c => lc c = 118 | None => True end) -> (match e with Some x => wf_digits x = true | None => True end) ->
  wf_digits r0 = true -> forallb wf_digits rs = true ->
  rq_wf_clause {| c_op := o; c_ws := ws; c_body := BWild v e r0 rs |}.
Proof. exact (wildcard_clause_valid o ws v e r0 rs). Qed.
Print Assumptions C08_wildcard_clause_valid.
Theorem C08_arbitrary_clause_valid ws t : forallb is_ws ws = true -> t <> [] -> forallb arb_char t = true -> rq_no_comma t = true ->
  rq_wf_clause {| c_op := OArb; c_ws := ws; c_body := BArb t |}.
Proof. exact (arbitrary_clause_valid ws t). Qed.
Print Assumptions C08_arbitrary_clause_valid.
Theorem C08_valid_clause_is_pep440 c : rq_wf_clause c -> wf_body (c_op c) (c_body c).
Proof. exact (valid_clause_is_pep440 c). Qed.
Print Assumptions C08_valid_clause_is_pep440.

(* 11. str() is a deterministic rendering: it depends on the extras as a set and on the clauses as a multiset (no two equal clauses
       with different spellings - otherwise the first one supplied is printed, finding D33) *)
Theorem C08_str_deterministic a b :
  q_name a = q_name b -> (forall e, In e (q_extras a) <-> In e (q_extras b)) ->
  Permutation.Permutation (q_specs a) (q_specs b) -> NoDup (map rq_ckey (q_specs a)) ->
  q_url a = q_url b -> q_marker a = q_marker b -> req_str a = req_str b.
Proof. exact (req_str_deterministic a b). Qed.
Print Assumptions C08_str_deterministic.

(* ================================================================ round 5 (audit C08): the gaps closed =========================== *)

(* 7'. str(r) of EVERY constructed requirement parses back to an equal requirement with the same string - no D7 hypothesis
       (rq_no_gap dropped: "a>=1, ===x", "a===", "a===,>=1", "a >=1,=== x ,<2" are all covered) *)
Theorem C08_str_roundtrip_every src r : Requirement src = RqOk r ->
  exists r', Requirement (req_str r) = RqOk r' /\ req_eq r r' = true /\ req_str r' = req_str r.
Proof. exact (str_roundtrip_nogap src r). Qed.
Print Assumptions C08_str_roundtrip_every.

(* 2'. the decomposition theorem on the GRAMMARS: the marker text is generated by the marker grammar (RList of C07, any blank layout),
       every clause text by the PEP 440 surface grammar (rq_pep440_clause: VTop.wf_spelling under an operator that admits the form,
       a prefix match, or NON-EMPTY "===" text) - no parser appears in the hypotheses.  This statement still carries the sufficient
       D7 condition rq_no_d7; the version under the exact condition is C08_requirement_render_pep508_exact below (theorem 13).
       A "===" clause with an empty text ("a===": accepted by the code and the model) is outside theorems 1, 2, 2', 13 - rq_wf_clause
       demands a non-empty text - and is covered by 7' and 12 only. *)
Theorem C08_requirement_render_pep508 sp m : rq_wf_g sp m -> rq_lits_ok m ->
  Requirement (rq_render sp) =
  RqOk {| q_name := rs_name sp; q_extras := rq_sp_extras sp; q_specs := map rq_clause_spec (rq_sp_clauses sp);
          q_url := rq_opt_url (rq_sp_url sp); q_marker := option_map norm_l m |}.
Proof. exact (Requirement_render_pep508 sp m). Qed.
Print Assumptions C08_requirement_render_pep508.
(* ... the clause hypothesis of theorems 1-3 IS that grammar *)
Theorem C08_valid_clause_is_grammar o ws x :
  (exists c, rq_wf_clause c /\ c_op c = o /\ c_ws c = ws /\ r_body (c_body c) = x) <-> rq_pep440_clause o ws x.
Proof. exact (wf_clause_grammar o ws x). Qed.
Print Assumptions C08_valid_clause_is_grammar.
(* ... every PEP 440 spelling (any derivation tree) under an admitting operator is a valid clause: the scanner's own tree keeps the
   release part and the local label, so "admits" is preserved *)
Theorem C08_grammar_version_clause o ws vs : wf_spelling vs -> ws_l vs = [] -> ws_r vs = [] -> forallb is_ws ws = true -> admits o vs ->
  exists c, rq_wf_clause c /\ c_op c = o /\ c_ws c = ws /\ r_body (c_body c) = render vs.
Proof. exact (grammar_version_clause o ws vs). Qed.
Print Assumptions C08_grammar_version_clause.
(* ... and the marker hypothesis of theorems 1-2 follows from the marker grammar *)
Theorem C08_marker_grammar_parses m t g0 g3 : RList m t -> is_ws_str g0 = true -> is_ws_str g3 = true ->
  MText.parse_marker (g0 ++ t ++ g3) = Some m.
Proof. exact (layout_parse_marker m t g0 g3). Qed.
Print Assumptions C08_marker_grammar_parses.

(* 3'. the SpecifierSet of a requirement IS the Sets domain's SpecifierSet (C05/C10): same acceptance, same members, same str() *)
Theorem C08_specset_is_SpecifierSet t l : rq_specset t = Some l ->
  exists S, SpecifierSet t None = Some S /\ map m_sp (ms S) = rq_dedup [] l /\ set_str S = rq_set_str l.
Proof. exact (specset_exists_SpecifierSet t l). Qed.
Print Assumptions C08_specset_is_SpecifierSet.
Theorem C08_specset_rejects_alike t p : rq_specset t = None <-> SpecifierSet t p = None.
Proof. exact (specset_none_iff t p). Qed.
Print Assumptions C08_specset_rejects_alike.
Theorem C08_ckey_is_specifier_eq a b : sp_eqb a b = true <-> rq_ckey a = rq_ckey b.
Proof. exact (ckey_sp_eqb a b). Qed.
Print Assumptions C08_ckey_is_specifier_eq.
(* (rq_sset l is BY DEFINITION SpecifierSet_of (map mk_member l) None; the content is that SpecifierSet(text) builds it.  The text is the
   clause text of this very source: C08_requirement_holds_SpecifierSet_of_source below) *)
Theorem C08_requirement_holds_SpecifierSet src r : Requirement src = RqOk r ->
  exists t, SpecifierSet t None = Some (rq_sset (q_specs r)) /\ set_str (rq_sset (q_specs r)) = rq_set_str (q_specs r).
Proof. exact (Requirement_SpecifierSet src r). Qed.
Print Assumptions C08_requirement_holds_SpecifierSet.
Theorem C08_requirement_holds_SpecifierSet_of_source src r : Requirement src = RqOk r ->
  exists p, rq_parse src = Some p /\ SpecifierSet (pr_spec p) None = Some (rq_sset (q_specs r)) /\
            q_name r = pr_name p /\ q_extras r = pr_extras p.
Proof. exact (Requirement_SpecifierSet_src src r). Qed.
Print Assumptions C08_requirement_holds_SpecifierSet_of_source.
(* equal requirements hold equal specifier sets, which contain / filter / report prereleases alike *)
Theorem C08_equal_requirements_sets_alike sa sb a b : Requirement sa = RqOk a -> Requirement sb = RqOk b -> req_eq a b = true ->
  let A := rq_sset (q_specs a) in let B := rq_sset (q_specs b) in
  set_eqb A B = true /\ set_str A = rq_set_str (q_specs a) /\ set_str B = rq_set_str (q_specs b) /\
  (forall arg inst item, set_contains A arg inst item = set_contains B arg inst item) /\
  (forall arg texts, set_filter A arg texts = set_filter B arg texts) /\ set_pre A = set_pre B.
Proof. exact (equal_requirements_sets_alike sa sb a b). Qed.
Print Assumptions C08_equal_requirements_sets_alike.

(* ... and markers that evaluate alike in every environment (their strings are equal, and the string determines the evaluation) *)
Theorem C08_equal_requirements_markers_alike sa sb a b : Requirement sa = RqOk a -> Requirement sb = RqOk b -> req_eq a b = true ->
  match q_marker a, q_marker b with
  | Some ma, Some mb => forall defaults ov, MkEval.evaluate ma defaults ov = MkEval.evaluate mb defaults ov
  | None, None => True
  | _, _ => False
  end.
Proof. exact (equal_requirements_markers_alike sa sb a b). Qed.
Print Assumptions C08_equal_requirements_markers_alike.

(* 6'. a marker after a URL needs separating whitespace - for EVERY layout of the requirement before it (blanks, extras):
       without whitespace the ";x" (x free of blanks) is part of the URL ... *)
Theorem C08_url_marker_needs_ws_any sp x : rq_wf sp None -> rq_is_url sp -> rs_w3 sp = [] -> forallb rq_not_blank x = true ->
  rq_parse (rq_render sp ++ 59 :: x) =
  Some {| pr_name := rs_name sp; pr_url := rq_sp_url sp ++ 59 :: x; pr_extras := rq_sp_extras sp; pr_spec := []; pr_marker := None |}.
Proof. exact (url_marker_needs_ws_any sp x). Qed.
Print Assumptions C08_url_marker_needs_ws_any.
(* (the statement above is theorem 1 instantiated with the URL u ++ ";" ++ x, on rq_parse; the same on Requirement:) *)
Theorem C08_url_marker_needs_ws_requirement sp x : rq_wf sp None -> rq_is_url sp -> rs_w3 sp = [] -> forallb rq_not_blank x = true ->
  Requirement (rq_render sp ++ 59 :: x) =
  RqOk {| q_name := rs_name sp; q_extras := rq_sp_extras sp; q_specs := []; q_url := Some (rq_sp_url sp ++ 59 :: x); q_marker := None |}.
Proof. exact (url_marker_needs_ws_req sp x). Qed.
Print Assumptions C08_url_marker_needs_ws_requirement.
(* ... and when a blank follows inside the would-be marker ("a @ u; os_name=='a'") the requirement is rejected *)
Theorem C08_url_marker_blank_inside_rejected sp wu u x1 w c y : rq_wf_head sp -> rq_blank wu = true -> u <> [] -> forallb rq_not_blank u = true ->
  forallb rq_not_blank x1 = true -> w <> [] -> rq_blank w = true -> is_wsb c = false -> c <> 59 -> (c = 10 -> y <> []) ->
  rq_parse (rq_head_text sp ++ 64 :: wu ++ u ++ 59 :: x1 ++ w ++ c :: y) = None.
Proof. exact (url_marker_blank_inside_rejected sp wu u x1 w c y). Qed.
Print Assumptions C08_url_marker_blank_inside_rejected.

(* 11'. the form of str(r): name, "[" extras "]" strictly sorted (code-point order, no duplicates, exactly the set of extras), the
        clause strings strictly sorted, each the string of a clause of r, every clause of r represented by the string of a clause with
        the same canonical key, "@ url", "; marker".  (The first conjunct is the definition of req_str unfolded; the sortedness conjuncts
        are facts about insertion sort on duplicate-free lists.)  WHICH clause of a group of equal clauses is printed - the first one
        supplied, cf. D33 - is C08_str_prints_first_supplied below. *)
Theorem C08_str_form src r : Requirement src = RqOk r ->
  req_str r = q_name r ++ rq_extras_text (rq_extras_sorted r) ++ rq_join [44] (rq_canon_clauses r) ++ rq_url_text r ++ rq_marker_text r /\
  StronglySorted str_lt (rq_extras_sorted r) /\ (forall e, In e (rq_extras_sorted r) <-> In e (q_extras r)) /\
  StronglySorted str_lt (rq_canon_clauses r) /\
  (forall s, In s (rq_canon_clauses r) -> exists sp, In sp (q_specs r) /\ s = spec_str sp) /\
  (forall sp, In sp (q_specs r) -> exists sp', In sp' (q_specs r) /\ rq_ckey sp' = rq_ckey sp /\ In (spec_str sp') (rq_canon_clauses r)).
Proof. exact (str_form_sorted src r). Qed.
Print Assumptions C08_str_form.
Theorem C08_str_prints_first_supplied r s : In s (rq_canon_clauses r) ->
  exists l1 sp l2, q_specs r = l1 ++ sp :: l2 /\ s = spec_str sp /\ ~ In (rq_ckey sp) (map rq_ckey l1).
Proof. exact (clauses_first_supplied r s). Qed.
Print Assumptions C08_str_prints_first_supplied.
Theorem C08_extras_sorted r :
  StronglySorted (fun a b => Py.str_cmp a b = Lt) (rq_extras_sorted r) /\ NoDup (rq_extras_sorted r) /\ forall e, In e (rq_extras_sorted r) <-> In e (q_extras r).
Proof. exact (extras_sorted_strict r). Qed.
Print Assumptions C08_extras_sorted.

(* 12. (C12, requirement side) a version clause inside a requirement is accepted iff Specifier accepts it, and is read as that
       Specifier: for a clause text starting with an operator character, without surrounding whitespace, "," and ";" *)
Theorem C08_clause_in_requirement name cl sp : rq_valid_ident name = true -> hd_is rq_op_start cl = true -> rq_strip cl = cl ->
  rq_no_comma cl = true -> rq_no_semi cl = true ->
  (Specifier cl = Some sp <-> exists r, Requirement (name ++ cl) = RqOk r /\ q_specs r = [sp]).
Proof. exact (clause_in_requirement name cl sp). Qed.
Print Assumptions C08_clause_in_requirement.

(* 13. the known gap D7, exactly.  A "===" token directly followed by the comma swallows the following clauses up to the next blank,
       ")" , ";" or the end; the requirement is still decomposed correctly iff every swallowed clause is spelled ",clause" with no blank
       after the comma and no whitespace after the operator (rq_chain_okb false items = true, implied by the old rq_no_d7) ... *)
Theorem C08_requirement_render_exact sp m : rq_wf_x sp m -> rq_lits_ok m ->
  Requirement (rq_render sp) =
  RqOk {| q_name := rs_name sp; q_extras := rq_sp_extras sp; q_specs := map rq_clause_spec (rq_sp_clauses sp);
          q_url := rq_opt_url (rq_sp_url sp); q_marker := option_map norm_l m |}.
Proof. exact (Requirement_render_x sp m). Qed.
Print Assumptions C08_requirement_render_exact.
Theorem C08_old_condition_implies_exact items : rq_no_d7 items -> rq_d7_ok items.
Proof. exact (no_d7_chain_ok items). Qed.
Print Assumptions C08_old_condition_implies_exact.
(* ... the same on the grammars: rq_wf_gx = the grammar-level hypotheses of 2' with rq_d7_ok in place of rq_no_d7 (no p_body, no
   parse_marker in the hypotheses) *)
Theorem C08_requirement_render_pep508_exact sp m : rq_wf_gx sp m -> rq_lits_ok m ->
  Requirement (rq_render sp) =
  RqOk {| q_name := rs_name sp; q_extras := rq_sp_extras sp; q_specs := map rq_clause_spec (rq_sp_clauses sp);
          q_url := rq_opt_url (rq_sp_url sp); q_marker := option_map norm_l m |}.
Proof. exact (Requirement_render_pep508_x sp m). Qed.
Print Assumptions C08_requirement_render_pep508_exact.
(* ... and otherwise it is REJECTED, on the whole class: name, extras, blanks and clauses as in the decomposition theorem, the chain
   condition false - whatever the marker text is (rq_wf_d7 puts no condition on it) *)
Theorem C08_D7_rejected sp : rq_wf_d7 sp -> Requirement (rq_render sp) = RqInvalid.
Proof. exact (d7_rejected sp). Qed.
Print Assumptions C08_D7_rejected.

(* 9'. the decision procedure behind the observation r.eqh ("the hashes are equal" in the model) is equality of the keys, so in the
       model the two letters of r.eqh always agree *)
Theorem C08_key_eqb_is_eq x y : rq_key_eqb x y = true <-> x = y.
Proof. exact (key_eqb_eq x y). Qed.
Print Assumptions C08_key_eqb_is_eq.
Theorem C08_eq_is_key_eqb a b : req_eq a b = rq_key_eqb (req_key a) (req_key b).
Proof. exact (req_eq_key_eqb a b). Qed.
Print Assumptions C08_eq_is_key_eqb.

(* closed boolean non-vacuity checks of the new theorems (each evaluates model functions on concrete inputs) *)
Example C08_round5_checks : nogap_check = true /\ link_check = true /\ cir_check = true /\ sf_check = true /\ gr_check = true /\ x_check = true /\
  extra_check = true /\ gx_check = true /\ meq_check = true.
Proof. repeat split; vm_compute; reflexivity. Qed.
(* Prop-level witnesses that really instantiate the hypotheses: ReqGrammarP.gr_sp_wf (rq_wf_g), ReqGrammarXP.gx_sp_wf (rq_wf_gx, inside the
   D7 class), ReqGrammarXP.x_items1_wf_x (rq_wf_x where rq_no_d7 fails), ReqGrammarXP.x_items2_wf_d7 (rq_wf_d7), ReqMarkerEqP.meq_hyps (two
   equal requirements that both carry a marker) *)

(* ---- non-vacuity ---- *)
Definition T (s : list N) := s.
(* " Foo.Bar [ a ,b]\t( >= 1.0 , ==2.* ,=== x ) ;os_name=='a' " : every hypothesis of theorems 1-2 holds for this spelling *)
Definition ex_marker_text : list N := [111;115;95;110;97;109;101;61;61;39;97;39;32].
Definition ex_pub (r0 : list N) (rs : list (list N)) : pub_sp :=
  {| q_v := None; q_ep := None; q_rel0 := r0; q_rels := rs; q_pre := None; q_post := None; q_dev := None |}.
Definition ex_sp : rq_spelled :=
  {| rs_w0 := [32]; rs_name := [70;111;111;46;66;97;114]; rs_w1 := [32];
     rs_extras := Some ([32], [([], [97], [32]); ([], [98], [])]);
     rs_w2 := [9];
     rs_body := SB_clauses (Some [32])
       [ ([], {| c_op := OGe; c_ws := [32]; c_body := BPub (ex_pub [49] [[48]]) None |}, [32]);
         ([32], {| c_op := OEq; c_ws := []; c_body := BWild None None [50] [] |}, [32]);
         ([], {| c_op := OArb; c_ws := [32]; c_body := BArb [120] |}, [32]) ];
     rs_w3 := [32]; rs_marker := Some ex_marker_text |}.
Example C08_nonvacuous_render :
  exists m, rq_wf ex_sp (Some m) /\ rq_lits_ok (Some m) /\
    rq_render ex_sp = [32;70;111;111;46;66;97;114;32;91;32;97;32;44;98;93;9;40;32;62;61;32;49;46;48;32;44;32;61;61;50;46;42;32;44;61;61;61;32;120;32;41;32;59] ++ ex_marker_text.
Proof.
  eexists. split; [|split].
  - unfold rq_wf, ex_sp. cbn [rs_w0 rs_name rs_w1 rs_extras rs_w2 rs_body rs_w3 rs_marker rq_wf_body].
    repeat split; try reflexivity; try discriminate;
      repeat (constructor; try (repeat split; try reflexivity; try discriminate)).
  - reflexivity.
  - reflexivity.
Qed.
(* the round-trip hypotheses hold for "foo[b,a]>=1,<2.0 ;os_name=='a'" *)
Example C08_nonvacuous_roundtrip :
  exists r, Requirement [102;111;111;91;98;44;97;93;62;61;49;44;60;50;46;48;32;59;111;115;95;110;97;109;101;61;61;39;97;39] = RqOk r /\
            rq_no_gap r /\ rq_marker_rt (q_marker r) /\
            req_str r = [102;111;111;91;97;44;98;93;60;50;46;48;44;62;61;49;59;32;111;115;95;110;97;109;101;32;61;61;32;34;97;34].
Proof.
  eexists. split; [vm_compute; reflexivity|]. split; [|split].
  - split; [reflexivity|]. repeat constructor; discriminate.
  - cbn [q_marker rq_marker_rt]. eexists. split; [vm_compute; reflexivity|]. split; reflexivity.
  - reflexivity.
Qed.
(* "1!2.0rc1.post2" is a version spelling in greedy normal form: a valid body for >= *)
Example C08_nonvacuous_clause :
  let sp := {| ws_l := []; vpre := None; ep := Some [49]; rel0 := [50]; rels := [[48]];
               spre := Some {| l_sep1 := None; l_word := [114;99]; l_sep2 := None; l_num := [49] |};
               spost := Some (PostWord {| l_sep1 := Some 46; l_word := [112;111;115;116]; l_sep2 := None; l_num := [50] |});
               sdev := None; sloc := None; ws_r := [] |} in
  gnf sp = true /\ admits OGe sp /\ render sp = [49;33;50;46;48;114;99;49;46;112;111;115;116;50].
Proof. cbv zeta. repeat split. Qed.
(* the known gap D7 is real: the model (like the implementation) rejects "foo === z, >=1", a valid PEP 508 string *)
Example C08_D7_witness : Requirement [102;111;111;32;61;61;61;32;122;44;32;62;61;49] = RqInvalid.
Proof. vm_compute. reflexivity. Qed.
