From Coq Require Import List NArith Bool.
Import ListNotations.
Require Import MText MkModel MkEval.
Theorem C07_stub : eval_markers [] [] = EBool true.
Proof. reflexivity. Qed.
Print Assumptions C07_stub.
