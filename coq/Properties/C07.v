(* C07  Marker evaluation follows PEP 508 semantics.
   Model (coq/Marker/MkModel.v, MkEval.v; tokenizer + grammar: MText.v): Marker.__init__ (parse_marker, _normalize_extra_values),
   Marker.evaluate (environment construction, _repair_python_full_version), _evaluate_markers, _normalize, _eval_op
   (Specifier / Specifier.contains: Spec/SpecContains.v; canonicalize_name: Names/Names.v).
   Spec: formula trees (MkGroupsP.form) with den = "first exception in text order, else the boolean value of the formula".
   This file holds statements only. *)
From Coq Require Import List Arith NArith Bool Lia.
Import ListNotations.
Require Import MText MRound MkModel MkEval MkEvalP MkGroupsP MkFmtP MkShapeP MkRoundP MkTreeP MkLexP MkLayoutP MkTextP.
Require Names Py SpecContains SpecModel Order.
Require VParse SpecParse SpecOps SpecSem VMeaning MkTotalP MkOpP MkMeaningP MkRepairP.
Open Scope N_scope.

(* 1. 'and' binds tighter than 'or', parentheses group, and evaluation has the boolean value of that formula - for every
      formula tree (any nesting) and every valuation of the comparisons; every comparison is evaluated and the first
      exception in text order propagates.  [flat f] is the list _parse_marker builds for the text of f. *)
Theorem C07_groups_are_or_of_ands evi f : no_bare_or f = true -> geval_markers evi (flat f) = den evi f.
Proof. exact (groups_are_or_of_ands evi f). Qed.
Print Assumptions C07_groups_are_or_of_ands.

(* ... in particular under an environment *)
Theorem C07_evaluate_formula env f : no_bare_or f = true -> eval_markers env (flat f) = den (eval_item env) f.
Proof. exact (groups_are_or_of_ands (eval_item env) f). Qed.
Print Assumptions C07_evaluate_formula.

(* 2. the same over the parser's actual output: whatever text Marker() accepts, the structure it holds is the flattening of
      a formula tree (its parse tree), and evaluate() returns the value of that tree *)
Theorem C07_accepted_text_is_formula s m : Marker s = MOk m ->
  exists f, no_bare_or f = true /\ flat f = m /\ forall evi, geval_markers evi m = den evi f.
Proof. exact (marker_is_formula s m). Qed.
Print Assumptions C07_accepted_text_is_formula.

(* 3. _eval_op: the three-way rule of the statement *)
Theorem C07_eval_op_dispatch (lhs o rhs : str) :
  eval_op lhs o rhs =
    match SpecContains.Specifier (o ++ rhs), SpecModel.Version lhs with
    | Some sp, Some c =>          (* valid specifier and valid version: PEP 440 matching, pre-releases allowed (no gating) *)
        match SpecContains.compare_op (SpecContains.sp_op sp) c (SpecContains.sp_text sp) with Some b => EBool b | None => ECrash end
    | _, _ => string_op lhs o rhs (* otherwise the Python string operator, if one exists *)
    end.
Proof. exact (eval_op_dispatch lhs o rhs). Qed.
Print Assumptions C07_eval_op_dispatch.

(* the string operators: substring tests, code-point order, and nothing else (UndefinedComparison) *)
Theorem C07_string_operators (lhs o rhs : str) :
  string_op lhs o rhs =
    if str_eqb o w_in then EBool (substr lhs rhs)
    else if str_eqb o w_not_in then EBool (negb (substr lhs rhs))
    else match cmp_op o with Some c => EBool (Py.of_cmp c (Py.str_cmp lhs rhs)) | None => EUndef end.
Proof. exact (string_op_table lhs o rhs). Qed.
Print Assumptions C07_string_operators.
Theorem C07_string_order_is_total_order : Order.cmp_ok Py.str_cmp.
Proof. exact Order.str_cmp_ok. Qed.
Print Assumptions C07_string_order_is_total_order.
Theorem C07_undefined_only_without_string_operator (lhs o rhs : str) : eval_op lhs o rhs = EUndef -> py_operator o = None.
Proof. exact (eval_op_undef lhs o rhs). Qed.
Print Assumptions C07_undefined_only_without_string_operator.

(* 'in' / 'not in' are substring tests whatever the operands are (they never form a specifier) *)
Theorem C07_in_is_substring (a b : str) :
  eval_op a w_in b = EBool (substr a b) /\ eval_op a w_not_in b = EBool (negb (substr a b)) /\
  (substr a b = true <-> exists p s, b = p ++ a ++ s).
Proof. split; [apply eval_op_in | split; [apply eval_op_not_in | apply substr_spec]]. Qed.
Print Assumptions C07_in_is_substring.

(* 4. operands on either side (all four shapes), and comparisons involving extra on PEP 503/685-normalised names, both sides *)
Theorem C07_item env l o r a b : side_value env l = Some a -> side_value env r = Some b ->
  eval_item env l o r =
    if is_extra l || is_extra r then eval_op (Names.canon_name a) o (Names.canon_name b) else eval_op a o b.
Proof. exact (eval_item_spec env l o r a b). Qed.
Print Assumptions C07_item.

(* 5. the effective environment: supplied value, else detected value; extra "" by default and for None; a
      python_full_version ending in '+' completed with "local" *)
Theorem C07_env defaults ov env k : effective_env defaults ov = Some env ->
  lookup k env =
    if str_eqb k w_pfv then
      match pre_repair defaults ov w_pfv with
      | Some (Some v) => Some (Some (if ends_plus v then v ++ w_local else v))
      | x => x
      end
    else pre_repair defaults ov k.
Proof. exact (effective_env_lookup defaults ov env k). Qed.
Print Assumptions C07_env.
Theorem C07_env_defined defaults ov : effective_env defaults ov <> None <-> exists v, pre_repair defaults ov w_pfv = Some (Some v).
Proof. exact (effective_env_defined defaults ov). Qed.
Print Assumptions C07_env_defined.
Theorem C07_repair_makes_local_version v : ends_plus v = true -> exists u, v ++ w_local = u ++ 43 :: w_local.
Proof. exact (repaired_form v). Qed.
Print Assumptions C07_repair_makes_local_version.

(* every variable the grammar accepts is defined once default_environment() supplies its 11 keys: evaluate() cannot fail with a
   KeyError (nor, for a mapping whose only None is extra, with a None reaching a comparison) *)
Theorem C07_no_keyerror s m defaults ov env : Marker s = MOk m -> detects_all defaults -> typed ov ->
  effective_env defaults ov = Some env -> forall x, In x (sides_l m) -> side_value env x <> None.
Proof. exact (no_keyerror s m defaults ov env). Qed.
Print Assumptions C07_no_keyerror.

(* 6. purity: the result depends on the marker and on the values of the variables that occur in it, nothing else *)
Theorem C07_pure e1 e2 m :
  (forall n, In (SVar n) (sides_l m) -> lookup n e1 = lookup n e2) -> eval_markers e1 m = eval_markers e2 m.
Proof. exact (eval_markers_ext e1 e2 m). Qed.
Print Assumptions C07_pure.

(* 7. text level.  RForm f t: "t is a text of the formula tree f" - arbitrary runs of spaces/tabs wherever the grammar allows
      whitespace (none needed unless two word-like tokens meet), either quote style (the quote absent from the literal), every
      spelling of the variables (PEP 345 dotted names, python_implementation), all ten operators ('not in' with any inner
      whitespace), any nesting of parentheses.  Every such text - optionally surrounded by whitespace, optionally followed by one
      newline - parses to the flattening of f ... *)
Theorem C07_parse_precedence f t g0 g3 nl : RForm f t -> is_ws_str g0 = true -> is_ws_str g3 = true -> nl = [] \/ nl = [10] ->
  parse_marker_nl (g0 ++ t ++ g3 ++ nl) = Some (flat f).
Proof. exact (layout_formula f t g0 g3 nl). Qed.
Print Assumptions C07_parse_precedence.
(* ... and, when f is the tree of its own text ('or' under 'and' only in parentheses) and its literals are PEP 508 strings
   (no backslash - the literal_eval oracle boundary - and no NUL/CR/LF), Marker() accepts it and evaluate() returns the value
   of f under every environment: the first exception in text order, else the boolean value with 'and' binding tighter than 'or' *)
Theorem C07_text_semantics f t g0 g3 nl : RForm f t -> no_bare_or f = true -> lit_class (flat f) = LOk ->
  is_ws_str g0 = true -> is_ws_str g3 = true -> nl = [] \/ nl = [10] ->
  exists m, Marker (g0 ++ t ++ g3 ++ nl) = MOk m /\ forall env, eval_markers env m = den (eval_item env) f.
Proof. exact (text_semantics f t g0 g3 nl). Qed.
Print Assumptions C07_text_semantics.
(* the same for structures (lists as the parser builds them, with single-element groups) *)
Theorem C07_parse_any_layout m t g0 g3 nl : RList m t -> is_ws_str g0 = true -> is_ws_str g3 = true -> nl = [] \/ nl = [10] ->
  parse_marker_nl (g0 ++ t ++ g3 ++ nl) = Some m.
Proof. exact (layout_parse m t g0 g3 nl). Qed.
Print Assumptions C07_parse_any_layout.
(* _normalize_extra_values (done once at construction) does not change the value: evaluation normalises again *)
Theorem C07_normalisation_is_neutral env m : eval_markers env (norm_l m) = eval_markers env m.
Proof. exact (eval_norm_l env m). Qed.
Print Assumptions C07_normalisation_is_neutral.

(* 8. totality ON THE MODEL: for every accepted marker, under every environment whose detected part defines the eleven variables and
      whose supplied part is typed (None only for extra), the model of evaluate() returns a bool or UndefinedComparison - none of its four
      ECrash sources (KeyError / None operand, an exception out of Specifier.contains, a bad connective, a failing repair) is reachable.
      What this does NOT cover on the real code: the model has no digit limit (finding D10) and no recursion limit (finding D44).  A
      version-like operand with a run of more than 4300 digits makes the real Version() raise InvalidVersion (since /repo 71d4b23; a bare
      ValueError escaped before), which _eval_op catches, so the real code answers with the STRING operator (or UndefinedComparison for
      ~= / ===) where the model answers by version comparison: the answers can differ there (streams digit-limit*, matcher match_c07_d10),
      but no exception other than UndefinedComparison escapes.  A marker nested about 490 parentheses deep raises RecursionError. *)
Theorem C07_evaluate_total s m defaults ov : Marker s = MOk m -> detects_all defaults -> typed ov ->
  (exists b, evaluate m defaults ov = EBool b) \/ evaluate m defaults ov = EUndef.
Proof. exact (MkTotalP.evaluate_total s m defaults ov). Qed.
Print Assumptions C07_evaluate_total.
(* in particular the `None => ECrash` arm of C07_eval_op_dispatch is dead: a comparison never fails with anything else ... *)
Theorem C07_eval_op_never_crashes (lhs o rhs : str) : eval_op lhs o rhs <> ECrash.
Proof. exact (MkTotalP.eval_op_never_crashes lhs o rhs). Qed.
Print Assumptions C07_eval_op_never_crashes.
(* ... and in the specifier branch the operator method answers *)
Theorem C07_specifier_branch_answers (lhs o rhs : str) sp c :
  SpecContains.Specifier (o ++ rhs) = Some sp -> SpecModel.Version lhs = Some c ->
  exists b, SpecContains.compare_op (SpecContains.sp_op sp) c (SpecContains.sp_text sp) = Some b /\ eval_op lhs o rhs = EBool b.
Proof. exact (MkTotalP.eval_op_specifier_answers lhs o rhs sp c). Qed.
Print Assumptions C07_specifier_branch_answers.

(* 9. which operator is applied.  _eval_op builds Specifier(op + rhs) from the concatenation, so the operator read back need not be
      the one written.  Unless the right operand starts with "=", it is: *)
Theorem C07_operator_identity (o rhs : str) sp : In o op_alts -> hd_is_c 61 rhs = false ->
  SpecContains.Specifier (o ++ rhs) = Some sp -> SpecParse.op_txt (SpecContains.sp_op sp) = o.
Proof. exact (MkOpP.operator_identity o rhs sp). Qed.
Print Assumptions C07_operator_identity.
(* the complete table: the only deviations are  < + "=V" -> <=V,   > + "=V" -> >=V,   == + "=X" -> ===X *)
Theorem C07_operator_read_back (o rhs : str) sp : In o op_alts -> SpecContains.Specifier (o ++ rhs) = Some sp ->
  SpecParse.op_txt (SpecContains.sp_op sp) = o \/
  exists v, rhs = 61 :: v /\
    ((o = [60] /\ SpecContains.sp_op sp = SpecParse.OLe) \/ (o = [62] /\ SpecContains.sp_op sp = SpecParse.OGe) \/
     (o = [61;61] /\ SpecContains.sp_op sp = SpecParse.OArb)).
Proof. exact (MkOpP.operator_read_back o rhs sp). Qed.
Print Assumptions C07_operator_read_back.
(* the three absorbing cases by name - definitional: "<" ++ "=V" and "<=" ++ V are the same list, so the only content is that the
   fallback uses the WRITTEN operator (the code does this: python_version > "=3.8" is evaluated as python_version >= "3.8"; a judgement
   call against PEP 508's "both operands are versions", deliberately not registered as a finding) *)
Theorem C07_absorbing_cases lhs v :
  eval_op lhs [60] (61 :: v) = match SpecContains.Specifier ([60;61] ++ v), SpecModel.Version lhs with
                               | Some _, Some _ => eval_op lhs [60;61] v | _, _ => string_op lhs [60] (61 :: v) end /\
  eval_op lhs [62] (61 :: v) = match SpecContains.Specifier ([62;61] ++ v), SpecModel.Version lhs with
                               | Some _, Some _ => eval_op lhs [62;61] v | _, _ => string_op lhs [62] (61 :: v) end /\
  eval_op lhs [61;61] (61 :: v) = match SpecContains.Specifier ([61;61;61] ++ v), SpecModel.Version lhs with
                                  | Some _, Some _ => eval_op lhs [61;61;61] v | _, _ => string_op lhs [61;61] (61 :: v) end.
Proof. split; [apply MkOpP.absorbed_lt | split; [apply MkOpP.absorbed_gt | apply MkOpP.absorbed_eq]]. Qed.
Print Assumptions C07_absorbing_cases.

(* 10. "PEP 440 specifier matching": the specifier branch computes the PEP 440 meaning of the C03 statement (SpecSem.sem on structured
       versions: eq/prefix/compatible/ordered comparison with the pre-/post-release/local exclusions, pre-releases allowed) *)
Theorem C07_specifier_comparison_is_pep440 (lhs o rhs : str) sp c :
  SpecContains.Specifier (o ++ rhs) = Some sp -> SpecModel.Version lhs = Some c ->
  exists f b, SpecSem.interp sp = Some f /\ SpecSem.form_ok (SpecContains.sp_op sp) f /\
              SpecSem.sem (SpecContains.sp_op sp) f c = Some b /\ eval_op lhs o rhs = EBool b.
Proof. exact (MkMeaningP.eval_op_is_pep440 lhs o rhs sp c). Qed.
Print Assumptions C07_specifier_comparison_is_pep440.
Theorem C07_agrees_with_contains_spec (lhs o rhs : str) sp : SpecContains.Specifier (o ++ rhs) = Some sp ->
  match SpecSem.contains_spec sp lhs with
  | Some (SpecContains.Ans b) => eval_op lhs o rhs = EBool b
  | Some SpecContains.BadItem => SpecModel.Version lhs = None /\ eval_op lhs o rhs = string_op lhs o rhs
  | _ => False
  end.
Proof. exact (MkMeaningP.eval_op_contains_spec lhs o rhs sp). Qed.
Print Assumptions C07_agrees_with_contains_spec.
(* the ordering operators spelled out: written  <= >= < >  with a right operand not starting with "=", both operands versions:
   the right operand is the text of a version V (optional whitespace around it, no local label) and the result is the ordered
   comparison of PEP 440 *)
Theorem C07_ordering_operators (lhs o rhs : str) sp c : In o [[60;61]; [62;61]; [60]; [62]] -> hd_is_c 61 rhs = false ->
  SpecContains.Specifier (o ++ rhs) = Some sp -> SpecModel.Version lhs = Some c ->
  exists V ws wr,
    rhs = ws ++ SpecContains.sp_text sp ++ wr /\ forallb VParse.is_ws ws = true /\ forallb VParse.is_ws wr = true /\
    SpecModel.Version (SpecContains.sp_text sp) = Some V /\ Py.local V = None /\ VMeaning.wf_version V /\ VMeaning.wf_version c /\
    (o = [60;61] -> eval_op lhs o rhs = EBool (SpecOps.le_spec c V)) /\
    (o = [62;61] -> eval_op lhs o rhs = EBool (SpecOps.ge_spec c V)) /\
    (o = [60] -> eval_op lhs o rhs = EBool (SpecOps.lt_spec c V)) /\
    (o = [62] -> eval_op lhs o rhs = EBool (SpecOps.gt_spec c V)).
Proof. exact (MkMeaningP.eval_op_ordering lhs o rhs sp c). Qed.
Print Assumptions C07_ordering_operators.

(* 11. the repair produces a VALID local version: if what precedes the final "+" is a version without local label (and without trailing
       whitespace), Version() accepts the completed text (C07_repair_makes_local_version above only gave its shape) *)
Theorem C07_repair_valid_version v u c : v = u ++ [43] -> SpecModel.Version u = Some c -> Py.local c = None -> MkRepairP.ends_ws u = false ->
  ends_plus v = true /\ exists c', SpecModel.Version (v ++ w_local) = Some c'.
Proof. exact (MkRepairP.repair_makes_valid_version v u c). Qed.
Print Assumptions C07_repair_valid_version.

(* non-vacuity of 8-11 (closed boolean checks, proved in the domain files by vm_compute) *)
Example C07_new_nonvacuous :
  MkTotalP.total_check = true /\ MkOpP.absorb_check = true /\ MkMeaningP.meaning_check = true /\ MkRepairP.repair_check = true /\
  detects_all MkTotalP.total_defaults.
Proof.
  split; [exact MkTotalP.total_nonvacuous|]. split; [exact MkOpP.absorb_nonvacuous|]. split; [exact MkMeaningP.meaning_nonvacuous|].
  split; [exact MkRepairP.repair_nonvacuous | exact MkTotalP.total_defaults_detect].
Qed.

(* non-vacuity: the text  os.name=='a' or os_name == 'b' and (extra == 'C_d')  under os_name = "b", extra = "c.D", python_full_version = "3.9+" *)
Definition ex_f : form :=
  FOr (FAtom (SVar [111;115;95;110;97;109;101]) [61;61] (SVal [97]))
      (FAnd (FAtom (SVar [111;115;95;110;97;109;101]) [61;61] (SVal [98]))
            (FParen (FAtom (SVar [101;120;116;114;97]) [61;61] (SVal [99;45;100])))).
Example C07_nonvacuous :
  Marker [111;115;46;110;97;109;101;61;61;39;97;39;32;111;114;32;111;115;95;110;97;109;101;32;61;61;32;34;98;34;32;97;110;100;32;40;101;120;116;114;97;32;61;61;32;34;67;95;100;34;41] = MOk (flat ex_f)
    /\ no_bare_or ex_f = true
    /\ evaluate (flat ex_f) [] (Some [([111;115;95;110;97;109;101], Some [98]); ([101;120;116;114;97], Some [99;46;68]); (w_pfv, Some [51;46;57;43])]) = EBool true
    /\ evaluate (flat ex_f) [] (Some [([111;115;95;110;97;109;101], Some [98]); ([101;120;116;114;97], None); (w_pfv, Some [51;46;57])]) = EBool false.
Proof. vm_compute. repeat split. Qed.

(* non-vacuity of the layout relation: the text   os.name=='a' or"b"in<TAB>os_name   is a text of  os_name == "a" or "b" in os_name *)
Definition ex_g : form :=
  FOr (FAtom (SVar [111;115;95;110;97;109;101]) [61;61] (SVal [97])) (FAtom (SVal [98]) w_in (SVar [111;115;95;110;97;109;101])).
Definition ex_t : str := ([111;115;46;110;97;109;101] ++ [] ++ [61;61] ++ [] ++ (39 :: [97] ++ [39])) ++ [32] ++ w_or ++ [] ++
                         ((34 :: [98] ++ [34]) ++ [] ++ w_in ++ [9] ++ [111;115;95;110;97;109;101]).
Ltac solve_sep := intros H1 H2; first [discriminate H1 | discriminate H2 | vm_compute in H1; discriminate H1 | vm_compute in H2; discriminate H2].
Example C07_layout_nonvacuous : RForm ex_g ex_t /\ ex_t = [111;115;46;110;97;109;101;61;61;39;97;39;32;111;114;34;98;34;105;110;9;111;115;95;110;97;109;101].
Proof.
  split; [|reflexivity]. unfold ex_g, ex_t. apply RFOr; try reflexivity; try solve_sep.
  - apply RFAtom. apply (RItem (SVar (norm_var [111;115;46;110;97;109;101])) [111;115;46;110;97;109;101] [61;61] [61;61] (SVal [97]) (39 :: [97] ++ [39]) [] []); try reflexivity; try solve_sep.
    + apply RVar. vm_compute. tauto.
    + apply RSym. vm_compute. tauto.
    + apply RVal; [now right | reflexivity].
  - apply RFAtom. apply (RItem (SVal [98]) (34 :: [98] ++ [34]) w_in w_in (SVar (norm_var [111;115;95;110;97;109;101])) [111;115;95;110;97;109;101] [] [9]); try reflexivity; try solve_sep.
    + apply RVal; [now left | reflexivity].
    + apply RIn.
    + apply RVar. vm_compute. tauto.
    + intros _ _. discriminate.
Qed.
