(* C02  Version components and normal forms are faithful and canonical.
   Model: VParse.parse_spelling (scanner mirroring Version._regex), VMeaning.meaning (Version.__init__), VMeaning.vstr (__str__),
   SpecModel.public_str/base_str, Canon.canon (canonicalize_version with _TrimmedRelease).  Statements only. *)
From Coq Require Import List Arith NArith Bool Lia.
Import ListNotations.
Require Import S1 VParse VComplete VTop VTop2 VDec Py VMeaning VCanon VCanon2 VCanon3 VCmp SpecModel SpecOps Order Canon VWf VKeyEq CanonLaws VInt.
Open Scope N_scope.

(* 1. an accepted string is read as the spelling it is: the scanner returns a parse tree whose rendering is the input,
      and the components are the PEP 440 meaning of that tree *)
Theorem C02_components_are_the_reading s v : Version s = Some v ->
  exists sp, render sp = s /\ wf_spelling sp /\ v = meaning sp.
Proof.
  unfold Version. destruct (parse_spelling s) as [sp|] eqn:E; [|discriminate]. intros [= <-].
  exists sp. destruct (parse_spelling_sound _ _ E). auto.
Qed.
Print Assumptions C02_components_are_the_reading.

(* 2. every alternate spelling (greedy normal form of the parse tree) is accepted and read as its meaning *)
Theorem C02_every_spelling_is_read sp : gnf sp = true -> Version (render sp) = Some (meaning sp).
Proof. intros G. unfold Version. now rewrite (parse_spelling_complete sp G). Qed.
Print Assumptions C02_every_spelling_is_read.

(* 3. alternate spellings are normalised: alpha/a -> a, beta/b -> b, c/rc/pre/preview -> rc, post/rev/r -> post, dev -> dev *)
Theorem C02_letters_normalised sp :
  wf_spelling sp ->
  (match pre (meaning sp) with Some (l, _) => l = w_a \/ l = w_b \/ l = w_rc | None => True end) /\
  (match post (meaning sp) with Some (l, _) => l = w_post | None => True end) /\
  (match dev (meaning sp) with Some (l, _) => l = w_dev | None => True end).
Proof. intros W. destruct (meaning_wf sp W) as (_ & A & B & C & _). auto. Qed.
Print Assumptions C02_letters_normalised.

(* 3b. the numbers are the PEP 440 reading: an absent epoch is 0, every number is the value of its digits (leading zeros irrelevant),
       an absent pre/post/dev number is the implicit 0, the implicit post form "-N" is post N; flags follow the components *)
Theorem C02_numbers_and_flags sp :
  Py.epoch (meaning sp) = match ep sp with Some e => num e | None => 0 end /\
  Py.release (meaning sp) = map num (rel0 sp :: rels sp) /\
  (forall l, spre sp = Some l -> Py.pre (meaning sp) = Some (norm_letter (l_word l), match l_num l with [] => 0 | d => num d end)) /\
  (forall d, spost sp = Some (PostImplicit d) -> Py.post (meaning sp) = Some (w_post, num d)) /\
  (forall l, spost sp = Some (PostWord l) -> Py.post (meaning sp) = Some (norm_letter (l_word l), match l_num l with [] => 0 | d => num d end)) /\
  (forall l, sdev sp = Some l -> Py.dev (meaning sp) = Some (norm_letter (l_word l), match l_num l with [] => 0 | d => num d end)) /\
  (is_prerelease (meaning sp) = true <-> (spre sp <> None \/ sdev sp <> None)) /\
  (is_postrelease (meaning sp) = true <-> spost sp <> None).
Proof.
  unfold meaning, is_prerelease, is_postrelease; cbn [Py.epoch Py.release Py.pre Py.post Py.dev]. repeat split; auto.
  - intros l ->. reflexivity.
  - intros d ->. reflexivity.
  - intros l ->. reflexivity.
  - intros l ->. reflexivity.
  - destruct (sdev sp), (spre sp); cbn; intros H; try discriminate; auto; [left|right|left]; discriminate.
  - destruct (sdev sp), (spre sp); cbn; intros [H|H]; auto; congruence.
  - destruct (spost sp); cbn; intros H; [discriminate|discriminate].
  - destruct (spost sp); cbn; intros H; [reflexivity|congruence].
Qed.
Print Assumptions C02_numbers_and_flags.
Theorem C02_leading_zeros_irrelevant n k : num (repeat 48 k ++ dec n) = n.
Proof. exact (num_leading_zeros n k). Qed.
Print Assumptions C02_leading_zeros_irrelevant.

(* 4. str(v) is the normal form: it parses back to identical components (hence an equal version and the same string) *)
Theorem C02_str_roundtrip s v : Version s = Some v -> Version (vstr v) = Some v.
Proof. intros E. apply Version_vstr. eapply Version_wf; eassumption. Qed.
Print Assumptions C02_str_roundtrip.

(* 5. public / base_version are the version without its local label / reduced to epoch and release *)
Theorem C02_public s v : Version s = Some v -> Version (public_str v) = Some (drop_local v).
Proof. intros E. apply Version_public. eapply Version_wf; eassumption. Qed.
Print Assumptions C02_public.
Theorem C02_base_version s v : Version s = Some v -> Version (base_str v) = Some (base_of v).
Proof. intros E. apply Version_base. eapply Version_wf; eassumption. Qed.
Print Assumptions C02_base_version.

(* 6. canonicalize_version: complete invariant of equality, idempotent, reparses equal, = str(Version) without stripping,
      identity on non-versions *)
Theorem C02_canon_complete a b x y : Version a = Some x -> Version b = Some y ->
  (canon true a = canon true b <-> pep440_cmp x y = Eq).
Proof. exact (canon_complete a b x y). Qed.
Print Assumptions C02_canon_complete.
Theorem C02_canon_idempotent z s : canon z (canon z s) = canon z s.
Proof. exact (canon_idem z s). Qed.
Print Assumptions C02_canon_idempotent.
Theorem C02_canon_reparses_equal z s v : Version s = Some v -> exists v', Version (canon z s) = Some v' /\ pep440_cmp v v' = Eq.
Proof. exact (canon_reparse z s v). Qed.
Print Assumptions C02_canon_reparses_equal.
Theorem C02_canon_nostrip_is_str s v : Version s = Some v -> canon false s = vstr v.
Proof. intros E. unfold canon. now rewrite E. Qed.
Print Assumptions C02_canon_nostrip_is_str.
Theorem C02_canon_passthrough z s : Version s = None -> canon z s = s.
Proof. intros E. unfold canon. now rewrite E. Qed.
Print Assumptions C02_canon_passthrough.

(* non-vacuity: " V1!02.0-PREVIEW_3.r.dev+Ab-01\n" is accepted and read as 1!2.0rc3.post0.dev0+ab.1 *)
Example C02_nonvacuous :
  option_map vstr (Version [32;86;49;33;48;50;46;48;45;80;82;69;86;73;69;87;95;51;46;114;46;100;101;118;43;65;98;45;48;49;10])
  = Some [49;33;50;46;48;114;99;51;46;112;111;115;116;48;46;100;101;118;48;43;97;98;46;49].
Proof. vm_compute. reflexivity. Qed.
