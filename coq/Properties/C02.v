(* C02  Version components and normal forms are faithful and canonical.
   Model: VParse.parse_spelling (scanner mirroring Version._regex), VMeaning.meaning (Version.__init__), VMeaning.vstr (__str__),
   SpecModel.public_str/base_str, Canon.canon (canonicalize_version with _TrimmedRelease).  Statements only.
   The model has no digit limit (finding D10): the real Version() rejects a decimal component of more than 4300 digits with InvalidVersion and
   canonicalize_version passes such a string through, so the theorems below (in particular C02_leading_zeros_irrelevant for long zero runs) speak
   about the real code only up to that length. *)
From Coq Require Import List Arith NArith Bool Lia.
Import ListNotations.
Require Import S1 VParse VComplete VTop VTop2 VDec Py VMeaning VCanon VCanon2 VCanon3 VCmp SpecModel SpecOps Order Canon VWf VKeyEq CanonLaws VInt VGnfParsed VObsModel VReading VNumDefined VPreOrder.
Open Scope N_scope.

(* 1. an accepted string is read as the spelling it is: the scanner returns a parse tree whose rendering is the input,
      and the components are the PEP 440 meaning of that tree *)
Theorem C02_components_are_the_reading s v : Version s = Some v ->
  exists sp, render sp = s /\ wf_spelling sp /\ v = meaning sp.
Proof.
  unfold Version. destruct (parse_spelling s) as [sp|] eqn:E; [|discriminate]. intros [= <-].
  exists sp. destruct (parse_spelling_sound _ _ E). auto.
Qed.
Print Assumptions C02_components_are_the_reading.

(* 2. every alternate spelling (greedy normal form of the parse tree) is accepted and read as its meaning *)
Theorem C02_every_spelling_is_read sp : gnf sp = true -> Version (render sp) = Some (meaning sp).
Proof. intros G. unfold Version. now rewrite (parse_spelling_complete sp G). Qed.
Print Assumptions C02_every_spelling_is_read.

(* 3. alternate spellings are normalised: alpha/a -> a, beta/b -> b, c/rc/pre/preview -> rc, post/rev/r -> post, dev -> dev *)
Theorem C02_letters_normalised sp :
  wf_spelling sp ->
  (match pre (meaning sp) with Some (l, _) => l = w_a \/ l = w_b \/ l = w_rc | None => True end) /\
  (match post (meaning sp) with Some (l, _) => l = w_post | None => True end) /\
  (match dev (meaning sp) with Some (l, _) => l = w_dev | None => True end).
Proof. intros W. destruct (meaning_wf sp W) as (_ & A & B & C & _). auto. Qed.
Print Assumptions C02_letters_normalised.

(* 3b. the numbers are the PEP 440 reading: an absent epoch is 0, every number is the value of its digits (leading zeros irrelevant),
       an absent pre/post/dev number is the implicit 0, the implicit post form "-N" is post N; flags follow the components *)
Theorem C02_numbers_and_flags sp :
  Py.epoch (meaning sp) = match ep sp with Some e => num e | None => 0 end /\
  Py.release (meaning sp) = map num (rel0 sp :: rels sp) /\
  (forall l, spre sp = Some l -> Py.pre (meaning sp) = Some (norm_letter (l_word l), match l_num l with [] => 0 | d => num d end)) /\
  (forall d, spost sp = Some (PostImplicit d) -> Py.post (meaning sp) = Some (w_post, num d)) /\
  (forall l, spost sp = Some (PostWord l) -> Py.post (meaning sp) = Some (norm_letter (l_word l), match l_num l with [] => 0 | d => num d end)) /\
  (forall l, sdev sp = Some l -> Py.dev (meaning sp) = Some (norm_letter (l_word l), match l_num l with [] => 0 | d => num d end)) /\
  (is_prerelease (meaning sp) = true <-> (spre sp <> None \/ sdev sp <> None)) /\
  (is_postrelease (meaning sp) = true <-> spost sp <> None).
Proof.
  unfold meaning, is_prerelease, is_postrelease; cbn [Py.epoch Py.release Py.pre Py.post Py.dev]. repeat split; auto.
  - intros l ->. reflexivity.
  - intros d ->. reflexivity.
  - intros l ->. reflexivity.
  - intros l ->. reflexivity.
  - destruct (sdev sp), (spre sp); cbn; intros H; try discriminate; auto; [left|right|left]; discriminate.
  - destruct (sdev sp), (spre sp); cbn; intros [H|H]; auto; congruence.
  - destruct (spost sp); cbn; intros H; [discriminate|discriminate].
  - destruct (spost sp); cbn; intros H; [reflexivity|congruence].
Qed.
Print Assumptions C02_numbers_and_flags.
Theorem C02_leading_zeros_irrelevant n k : num (repeat 48 k ++ dec n) = n.
Proof. exact (num_leading_zeros n k). Qed.
Print Assumptions C02_leading_zeros_irrelevant.

(* 4. str(v) is the normal form: it parses back to identical components (hence an equal version and the same string) *)
Theorem C02_str_roundtrip s v : Version s = Some v -> Version (vstr v) = Some v.
Proof. intros E. apply Version_vstr. eapply Version_wf; eassumption. Qed.
Print Assumptions C02_str_roundtrip.

(* 5. public / base_version are the version without its local label / reduced to epoch and release *)
Theorem C02_public s v : Version s = Some v -> Version (public_str v) = Some (drop_local v).
Proof. intros E. apply Version_public. eapply Version_wf; eassumption. Qed.
Print Assumptions C02_public.
Theorem C02_base_version s v : Version s = Some v -> Version (base_str v) = Some (base_of v).
Proof. intros E. apply Version_base. eapply Version_wf; eassumption. Qed.
Print Assumptions C02_base_version.

(* 6. canonicalize_version: complete invariant of equality, idempotent, reparses equal, = str(Version) without stripping,
      identity on non-versions *)
Theorem C02_canon_complete a b x y : Version a = Some x -> Version b = Some y ->
  (canon true a = canon true b <-> pep440_cmp x y = Eq).
Proof. exact (canon_complete a b x y). Qed.
Print Assumptions C02_canon_complete.
Theorem C02_canon_idempotent z s : canon z (canon z s) = canon z s.
Proof. exact (canon_idem z s). Qed.
Print Assumptions C02_canon_idempotent.
Theorem C02_canon_reparses_equal z s v : Version s = Some v -> exists v', Version (canon z s) = Some v' /\ pep440_cmp v v' = Eq.
Proof. exact (canon_reparse z s v). Qed.
Print Assumptions C02_canon_reparses_equal.
Theorem C02_canon_nostrip_is_str s v : Version s = Some v -> canon false s = vstr v.
Proof. intros E. unfold canon. now rewrite E. Qed.
Print Assumptions C02_canon_nostrip_is_str.
Theorem C02_canon_passthrough z s : Version s = None -> canon z s = s.
Proof. intros E. unfold canon. now rewrite E. Qed.
Print Assumptions C02_canon_passthrough.


(* 7. the reading is unique.  `render` is not injective ("1.0a-1" is the rendering of two well-formed trees with different meanings), so
      theorem 1 alone does not say WHICH tree is read.  The scanner returns the tree in greedy normal form (gnf: every component takes the
      longest text the regex would give it, alternatives in the regex's order), and there is exactly one gnf tree per accepted string. *)
Theorem C02_parsed_tree_is_gnf s sp : parse_spelling s = Some sp -> gnf sp = true.
Proof. exact (parse_spelling_gnf s sp). Qed.
Print Assumptions C02_parsed_tree_is_gnf.
Theorem C02_reading_unique s v : Version s = Some v ->
  exists sp, gnf sp = true /\ render sp = s /\ wf_spelling sp /\ v = meaning sp /\
             forall sp', gnf sp' = true -> render sp' = s -> sp' = sp.
Proof. exact (reading_unique s v). Qed.
Print Assumptions C02_reading_unique.

(* 8. the local label: every segment is read as an integer when it is all digits (leading zeros irrelevant, theorem 3c) and as its lower-cased
      text otherwise; the separators '.', '-', '_' between segments are not part of the reading; str() puts '.' between the segments *)
Theorem C02_local_reading sp h t : wf_spelling sp -> sloc sp = Some (h, t) ->
  exists segs, Py.local (meaning sp) = Some segs /\
    Forall2 (fun raw x => if forallb is_digit raw then x = inl (num raw) else x = inr (map lc raw)) (h :: map snd t) segs.
Proof. exact (local_reading sp h t). Qed.
Print Assumptions C02_local_reading.
Theorem C02_local_absent sp : sloc sp = None -> Py.local (meaning sp) = None.
Proof. exact (local_absent sp). Qed.
Print Assumptions C02_local_absent.

(* 9. major / minor / micro are the first three release components (0 where the release is shorter); is_devrelease follows the dev part.
      rel_nth / is_devrelease are the functions the `v.parse` observation runs (Ver/VObsModel.v) *)
Theorem C02_major_minor_micro sp :
  rel_nth 0 (meaning sp) = num (rel0 sp) /\
  rel_nth 1 (meaning sp) = match rels sp with d :: _ => num d | [] => 0 end /\
  rel_nth 2 (meaning sp) = match rels sp with _ :: d :: _ => num d | _ => 0 end /\
  (forall k v, rel_nth k v = if (k <? length (release v))%nat then nth k (release v) 0 else 0).
Proof. split; [exact (major_reading sp)|]. split; [exact (minor_reading sp)|]. split; [exact (micro_reading sp) | exact rel_nth_is_release]. Qed.
Print Assumptions C02_major_minor_micro.
Theorem C02_is_devrelease sp : is_devrelease (meaning sp) = true <-> sdev sp <> None.
Proof. exact (devrelease_reading sp). Qed.
Print Assumptions C02_is_devrelease.

(* 10. the canonical-string invariant on the real `==` (Python's rich comparison of the two keys, as run by `v.cmp`), and hash *)
Theorem C02_canon_complete_eq a b x y : Version a = Some x -> Version b = Some y ->
  (canon true a = canon true b <-> rich Eq_ (key x) (key y) = Some true).
Proof.
  intros Ha Hb. rewrite (C01_rich_is_pep440 x y (wf_c01 _ (Version_wf _ _ Ha)) (wf_c01 _ (Version_wf _ _ Hb)) Eq_).
  rewrite (canon_complete a b x y Ha Hb). destruct (pep440_cmp x y); cbn; split; congruence.
Qed.
Print Assumptions C02_canon_complete_eq.
Theorem C02_canon_equal_same_key a b x y : Version a = Some x -> Version b = Some y -> canon true a = canon true b -> key x = key y.
Proof.
  intros Ha Hb K. apply key_of_equal; [exact (Version_wf _ _ Ha) | exact (Version_wf _ _ Hb) | exact (proj1 (canon_complete a b x y Ha Hb) K)].
Qed.
Print Assumptions C02_canon_equal_same_key.
(* canonicalize_version re-parses str(version) through _TrimmedRelease (utils.py): the model's shortcut vstr (trim v) is that reparse *)
Theorem C02_canon_is_trimmed_reparse s v : Version s = Some v ->
  canon true s = vstr (trim v) /\ canon true (vstr v) = vstr (trim v) /\ Version (vstr (trim v)) = Some (trim v).
Proof.
  intros E. pose proof (Version_wf _ _ E) as W. unfold canon. rewrite E, (Version_vstr v W).
  split; [reflexivity|]. split; [reflexivity|]. apply Version_vstr, wf_trim, W.
Qed.
Print Assumptions C02_canon_is_trimmed_reparse.

(* 11. no totalised default is ever read: on a well-formed spelling (everything the scanner returns, theorem 1) int() is defined on every digit group
        whose value becomes a component - VMeaning.num's 0 on a non-number is unreachable; the implicit 0 of an absent number is the only default *)
Theorem C02_numbers_defined sp : wf_spelling sp ->
  (forall e, ep sp = Some e -> undec e = Some (num e)) /\ undec (rel0 sp) = Some (num (rel0 sp)) /\
  Forall (fun d => undec d = Some (num d)) (rels sp) /\
  (forall l, spre sp = Some l -> l_num l <> [] -> undec (l_num l) = Some (num (l_num l))) /\
  (forall d, spost sp = Some (PostImplicit d) -> undec d = Some (num d)) /\
  (forall l, spost sp = Some (PostWord l) -> l_num l <> [] -> undec (l_num l) = Some (num (l_num l))) /\
  (forall l, sdev sp = Some l -> l_num l <> [] -> undec (l_num l) = Some (num (l_num l))).
Proof. exact (numbers_defined sp). Qed.
Print Assumptions C02_numbers_defined.
Theorem C02_local_numbers_defined sp h t : wf_spelling sp -> sloc sp = Some (h, t) ->
  Forall (fun raw => forallb is_digit raw = true -> undec raw = Some (num raw)) (h :: map snd t).
Proof. exact (local_numbers_defined sp h t). Qed.
Print Assumptions C02_local_numbers_defined.


(* 10. str() is an exact invariant of the components: two accepted strings have the same str() exactly when every component agrees
       (so str() can stand for the object, e.g. as a dictionary key, without merging or splitting versions); str of the re-read
       normal form is the normal form again *)
Theorem C02_str_injective a b x y : Version a = Some x -> Version b = Some y -> (vstr x = vstr y <-> x = y).
Proof.
  intros Ha Hb. split; [|now intros ->]. intros E.
  pose proof (C02_str_roundtrip a x Ha) as Rx. pose proof (C02_str_roundtrip b y Hb) as Ry. rewrite E in Rx. congruence.
Qed.
Print Assumptions C02_str_injective.
Theorem C02_str_idempotent s v w : Version s = Some v -> Version (vstr v) = Some w -> vstr w = vstr v.
Proof. intros E F. rewrite (C02_str_roundtrip s v E) in F. now injection F as <-. Qed.
Print Assumptions C02_str_idempotent.

(* 11. public is str() of the version without its local label (not merely a string that re-reads to it), base_version is str() of epoch and
       release alone; both are idempotent, public leaves a version without local label alone, and base_version of public is base_version *)
Theorem C02_public_is_str_of_public s v : Version s = Some v -> public_str v = vstr (drop_local v).
Proof. intros E. apply public_str_eq. eapply Version_wf; eassumption. Qed.
Print Assumptions C02_public_is_str_of_public.
Theorem C02_public_idempotent s v : Version s = Some v ->
  exists w, Version (public_str v) = Some w /\ public_str w = public_str v /\ Py.local w = None.
Proof.
  intros E. exists (drop_local v). pose proof (C02_public s v E) as P. split; [exact P|]. split; [|reflexivity].
  rewrite (C02_public_is_str_of_public _ _ P), (C02_public_is_str_of_public _ _ E). reflexivity.
Qed.
Print Assumptions C02_public_idempotent.
Theorem C02_public_without_local s v : Version s = Some v -> Py.local v = None -> public_str v = vstr v.
Proof.
  intros E L. rewrite (C02_public_is_str_of_public s v E). f_equal. destruct v; cbn in L |- *. unfold drop_local; cbn. now subst.
Qed.
Print Assumptions C02_public_without_local.
Theorem C02_base_idempotent s v : Version s = Some v ->
  exists w, Version (base_str v) = Some w /\ base_str w = base_str v /\ base_str (drop_local v) = base_str v /\
            Py.pre w = None /\ Py.post w = None /\ Py.dev w = None /\ Py.local w = None /\
            Py.epoch w = Py.epoch v /\ Py.release w = Py.release v.
Proof.
  intros E. exists (base_of v). split; [exact (C02_base_version s v E)|]. repeat split.
Qed.
Print Assumptions C02_base_idempotent.

(* 12. canonicalize_version sends equal versions to one string whatever spelling they came from, in particular str(v) and the
       original text; and with strip_trailing_zero=False two texts get the same result exactly when all components agree *)
Theorem C02_canon_of_str s v : Version s = Some v -> canon true (vstr v) = canon true s /\ canon false (vstr v) = canon false s.
Proof.
  intros E. pose proof (C02_str_roundtrip s v E) as R. unfold canon. now rewrite R, E.
Qed.
Print Assumptions C02_canon_of_str.
Theorem C02_canon_nostrip_exact a b x y : Version a = Some x -> Version b = Some y -> (canon false a = canon false b <-> x = y).
Proof.
  intros Ha Hb. rewrite (C02_canon_nostrip_is_str a x Ha), (C02_canon_nostrip_is_str b y Hb). exact (C02_str_injective a b x y Ha Hb).
Qed.
Print Assumptions C02_canon_nostrip_exact.

(* 13. is_prerelease is an order fact, not only a reading of the text: v is a pre-release exactly when it sorts strictly below the version
       obtained by dropping its pre-release and dev segments (post-release number and local label kept), and it IS that version otherwise -
       so 1.0.post1.dev2 is a pre-release (it sorts below 1.0.post1) although its sort key carries no pre-release marker *)
Theorem C02_prerelease_is_below_its_final v : pep440_cmp v (final_of v) = if is_prerelease v then Lt else Eq.
Proof. exact (prerelease_below_final v). Qed.
Print Assumptions C02_prerelease_is_below_its_final.
Theorem C02_prerelease_is_below_its_final_text s v : Version s = Some v ->
  Version (vstr (final_of v)) = Some (final_of v) /\ (is_prerelease v = true <-> pep440_cmp v (final_of v) = Lt).
Proof.
  intros E. pose proof (Version_wf s v E) as (A & B & C & D & F). split.
  - apply Version_vstr. unfold VMeaning.wf_version, final_of; cbn [release pre post dev local]. split; [exact A|]. split; [exact I|].
    split; [exact C|]. split; [exact I | exact F].
  - rewrite (prerelease_below_final v). destruct (is_prerelease v); split; congruence.
Qed.
Print Assumptions C02_prerelease_is_below_its_final_text.

(* non-vacuity: " V1!02.0-PREVIEW_3.r.dev+Ab-01\n" is accepted and read as 1!2.0rc3.post0.dev0+ab.1 *)
Example C02_nonvacuous :
  option_map vstr (Version [32;86;49;33;48;50;46;48;45;80;82;69;86;73;69;87;95;51;46;114;46;100;101;118;43;65;98;45;48;49;10])
  = Some [49;33;50;46;48;114;99;51;46;112;111;115;116;48;46;100;101;118;48;43;97;98;46;49].
Proof. vm_compute. reflexivity. Qed.
(* "1.0a-1" is read as pre a1 (not as pre a0 + implicit post 1), and its tree is gnf; the local label "+Ab-01_x" is read as ab.1.x;
   micro of "1.2" is 0 *)
Definition reading_check : bool :=
  match parse_spelling [49;46;48;97;45;49], Version [49;46;48;97;45;49], Version [49;46;50;43;65;98;45;48;49;95;120] with
  | Some sp, Some v, Some w =>
      gnf sp && VMeaning.str_eqb (vstr v) [49;46;48;97;49] && negb (is_postrelease v) &&
      VMeaning.str_eqb (vstr w) [49;46;50;43;97;98;46;49;46;120] &&
      (rel_nth 1 w =? 2) && (rel_nth 2 w =? 0) && negb (is_devrelease w)
  | _, _, _ => false end.
Example C02_reading_nonvacuous : reading_check = true.
Proof. vm_compute. reflexivity. Qed.
