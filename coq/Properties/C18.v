(* C18  parse_email is a lossless, typed partition of the document. *)
From Coq Require Import List Arith NArith Bool Lia.
Import ListNotations.
Require Import Show MetaTable MetaSpecTable EmailModel.
Open Scope N_scope.

(* the header-name map and field kinds extracted from the working tree on this run are those of the core-metadata specification *)
Theorem C18_table_is_spec : gen_fields = spec_fields.
Proof. vm_compute; reflexivity. Qed.
Print Assumptions C18_table_is_spec.
