(* C18  parse_email is a lossless, typed partition of the document.

   Model (Email/EmailModel.v): everything AFTER the stdlib e-mail parser.  Input: [items] = the headers in document order (name as
   spelled, value as str, "every chunk valid UTF-8" flag) and the payload (or the payload error) - both delivered by the `email`
   package, which is an oracle.  [loop_result items] = the two dicts after `for name in frozenset(parsed.keys())` (faithful loop with
   in-place dict assignment, names lower-cased inside the loop); [post_email items p] = after the body has been merged.
   [classify items n] is the decision for the lower-cased name n; [lnames items] the lower-cased names that occur.
   Field table (header name -> raw key, kind): Gen/MetaTable.v (regenerated).  Statements only; proofs in Email/EmailFacts.v. *)
From Coq Require Import String List Arith NArith Bool Lia Permutation.
Import ListNotations.
Require Import Show VParse MetaTable MetaSpecTable MetaBase MetaBaseFacts EmailModel EmailFacts EmailRound EmailFinal EmailText EmailTextFacts EmailRespell.
Open Scope N_scope.

(* 0. the header-name map and field kinds extracted from the working tree on this run are those of the core-metadata specification *)
Theorem C18_table_is_spec : gen_fields = spec_fields.
Proof. vm_compute; reflexivity. Qed.
Print Assumptions C18_table_is_spec.

(* 1. PARTITION: every lower-cased header name that occurs ends up under exactly one of the two dicts - under its RawMetadata key in
      raw (and then not in unparsed), or under its own name in unparsed with ALL its values in document order (and then its
      RawMetadata key, if it has one, is not in raw) *)
Theorem C18_partition items n : In n (lnames items) ->
  (exists k v, classify items n = CRaw k v /\ lookup k (fst (loop_result items)) = Some v /\ lookup n (snd (loop_result items)) = None) \/
  (classify items n = CUnp /\ lookup n (snd (loop_result items)) = Some (map UStr (values items n)) /\
   forall k kind, raw_of_email n = Some (k, kind) -> lookup k (fst (loop_result items)) = None).
Proof. exact (loop_partition items n). Qed.
Print Assumptions C18_partition.
Theorem C18_names_present items n : In n (lnames items) <-> exists i, In i items /\ lower_name (i_name i) = n.
Proof. exact (In_lnames items n). Qed.
Print Assumptions C18_names_present.

(* 1b. the iteration order of frozenset(parsed.keys()) - and a name occurring in it under several spellings - is irrelevant:
       any list with the same elements as the set of header names leaves the same two dicts *)
Theorem C18_order_irrelevant items ns : (forall n, In n ns <-> In n (key_set items)) ->
  let st := fold_left (step items) ns ([], []) in
  (forall k, lookup k (fst st) = lookup k (fst (loop_result items))) /\ (forall m, lookup m (snd st) = lookup m (snd (loop_result items))).
Proof. exact (loop_order_irrelevant items ns). Qed.
Print Assumptions C18_order_irrelevant.

(* 2. NO INVENTION: every entry of either dict stems from a header name that occurs, with the value [classify] assigns to it *)
Theorem C18_no_invention items :
  (forall k v, lookup k (fst (loop_result items)) = Some v -> exists n, In n (lnames items) /\ classify items n = CRaw k v) /\
  (forall m vs, lookup m (snd (loop_result items)) = Some vs -> In m (lnames items) /\ vs = map UStr (values items m)).
Proof. exact (loop_no_invention items). Qed.
Print Assumptions C18_no_invention.

(* 2b. NO LOSS: the value of EVERY header of the document is held by the dict its name went to - verbatim in unparsed; in raw as the
       string itself, as a list item, as the comma-split of itself (Keywords), or as its (label, url) pair (Project-URL) *)
Theorem C18_no_value_dropped items i : In i items ->
  let n := lower_name (i_name i) in
  (exists vs, lookup n (snd (loop_result items)) = Some vs /\ In (UStr (i_val i)) vs) \/
  (exists k v, lookup k (fst (loop_result items)) = Some v /\
     (v = RStr (i_val i) \/ (exists l, v = RList l /\ (In (i_val i) l \/ l = parse_keywords (i_val i))) \/
      (exists d, v = RDict d /\ In (split_url (i_val i)) d))).
Proof. exact (every_value_kept items i). Qed.
Print Assumptions C18_no_value_dropped.

(* 3. TYPING and NO LOSS: a name goes to raw exactly when every value decoded, the name is a core-metadata header, and
      - single-use string field: it occurs once; raw holds that str verbatim
      - multiple-use field: raw holds the list of all values in document order
      - Keywords: it occurs once; raw holds the comma-separated pieces, stripped (see C18_keywords)
      - Project-URL: the labels are pairwise distinct; raw holds label -> url in document order (see C18_project_urls)
      everything else - unknown names, repeated single-use fields, duplicate labels, undecodable bytes - is CUnp *)
Theorem C18_typed_no_loss items n k v : classify items n = CRaw k v <->
  forallb i_valid (get_all items n) = true /\ exists kind, raw_of_email n = Some (k, kind) /\
    ((kind = 0 /\ exists x, values items n = [x] /\ v = RStr x) \/
     (kind = 1 /\ v = RList (values items n)) \/
     (kind = 2 /\ exists x, values items n = [x] /\ v = RList (parse_keywords x)) \/
     (kind = 3 /\ exists d, parse_project_urls [] (values items n) = Some d /\ v = RDict d)).
Proof. exact (classify_spec items n k v). Qed.
Print Assumptions C18_typed_no_loss.
Theorem C18_values_in_document_order items n i :
  (In i (get_all items n) <-> In i items /\ lower_name (i_name i) = lower_name n) /\
  get_all items n = filter (fun i => seqb (lower_name (i_name i)) (lower_name n)) items /\ values items n = map i_val (get_all items n).
Proof. split; [apply get_all_spec | split; reflexivity]. Qed.
Print Assumptions C18_values_in_document_order.
Theorem C18_keywords s : exists pieces, parse_keywords s = map strip pieces /\ join [44] pieces = s /\ forall x, In x pieces -> ~ In 44 x.
Proof. exact (keywords_split s). Qed.
Print Assumptions C18_keywords.
Theorem C18_project_urls data d : parse_project_urls [] data = Some d <->
  d = map split_url data /\ forall pre p post, map split_url data = pre ++ p :: post -> lookup (fst p) pre = None.
Proof. exact (parse_project_urls_spec data [] d). Qed.
Print Assumptions C18_project_urls.

(* 4. DESCRIPTION RULE: an empty body changes nothing; a non-empty body is the description unless a Description header exists
      (in raw: header and body both go to unparsed; already in unparsed: the body joins it); an undecodable/multipart body is filed
      under unparsed['description'] together with a Description header from raw.  No other key is touched. *)
Theorem C18_description_rule items p :
  let st := loop_result items in let fin := post_email items p in
  match p with
  | POk [] => fin = st
  | POk body =>
      match lookup k_description (fst st) with
      | Some h => (exists x, values items k_description = [x] /\ h = RStr x) /\
                  lookup k_description (fst fin) = None /\ lookup k_description (snd fin) = Some [ustr_of h; UStr body]
      | None => match lookup k_description (snd st) with
                | Some old => lookup k_description (fst fin) = None /\ lookup k_description (snd fin) = Some (old ++ [UStr body])
                | None => lookup k_description (fst fin) = Some (RStr body) /\ lookup k_description (snd fin) = None
                end
      end
  | PErr obj =>
      match lookup k_description (fst st) with
      | Some h => lookup k_description (fst fin) = None /\ lookup k_description (snd fin) = Some [ustr_of h; UOpaque obj]
      | None => lookup k_description (fst fin) = None /\
                lookup k_description (snd fin) = Some (match lookup k_description (snd st) with Some old => old | None => [] end ++ [UOpaque obj])
      end
  end.
Proof.
  cbn zeta. unfold post_email. fold (loop_result items). pose proof (merge_description (loop_result items) p) as H. cbn zeta in H.
  destruct p as [[|c body]|obj]; auto.
  - destruct (lookup k_description (fst (loop_result items))) as [h|] eqn:L; auto.
    destruct (loop_description_raw items h L) as [X U]. rewrite U in H. cbn [odef app] in H. tauto.
  - destruct (lookup k_description (fst (loop_result items))) as [h|] eqn:L; auto.
    destruct (loop_description_raw items h L) as [X U]. rewrite U in H. cbn [odef app] in H. tauto.
Qed.
Print Assumptions C18_description_rule.
Theorem C18_body_touches_only_description items p k : k <> k_description ->
  lookup k (fst (post_email items p)) = lookup k (fst (loop_result items)) /\ lookup k (snd (post_email items p)) = lookup k (snd (loop_result items)).
Proof. intros N. unfold post_email. now apply merge_other_keys. Qed.
Print Assumptions C18_body_touches_only_description.

(* 5. ROUND TRIP: serialise a well-formed RawMetadata [r] as RFC 822 headers - one header per string field, one per list item,
      Keywords comma-joined, Project-URL as "label, url", header names in any capitalisation [spell], the description as the body -
      and run parse_email's post-processing on it: unparsed is empty and raw is [r] (same keys, same values).
      Oracle assumption: the e-mail parser returns exactly the serialised (name, value) pairs and the body.
      [wf r]: distinct keys, every key a RawMetadata field with a value of its kind, lists / dicts / description non-empty, keywords and
      labels without commas, keywords / labels / URLs without surrounding white space, labels distinct. *)
Theorem C18_roundtrip spell r : (forall n, lower_name (spell n) = lower_name n) -> wf r ->
  snd (post_email (ser_items spell r) (ser_payload r)) = [] /\
  forall k, lookup k (fst (post_email (ser_items spell r) (ser_payload r))) = lookup k r.
Proof. intros S W. now apply roundtrip. Qed.
Print Assumptions C18_roundtrip.

(* non-vacuity of [wf]: string, keywords, project urls (one with an empty URL), a list whose items contain commas and blanks, description *)
Definition r_ex : list (list N * rawval) :=
  [(asc "name", RStr (asc "a")); (asc "keywords", RList [asc "x"; asc "y z"]); (asc "description", RStr (asc "body"));
   (asc "project_urls", RDict [(asc "Home", asc "http://h"); (asc "Docs", [])]); (asc "classifiers", RList [asc "A, B"; asc " C "])].
Example C18_roundtrip_nonvacuous : wf r_ex.
Proof.
  split.
  - vm_compute. repeat constructor; cbn [In]; intuition discriminate.
  - intros kv [<-|[<-|[<-|[<-|[<-|[]]]]]]; eexists; eexists; (split; [vm_compute; reflexivity|]); cbn [snd fst].
    + split; auto. intros H; vm_compute in H; discriminate H.
    + split; [discriminate|]. right. split; auto. intros x [<-|[<-|[]]]; (split; [vm_compute; reflexivity | vm_compute; intuition discriminate]).
    + split; auto. intros _. discriminate.
    + split; auto. split; [discriminate|]. split; [vm_compute; repeat constructor; cbn [In]; intuition discriminate|].
      intros p [<-|[<-|[]]]; (split; [vm_compute; reflexivity | split; [vm_compute; intuition discriminate | vm_compute; reflexivity]]).
    + split; [discriminate|]. left. reflexivity.
Qed.

(* non-vacuity: two spellings of a repeated single-use header, a keywords header, duplicate Project-URL labels, an undecodable header, a body *)
Definition it (n v : string) (ok : bool) := {| i_name := asc n; i_val := asc v; i_valid := ok |}.
Example C18_nonvacuous :
  post_email [it "Name" "a" true; it "Keywords" "x, y ,z" true; it "NAME" "b" true; it "Project-URL" "Home, http://h" true;
              it "project-url" "Home, http://g" true; it "Classifier" "A" true; it "Summary" "s" false; it "classifier" "B" true]
             (POk (asc "body")) =
  ([(asc "keywords", RList [asc "x"; asc "y"; asc "z"]); (asc "classifiers", RList [asc "A"; asc "B"]); (asc "description", RStr (asc "body"))],
   [(asc "name", [UStr (asc "a"); UStr (asc "b")]); (asc "project-url", [UStr (asc "Home, http://h"); UStr (asc "Home, http://g")]);
    (asc "summary", [UStr (asc "s")])]).
Proof. vm_compute. reflexivity. Qed.


(* ====================================================================================================================================
   Improvement round.  (a) the partition / no-loss / no-invention statements on the FINAL state [post_email items p] (loop AND body merge);
   (b) the round trip through TEXT: [ser_text spell r] is the document the serialiser writes, [parse_lines] cuts a document of plain
   "Name: value" lines + blank line + body into the header list and payload (None on any other document), and the oracle assumption
   shrinks to "the email package agrees with parse_lines on such documents".  That assumption is SAMPLED, not proved: the command e.lines
   compares the package with parse_lines on generated str documents without surrogate code points; for UTF-8 bytes input nothing is
   proved - that leg rests on the laws law.e.strbytes / law.e.roundtrip of the harness. *)

(* 6. FINAL-STATE PARTITION: every name that is present - a (lower-cased) header name, or 'description' when there is a body - is under
      exactly one of the two RETURNED dicts; conversely every key of either dict stems from a name that is present *)
Theorem C18_final_partition items p n : present items p n ->
  (exists k kind, raw_of_email n = Some (k, kind) /\ lookup k (fst (post_email items p)) <> None /\ lookup n (snd (post_email items p)) = None) \/
  (lookup n (snd (post_email items p)) <> None /\ forall k kind, raw_of_email n = Some (k, kind) -> lookup k (fst (post_email items p)) = None).
Proof. apply post_partition. Qed.
Print Assumptions C18_final_partition.
Theorem C18_final_no_invention items p :
  (forall k v, lookup k (fst (post_email items p)) = Some v -> exists n kind, raw_of_email n = Some (k, kind) /\ present items p n) /\
  (forall m vs, lookup m (snd (post_email items p)) = Some vs -> present items p m).
Proof. apply post_no_invention. Qed.
Print Assumptions C18_final_no_invention.

(* 7. NO VALUE DROPPED, final state, tied to the name's own key, with multiplicity: the dict the name of a header went to holds ALL the
      values of that name in document order - unparsed: the list under the name starts with exactly them (only a description body can
      follow) and the name's RawMetadata key is not in raw; raw: under the RawMetadata key OF THAT NAME sits the value that
      C18_typed_no_loss determines from exactly that list of values (the single value / the whole list / its comma-split / its pairs) *)
Theorem C18_final_no_value_dropped items p i : In i items ->
  let n := lower_name (i_name i) in let fin := post_email items p in
  In (i_val i) (values items n) /\
  ((exists rest, lookup n (snd fin) = Some (map UStr (values items n) ++ rest) /\
                 forall k kind, raw_of_email n = Some (k, kind) -> lookup k (fst fin) = None) \/
   (lookup n (snd fin) = None /\ exists k kind v, raw_of_email n = Some (k, kind) /\ classify items n = CRaw k v /\ lookup k (fst fin) = Some v)).
Proof. apply post_every_value_kept. Qed.
Print Assumptions C18_final_no_value_dropped.

(* 8. TEXT: documents made of simple header lines and a body are cut into exactly those headers and that body ... *)
Theorem C18_parse_lines_of_text items p : (forall i, In i items -> simple_item i) -> (exists b, p = POk b) ->
  parse_lines (text_of items p) = Some (items, p).
Proof. apply parse_text_of. Qed.
Print Assumptions C18_parse_lines_of_text.
(* ... so the ROUND TRIP holds through the text: on top of [wf r], [wf_text] asks that no value (the description, which is the body,
   excepted) contains a line-break character (LF CR VT FF FS GS RS NEL LS PS: str.splitlines) and that string values and list items
   do not begin with a blank (the header parser strips leading blanks), and that every value (the description included) is text: no
   surrogate code point (the e-mail package reads U+DC80..DCFF in a str as smuggled bytes and rewrites them; the other surrogates make
   it raise).  The surrogate condition is not needed by the proof - the model treats code points as plain numbers - it is there so that
   the theorem's domain is one on which the round trip of the real code was observed to hold (str input; sampled by law.e.roundtrip*,
   failing cases outside it pinned by law.e.roundtrip-neg).  The second conjunct follows from the first and C18_roundtrip. *)
Theorem C18_text_roundtrip spell r : (forall n, lower_name (spell n) = lower_name n) -> (forall n, header_name_ok n = true -> header_name_ok (spell n) = true) ->
  wf_text r ->
  parse_lines (ser_text spell r) = Some (ser_items spell r, ser_payload r) /\
  exists items p, parse_lines (ser_text spell r) = Some (items, p) /\ snd (post_email items p) = [] /\ forall k, lookup k (fst (post_email items p)) = lookup k r.
Proof. intros S1 S2 W. split; [now apply parse_ser_text | now apply text_roundtrip]. Qed.
Print Assumptions C18_text_roundtrip.

(* non-vacuity of part 8 and NECESSITY of the extra conditions: for a text-well-formed dict the computed trip gives the dict back;
   [wf] alone is not enough - {"name": " x"} is in [wf] and comes back as {"name": "x"} (the real code does the same, see the
   law.e.roundtrip-neg cases of the harness) *)
Definition dict_eqb (a b : list (list N * rawval)) : bool :=
  forallb (fun kv => match lookup (fst kv) b, snd kv with
                     | Some (RStr x), RStr y => seqb x y
                     | Some (RList x), RList y => seqb (join [10] x) (join [10] y) && (length x =? length y)%nat
                     | Some (RDict x), RDict y => seqb (join [10] (map (fun p => fst p ++ [10] ++ snd p) x)) (join [10] (map (fun p => fst p ++ [10] ++ snd p) y))
                     | _, _ => false end) a && (length a =? length b)%nat.
Definition trip (r : list (list N * rawval)) : option dicts :=
  match parse_lines (ser_text (fun n => n) r) with Some (items, p) => Some (post_email items p) | None => None end.
Definition r_text : list (list N * rawval) :=
  [(asc "name", RStr (asc "a b ")); (asc "keywords", RList [asc "x"; asc "y z"]); (asc "description", RStr (asc "body" ++ [10; 13; 10] ++ asc " more"));
   (asc "project_urls", RDict [(asc "Home", asc "http://h"); (asc "", [])]); (asc "classifiers", RList [asc "A, B"; asc "C :: D "]); (asc "summary", RStr [])].
Definition text_check : bool :=
  match trip r_text with Some (raw, []) => dict_eqb r_text raw | _ => false end &&
  match trip [(asc "name", RStr (asc " x"))] with Some (raw, []) => dict_eqb [(asc "name", RStr (asc "x"))] raw | _ => false end &&
  match trip [(asc "summary", RStr (asc "a" ++ [10] ++ asc "b"))], trip [(asc "classifiers", RList [asc "x" ++ [13]])] with None, None => true | _, _ => false end.
Example C18_text_nonvacuous : text_check = true.
Proof. vm_compute. reflexivity. Qed.
Example C18_wf_text_satisfiable : wf_text [(asc "name", RStr (asc "a b ")); (asc "description", RStr (asc "x" ++ [10] ++ asc " y")); (asc "classifiers", RList [asc "A, B"])].
Proof.
  split; [split|split].
  - vm_compute. repeat constructor; cbn [In]; intuition discriminate.
  - intros kv [<-|[<-|[<-|[]]]]; eexists; eexists; (split; [vm_compute; reflexivity|]); cbn [snd fst].
    + split; auto. intros H; vm_compute in H; discriminate H.
    + split; auto. intros _. discriminate.
    + split; [discriminate|]. left. reflexivity.
  - intros kv [<-|[<-|[<-|[]]]]; cbn [wf_text_entry fst snd].
    + right. split; [|vm_compute; reflexivity]. intros c H. cbn [In] in H. repeat (destruct H as [<-|H]; [reflexivity|]). contradiction.
    + left. reflexivity.
    + right. intros x [<-|[]]. split; [|vm_compute; reflexivity]. intros c H. cbn [In] in H. repeat (destruct H as [<-|H]; [reflexivity|]). contradiction.
  - assert (T : forall s c, In c s -> forallb (fun x => (x <? 55296) || (57343 <? x)) s = true -> c < 55296 \/ 57343 < c).
    { intros s0 c I H. rewrite forallb_forall in H. specialize (H c I). apply orb_prop in H as [H|H]; apply N.ltb_lt in H; auto. }
    intros kv [<-|[<-|[<-|[]]]]; cbn [text_entry snd].
    + intros c I. eapply T; [exact I | vm_compute; reflexivity].
    + intros c I. eapply T; [exact I | vm_compute; reflexivity].
    + intros x [<-|[]] c I. eapply T; [exact I | vm_compute; reflexivity].
Qed.

(* 9. header names are case-insensitive PER LINE: header lists that agree line by line up to the capitalisation of the names leave the
      same two dicts; hence the round trip for any capitalisation of every single line (C18_roundtrip spells all occurrences of a name alike) *)
Theorem C18_spelling_per_line_irrelevant a b p : same_doc a b -> deq (post_email a p) (post_email b p).
Proof. apply respell_irrelevant. Qed.
Print Assumptions C18_spelling_per_line_irrelevant.
Theorem C18_roundtrip_any_spelling r items : wf r -> same_doc (ser_items (fun n => n) r) items ->
  snd (post_email items (ser_payload r)) = [] /\ forall k, lookup k (fst (post_email items (ser_payload r))) = lookup k r.
Proof. apply roundtrip_any_spelling. Qed.
Print Assumptions C18_roundtrip_any_spelling.
(* 10. a Description header that the loop put into raw is a str (the PErr / body branches of C18_description_rule render it with [ustr_of],
       whose default for other shapes is therefore never used) and then 'description' is not in unparsed *)
Theorem C18_description_header_is_str items h : lookup k_description (fst (loop_result items)) = Some h ->
  (exists x, values items k_description = [x] /\ h = RStr x /\ ustr_of h = UStr x) /\ lookup k_description (snd (loop_result items)) = None.
Proof. intros L. destruct (loop_description_raw items h L) as [[x [V ->]] U]. split; eauto. Qed.
Print Assumptions C18_description_header_is_str.
Definition respell_check : bool :=
  let a := [it "Name" "a" true; it "Classifier" "A" true; it "classifier" "B" true] in
  let b := [it "NAME" "a" true; it "cLASSIFIER" "A" true; it "Classifier" "B" true] in
  match post_email a (POk []), post_email b (POk []) with
  | (ra, []), (rb, []) => dict_eqb ra rb && (length ra =? 2)%nat
  | _, _ => false
  end.
Example C18_respell_nonvacuous : respell_check = true.
Proof. vm_compute. reflexivity. Qed.
