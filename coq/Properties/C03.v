(* C03  Specifier.contains implements PEP 440 operator semantics (pre-releases enabled).
   Model: SpecContains (Specifier(), contains(), the _compare_* methods as written, string level: Version(prospective.public),
   canonicalize_version, _version_split, _pad_version, _version_join ...).  Spec: SpecSem.sem / SpecOps.*_spec on structured versions. *)
From Coq Require Import List Arith NArith Bool Lia.
Import ListNotations.
Require Import S1 VParse VComplete VTop VTop2 VDec Py VMeaning VCmp SpecModel SpecOps SpecOps2 Prefix Prefix4 Compat SpecParse SpecSound SpecContains SpecSem SpecMain.
Open Scope N_scope.

(* every operator: the code's answer on (specifier, candidate) is the PEP 440 definition *)
Theorem C03_contains_is_pep440 sp f item :
  interp sp = Some f -> form_ok (sp_op sp) f ->
  Some (contains sp None (Some true) item) = contains_spec sp item.
Proof. exact (contains_is_spec sp f item). Qed.
Print Assumptions C03_contains_is_pep440.
