(* C03  Specifier.contains implements PEP 440 operator semantics (pre-releases enabled).
   Model: SpecContains (Specifier(), contains(), the _compare_* methods as written, string level: Version(prospective.public),
   canonicalize_version, _version_split, _pad_version, _version_join ...).  Spec: SpecSem.sem / SpecOps.*_spec on structured versions:
     ==V / !=V   eq_spec      compare as versions, candidate's local label dropped unless V has one
     ==V.*       prefix_spec  epoch equal and V's release a prefix of the candidate's zero-padded release
     ~=V         compat_spec  >=V and prefix match on V's release minus its last component
     <=V / >=V   le/ge_spec   total order on the candidate's public version
     <V / >V     lt/gt_spec   order + the pre-release / post-release / local-version exclusions
     ===S        arb_spec     case-insensitive equality with str(candidate)                                            *)
From Coq Require Import List Arith NArith Bool Lia.
Import ListNotations.
Require Import S1 VParse VComplete VTop VTop2 VDec Py VMeaning VCmp SpecModel SpecOps SpecOps2 Prefix Prefix4 Compat SpecParse SpecSound SpecContains SpecSem SpecMain SpecLink.
Open Scope N_scope.

(* 1. every specifier the constructor accepts denotes a version form its operator admits (so the semantics below is defined) *)
Theorem C03_accepted_specifier_has_meaning s sp : Specifier s = Some sp -> exists f, interp sp = Some f /\ form_ok (sp_op sp) f.
Proof. exact (Specifier_interp s sp). Qed.
Print Assumptions C03_accepted_specifier_has_meaning.

(* 2. for every operator, every accepted specifier text and every candidate string: the code's answer is the PEP 440 definition
      (an invalid candidate gives InvalidVersion = BadItem on both sides; no other exception can escape) *)
Theorem C03_contains_is_pep440 s sp item : Specifier s = Some sp ->
  Some (contains sp None (Some true) item) = contains_spec sp item.
Proof. intros S. destruct (Specifier_interp s sp S) as (f & I & F). exact (contains_is_spec sp f item I F). Qed.
Print Assumptions C03_contains_is_pep440.
(* ... whatever the object's own pre-release setting is (constructor keyword or attribute assigned later): the call argument decides *)
Theorem C03_call_argument_overrides_object_setting s sp override item : Specifier s = Some sp ->
  Some (contains sp override (Some true) item) = contains_spec sp item.
Proof. intros S. rewrite <- (C03_contains_is_pep440 s sp item S). reflexivity. Qed.
Print Assumptions C03_call_argument_overrides_object_setting.

(* 3. spelled out per operator on structured versions *)
Theorem C03_operator_table sp f c : VMeaning.wf_version c -> interp sp = Some f -> form_ok (sp_op sp) f ->
  compare_op (sp_op sp) c (sp_text sp) = sem (sp_op sp) f c.
Proof. exact (compare_op_spec sp f c). Qed.
Print Assumptions C03_operator_table.

(* non-vacuity: "~= v1.4.5.RC1" (spelled un-normalised) matches 1.4.9 and not 1.5, both sides computed by the code model *)
Definition nonvac_check : bool :=
  match Specifier [126;61;32;118;49;46;52;46;53;46;82;67;49] with
  | Some sp => match contains sp None (Some true) [49;46;52;46;57], contains sp None (Some true) [49;46;53], contains_spec sp [49;46;52;46;57] with
               | Ans true, Ans false, Some (Ans true) => true | _, _, _ => false end
  | None => false end.
Example C03_nonvacuous : nonvac_check = true.
Proof. vm_compute. reflexivity. Qed.
