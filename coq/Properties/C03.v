(* C03  Specifier.contains implements PEP 440 operator semantics (pre-releases enabled).
   Model: SpecContains (Specifier(), contains(), the _compare_* methods as written, string level: Version(prospective.public),
   canonicalize_version, _version_split, _pad_version, _version_join ...).  Spec: SpecSem.sem / SpecOps.*_spec on structured versions:
     ==V / !=V   eq_spec      compare as versions, candidate's local label dropped unless V has one
     ==V.*       prefix_spec  epoch equal and V's release a prefix of the candidate's zero-padded release
     ~=V         compat_spec  >=V and prefix match on V's release minus its last component
     <=V / >=V   le/ge_spec   total order on the candidate's public version
     <V / >V     lt/gt_spec   order + the pre-release / post-release / local-version exclusions
     ===S        arb_spec     case-insensitive equality with str(candidate)                                            *)
From Coq Require Import List Arith NArith Bool Lia.
Import ListNotations.
Require Import S1 VParse VComplete VTop VTop2 VDec Py VMeaning VCmp SpecModel SpecOps SpecOps2 Prefix Prefix4 Compat SpecParse SpecSound SpecContains SpecSem SpecMain SpecLink SpecGate SpecArb SpecArbFull SpecAdmit SpecStruct SpecSpell VAscii NamesX.
Open Scope N_scope.

(* 1. every specifier the constructor accepts denotes a version form its operator admits (so the semantics below is defined) *)
Theorem C03_accepted_specifier_has_meaning s sp : Specifier s = Some sp -> exists f, interp sp = Some f /\ form_ok (sp_op sp) f.
Proof. exact (Specifier_interp s sp). Qed.
Print Assumptions C03_accepted_specifier_has_meaning.

(* 2. for every operator, every accepted specifier text and every candidate string: the code's answer is the PEP 440 definition
      (an invalid candidate gives InvalidVersion = BadItem on both sides; no other exception can escape) *)
Theorem C03_contains_is_pep440 s sp item : Specifier s = Some sp ->
  Some (contains sp None (Some true) item) = contains_spec sp item.
Proof. intros S. destruct (Specifier_interp s sp S) as (f & I & F). exact (contains_is_spec sp f item I F). Qed.
Print Assumptions C03_contains_is_pep440.
(* ... whatever the object's own pre-release setting is (constructor keyword or attribute assigned later): the call argument decides *)
Theorem C03_call_argument_overrides_object_setting s sp override item : Specifier s = Some sp ->
  Some (contains sp override (Some true) item) = contains_spec sp item.
Proof. intros S. rewrite <- (C03_contains_is_pep440 s sp item S). reflexivity. Qed.
Print Assumptions C03_call_argument_overrides_object_setting.

(* 3. spelled out per operator on structured versions *)
Theorem C03_operator_table sp f c : VMeaning.wf_version c -> interp sp = Some f -> form_ok (sp_op sp) f ->
  compare_op (sp_op sp) c (sp_text sp) = sem (sp_op sp) f c.
Proof. exact (compare_op_spec sp f c). Qed.
Print Assumptions C03_operator_table.

(* 4. "with pre-releases enabled", however that comes about.  [arg] = the call argument, [ov] = the object's own setting (constructor
      keyword or attribute assigned later), neither = the operator's automatic default; `item in spec` is contains with no argument.
      Gate open (setting true, or the candidate is no pre-release): the answer is the PEP 440 definition (substantive: rests on theorem 2).
      Gate closed: a pre-release is refused; an invalid candidate is InvalidVersion - these two are DEFINITIONAL (one unfolding of the model's
      contains(), which mirrors specifiers.py line by line; they hold for any specifier record, accepted or not). *)
Theorem C03_gate_open s sp ov arg item c : Specifier s = Some sp -> Version item = Some c ->
  (match arg with Some b => b | None => effective_pre ov sp end) = true \/ is_prerelease c = false ->
  Some (contains sp ov arg item) = contains_spec sp item.
Proof. exact (gate_open s sp ov arg item c). Qed.
Print Assumptions C03_gate_open.
Theorem C03_gate_closed sp ov arg item c : Version item = Some c ->
  (match arg with Some b => b | None => effective_pre ov sp end) = false -> is_prerelease c = true -> contains sp ov arg item = Ans false.
Proof. exact (gate_closed sp ov arg item c). Qed.
Print Assumptions C03_gate_closed.
Theorem C03_invalid_candidate sp ov arg item : Version item = None -> contains sp ov arg item = BadItem.
Proof. exact (gate_bad_item sp ov arg item). Qed.
Print Assumptions C03_invalid_candidate.
(* Specifier(s, prereleases=True).contains(item) and item in Specifier(s, prereleases=True).  The second conjunct is the first by definition
   (in_op sp ov item := contains sp ov None item, as __contains__ is self.contains(item)); that `in` really behaves so is checked by the
   correspondence streams query:in / sem:object-setting:in, whose model side runs in_op. *)
Theorem C03_enabled_by_object_setting s sp item : Specifier s = Some sp ->
  Some (contains sp (Some true) None item) = contains_spec sp item /\ Some (in_op sp (Some true) item) = contains_spec sp item.
Proof. exact (enabled_by_object_setting s sp item). Qed.
Print Assumptions C03_enabled_by_object_setting.

(* 5. the === clause has content: the candidate's normalised string is lower-case ASCII already, so "case-insensitive equality" means
      that lower-casing the specifier's text yields exactly str(candidate).
      5a (next four theorems) is stated with VMeaning.py_lower, the lower-casing the executable specifier model uses: exact on ASCII, U+0130 and
      U+212A, the identity elsewhere - NOT str.lower() on arbitrary text.
      5b (the _exact theorems after them) states the same with NamesX.lower_full, the exact model of str.lower() (full interpreter table
      Gen/LowerTable, re-validated per code point on every run, and the Final_Sigma rule): because U+212A KELVIN SIGN is the only non-ASCII code
      point whose lower-casing is ASCII (SpecArbFull.only_kelvin, computed over the 1407 entries), the model's === coincides with
      str(candidate).lower() == text.lower() on EVERY text. *)
Theorem C03_normalised_string_is_lower_case c : VMeaning.wf_version c -> py_lower (vstr c) = vstr c /\ forallb is_ascii (vstr c) = true.
Proof. intros W. split; [exact (py_lower_vstr c W) | exact (allC_ascii _ (vstr_alphabet c W))]. Qed.
Print Assumptions C03_normalised_string_is_lower_case.
Theorem C03_arbitrary_equality c t : VMeaning.wf_version c -> (arb_spec c t = true <-> py_lower t = vstr c).
Proof. exact (arb_spec_iff c t). Qed.
Print Assumptions C03_arbitrary_equality.
Theorem C03_arbitrary_equality_ascii c t : VMeaning.wf_version c -> forallb is_ascii t = true -> (arb_spec c t = true <-> map lc t = vstr c).
Proof. exact (arb_spec_ascii c t). Qed.
Print Assumptions C03_arbitrary_equality_ascii.
Theorem C03_arbitrary_match_alphabet c t : VMeaning.wf_version c -> arb_spec c t = true -> forallb (fun x => is_ascii x || (x =? 8490)) t = true.
Proof. exact (arb_match_chars c t). Qed.
Print Assumptions C03_arbitrary_match_alphabet.

(* 5b. against the exact str.lower() *)
Theorem C03_arbitrary_equality_is_exact_lower c t : VMeaning.wf_version c ->
  cmp_arbitrary c t = Some (VMeaning.str_eqb (lower_full (vstr c)) (lower_full t)) /\ lower_full (vstr c) = vstr c.
Proof. intros W. split; [exact (cmp_arbitrary_exact c t W) | exact (lower_full_vstr c W)]. Qed.
Print Assumptions C03_arbitrary_equality_is_exact_lower.
Theorem C03_arbitrary_equality_exact c t : VMeaning.wf_version c -> (arb_spec c t = true <-> lower_full t = vstr c).
Proof. exact (arb_spec_iff_full c t). Qed.
Print Assumptions C03_arbitrary_equality_exact.
Theorem C03_arbitrary_match_alphabet_exact c t : VMeaning.wf_version c -> lower_full t = vstr c ->
  forallb (fun x => is_ascii x || (x =? 8490)) t = true.
Proof. exact (arb_match_chars_full c t). Qed.
Print Assumptions C03_arbitrary_match_alphabet_exact.

(* 6. the quantifier "every operator x every specifier version the operator admits", from the structured side: for every structured
      version V the operator admits (and every wildcard form), the code model's comparison on the canonical text of V is [sem];
      the constructor accepts operator + str(V), stores exactly that pair, and contains(item, prereleases=True) answers [sem] *)
Theorem C03_structured o V c : form_ok o (FVer V) -> VMeaning.wf_version c -> compare_op o c (vstr V) = sem o (FVer V) c.
Proof. exact (structured_ver o V c). Qed.
Print Assumptions C03_structured.
Theorem C03_structured_wildcard o V c : form_ok o (FWild V) -> VMeaning.wf_version c -> compare_op o c (vstr V ++ [46; 42]) = sem o (FWild V) c.
Proof. exact (structured_wild o V c). Qed.
Print Assumptions C03_structured_wildcard.
Theorem C03_structured_contains o V item c : form_ok o (FVer V) -> Version item = Some c ->
  exists b, Specifier (op_txt o ++ vstr V) = Some {| sp_op := o; sp_text := vstr V |} /\
            sem o (FVer V) c = Some b /\ contains {| sp_op := o; sp_text := vstr V |} None (Some true) item = Ans b.
Proof. exact (structured_contains o V item c). Qed.
Print Assumptions C03_structured_contains.
Theorem C03_structured_contains_wildcard o V item c : form_ok o (FWild V) -> Version item = Some c ->
  exists b, Specifier (op_txt o ++ vstr V ++ [46; 42]) = Some {| sp_op := o; sp_text := vstr V ++ [46; 42] |} /\
            sem o (FWild V) c = Some b /\ contains {| sp_op := o; sp_text := vstr V ++ [46; 42] |} None (Some true) item = Ans b.
Proof. exact (structured_contains_wild o V item c). Qed.
Print Assumptions C03_structured_contains_wildcard.
(* ... and in ANY spelling Version() accepts: the text of an admitted version is accepted after the operator, as that operator
      (semantic completeness of the operator/form table; C03_accepted_specifier_has_meaning is the converse) *)
Theorem C03_every_admitted_version_is_accepted o t V : Version t = Some V -> admits o V ->
  exists sp, Specifier (op_txt o ++ t) = Some sp /\ sp_op sp = o.
Proof. exact (form_table_complete o t V). Qed.
Print Assumptions C03_every_admitted_version_is_accepted.
Theorem C03_every_admitted_wildcard_is_accepted o t V : (o = OEq \/ o = ONe) -> Version t = Some V -> plain V ->
  (forall u c, t = u ++ [c] -> is_ws c = false) -> exists sp, Specifier (op_txt o ++ t ++ [46; 42]) = Some sp /\ sp_op sp = o.
Proof. exact (form_table_complete_wild o t V). Qed.
Print Assumptions C03_every_admitted_wildcard_is_accepted.

(* ... with its denotation: in ANY spelling t of a version V the operator admits, Specifier(op + t) is that operator applied to exactly V
      (resp. to V.* for a plain V followed by ".*"), and contains(item, prereleases=True) is [sem op V] *)
Theorem C03_specifier_of_version o t V : Version t = Some V -> admits o V -> o <> OArb ->
  exists sp, Specifier (op_txt o ++ t) = Some sp /\ sp_op sp = o /\ interp sp = Some (FVer V) /\ form_ok o (FVer V).
Proof. exact (Specifier_of_version o t V). Qed.
Print Assumptions C03_specifier_of_version.
Theorem C03_specifier_of_wildcard o t V : (o = OEq \/ o = ONe) -> Version t = Some V -> plain V ->
  (forall u c, t = u ++ [c] -> is_ws c = false) ->
  exists sp, Specifier (op_txt o ++ t ++ [46; 42]) = Some sp /\ sp_op sp = o /\ interp sp = Some (FWild V) /\ form_ok o (FWild V).
Proof. exact (Specifier_of_wildcard o t V). Qed.
Print Assumptions C03_specifier_of_wildcard.
Theorem C03_every_spelling_every_admitted_version o t V item c : Version t = Some V -> admits o V -> o <> OArb -> Version item = Some c ->
  exists sp b, Specifier (op_txt o ++ t) = Some sp /\ sem o (FVer V) c = Some b /\ contains sp None (Some true) item = Ans b.
Proof. exact (contains_of_version o t V item c). Qed.
Print Assumptions C03_every_spelling_every_admitted_version.

(* 7. examples from PEP 440 "Version specifiers", 86 rows (SpecStruct.pep440_row_count): 14 the PEP spells out itself (pep440_verbatim: the
      1.1.post1 / 1.1a1 clauses of == and !=, >1.7 vs 1.7.1 / 1.7.0.post1, >1.7.post2 vs 1.7.1 / 1.7.0.post3 / 1.7.0) and 72 instances, chosen
      here, of the rules and equivalences it states (~=2.2.post3 as >=2.2.post3,==2.*; local labels; zero padding; epochs; <V and pre-releases; ===),
      evaluated with the declarative semantics: [sem] agrees with this reading of the PEP *)
Example C03_pep440_examples : pep440_table_check = true.
Proof. vm_compute. reflexivity. Qed.

(* non-vacuity: "~= v1.4.5.RC1" (spelled un-normalised) matches 1.4.9 and not 1.5, both sides computed by the code model *)
Definition nonvac_check : bool :=
  match Specifier [126;61;32;118;49;46;52;46;53;46;82;67;49] with
  | Some sp => match contains sp None (Some true) [49;46;52;46;57], contains sp None (Some true) [49;46;53], contains_spec sp [49;46;52;46;57] with
               | Ans true, Ans false, Some (Ans true) => true | _, _, _ => false end
  | None => false end.
Example C03_nonvacuous : nonvac_check = true.
Proof. vm_compute. reflexivity. Qed.
