(* C15 placeholder while the pipeline is brought up *)
From Coq Require Import List Arith NArith Bool Lia.
Import ListNotations.
Require Import VParse VDec Tags TagsLit TagsModel.
Theorem C15_tmp : forall pv ps, cpython_tags pv [] ps <> [] \/ ps = [].
Proof. intros pv [|p ps]; [now right|left]. unfold cpython_tags. cbn [remove_first flat_map app]. destruct (abi3_applies _ _); cbn; discriminate. Qed.
Print Assumptions C15_tmp.
