(* C15  Interpreter tag sequences are complete, duplicate-free and priority ordered.
   Model: TagsModel.v (cpython_tags, _cpython_abis, _is_threaded_cpython, _abi3_applies, generic_tags, _generic_abi,
   _py_interpreter_range, compatible_tags, sys_tags - written as the generators run, over code-point strings).
   Spec: the block structure of the statement: a sequence is `expand blocks platforms` = for each (interpreter, abi) block in
   priority order, the caller's platforms in the caller's order.  A python_version is (major, rest): rest = [] is major-only.
   Statements only; proofs are in Tags/TagsProofs.v. *)
From Coq Require Import List Arith NArith Bool Lia Sorted.
Import ListNotations.
Require Import VParse VDec Tags TagsLit TagsModel TagsProofs TagsLower TagsThread TagsDefault TagsSys.
Open Scope N_scope.

(* 1. cpython_tags = cpXY-<abi> for each given ABI (abi3/none removed once), then cpXY-abi3 and cpXY-none, then cpXZ-abi3 for the
      older minors, every block expanded over the platforms - for every version tuple, ABI list and platform list *)
Theorem C15_cpython_exact pv abis ps : cpython_tags pv abis ps = expand (cp_blocks pv abis) ps.
Proof. exact (cpython_exact pv abis ps). Qed.
Print Assumptions C15_cpython_exact.

(* 2. when abi3 applies: a minor component is present, the version is at least 3.2, and the first remaining ABI is not free-threaded *)
Theorem C15_abi3_applies pv abis :
  cp_use_abi3 pv abis = true <->
  exists m r, snd pv = m :: r /\ (3 < fst pv \/ (fst pv = 3 /\ 2 <= m))%nat /\ is_threaded (cp_abis abis) = false.
Proof. exact (abi3_applies_iff pv (is_threaded (cp_abis abis))). Qed.
Print Assumptions C15_abi3_applies.

(* 3. the abi3 tags are exactly cpX<z>-abi3-<plat> for z = the minor itself and every older minor down to 2, and only when 2. holds *)
Theorem C15_abi3_rule pv abis ps i p : NoDup abis ->
  (In (i, s_abi3, p) (cpython_tags pv abis ps) <->
   In p ps /\ cp_use_abi3 pv abis = true /\
   exists m r z, snd pv = m :: r /\ (z = m \/ 2 <= z < m)%nat /\ i = s_cp ++ nodot [fst pv; z]).
Proof. exact (abi3_rule pv abis ps i p). Qed.
Print Assumptions C15_abi3_rule.

(* 4. the older minors come newest first: strictly descending from minor-1 to 2 *)
Theorem C15_older_minors_descending pv :
  StronglySorted (fun a b => (b < a)%nat) (older_minors pv) /\
  forall z, In z (older_minors pv) <-> exists m r, snd pv = m :: r /\ (2 <= z < m)%nat.
Proof.
  unfold older_minors. destruct (snd pv) as [|m r]; split.
  - constructor.
  - intros z. split; [intros [] | intros (m & r & E & _); discriminate].
  - apply down_sorted.
  - intros z. rewrite down_spec. split; [intros H; exists m, r; auto | intros (m' & r' & E & H); inversion E; subst; auto].
Qed.
Print Assumptions C15_older_minors_descending.

(* 5. a major-only version yields only the given ABIs and none *)
Theorem C15_major_only M abis ps :
  cpython_tags (M, []) abis ps = expand (map (fun a => (s_cp ++ dn M, a)) (cp_abis abis) ++ [(s_cp ++ dn M, s_none)]) ps.
Proof. exact (major_only M abis ps). Qed.
Print Assumptions C15_major_only.

(* 6. compatible_tags = the py range with none-<plat>, then <interpreter>-none-any, then the same range with none-any;
      the range is pyXY, pyX, pyX(Y-1) ... pyX0 (pyX alone for a major-only version) *)
Theorem C15_compatible_exact pv interp ps :
  compatible_tags pv interp ps =
  expand (compat_blocks pv) ps ++ (match interp with Some i => [(i, s_none, s_any)] | None => [] end) ++ expand (compat_blocks pv) [s_any].
Proof. exact (compatible_exact pv interp ps). Qed.
Print Assumptions C15_compatible_exact.
Theorem C15_py_range M :
  py_range (M, []) = [s_py ++ dn M] /\
  forall m r, py_range (M, m :: r) = (s_py ++ nodot [M; m]) :: (s_py ++ dn M) :: map (fun z => s_py ++ nodot [M; z]) (down m 0).
Proof. split; [exact (py_range_major M) | intros; apply py_range_minor]. Qed.
Print Assumptions C15_py_range.

(* 7. generic_tags = <interp>-<abi>-<plat> for each ABI, the none ABI appended when absent *)
Theorem C15_generic_exact interp abis ps :
  generic_tags interp abis ps = expand (map (fun a => (interp, a)) (generic_abis abis)) ps /\
  (In s_none abis -> generic_abis abis = abis) /\ (~ In s_none abis -> generic_abis abis = abis ++ [s_none]).
Proof. split; [exact (generic_exact interp abis ps) | exact (generic_abis_spec abis)]. Qed.
Print Assumptions C15_generic_exact.

(* 8. within each block platforms keep the caller's order: the platform column of an expanded sequence is the caller's list,
      once per block, and the (interpreter, abi) column is each block repeated over the platforms *)
Theorem C15_platform_order bs ps :
  map (fun t : tag => snd t) (expand bs ps) = concat (map (fun _ => ps) bs) /\
  map (fun t : tag => fst t) (expand bs ps) = flat_map (fun b => map (fun _ => b) ps) bs.
Proof. split; [apply expand_platform_column | apply expand_block_column]. Qed.
Print Assumptions C15_platform_order.

(* 9. no tag is repeated when the inputs have no repeats.  For compatible_tags the proof forces two side conditions:
      "any" is not one of the platforms and the interpreter is not one of the py* names (see C15_any_platform_repeats). *)
Theorem C15_nodup_cpython pv abis ps : NoDup abis -> NoDup ps -> NoDup (cpython_tags pv abis ps).
Proof. exact (cpython_nodup pv abis ps). Qed.
Print Assumptions C15_nodup_cpython.
Theorem C15_nodup_compatible pv interp ps :
  NoDup ps -> ~ In s_any ps -> (forall x, interp = Some x -> ~ In x (py_range pv)) -> NoDup (compatible_tags pv interp ps).
Proof. exact (compatible_nodup pv interp ps). Qed.
Print Assumptions C15_nodup_compatible.
Theorem C15_nodup_generic interp abis ps : NoDup abis -> NoDup ps -> NoDup (generic_tags interp abis ps).
Proof. exact (generic_nodup interp abis ps). Qed.
Print Assumptions C15_nodup_generic.
(* the side condition is needed: with platforms = ["any"] the sequence repeats py3-none-any *)
Theorem C15_any_platform_repeats : ~ NoDup (compatible_tags (3, [])%nat None [s_any]).
Proof. intros H. inversion H as [|x l N _]; subst. apply N. now left. Qed.
Print Assumptions C15_any_platform_repeats.

(* 10. Tag() lower-cases its three parts; on lower-case ABIs and platforms the Tag triples are the argument triples, so 9. is
       about the Tag objects themselves *)
Theorem C15_lowercase_identity pv abis ps :
  Forall lower_stable abis -> Forall lower_stable ps -> map lower_tag (cpython_tags pv abis ps) = cpython_tags pv abis ps.
Proof. exact (cpython_lower_id pv abis ps). Qed.
Print Assumptions C15_lowercase_identity.

(* 11. the default ABI list (_cpython_abis) is recognised as free-threaded by _is_threaded_cpython exactly when the configuration
       is (version >= 3.13 and Py_GIL_DISABLED truthy), whatever the debug/pymalloc/wide-unicode flags; hence the default
       sequence of a free-threaded build never has abi3 tags and every other build of 3.2+ has them *)
Theorem C15_default_abi_free_threading c pv :
  is_threaded (cpython_abis c pv) = abi_threading c pv /\
  cp_use_abi3 pv (cpython_abis c pv) = abi3_applies pv (abi_threading c pv).
Proof. split; [apply default_abi_threaded | apply default_use_abi3]. Qed.
Print Assumptions C15_default_abi_free_threading.

(* 12. sys_tags is the concatenation of the interpreter-specific and the compatible sequence *)
Theorem C15_sys_tags_concat_cpython s plats : interpreter_name (impl_name s) = s_cp ->
  sys_tags s plats =
  SOk (cpython_tags (sys_version s) (default_abis (abi_cfg s) (sys_version s)) plats ++
       compatible_tags (sys_version s) (Some (s_cp ++ interpreter_version (py_version_nodot s) (sys_version s))) plats).
Proof. exact (sys_tags_cpython s plats). Qed.
Print Assumptions C15_sys_tags_concat_cpython.
Theorem C15_sys_tags_concat_generic s plats abis : interpreter_name (impl_name s) <> s_cp ->
  generic_abi (ext_suffix s) (abi_cfg s) (sys_version s) = GOk abis ->
  sys_tags s plats =
  SOk (generic_tags (interpreter_name (impl_name s) ++ interpreter_version (py_version_nodot s) (sys_version s)) abis plats ++
       compatible_tags (sys_version s) (if streq (interpreter_name (impl_name s)) s_pp then Some s_pp3 else None) plats).
Proof. exact (sys_tags_generic s plats abis). Qed.
Print Assumptions C15_sys_tags_concat_generic.

(* 13. _generic_abi on the CPython (non-Windows) form of EXT_SUFFIX: ".cpython-<X>-<platform>.<ext>" gives the single ABI "cp<X>"
       (X free of '.', '-', ' '; the platform part free of '.'); the other documented forms are checked by computation below *)
Theorem C15_generic_abi_cpython X plat ext c v :
  free_of 46 X -> free_of 45 X -> free_of 32 X -> free_of 46 plat ->
  generic_abi (Some ([46] ++ s_cpython ++ [45] ++ X ++ [45] ++ plat ++ [46] ++ ext)) c v = GOk [s_cp ++ X].
Proof. apply generic_abi_cpython. Qed.
Print Assumptions C15_generic_abi_cpython.

(* non-vacuity: cpython_tags((3, 4), ["cp34m", "abi3"], ["p", "q"]) has the stated shape (11 blocks... here 5), satisfies the
   hypotheses of 9., and the compatible sequence for interpreter cp34 satisfies its side conditions *)
Example C15_nonvacuous :
  let p := [112] in let q := [113] in let abis := [s_cp ++ [51; 52; 109]; s_abi3] in
  map tag_str (cpython_tags (3, [4])%nat abis [p; q]) =
    map (fun s => s) [ [99;112;51;52;45;99;112;51;52;109;45;112]; [99;112;51;52;45;99;112;51;52;109;45;113];
                       [99;112;51;52;45;97;98;105;51;45;112]; [99;112;51;52;45;97;98;105;51;45;113];
                       [99;112;51;52;45;110;111;110;101;45;112]; [99;112;51;52;45;110;111;110;101;45;113];
                       [99;112;51;51;45;97;98;105;51;45;112]; [99;112;51;51;45;97;98;105;51;45;113];
                       [99;112;51;50;45;97;98;105;51;45;112]; [99;112;51;50;45;97;98;105;51;45;113] ] /\
  NoDup abis /\ NoDup [p; q] /\ ~ In s_any [p; q] /\ (forall x, Some (s_cp ++ [51; 52]) = Some x -> ~ In x (py_range (3, [4])%nat)) /\
  cp_use_abi3 (3, [4])%nat abis = true.
Proof.
  cbv zeta. split; [vm_compute; reflexivity|]. repeat split.
  - constructor; [intros [E|[]]; discriminate | constructor; [intros []|constructor]].
  - constructor; [intros [E|[]]; discriminate | constructor; [intros []|constructor]].
  - intros [E|[E|[]]]; discriminate.
  - intros x E. inversion E; subst. vm_compute. intros H. repeat destruct H as [H|H]; try discriminate; auto.
Qed.

(* the EXT_SUFFIX forms documented in _generic_abi (tests by computation; the general behaviour is covered by the correspondence run):
   .cpython-310-x86_64-linux-gnu.so => cp310, .cpython-310-darwin.so => cp310, .cp310-win_amd64.pyd => cp310, .pypy38-pp73-x86_64-linux-gnu.so => pypy38_pp73, .graalpy-38-native-x86_64-darwin.dylib => graalpy_38_native *)
Example C15_generic_abi_documented_forms :
  let c := {| py_debug := None; gil_disabled := None; with_pymalloc := None; unicode_size := None; has_refcount := false; has_ext := false; wide_unicode := true |} in
  generic_abi (Some [46;99;112;121;116;104;111;110;45;51;49;48;45;120;56;54;95;54;52;45;108;105;110;117;120;45;103;110;117;46;115;111]) c (3, [10])%nat = GOk [[99;112;51;49;48]] /\
  generic_abi (Some [46;99;112;121;116;104;111;110;45;51;49;48;45;100;97;114;119;105;110;46;115;111]) c (3, [10])%nat = GOk [[99;112;51;49;48]] /\
  generic_abi (Some [46;99;112;51;49;48;45;119;105;110;95;97;109;100;54;52;46;112;121;100]) c (3, [10])%nat = GOk [[99;112;51;49;48]] /\
  generic_abi (Some [46;112;121;112;121;51;56;45;112;112;55;51;45;120;56;54;95;54;52;45;108;105;110;117;120;45;103;110;117;46;115;111]) c (3, [10])%nat = GOk [[112;121;112;121;51;56;95;112;112;55;51]] /\
  generic_abi (Some [46;103;114;97;97;108;112;121;45;51;56;45;110;97;116;105;118;101;45;120;56;54;95;54;52;45;100;97;114;119;105;110;46;100;121;108;105;98]) c (3, [10])%nat = GOk [[103;114;97;97;108;112;121;95;51;56;95;110;97;116;105;118;101]] /\
  generic_abi (Some [46;112;121;100]) c (3, [7])%nat = GOk [[99;112;51;55;109]] /\
  generic_abi None c (3, [7])%nat = GSystemError.
Proof. cbv zeta. repeat split; vm_compute; reflexivity. Qed.

(* ====================================================================================================================
   Improvement round (audit C15): Tag-level NoDup, default arguments, sys_tags NoDup, threading, default ABI, EXT_SUFFIX forms
   ==================================================================================================================== *)

(* 14. "no tag is repeated when the inputs have no repeats", about the Tag objects (Tag() lower-cases its parts; [lower] is the exact
       str.lower() of NamesX - full Unicode table and Final_Sigma - so the statements cover non-ASCII text: C15_non_ascii):
       "no repeats" is read after lower-casing, and no explicit ABI may be a differently-cased spelling of abi3/none
       (list.remove / `"none" in abis` compare the raw text).  On lower-case input this is exactly 9. (C15_lowercase_identity). *)
Theorem C15_nodup_tags_cpython pv abis ps :
  NoDup (map lower abis) -> NoDup (map lower ps) ->
  ~ In s_abi3 (map lower (cp_abis abis)) -> ~ In s_none (map lower (cp_abis abis)) ->
  NoDup (map lower_tag (cpython_tags pv abis ps)).
Proof. exact (cpython_lower_nodup pv abis ps). Qed.
Print Assumptions C15_nodup_tags_cpython.
Theorem C15_nodup_tags_generic interp abis ps :
  NoDup (map lower abis) -> NoDup (map lower ps) -> (In s_none (map lower abis) -> In s_none abis) ->
  NoDup (map lower_tag (generic_tags interp abis ps)).
Proof. exact (generic_lower_nodup interp abis ps). Qed.
Print Assumptions C15_nodup_tags_generic.
Theorem C15_nodup_tags_compatible pv interp ps :
  NoDup (map lower ps) -> ~ In s_any (map lower ps) -> (forall x, interp = Some x -> ~ In (lower x) (py_range pv)) ->
  NoDup (map lower_tag (compatible_tags pv interp ps)).
Proof. exact (compatible_lower_nodup pv interp ps). Qed.
Print Assumptions C15_nodup_tags_compatible.
(* the readings are necessary.  abis = ["ABI3"] (one item, no repeat) repeats cp39-abi3-p; platforms ["P"; "p"] repeat every tag;
   generic abis = ["NONE"] repeats pp39-none-p; compatible_tags repeats py3-none-any for platforms = ["any"] and for interpreter "py3" *)
Theorem C15_case_induced_repeats :
  (NoDup [s_ABI3] /\ NoDup [[112]] /\ ~ NoDup (map lower_tag (cpython_tags (3, [9])%nat [s_ABI3] [[112]]))) /\
  (NoDup [s_cp ++ [51; 57]] /\ NoDup [[80]; [112]] /\ ~ NoDup (map lower_tag (cpython_tags (3, [9])%nat [s_cp ++ [51; 57]] [[80]; [112]]))) /\
  (NoDup [s_NONE] /\ ~ NoDup (map lower_tag (generic_tags [112; 112; 51; 57] [s_NONE] [[112]]))).
Proof.
  destruct cpython_case_repeats as (A & B & C & D & E & F). split; [auto|]. split; [auto|]. exact generic_case_repeats.
Qed.
Print Assumptions C15_case_induced_repeats.
Theorem C15_compatible_side_conditions_needed :
  ~ NoDup (map lower_tag (compatible_tags (3, [])%nat None [s_any])) /\
  ~ NoDup (map lower_tag (compatible_tags (3, [1])%nat (Some (s_py ++ [51])) [[112]])).
Proof. exact compatible_repeats. Qed.
Print Assumptions C15_compatible_side_conditions_needed.

(* 14b. outside ASCII: U+212A KELVIN SIGN lower-cases to "k", so platforms ["\u212a"; "k"] are the same platform twice (the hypothesis of
        14. fails and every tag is repeated); the digit class of the free-threading test is the Unicode one: "cp" + ARABIC-INDIC DIGIT
        THREE + "t" is recognised as free-threaded although U+0663 is no ASCII digit *)
Theorem C15_non_ascii :
  (NoDup [[8490]; [107]] /\ ~ NoDup (map lower [[8490]; [107]]) /\
   ~ NoDup (map lower_tag (cpython_tags (3, [9])%nat [s_cp ++ [51; 57]] [[8490]; [107]]))) /\
  (threaded_abi (s_cp ++ [1635; 116]) = true /\ is_digit 1635 = false).
Proof. split; [exact kelvin_repeats | exact arabic_digit_threaded]. Qed.
Print Assumptions C15_non_ascii.

(* 15. the default arguments, as the correspondence run executes them (Run/RunTags.v: cpython_tags_d, compatible_tags_d,
       generic_tags_d): an empty platform list is replaced by the detected list, a missing python_version by
       sys.version_info[:2], a missing ABI list by the default ABIs (none for a major-only version), an empty interpreter
       by interpreter_name() + interpreter_version(); the block structure is the one of 1., 6., 7. over those values *)
Theorem C15_default_arguments d c pv abis interp gabis ps :
  cpython_tags_d d c pv abis ps =
    (let v := pv_or_sys pv (d_sysver d) in
     expand (cp_blocks v (match abis with Some a => a | None => default_abis c v end)) (or_detected ps (d_plats d))) /\
  compatible_tags_d d pv interp ps =
    (let v := pv_or_sys pv (d_sysver d) in let used := or_detected ps (d_plats d) in
     expand (compat_blocks v) used ++ (match interp with Some i => [(i, s_none, s_any)] | None => [] end) ++ expand (compat_blocks v) [s_any]) /\
  (forall gi, generic_tags_d d gi gabis ps =
     expand (map (fun a => (interp_or_sys gi d, a)) (generic_abis gabis)) (or_detected ps (d_plats d))).
Proof. split; [apply cpython_d_exact|]. split; [apply compatible_d_exact | intros; apply generic_d_exact]. Qed.
Print Assumptions C15_default_arguments.
Theorem C15_fallbacks ps detected i d sysver v :
  (ps <> [] -> or_detected ps detected = ps) /\ or_detected [] detected = detected /\
  (i <> [] -> interp_or_sys i d = i) /\
  interp_or_sys [] d = interpreter_name (d_name d) ++ interpreter_version (d_nodot d) (d_sysver d) /\
  pv_or_sys None sysver = sysver /\ pv_or_sys (Some v) sysver = v /\
  (forall c M, default_abis c (M, []) = []) /\ (forall c M m r, default_abis c (M, m :: r) = cpython_abis c (M, m :: r)).
Proof.
  destruct (or_detected_spec ps detected) as [A B]. destruct (interp_or_sys_spec i d) as [C D]. repeat split; auto.
Qed.
Print Assumptions C15_fallbacks.

(* 16. sys_tags repeats no Tag: for CPython whenever the detected platforms are distinct (after lower-casing) and none is "any";
       for other interpreters also: the interpreter tag <name><version> is not one of the py* tags of the compatible block, and
       the ABI derived from EXT_SUFFIX is not a differently-cased "none".  sys.implementation.name = "python" violates the
       first of these and does repeat tags (C15_sys_tags_python_repeats). *)
Theorem C15_sys_tags_nodup s plats l :
  sys_tags s plats = SOk l ->
  NoDup (map lower plats) -> ~ In s_any (map lower plats) ->
  (interpreter_name (impl_name s) <> s_cp ->
     ~ In (lower (interpreter_name (impl_name s) ++ interpreter_version (py_version_nodot s) (sys_version s))) (py_range (sys_version s)) /\
     (forall abis, generic_abi (ext_suffix s) (abi_cfg s) (sys_version s) = GOk abis -> In s_none (map lower abis) -> In s_none abis)) ->
  NoDup (map lower_tag l).
Proof. exact (sys_tags_nodup s plats l). Qed.
Print Assumptions C15_sys_tags_nodup.
Theorem C15_sys_tags_nodup_cpython s plats l : interpreter_name (impl_name s) = s_cp -> sys_tags s plats = SOk l ->
  NoDup (map lower plats) -> ~ In s_any (map lower plats) -> NoDup (map lower_tag l).
Proof. exact (sys_tags_nodup_cpython s plats l). Qed.
Print Assumptions C15_sys_tags_nodup_cpython.
Theorem C15_sys_tags_python_repeats : exists l, sys_tags sys_python [[112]] = SOk l /\ ~ NoDup (map lower_tag l).
Proof.
  pose proof sys_tags_python_repeats as H. destruct (sys_tags sys_python [[112]]) as [l| |]; try discriminate H.
  exists l. split; [reflexivity | now apply has_dup_sound].
Qed.
Print Assumptions C15_sys_tags_python_repeats.

(* 17. "never for free-threaded ABIs", precisely.  An ABI is recognised as free-threaded iff it is  cp <digits> <flags> [NEWLINE ...]
       (digits: the Unicode decimal digits the regex class backslash-d matches, TagsModel.is_ud) with a "t" among the flags (the rest of the first line after the digit run).  The decision is made on the FIRST explicit
       ABI that remains after abi3/none were removed, on the raw text: a free-threaded ABI in second position, or spelled in upper
       case, still gets abi3 tags (counterexamples), and any "t" in the flags counts (cp313_stable gets none). *)
Theorem C15_threaded_spec a : threaded_abi a = true <-> threaded_shape a.
Proof. exact (threaded_spec a). Qed.
Print Assumptions C15_threaded_spec.
Theorem C15_abi3_first_abi_only pv abis :
  cp_use_abi3 pv abis = abi3_applies pv (match cp_abis abis with [] => false | a :: _ => threaded_abi a end) /\
  (NoDup abis -> cp_abis abis = filter (fun a => negb (streq a s_abi3) && negb (streq a s_none)) abis).
Proof. split; [apply use_abi3_first_only | apply cp_abis_filter]. Qed.
Print Assumptions C15_abi3_first_abi_only.
Theorem C15_first_abi_only_counterexample :
  threaded_abi s_cp313t = true /\ In s_cp313t (cp_abis [s_cp313; s_cp313t]) /\
  In (s_cp313, s_abi3, [112]) (cpython_tags (3, [13])%nat [s_cp313; s_cp313t] [[112]]) /\
  (forall i p, ~ In (i, s_abi3, p) (cpython_tags (3, [13])%nat [s_cp313t; s_cp313] [[112]])).
Proof. exact first_abi_only_counterexample. Qed.
Print Assumptions C15_first_abi_only_counterexample.
Theorem C15_threaded_raw_text :
  (let a := [67; 80; 51; 49; 51; 84] in lower a = s_cp313t /\ threaded_abi a = false /\
     In (s_cp313, s_abi3, [112]) (cpython_tags (3, [13])%nat [a] [[112]])) /\
  threaded_abi (s_cp313 ++ [95; 115; 116; 97; 98; 108; 101]) = true.
Proof. split; [exact threaded_case_sensitive | exact threaded_overbroad]. Qed.
Print Assumptions C15_threaded_raw_text.

(* 18. the default ABI list for every configuration: cp<XY> + t d m u (in this order) and, for a debug build of 3.8+, the non-debug
       ABI cp<XY>[t] as second entry; t only from 3.13 with Py_GIL_DISABLED, m only below 3.8, u only below 3.3 *)
Theorem C15_default_abis c pv :
  cpython_abis c pv =
  (s_cp ++ nodot2 pv ++ abi_flags c pv) ::
  (if tup_ge (pv_list pv) [3; 8]%nat && abi_debug c then [s_cp ++ nodot2 pv ++ flag (abi_threading c pv) s_t] else []).
Proof. exact (cpython_abis_shape c pv). Qed.
Print Assumptions C15_default_abis.
Theorem C15_default_abi_flags c pv :
  abi_flags c pv = flag (abi_threading c pv) s_t ++ flag (abi_debug c) s_d ++ flag (abi_pymalloc c pv) s_m ++ flag (abi_ucs4 c pv) s_u /\
  (abi_threading c pv = true -> tup_ge (pv_list pv) [3; 13]%nat = true /\ truthy (gil_disabled c) = true) /\
  (abi_pymalloc c pv = true -> tup_lt (pv_list pv) [3; 8]%nat = true /\ (truthy (with_pymalloc c) || is_none (with_pymalloc c)) = true) /\
  (abi_ucs4 c pv = true -> tup_lt (pv_list pv) [3; 3]%nat = true /\
                           (match unicode_size c with Some n => n =? 4 | None => wide_unicode c end) = true) /\
  (tup_ge (pv_list pv) [3; 8]%nat = true -> abi_pymalloc c pv = false /\ abi_ucs4 c pv = false) /\
  (tup_ge (pv_list pv) [3; 3]%nat = true -> abi_ucs4 c pv = false).
Proof. split; [reflexivity | exact (abi_flag_thresholds c pv)]. Qed.
Print Assumptions C15_default_abi_flags.
Theorem C15_default_abis_wellformed c pv :
  NoDup (cpython_abis c pv) /\ map lower (cpython_abis c pv) = cpython_abis c pv /\ cp_abis (cpython_abis c pv) = cpython_abis c pv.
Proof. split; [apply cpython_abis_nodup|]. split; [apply cpython_abis_lower | apply cp_abis_default]. Qed.
Print Assumptions C15_default_abis_wellformed.

(* 19. _generic_abi on every form of EXT_SUFFIX (13. has ".cpython-<X>-<plat>.<ext>"):
       ".cp<X>[-<plat>].<ext>" -> cp<X>;  ".pypy<A>-<B>[-...].<ext>" -> pypy<A>_<B>;  ".graalpy<A>-<B>-<C>[-...].<ext>" -> graalpy<A>_<B>_<C>;
       any other non-empty soabi -> itself, normalised;  "..<ext>" -> no ABI;  ".<ext>" (two parts) -> the CPython default ABIs;
       None / no leading "." -> SystemError;  "" -> IndexError *)
Theorem C15_generic_abi_forms c v :
  (forall X tail rest, free_of 46 X -> free_of 45 X -> free_of 32 X -> free_of 46 tail -> hd 0 X <> 121 -> (tail = [] \/ exists t, tail = 45 :: t) ->
     generic_abi (Some (46 :: (s_cp ++ X ++ tail) ++ 46 :: rest)) c v = GOk [s_cp ++ X]) /\
  (forall A B tail rest, free_of 46 A -> free_of 45 A -> free_of 46 B -> free_of 45 B -> free_of 46 tail -> (tail = [] \/ exists t, tail = 45 :: t) ->
     generic_abi (Some (46 :: (s_pypy ++ A ++ 45 :: B ++ tail) ++ 46 :: rest)) c v = GOk [normalize_string (s_pypy ++ A ++ [45] ++ B)]) /\
  (forall A rest, free_of 46 A -> free_of 45 A ->
     generic_abi (Some (46 :: (s_pypy ++ A) ++ 46 :: rest)) c v = GOk [normalize_string (s_pypy ++ A)]) /\
  (forall A B C tail rest, free_of 46 A -> free_of 45 A -> free_of 46 B -> free_of 45 B -> free_of 46 C -> free_of 45 C -> free_of 46 tail ->
     (tail = [] \/ exists t, tail = 45 :: t) ->
     generic_abi (Some (46 :: (s_graalpy ++ A ++ 45 :: B ++ 45 :: C ++ tail) ++ 46 :: rest)) c v =
     GOk [normalize_string (s_graalpy ++ A ++ [45] ++ B ++ [45] ++ C)]) /\
  (forall soabi rest, free_of 46 soabi -> soabi <> [] -> starts_with s_cp soabi = false -> starts_with s_pypy soabi = false ->
     starts_with s_graalpy soabi = false -> generic_abi (Some (46 :: soabi ++ 46 :: rest)) c v = GOk [normalize_string soabi]) /\
  (forall rest, generic_abi (Some (46 :: 46 :: rest)) c v = GOk []) /\
  (forall ext, free_of 46 ext -> generic_abi (Some (46 :: ext)) c v = GOk (cpython_abis c v)) /\
  generic_abi None c v = GSystemError /\ generic_abi (Some []) c v = GCrash /\
  (forall x e, x <> 46 -> generic_abi (Some (x :: e)) c v = GSystemError).
Proof.
  split; [intros; now apply generic_abi_cp|]. split; [intros; now apply generic_abi_pypy|]. split; [intros; now apply generic_abi_pypy_single|].
  split; [intros; now apply generic_abi_graalpy|]. split; [intros; now apply generic_abi_other|]. split; [intros; apply generic_abi_empty_soabi|].
  split; [intros; now apply generic_abi_two_parts | apply generic_abi_rejects].
Qed.
Print Assumptions C15_generic_abi_forms.

(* non-vacuity of 14.-19. (closed boolean computations): mixed-case input that satisfies the hypotheses of 14. has no repeated Tag
   (cpython, generic, compatible); the fallbacks fire; a threaded ABI has the stated shape; sys_tags of a CPython and of a PyPy
   configuration satisfy the hypotheses of 16. and repeat nothing; the documented EXT_SUFFIX examples are the instances
   X = "310" / A = "38", B = "pp73" / A = "", B = "38", C = "native" / ".pyd" of 19. *)
Definition gres_is (r : gres) (want : list (list N)) : bool :=
  match r with GOk l => Nat.eqb (length l) (length want) && forallb (fun p => streq (fst p) (snd p)) (combine l want) | _ => false end.
Definition C15_round2_check : bool :=
  let abis := [[67;80;51;57]; s_cp ++ [51;57;109]] in let ps := [[80]; [113]] in             (* ["CP39"; "cp39m"], ["P"; "q"] *)
  negb (has_dup (map lower_tag (cpython_tags (3, [9])%nat abis ps))) &&
  negb (has_dup (map lower_tag (generic_tags [80;80] abis ps))) &&
  Nat.eqb (length (cpython_tags_d {| d_plats := [[120]; [121]]; d_sysver := (3, [12])%nat; d_name := s_cpython; d_nodot := None |} cfg0 None None [])) 26 &&
  streq (fst (fst (hd ([], [], []) (generic_tags_d {| d_plats := [[120]]; d_sysver := (3, [12])%nat; d_name := s_pypy; d_nodot := None |} [] [] []))))
        (s_pp ++ [51;49;50]) &&
  threaded_abi s_cp313t && negb (threaded_abi s_cp313) &&
  (* 14., compatible_tags: interpreter "CP39", platforms ["P"; "q"] *)
  negb (has_dup (map lower_tag (compatible_tags (3, [9])%nat (Some [67;80;51;57]) ps))) &&
  negb (mem (lower [67;80;51;57]) (py_range (3, [9])%nat)) && negb (mem s_any (map lower ps)) &&
  (* 16., the non-CPython branch: PyPy 3.8 with EXT_SUFFIX .pypy38-pp73-x86_64-linux-gnu.so on two platforms *)
  match sys_tags {| impl_name := s_pypy; py_version_nodot := None; sys_version := (3, [8])%nat;
                    ext_suffix := Some [46;112;121;112;121;51;56;45;112;112;55;51;45;120;56;54;95;54;52;45;108;105;110;117;120;45;103;110;117;46;115;111];
                    abi_cfg := cfg0 |} [[120]; [121]] with
  | SOk l => negb (has_dup (map lower_tag l)) && negb (mem (lower (s_pp ++ [51;56])) (py_range (3, [8])%nat))
  | _ => false end &&
  (* 19.: .cp310-win_amd64.pyd / .pypy38-pp73-x86_64-linux-gnu.so / .graalpy-38-native-x86_64-darwin.dylib / .pyd / ..so *)
  gres_is (generic_abi (Some ([46] ++ (s_cp ++ [51;49;48] ++ [45;119;105;110;95;97;109;100;54;52]) ++ [46;112;121;100])) cfg0 (3, [10])%nat) [s_cp ++ [51;49;48]] &&
  gres_is (generic_abi (Some ([46] ++ (s_pypy ++ [51;56] ++ 45 :: [112;112;55;51] ++ [45;120]) ++ [46;115;111])) cfg0 (3, [8])%nat) [s_pypy ++ [51;56;95;112;112;55;51]] &&
  gres_is (generic_abi (Some ([46] ++ (s_graalpy ++ [] ++ 45 :: [51;56] ++ 45 :: [110;97;116;105;118;101] ++ [45;120]) ++ [46;115;111])) cfg0 (3, [8])%nat)
          [s_graalpy ++ [95;51;56;95;110;97;116;105;118;101]] &&
  gres_is (generic_abi (Some [46;112;121;100]) cfg0 (3, [7])%nat) [s_cp ++ [51;55;109]] &&
  gres_is (generic_abi (Some [46;46;115;111]) cfg0 (3, [7])%nat) [] &&
  match sys_tags {| impl_name := s_cpython; py_version_nodot := None; sys_version := (3, [12])%nat; ext_suffix := None; abi_cfg := cfg0 |} [[120]; [121]] with
  | SOk l => negb (has_dup (map lower_tag l)) && Nat.eqb (length l) 69 | _ => false end.
Example C15_round2_nonvacuous : C15_round2_check = true.
Proof. vm_compute. reflexivity. Qed.
