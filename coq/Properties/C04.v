(* C04  Specifier operators obey their algebraic laws.
   Stated on contains() of the string-level code model (SpecContains) through the main theorem of C03 (contains = sem),
   and on the operator semantics [sem] / *_spec.  Hypotheses `interp sp = Some f` / `form_ok` = "the specifier's text is a version form
   the operator admits" (what Specifier() accepts: C12). *)
From Coq Require Import List Arith NArith Bool Lia.
Import ListNotations.
Require Import S1 VParse Py VMeaning VCmp SpecModel SpecOps SpecOps2 Prefix4 Compat Order Laws SpecParse SpecContains SpecSem SpecMain LawsAll VWf VKeyEq.
Open Scope N_scope.

Definition has (sp : specifier) (item : str) : outcome := contains sp None (Some true) item.

(* 1. !=V matches exactly what ==V does not (same text, incl. the V.* forms) *)
Theorem C04_ne_is_complement_of_eq t f a c :
  interp {| sp_op := OEq; sp_text := t |} = Some f -> form_ok OEq f -> Version a = Some c ->
  exists b, has {| sp_op := OEq; sp_text := t |} a = Ans b /\ has {| sp_op := ONe; sp_text := t |} a = Ans (negb b).
Proof.
  intros I F Ha.
  assert (I' : interp {| sp_op := ONe; sp_text := t |} = Some f) by exact I.
  assert (F' : form_ok ONe f) by (destruct f; exact F).
  pose proof (contains_is_spec _ f a I F) as H1. pose proof (contains_is_spec _ f a I' F') as H2.
  unfold contains_spec in H1, H2. rewrite I, Ha in H1. rewrite I', Ha in H2. cbn [sp_op] in *.
  rewrite sem_ne_complement in H2. destruct (sem OEq f c) as [b|] eqn:S.
  - exists b. cbn [option_map] in H1, H2. unfold has. split; congruence.
  - destruct f; cbn in S, F; try discriminate; contradiction.
Qed.
Print Assumptions C04_ne_is_complement_of_eq.

(* 2. ~=V is exactly (>=V) and (== prefix match on V's release minus its last component) *)
Theorem C04_compat_is_ge_and_prefix c V :
  sem OCompat (FVer V) c = Some (ge_spec c V && prefix_spec c (plain_v (Py.epoch V) (removelast (Py.release V)))).
Proof. reflexivity. Qed.
Print Assumptions C04_compat_is_ge_and_prefix.

(* 3. for every operator other than ===, candidates that compare equal get the same answer *)
Theorem C04_equal_candidates sp f a b c c' :
  interp sp = Some f -> form_ok (sp_op sp) f -> sp_op sp <> OArb ->
  Version a = Some c -> Version b = Some c' -> pep440_cmp c c' = Eq -> has sp a = has sp b.
Proof.
  intros I F NA Ha Hb E.
  pose proof (contains_is_spec sp f a I F) as H1. pose proof (contains_is_spec sp f b I F) as H2.
  unfold contains_spec in H1, H2. rewrite I, Ha in H1. rewrite I, Hb in H2.
  rewrite (sem_equal_candidates c c' (Version_wf _ _ Ha) (Version_wf _ _ Hb) E _ f NA) in H1. unfold has. congruence.
Qed.
Print Assumptions C04_equal_candidates.

(* 4. a specifier without local label answers the same for a candidate with and without its local label *)
Theorem C04_local_label_irrelevant sp f a b c l :
  interp sp = Some f -> form_ok (sp_op sp) f -> sp_op sp <> OArb -> no_local_form f ->
  Version a = Some c -> Py.local c = None -> Version b = Some (add_local c l) -> has sp a = has sp b.
Proof.
  intros I F NA NL Ha NC Hb.
  pose proof (contains_is_spec sp f a I F) as H1. pose proof (contains_is_spec sp f b I F) as H2.
  unfold contains_spec in H1, H2. rewrite I, Ha in H1. rewrite I, Hb in H2.
  rewrite (sem_local_irrelevant _ f c l NA NL NC) in H2. unfold has. congruence.
Qed.
Print Assumptions C04_local_label_irrelevant.

(* 5. >=V upward closed, <=V downward closed (in the order of public versions), together they cover everything *)
Theorem C04_ge_upward_closed c c' V : ge_spec c V = true -> vcmp (drop_local c) (drop_local c') <> Gt -> ge_spec c' V = true.
Proof. exact (C04_ge_upward c c' V). Qed.
Print Assumptions C04_ge_upward_closed.
Theorem C04_le_downward_closed c c' V : le_spec c V = true -> vcmp (drop_local c') (drop_local c) <> Gt -> le_spec c' V = true.
Proof. exact (C04_le_downward c c' V). Qed.
Print Assumptions C04_le_downward_closed.
Theorem C04_ge_le_cover_everything c V : ge_spec c V || le_spec c V = true.
Proof. exact (C04_ge_le_cover c V). Qed.
Print Assumptions C04_ge_le_cover_everything.

(* 6. <V inside <=V, >V inside >=V, neither matches V or a local version of V (V without local label, as the grammar demands) *)
Theorem C04_lt_inside_le c V : Py.local V = None -> lt_spec c V = true -> le_spec c V = true.
Proof. exact (C04_lt_sub_le c V). Qed.
Print Assumptions C04_lt_inside_le.
Theorem C04_gt_inside_ge c V : gt_spec c V = true -> ge_spec c V = true.
Proof. exact (C04_gt_sub_ge c V). Qed.
Print Assumptions C04_gt_inside_ge.
Theorem C04_strict_never_match_V_or_its_locals c V : Py.local V = None -> vcmp (drop_local c) V = Eq ->
  lt_spec c V = false /\ gt_spec c V = false.
Proof. exact (C04_strict_excludes_locals_of_V c V). Qed.
Print Assumptions C04_strict_never_match_V_or_its_locals.

(* non-vacuity: ">= v1.0.RC1" admits a form; 1.0 and 1.0.0 are equal candidates that it matches *)
Definition nonvac_check : bool :=
  match Specifier [62;61;32;118;49;46;48;46;82;67;49], Version [49;46;48], Version [49;46;48;46;48] with
  | Some sp, Some c, Some c' =>
      match interp sp, pep440_cmp c c', has sp [49;46;48], has sp [49;46;48;46;48] with
      | Some (FVer _), Eq, Ans true, Ans true => true | _, _, _, _ => false end
  | _, _, _ => false
  end.
Example C04_nonvacuous : nonvac_check = true.
Proof. vm_compute. reflexivity. Qed.
