(* C04  Specifier operators obey their algebraic laws.
   Stated on contains() of the string-level code model (SpecContains) through the main theorem of C03 (contains = sem),
   and on the operator semantics [sem] / *_spec.  Hypotheses `interp sp = Some f` / `form_ok` = "the specifier's text is a version form
   the operator admits" (what Specifier() accepts: C12). *)
From Coq Require Import List Arith NArith Bool Lia.
Import ListNotations.
Require Import S1 VParse Py VMeaning VCmp SpecModel SpecOps SpecOps2 Prefix4 Compat Order Laws SpecParse SpecContains SpecSem SpecMain LawsAll SpecGate SpecLift VWf VKeyEq SpecAdmit SpecSelf.
Open Scope N_scope.

Definition has (sp : specifier) (item : str) : outcome := contains sp None (Some true) item.

(* 1. !=V matches exactly what ==V does not (same text, incl. the V.* forms) *)
Theorem C04_ne_is_complement_of_eq t f a c :
  interp {| sp_op := OEq; sp_text := t |} = Some f -> form_ok OEq f -> Version a = Some c ->
  exists b, has {| sp_op := OEq; sp_text := t |} a = Ans b /\ has {| sp_op := ONe; sp_text := t |} a = Ans (negb b).
Proof.
  intros I F Ha.
  assert (I' : interp {| sp_op := ONe; sp_text := t |} = Some f) by exact I.
  assert (F' : form_ok ONe f) by (destruct f; exact F).
  pose proof (contains_is_spec _ f a I F) as H1. pose proof (contains_is_spec _ f a I' F') as H2.
  unfold contains_spec in H1, H2. rewrite I, Ha in H1. rewrite I', Ha in H2. cbn [sp_op] in *.
  rewrite sem_ne_complement in H2. destruct (sem OEq f c) as [b|] eqn:S.
  - exists b. cbn [option_map] in H1, H2. unfold has. split; congruence.
  - destruct f; cbn in S, F; try discriminate; contradiction.
Qed.
Print Assumptions C04_ne_is_complement_of_eq.

(* 2. ~=V is exactly (>=V) and (== prefix match on V's release minus its last component) *)
Theorem C04_compat_is_ge_and_prefix c V :
  sem OCompat (FVer V) c = Some (ge_spec c V && prefix_spec c (plain_v (Py.epoch V) (removelast (Py.release V)))).
Proof. reflexivity. Qed.
Print Assumptions C04_compat_is_ge_and_prefix.

(* 3. for every operator other than ===, candidates that compare equal get the same answer *)
Theorem C04_equal_candidates sp f a b c c' :
  interp sp = Some f -> form_ok (sp_op sp) f -> sp_op sp <> OArb ->
  Version a = Some c -> Version b = Some c' -> pep440_cmp c c' = Eq -> has sp a = has sp b.
Proof.
  intros I F NA Ha Hb E.
  pose proof (contains_is_spec sp f a I F) as H1. pose proof (contains_is_spec sp f b I F) as H2.
  unfold contains_spec in H1, H2. rewrite I, Ha in H1. rewrite I, Hb in H2.
  rewrite (sem_equal_candidates c c' (Version_wf _ _ Ha) (Version_wf _ _ Hb) E _ f NA) in H1. unfold has. congruence.
Qed.
Print Assumptions C04_equal_candidates.

(* 4. a specifier without local label answers the same for a candidate with and without its local label *)
Theorem C04_local_label_irrelevant sp f a b c l :
  interp sp = Some f -> form_ok (sp_op sp) f -> sp_op sp <> OArb -> no_local_form f ->
  Version a = Some c -> Py.local c = None -> Version b = Some (add_local c l) -> has sp a = has sp b.
Proof.
  intros I F NA NL Ha NC Hb.
  pose proof (contains_is_spec sp f a I F) as H1. pose proof (contains_is_spec sp f b I F) as H2.
  unfold contains_spec in H1, H2. rewrite I, Ha in H1. rewrite I, Hb in H2.
  rewrite (sem_local_irrelevant _ f c l NA NL NC) in H2. unfold has. congruence.
Qed.
Print Assumptions C04_local_label_irrelevant.

(* 5. >=V upward closed, <=V downward closed (in the order of public versions), together they cover everything *)
Theorem C04_ge_upward_closed c c' V : ge_spec c V = true -> vcmp (drop_local c) (drop_local c') <> Gt -> ge_spec c' V = true.
Proof. exact (C04_ge_upward c c' V). Qed.
Print Assumptions C04_ge_upward_closed.
Theorem C04_le_downward_closed c c' V : le_spec c V = true -> vcmp (drop_local c') (drop_local c) <> Gt -> le_spec c' V = true.
Proof. exact (C04_le_downward c c' V). Qed.
Print Assumptions C04_le_downward_closed.
Theorem C04_ge_le_cover_everything c V : ge_spec c V || le_spec c V = true.
Proof. exact (C04_ge_le_cover c V). Qed.
Print Assumptions C04_ge_le_cover_everything.

(* 6. <V inside <=V, >V inside >=V, neither matches V or a local version of V (V without local label, as the grammar demands) *)
Theorem C04_lt_inside_le c V : Py.local V = None -> lt_spec c V = true -> le_spec c V = true.
Proof. exact (C04_lt_sub_le c V). Qed.
Print Assumptions C04_lt_inside_le.
Theorem C04_gt_inside_ge c V : gt_spec c V = true -> ge_spec c V = true.
Proof. exact (C04_gt_sub_ge c V). Qed.
Print Assumptions C04_gt_inside_ge.
Theorem C04_strict_never_match_V_or_its_locals c V : Py.local V = None -> vcmp (drop_local c) V = Eq ->
  lt_spec c V = false /\ gt_spec c V = false.
Proof. exact (C04_strict_excludes_locals_of_V c V). Qed.
Print Assumptions C04_strict_never_match_V_or_its_locals.

(* ------------------------------------------------------------------------------------------------------------------------------
   The same clauses on contains() itself (code model, prereleases=True): [t] is the specifier's version text, V what it denotes. *)
Notation "o @ t" := {| sp_op := o; sp_text := t |} (at level 9, only parsing).

(* 2'. ~=V answers exactly the conjunction of the SPECIFIER >=V and the SPECIFIER ==P.*, P = V's epoch and release minus its last component *)
Theorem C04_compat_is_intersection_of_specifiers t V a c :
  Version t = Some V -> Py.local V = None -> (2 <= length (Py.release V))%nat -> Version a = Some c ->
  exists b1 b2, has (OGe @ t) a = Ans b1 /\ has (OEq @ (prefix_text V)) a = Ans b2 /\ has (OCompat @ t) a = Ans (b1 && b2).
Proof. exact (compat_is_intersection_contains t V a c). Qed.
Print Assumptions C04_compat_is_intersection_of_specifiers.

(* 5'. closure and cover, on contains(); the order hypothesis is on the public versions (implied by the full order: next two corollaries) *)
Theorem C04_ge_upward_closed_contains t V a b c c' : Version t = Some V -> Py.local V = None -> Version a = Some c -> Version b = Some c' ->
  has (OGe @ t) a = Ans true -> vcmp (drop_local c) (drop_local c') <> Gt -> has (OGe @ t) b = Ans true.
Proof. intros PV NL. exact (ge_upward_contains t V PV NL a b c c'). Qed.
Print Assumptions C04_ge_upward_closed_contains.
Theorem C04_le_downward_closed_contains t V a b c c' : Version t = Some V -> Py.local V = None -> Version a = Some c -> Version b = Some c' ->
  has (OLe @ t) a = Ans true -> vcmp (drop_local c') (drop_local c) <> Gt -> has (OLe @ t) b = Ans true.
Proof. intros PV NL. exact (le_downward_contains t V PV NL a b c c'). Qed.
Print Assumptions C04_le_downward_closed_contains.
Theorem C04_ge_upward_closed_version_order t V a b c c' : Version t = Some V -> Py.local V = None -> Version a = Some c -> Version b = Some c' ->
  has (OGe @ t) a = Ans true -> pep440_cmp c c' <> Gt -> has (OGe @ t) b = Ans true.
Proof. exact (ge_upward_contains_full_order t V a b c c'). Qed.
Print Assumptions C04_ge_upward_closed_version_order.
Theorem C04_le_downward_closed_version_order t V a b c c' : Version t = Some V -> Py.local V = None -> Version a = Some c -> Version b = Some c' ->
  has (OLe @ t) a = Ans true -> pep440_cmp c' c <> Gt -> has (OLe @ t) b = Ans true.
Proof. exact (le_downward_contains_full_order t V a b c c'). Qed.
Print Assumptions C04_le_downward_closed_version_order.
Theorem C04_ge_le_cover_contains t V a c : Version t = Some V -> Py.local V = None -> Version a = Some c ->
  exists b1 b2, has (OGe @ t) a = Ans b1 /\ has (OLe @ t) a = Ans b2 /\ b1 || b2 = true.
Proof. intros PV NL. exact (ge_le_cover_contains t V PV NL a c). Qed.
Print Assumptions C04_ge_le_cover_contains.

(* 6'. <V inside <=V, >V inside >=V, neither matches V or a local version of V (any candidate whose public version equals V) *)
Theorem C04_lt_inside_le_contains t V a c : Version t = Some V -> Py.local V = None -> Version a = Some c ->
  has (OLt @ t) a = Ans true -> has (OLe @ t) a = Ans true.
Proof. intros PV NL. exact (lt_inside_le_contains t V PV NL a c). Qed.
Print Assumptions C04_lt_inside_le_contains.
Theorem C04_gt_inside_ge_contains t V a c : Version t = Some V -> Py.local V = None -> Version a = Some c ->
  has (OGt @ t) a = Ans true -> has (OGe @ t) a = Ans true.
Proof. intros PV NL. exact (gt_inside_ge_contains t V PV NL a c). Qed.
Print Assumptions C04_gt_inside_ge_contains.
Theorem C04_strict_never_match_contains t V a c : Version t = Some V -> Py.local V = None -> Version a = Some c ->
  vcmp (drop_local c) V = Eq -> has (OLt @ t) a = Ans false /\ has (OGt @ t) a = Ans false.
Proof. intros PV NL. exact (strict_never_match_contains t V PV NL a c). Qed.
Print Assumptions C04_strict_never_match_contains.

(* 3'./4'. the equal-candidate and local-label laws hold under EVERY pre-release setting (object setting [ov], call argument [arg]) *)
Theorem C04_equal_candidates_any_setting sp f ov arg a b c c' :
  interp sp = Some f -> form_ok (sp_op sp) f -> sp_op sp <> OArb ->
  Version a = Some c -> Version b = Some c' -> pep440_cmp c c' = Eq -> contains sp ov arg a = contains sp ov arg b.
Proof. exact (equal_candidates_any_setting sp f ov arg a b c c'). Qed.
Print Assumptions C04_equal_candidates_any_setting.
Theorem C04_local_label_irrelevant_any_setting sp f ov arg a b c l :
  interp sp = Some f -> form_ok (sp_op sp) f -> sp_op sp <> OArb -> no_local_form f ->
  Version a = Some c -> Py.local c = None -> Version b = Some (add_local c l) -> contains sp ov arg a = contains sp ov arg b.
Proof. exact (local_label_irrelevant_any_setting sp f ov arg a b c l). Qed.
Print Assumptions C04_local_label_irrelevant_any_setting.

(* 1'. the exact scope of the complement clause: under every setting it holds for every candidate that is not a pre-release;
       for a pre-release candidate with the gate closed on both specifiers it fails (both answer False; that second theorem is DEFINITIONAL:
       the gate of the model's contains() applied twice). *)
Theorem C04_ne_complement_non_prerelease t f ov arg a c :
  interp (OEq @ t) = Some f -> form_ok OEq f -> Version a = Some c -> is_prerelease c = false ->
  exists b, contains (OEq @ t) ov arg a = Ans b /\ contains (ONe @ t) ov arg a = Ans (negb b).
Proof. exact (ne_complement_non_prerelease t f ov arg a c). Qed.
Print Assumptions C04_ne_complement_non_prerelease.
Theorem C04_ne_complement_fails_when_gated t ov arg a c : Version a = Some c -> is_prerelease c = true ->
  gate_setting (OEq @ t) ov arg = false -> gate_setting (ONe @ t) ov arg = false ->
  contains (OEq @ t) ov arg a = Ans false /\ contains (ONe @ t) ov arg a = Ans false.
Proof. exact (ne_complement_fails_when_gated t ov arg a c). Qed.
Print Assumptions C04_ne_complement_fails_when_gated.

(* 2''/5''/6''. closure, cover, inside, never-match and the ~= intersection under EVERY setting (object setting ov, call argument arg), for
   candidates that pass the gate: not a pre-release, or pre-releases enabled independently of the specifier (argument True, or no argument
   and object setting True).  For other candidates these laws fail (e.g. >=1.0 holds 1.0 but not 1.1a1 by default). *)
Theorem C04_gate_passed_is_enabled sp ov arg a c : Version a = Some c -> passes ov arg c -> contains sp ov arg a = has sp a.
Proof. exact (contains_gate_passed sp ov arg a c). Qed.
Print Assumptions C04_gate_passed_is_enabled.
Theorem C04_ge_upward_closed_any_setting t V ov arg a b c c' : Version t = Some V -> Py.local V = None ->
  Version a = Some c -> Version b = Some c' -> passes ov arg c -> passes ov arg c' ->
  contains (OGe @ t) ov arg a = Ans true -> vcmp (drop_local c) (drop_local c') <> Gt -> contains (OGe @ t) ov arg b = Ans true.
Proof. intros PV NL. exact (ge_upward_any_setting t V ov arg PV NL a b c c'). Qed.
Print Assumptions C04_ge_upward_closed_any_setting.
Theorem C04_le_downward_closed_any_setting t V ov arg a b c c' : Version t = Some V -> Py.local V = None ->
  Version a = Some c -> Version b = Some c' -> passes ov arg c -> passes ov arg c' ->
  contains (OLe @ t) ov arg a = Ans true -> vcmp (drop_local c') (drop_local c) <> Gt -> contains (OLe @ t) ov arg b = Ans true.
Proof. intros PV NL. exact (le_downward_any_setting t V ov arg PV NL a b c c'). Qed.
Print Assumptions C04_le_downward_closed_any_setting.
Theorem C04_ge_le_cover_any_setting t V ov arg a c : Version t = Some V -> Py.local V = None -> Version a = Some c -> passes ov arg c ->
  exists b1 b2, contains (OGe @ t) ov arg a = Ans b1 /\ contains (OLe @ t) ov arg a = Ans b2 /\ b1 || b2 = true.
Proof. intros PV NL. exact (cover_any_setting t V ov arg PV NL a c). Qed.
Print Assumptions C04_ge_le_cover_any_setting.
Theorem C04_lt_inside_le_any_setting t V ov arg a c : Version t = Some V -> Py.local V = None -> Version a = Some c -> passes ov arg c ->
  contains (OLt @ t) ov arg a = Ans true -> contains (OLe @ t) ov arg a = Ans true.
Proof. intros PV NL. exact (lt_inside_le_any_setting t V ov arg PV NL a c). Qed.
Print Assumptions C04_lt_inside_le_any_setting.
Theorem C04_gt_inside_ge_any_setting t V ov arg a c : Version t = Some V -> Py.local V = None -> Version a = Some c -> passes ov arg c ->
  contains (OGt @ t) ov arg a = Ans true -> contains (OGe @ t) ov arg a = Ans true.
Proof. intros PV NL. exact (gt_inside_ge_any_setting t V ov arg PV NL a c). Qed.
Print Assumptions C04_gt_inside_ge_any_setting.
(* never matching V or a local version of V needs no gate hypothesis at all *)
Theorem C04_strict_never_match_any_setting t V ov arg a c : Version t = Some V -> Py.local V = None -> Version a = Some c ->
  vcmp (drop_local c) V = Eq -> contains (OLt @ t) ov arg a = Ans false /\ contains (OGt @ t) ov arg a = Ans false.
Proof. intros PV NL. exact (strict_never_match_any_setting t V ov arg PV NL a c). Qed.
Print Assumptions C04_strict_never_match_any_setting.
Theorem C04_compat_is_intersection_any_setting t V ov arg a c : Version t = Some V -> Py.local V = None -> (2 <= length (Py.release V))%nat ->
  Version a = Some c -> passes ov arg c ->
  exists b1 b2, contains (OGe @ t) ov arg a = Ans b1 /\ contains (OEq @ (prefix_text V)) ov arg a = Ans b2 /\ contains (OCompat @ t) ov arg a = Ans (b1 && b2).
Proof. intros PV NL. exact (compat_intersection_any_setting t V ov arg PV NL a c). Qed.
Print Assumptions C04_compat_is_intersection_any_setting.

Example C04_lifted_nonvacuous : lift_check = true.
Proof. vm_compute. reflexivity. Qed.

(* 9. reflexivity: a version satisfies ==, >=, <=, ~= and === of itself and fails !=, < and > of itself - on the operator semantics, and on
      contains() for ANY two spellings t (after the operator) and t2 (the candidate) of one version V the operator admits *)
Theorem C04_self_match_semantics V : VMeaning.wf_version V ->
  eq_spec V V = true /\ arb_spec V (vstr V) = true /\
  (Py.local V = None -> ge_spec V V = true /\ le_spec V V = true /\ lt_spec V V = false /\ gt_spec V V = false /\
                        ((2 <= length (Py.release V))%nat -> compat_spec V V = true)).
Proof. exact (self_match_sem V). Qed.
Print Assumptions C04_self_match_semantics.
Theorem C04_self_match_contains o t t2 V : Version t = Some V -> Version t2 = Some V -> admits o V -> o <> OArb ->
  exists sp, Specifier (op_txt o ++ t) = Some sp /\ contains sp None (Some true) t2 = Ans (reflexive_op o).
Proof. exact (self_match_contains o t t2 V). Qed.
Print Assumptions C04_self_match_contains.

(* non-vacuity: ">= v1.0.RC1" admits a form; 1.0 and 1.0.0 are equal candidates that it matches *)
Definition nonvac_check : bool :=
  match Specifier [62;61;32;118;49;46;48;46;82;67;49], Version [49;46;48], Version [49;46;48;46;48] with
  | Some sp, Some c, Some c' =>
      match interp sp, pep440_cmp c c', has sp [49;46;48], has sp [49;46;48;46;48] with
      | Some (FVer _), Eq, Ans true, Ans true => true | _, _, _, _ => false end
  | _, _, _ => false
  end.
Example C04_nonvacuous : nonvac_check = true.
Proof. vm_compute. reflexivity. Qed.
