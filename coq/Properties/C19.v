(* C19 (placeholder while the pipeline is brought up) *)
From Coq Require Import List NArith Bool.
Require Import LicAuto.
Theorem C19_token_level_accepts_iff_spdx (id : Type) (lic_ok exc_ok : id -> bool) ts :
  code_ok id lic_ok exc_ok ts = spdx_ok id lic_ok exc_ok ts.
Proof. apply C19_code_accepts_iff_spdx. Qed.
Print Assumptions C19_token_level_accepts_iff_spdx.
