(* C19  License expressions are validated and canonicalised per SPDX (canonicalize_license_expression).

   Model   LicModel.canon / LicTop.canonicalize_license_expression: the function of src/packaging/licenses/__init__.py statement by
           statement (paddings, str.split on the 29 whitespace code points, str.lower, skeleton with the two parenthesis guards,
           eval of the skeleton as the automaton pyrun + CPython's nesting limits, final pass with table lookups, the LicenseRef
           regex on the token as written, " ".join and the two final replaces), over the tables of coq/Gen/SpdxTable.v.
   Spec    LicSpec: tokens (LicSpec.spdx_tokens), ASCII case folding, the SPDX automaton (LicAuto.spdx_ok) = the grammar
           LicGrammar.expr, canonical tokens, tight printing.  The specification only looks at the official ids, never at the keys.
   Result  Ok o | Err (InvalidLicenseExpression) | Limit o (nesting depth 101..200: Ok o or Err, CPython parser dependent) | Crash.
   Domain  every string.  A non-ASCII, non-whitespace character anywhere makes the model reject (C19_non_ascii_rejected; since fix
           9992710 this includes U+212A KELVIN SIGN, which str.lower() maps to "k"), so the model's reading of str.lower() on
           non-ASCII characters other than U+0130 / U+212A is immaterial.
   Table   LicTable.spdx_table_ok is re-proved by vm_compute over the table of the working tree on every run.
   Text    Whether "LicenseRef-x+" is well-formed is not fixed by the property; the code accepts it and so does LicSpec.lic_canon.
           The idstring of a LicenseRef is not empty (SPDX: 1*(...)); "LicenseRef-" is rejected since fix 8e6ceae.
   Trusted (NOT PROVED, validated by the correspondence run only): that CPython's eval() of the False/or/and/(/) skeleton behaves like
           LicModel.py_eval (exhaustive sweep over all guard-passing skeletons up to the length bound of the run + depth probes); that
           str.lower/split/replace and re.match behave like LicModel.lower/split_ws/rep2/ref_match (probed over all code points).
           Every theorem below is for all inputs. *)
From Coq Require Import String List NArith Bool.
Import ListNotations.
Require Import VParse LicModel LicAuto LicSpec LicLex LicCode LicIdem LicGrammar LicTable LicTop LicFinal SpdxTable.
Require Import Show LicIds LicLayout LicTree LicFinalB LicSpecX RunLic.
Open Scope N_scope.
Notation "'txt' s" := (asc s%string) (at level 0, s at level 0, only parsing).

(* 1. the function computes the specification: it accepts exactly the SPDX expressions over the tables, in any ASCII case and whitespace
      layout, rejects everything else, and returns the canonical text; the only deviation is the interpreter's nesting limit
      (depth > 200 always rejected, 101..200 interpreter dependent) *)
Theorem C19_computes_the_specification s :
  canonicalize_license_expression s =
  match spec_canon licenses exceptions s with
  | None => Err
  | Some o => if nests_deeper_than 200 (spdx_tokens s) then Err
              else if nests_deeper_than 100 (spdx_tokens s) then Limit o else Ok o
  end.
Proof. exact (final_spec s). Qed.
Print Assumptions C19_computes_the_specification.

(* 2. accepted exactly when the token sequence is an SPDX expression (up to the nesting limit) ... *)
Theorem C19_accepts_iff_spdx s : nests_deeper_than 100 (spdx_tokens s) <> true ->
  ((exists o, canonicalize_license_expression s = Ok o) <-> spdx_tokens_ok licenses exceptions (spdx_tokens s) = true).
Proof. exact (final_accepts_iff s). Qed.
Print Assumptions C19_accepts_iff_spdx.
(* ... where the automaton of the specification is the SPDX grammar: simple | simple WITH exception | ( expr ) | expr AND/OR expr *)
Theorem C19_spdx_automaton_is_the_grammar ts :
  spdx_tokens_ok licenses exceptions ts = true <-> exists e, expr_ok licenses exceptions e /\ map classify ts = expr_tokens e.
Proof. exact (automaton_iff_grammar licenses exceptions ts). Qed.
Print Assumptions C19_spdx_automaton_is_the_grammar.

(* 3. canonical form: one result token per input token - operators in upper case, official ids, "LicenseRef-" + the suffix as written,
      "+" kept (LicSpec.canon_tokens) - each the same word as its input token (same structure), ASCII, printed with single spaces
      and tight parentheses; and the text tokenises back to exactly these tokens *)
Theorem C19_canonical_form s o : (canonicalize_license_expression s = Ok o \/ canonicalize_license_expression s = Limit o) ->
  exists out, canon_tokens licenses exceptions false (spdx_tokens s) = Some out /\ o = tight out /\
              Forall2 teq (spdx_tokens s) out /\ spdx_tokens o = out /\ forallb asciib o = true.
Proof. exact (final_canonical_form s o). Qed.
Print Assumptions C19_canonical_form.

(* 4. idempotent *)
Theorem C19_idempotent s o : canonicalize_license_expression s = Ok o -> canonicalize_license_expression o = Ok o.
Proof. exact (final_idempotent s o). Qed.
Print Assumptions C19_idempotent.

(* 5. insensitive to ASCII case (outside LicenseRef suffixes) and to whitespace layout: same words, same result *)
Theorem C19_case_and_layout_insensitive s s' : Forall2 teq (spdx_tokens s) (spdx_tokens s') ->
  canonicalize_license_expression s = canonicalize_license_expression s'.
Proof. exact (canon_insensitive _ _ spdx_table_ok s s'). Qed.
Print Assumptions C19_case_and_layout_insensitive.
(* in particular whitespace layout alone: the result depends on the token sequence only *)
Theorem C19_layout_insensitive s s' : spdx_tokens s = spdx_tokens s' -> canonicalize_license_expression s = canonicalize_license_expression s'.
Proof. exact (final_layout s s'). Qed.
Print Assumptions C19_layout_insensitive.

(* 6. everything else is rejected with the documented exception: no other exception for any input whatsoever (and any table).
      What this says and what it does not (see also 6b below): the only Python-level failure the function's own statements could hit
      is the subscript TABLE[token] of the final loop; the model keeps it visible as `Crash` (lookup = None after mem = true) and this
      theorem says the `in TABLE` guard in front of it makes it unreachable, for every table.  Exceptions raised INSIDE eval()
      (SyntaxError, MemoryError "parser stack overflowed", RecursionError) are all subclasses of Exception and are caught by the code's
      `except Exception` -> rejection; that is the EvBad / EvLimit part of LicModel.py_eval and belongs to the trusted reading of eval().
      A BaseException that is not an Exception (KeyboardInterrupt, SystemExit) cannot originate from a False/or/and/parenthesis
      expression and is not represented in `result`; non-str arguments are outside the domain.  The run-time side of this clause is
      the runner's !EXC:<Class> report on every l.canon case, including the stream of arbitrary code points (surrogates included). *)
Theorem C19_only_the_documented_exception s : canonicalize_license_expression s <> Crash.
Proof. exact (canon_no_crash licenses exceptions s). Qed.
Print Assumptions C19_only_the_documented_exception.
Theorem C19_empty_rejected : canonicalize_license_expression [] = Err.
Proof. reflexivity. Qed.
Print Assumptions C19_empty_rejected.
(* 6b. the same clause stated positively: every input yields a value, the documented rejection, or (depth 101..200) one of the two;
       and the reason: a table subscript behind its `in` guard cannot fail; the two token lists the final loop zips are equally long
       (zip() drops nothing: the model's `combine` does not hide a truncation).
       Strength of these three: the first is theorem 6 with the four constructors of `result` destructed (no new content); the second
       restates LicModel.mem / lookup (find succeeds where existsb holds) - it is the reason behind theorem 6, for any table; the third
       is about the MODEL's lower (character-wise, whitespace preserved): that CPython's str.lower() never creates or removes
       whitespace is the trusted law.l.lowerprobe over all code points, not this theorem. *)
Theorem C19_value_or_documented_exception s :
  (exists o, canonicalize_license_expression s = Ok o) \/ canonicalize_license_expression s = Err \/
  (exists o, canonicalize_license_expression s = Limit o).
Proof. exact (finalb_total s). Qed.
Print Assumptions C19_value_or_documented_exception.
Theorem C19_guarded_subscript_cannot_fail k tbl : mem k tbl = true -> exists id, lookup k tbl = Some id.
Proof. exact (finalb_guarded_lookup k tbl). Qed.
Print Assumptions C19_guarded_subscript_cannot_fail.
Theorem C19_zip_drops_nothing s : length (split_ws (pad s)) = length (split_ws (lower (pad s))).
Proof. exact (finalb_zip_lengths s). Qed.
Print Assumptions C19_zip_drops_nothing.

(* 7. identifiers are ASCII: an accepted input consists of ASCII characters and whitespace only; any other character - U+212A KELVIN
      SIGN (lower-cases to "k"), U+0130, U+017F ... - makes the expression invalid *)
Theorem C19_accepted_is_ascii s o : (canonicalize_license_expression s = Ok o \/ canonicalize_license_expression s = Limit o) ->
  forall c, In c s -> asciib c = true \/ is_ws c = true.
Proof. exact (final_accepted_ascii s o). Qed.
Print Assumptions C19_accepted_is_ascii.
Theorem C19_non_ascii_rejected s c : In c s -> asciib c = false -> is_ws c = false -> canonicalize_license_expression s = Err.
Proof. exact (final_nonascii_rejected s c). Qed.
Print Assumptions C19_non_ascii_rejected.

(* 8. the table of the working tree satisfies the invariants the above rests on (key = ASCII lower-casing of the id; keys and ids ASCII;
      ids non-empty, free of whitespace and parentheses; no id is a prefix of "WITH"; no exception key is an operator word, a
      parenthesis or LicenseRef-like); keys pairwise distinct, so first-match lookup is dict lookup *)
Theorem C19_table_invariants : table_ok licenses exceptions = true /\ NoDup (map fst licenses) /\ NoDup (map fst exceptions).
Proof. exact (conj spdx_table_ok spdx_keys_nodup). Qed.
Print Assumptions C19_table_invariants.

(* 9. "known identifier", declaratively.  A token w is a simple expression with canonical spelling o  iff  w = core ++ plus where plus
      is "+" exactly when w ends in "+", and either core is "LicenseRef-" (any ASCII case) followed by ONE OR MORE letters, digits, "."
      and "-" only (then o = "LicenseRef-" + the suffix as written + plus), or core does not start with "licenseref-" and equals, up to ASCII
      case, an id of the licence table (then o = that id + plus).  An exception identifier is an id of the exception table up to ASCII
      case.  (Audit form first, then with the LicenseRef branch split into prefix and suffix.) *)
Theorem C19_simple_ids w o : lic_canon licenses w = Some o <->
  exists core plus, w = core ++ plus /\ ((plus = [] /\ last_is 43 w = false) \/ plus = [43]) /\
    ((prefixb licenseref_lc (afold core) = true /\ forallb ref_char core = true /\ skipn 11 core <> [] /\
      o = licenseref_prefix ++ skipn 11 core ++ plus) \/
     (prefixb licenseref_lc (afold core) = false /\ exists id, In id (map snd licenses) /\ afold id = afold core /\ o = id ++ plus)).
Proof. exact (finalb_simple_ids w o). Qed.
Print Assumptions C19_simple_ids.
Theorem C19_simple_ids_readable w o : lic_canon licenses w = Some o <->
  exists core plus, w = core ++ plus /\ ((plus = [] /\ last_is 43 w = false) \/ plus = [43]) /\
    ((exists p suffix, core = p ++ suffix /\ afold p = licenseref_lc /\ suffix <> [] /\ forallb ref_char suffix = true /\
                       o = licenseref_prefix ++ suffix ++ plus) \/
     (prefixb licenseref_lc (afold core) = false /\ exists id, In id (map snd licenses) /\ afold id = afold core /\ o = id ++ plus)).
Proof. exact (finalb_simple_ids_readable w o). Qed.
Print Assumptions C19_simple_ids_readable.
Theorem C19_exception_ids w o : exc_canon exceptions w = Some o <-> In o (map snd exceptions) /\ afold o = afold w.
Proof. exact (finalb_exception_ids w o). Qed.
Print Assumptions C19_exception_ids.
(* the character class of a LicenseRef suffix, spelled out (an unfolding of LicModel.ref_char, for the reader); and: no id of the bundled
   licence table starts with "licenseref-" (a computed fact about the table of the working tree) *)
Theorem C19_ref_characters c : ref_char c = true <-> (65 <= c <= 90) \/ (97 <= c <= 122) \/ (48 <= c <= 57) \/ c = 46 \/ c = 45.
Proof. exact (ref_char_iff c). Qed.
Print Assumptions C19_ref_characters.
Theorem C19_no_table_id_is_a_licenseref id : In id (map snd licenses) -> prefixb licenseref_lc (afold id) = false.
Proof. intros H. pose proof finalb_no_licenseref_in_table as T. rewrite forallb_forall in T. now apply negb_true_iff, T. Qed.
Print Assumptions C19_no_table_id_is_a_licenseref.
(* 9b. where this reading differs from SPDX proper (Annex D: license-ref = "LicenseRef-" idstring, idstring = 1*(ALPHA/DIGIT/"-"/"."),
       simple-expression = license-id / license-id "+" / license-ref): exactly one extra form - a LicenseRef followed by "+".
       An EMPTY idstring ("LicenseRef-", "licenseref-+") is rejected (fix 8e6ceae; it was accepted before).  "GPL-2.0++" is
       license-id "+" with the (deprecated) table id "GPL-2.0+", i.e. within SPDX proper.
       "SPDX proper" here is simple-expression without a document prefix.  Two further Annex D forms are REJECTED by the code and by
       this specification alike (so they are no difference between the two, but they are a difference to the full Annex D grammar):
       "DocumentRef-" idstring ":" "LicenseRef-" idstring  (":" is no LicenseRef character; no table id starts with "DocumentRef-")
       and, after WITH, "AdditionRef-" idstring (SPDX 3; in no exception table).  The property text names neither form. *)
Theorem C19_simple_ids_vs_spdx_proper w o : lic_canon licenses w = Some o <->
  strict_simple licenses w o \/
  (ref_with_plus w /\ o = licenseref_prefix ++ skipn 11 w).
Proof. exact (finalb_vs_strict w o). Qed.
Print Assumptions C19_simple_ids_vs_spdx_proper.

(* 10. single spaces and tight parentheses, as a statement about the text (LicLayout.text_layout, unfolded here): not empty; no leading
       or trailing blank; U+0020 is the only whitespace character; no "  ", no "( ", no " )"; ")" is followed by ")" or " " and "(" is
       preceded by "(" or " " (so every other pair of tokens is separated by exactly one U+0020, given C19_canonical_form's
       spdx_tokens o = out) *)
Theorem C19_textual_layout s o : (canonicalize_license_expression s = Ok o \/ canonicalize_license_expression s = Limit o) ->
  o <> [] /\ hd 0 o <> 32 /\ last o 0 <> 32 /\
  (forall c, In c o -> is_ws c = true -> c = 32) /\
  ~ occurs [32; 32] o /\ ~ occurs [40; 32] o /\ ~ occurs [32; 41] o /\
  (forall x c y, o = x ++ 41 :: c :: y -> c = 41 \/ c = 32) /\
  (forall x c y, o = x ++ c :: 40 :: y -> c = 40 \/ c = 32).
Proof. exact (finalb_text_layout s o). Qed.
Print Assumptions C19_textual_layout.

(* 11. same structure, at the level of expression trees: the input tokens are the tokens of a well-formed tree e, the tokens of the
       result are the tokens of the same tree with every leaf in its canonical spelling (canon_expr: a map over the leaves - the last
       conjunct, same shape, holds by construction), which is well-formed and its own canonical tree.
       What "tree" means: LicGrammar.expr has NO operator precedence or associativity, so the grouping of AND/OR within one
       parenthesis level is not constrained - e is one of several parses that differ only in that grouping.  The trees do fix the
       parenthesis nesting, the operand of each WITH and the order of operands and operators.  This adds to C19_canonical_form (token by
       token) only that the correspondence respects that nesting; C19_same_tree_every_parse below says it for every parse, hence also
       for the one SPDX precedence (AND over OR) selects. *)
Theorem C19_same_tree s o : (canonicalize_license_expression s = Ok o \/ canonicalize_license_expression s = Limit o) ->
  exists e, expr_ok licenses exceptions e /\
            map classify (spdx_tokens s) = expr_tokens e /\
            map classify (spdx_tokens o) = expr_tokens (canon_expr licenses exceptions e) /\
            expr_ok licenses exceptions (canon_expr licenses exceptions e) /\
            canon_expr licenses exceptions (canon_expr licenses exceptions e) = canon_expr licenses exceptions e /\
            shape (canon_expr licenses exceptions e) = shape e.
Proof. exact (finalb_tree s o). Qed.
Print Assumptions C19_same_tree.
Theorem C19_same_tree_every_parse s o : (canonicalize_license_expression s = Ok o \/ canonicalize_license_expression s = Limit o) ->
  forall e, map classify (spdx_tokens s) = expr_tokens e ->
            map classify (spdx_tokens o) = expr_tokens (canon_expr licenses exceptions e).
Proof. exact (finalb_tree_every_parse s o). Qed.
Print Assumptions C19_same_tree_every_parse.

(* 12. idempotent in the interpreter-dependent band as well: the result of a depth-101..200 expression is again such an expression
       with itself as result *)
Theorem C19_idempotent_limit s o : canonicalize_license_expression s = Limit o -> canonicalize_license_expression o = Limit o.
Proof. exact (finalb_idempotent_limit s o). Qed.
Print Assumptions C19_idempotent_limit.

(* 13. the observation command l.spec, which the correspondence run compares with the harness-side Python reading of the property,
       prints the specification of theorem 1 (run under another name for the sake of the extraction).  Plumbing: it is what makes
       the l.spec stream a statement about spec_canon.  Both sides of that stream are automaton readings (gen_lic.spec in Python,
       LicAuto in Coq); the inductive grammar LicGrammar.expr is tied to the automaton by theorem 2b only, it is never run. *)
Theorem C19_spec_observation_is_the_specification s :
  obs_spec s = match spec_canon licenses exceptions s with
               | None => txt "N"
               | Some o => txt "S|" ++ (if nests_deeper_than 200 (spdx_tokens s) then txt "2"
                                        else if nests_deeper_than 100 (spdx_tokens s) then txt "1" else txt "0") ++ txt "|" ++ o
               end.
Proof. unfold obs_spec. now rewrite spec_canon_x_eq. Qed.
Print Assumptions C19_spec_observation_is_the_specification.

(* the one deviation of the code from the property, as a fact about the faithful model *)
(* 201 nested parentheses around MIT: an SPDX expression, rejected *)
Example C19_deep_nesting_refuted :
  let s := repeat 40 201 ++ [77;73;84] ++ repeat 41 201 in
  canonicalize_license_expression s = Err /\ spdx_tokens_ok licenses exceptions (spdx_tokens s) = true.
Proof. split; vm_compute; reflexivity. Qed.

(* "K"+"azlib" with U+212A KELVIN SIGN - accepted as Kazlib before fix 9992710 - is rejected, in licence and in exception position *)
Example C19_kelvin_rejected :
  canonicalize_license_expression [8490;97;122;108;105;98] = Err /\
  canonicalize_license_expression [77;73;84;32;87;73;84;72;32;8490;97;122;108;105;98] = Err /\
  canonicalize_license_expression [75;97;122;108;105;98] = Ok [75;97;122;108;105;98].
Proof. repeat split; vm_compute; reflexivity. Qed.

(* non-vacuity: " mit\x0bOR( apache-2.0+ with\nLLVM-EXCEPTION and licenseref-My.Ref) " is accepted with the canonical text
   "MIT OR (Apache-2.0+ WITH LLVM-exception AND LicenseRef-My.Ref)", which is a fixed point *)
Example C19_nonvacuous :
  let s := [32;109;105;116;11;79;82;40;32;97;112;97;99;104;101;45;50;46;48;43;32;119;105;116;104;10;76;76;86;77;45;69;88;67;69;80;84;73;79;78;32;
            97;110;100;32;108;105;99;101;110;115;101;114;101;102;45;77;121;46;82;101;102;41;32] in
  let o := [77;73;84;32;79;82;32;40;65;112;97;99;104;101;45;50;46;48;43;32;87;73;84;72;32;76;76;86;77;45;101;120;99;101;112;116;105;111;110;32;
            65;78;68;32;76;105;99;101;110;115;101;82;101;102;45;77;121;46;82;101;102;41] in
  canonicalize_license_expression s = Ok o /\ spec_canon licenses exceptions s = Some o /\ canonicalize_license_expression o = Ok o.
Proof. repeat split; vm_compute; reflexivity. Qed.

(* non-vacuity of 9-12 as closed boolean computations *)
Definition opt_is (a : option (list N)) (b : option (list N)) : bool :=
  match a, b with Some x, Some y => streq x y | None, None => true | _, _ => false end.
Definition C19_ids_check : bool :=
  opt_is (lic_canon licenses (txt "licenseref-My.Ref+")) (Some (txt "LicenseRef-My.Ref+")) &&
  opt_is (lic_canon licenses (txt "apache-2.0")) (Some (txt "Apache-2.0")) &&
  opt_is (lic_canon licenses (txt "gpl-2.0++")) (Some (txt "GPL-2.0++")) &&          (* license-id "GPL-2.0+" followed by "+" *)
  opt_is (lic_canon licenses (txt "LICENSEREF-")) None &&                            (* empty idstring: rejected (fix 8e6ceae) *)
  opt_is (lic_canon licenses (txt "licenseref-+")) None &&
  opt_is (lic_canon licenses (txt "licenseref-.")) (Some (txt "LicenseRef-.")) &&
  opt_is (lic_canon licenses (txt "LicenseRef-a_b")) None &&
  opt_is (lic_canon licenses (txt "LicenseRef-a+b")) None &&
  opt_is (lic_canon licenses (txt "mit-")) None &&
  opt_is (exc_canon exceptions (txt "llvm-EXCEPTION")) (Some (txt "LLVM-exception")) &&
  opt_is (exc_canon exceptions (txt "mit")) None &&
  opt_is (lic_canon licenses (txt "DocumentRef-a:LicenseRef-b")) None &&            (* Annex D forms the code rejects *)
  opt_is (exc_canon exceptions (txt "AdditionRef-x")) None.
Example C19_ids_nonvacuous : C19_ids_check = true.
Proof. vm_compute. reflexivity. Qed.

Definition is_ok_text (s o : list N) : bool := match canonicalize_license_expression s with Ok x => streq x o | _ => false end.
(* text_layoutb decides all nine conjuncts of C19_textual_layout (LicLayout.text_layoutb_sound); the check: an accepted input whose
   result passes, and one text per conjunct that fails it (empty, leading blank, trailing blank, a TAB, "  ", "( ", " )", ")O", "R(") *)
Definition C19_layout_check : bool :=
  is_ok_text (txt " ( mit )or(gd AND( isc ) ) ") (txt "(MIT) OR (GD AND (ISC))") &&
  text_layoutb (txt "(MIT) OR (GD AND (ISC))") &&
  negb (text_layoutb []) && negb (text_layoutb (txt " MIT")) && negb (text_layoutb (txt "MIT ")) &&
  negb (text_layoutb (9 :: txt "MIT")) && negb (text_layoutb (txt "MIT" ++ [9] ++ txt "OR GD")) &&
  negb (text_layoutb (txt "MIT  OR GD")) && negb (text_layoutb (txt "( MIT)")) && negb (text_layoutb (txt "(MIT )")) &&
  negb (text_layoutb (txt "(MIT)OR GD")) && negb (text_layoutb (txt "MIT OR(GD)")).
Example C19_layout_nonvacuous : C19_layout_check = true.
Proof. vm_compute. reflexivity. Qed.
(* the nine conjuncts themselves, on that result *)
Example C19_layout_witness : text_layout (txt "(MIT) OR (GD AND (ISC))").
Proof. apply text_layoutb_sound. vm_compute. reflexivity. Qed.

Definition tok_eqb (a b : tok (list N)) : bool :=
  match a, b with
  | TOr _, TOr _ | TAnd _, TAnd _ | TWith _, TWith _ | TL _, TL _ | TR _, TR _ => true
  | TId _ x, TId _ y => streq x y
  | _, _ => false
  end.
Fixpoint toks_eqb (a b : list (tok (list N))) : bool :=
  match a, b with [], [] => true | x :: a', y :: b' => tok_eqb x y && toks_eqb a' b' | _, _ => false end.
Definition C19_tree_check : bool :=
  let e := Or _ (Paren _ (Simple _ (txt "mit"))) (And _ (WithExc _ (txt "apache-2.0+") (txt "LLVM-EXCEPTION")) (Simple _ (txt "licenseref-My.Ref"))) in
  let s := txt "(mit)or apache-2.0+ WITH LLVM-EXCEPTION and licenseref-My.Ref" in
  let o := txt "(MIT) OR Apache-2.0+ WITH LLVM-exception AND LicenseRef-My.Ref" in
  is_ok_text s o &&
  toks_eqb (map classify (spdx_tokens s)) (expr_tokens e) &&
  toks_eqb (map classify (spdx_tokens o)) (expr_tokens (canon_expr licenses exceptions e)).
Example C19_tree_nonvacuous : C19_tree_check = true.
Proof. vm_compute. reflexivity. Qed.

(* depth 101: interpreter dependent, and the result is a fixed point in the same band *)
Definition C19_limit_check : bool :=
  let s := repeat 40 101 ++ txt "mit" ++ repeat 41 101 in
  match canonicalize_license_expression s with
  | Limit o => match canonicalize_license_expression o with Limit o' => streq o o' | _ => false end
  | _ => false
  end.
Example C19_limit_nonvacuous : C19_limit_check = true.
Proof. vm_compute. reflexivity. Qed.
