(* C19  License expressions are validated and canonicalised per SPDX (canonicalize_license_expression).

   Model   LicModel.canon / LicTop.canonicalize_license_expression: the function of src/packaging/licenses/__init__.py statement by
           statement (paddings, str.split on the 29 whitespace code points, str.lower, skeleton with the two parenthesis guards,
           eval of the skeleton as the automaton pyrun + CPython's nesting limits, final pass with table lookups, the LicenseRef
           regex on the token as written, " ".join and the two final replaces), over the tables of coq/Gen/SpdxTable.v.
   Spec    LicSpec: tokens (LicSpec.spdx_tokens), ASCII case folding, the SPDX automaton (LicAuto.spdx_ok) = the grammar
           LicGrammar.expr, canonical tokens, tight printing.  The specification only looks at the official ids, never at the keys.
   Result  Ok o | Err (InvalidLicenseExpression) | Limit o (nesting depth 101..200: Ok o or Err, CPython parser dependent) | Crash.
   Domain  every string.  A non-ASCII, non-whitespace character anywhere makes the model reject (C19_non_ascii_rejected; since fix
           9992710 this includes U+212A KELVIN SIGN, which str.lower() maps to "k"), so the model's reading of str.lower() on
           non-ASCII characters other than U+0130 / U+212A is immaterial.
   Table   LicTable.spdx_table_ok is re-proved by vm_compute over the table of the working tree on every run.
   Text    Whether "LicenseRef-x+" is well-formed is not fixed by the property; the code accepts it and so does LicSpec.lic_canon.
   Trusted (NOT PROVED, validated by the correspondence run only): that CPython's eval() of the False/or/and/(/) skeleton behaves like
           LicModel.py_eval (exhaustive sweep over all guard-passing skeletons up to the length bound of the run + depth probes); that
           str.lower/split/replace and re.match behave like LicModel.lower/split_ws/rep2/ref_match (probed over all code points).
           Every theorem below is for all inputs. *)
From Coq Require Import List NArith Bool.
Import ListNotations.
Require Import VParse LicModel LicAuto LicSpec LicLex LicCode LicIdem LicGrammar LicTable LicTop LicFinal SpdxTable.
Open Scope N_scope.

(* 1. the function computes the specification: it accepts exactly the SPDX expressions over the tables, in any ASCII case and whitespace
      layout, rejects everything else, and returns the canonical text; the only deviation is the interpreter's nesting limit
      (depth > 200 always rejected, 101..200 interpreter dependent) *)
Theorem C19_computes_the_specification s :
  canonicalize_license_expression s =
  match spec_canon licenses exceptions s with
  | None => Err
  | Some o => if nests_deeper_than 200 (spdx_tokens s) then Err
              else if nests_deeper_than 100 (spdx_tokens s) then Limit o else Ok o
  end.
Proof. exact (final_spec s). Qed.
Print Assumptions C19_computes_the_specification.

(* 2. accepted exactly when the token sequence is an SPDX expression (up to the nesting limit) ... *)
Theorem C19_accepts_iff_spdx s : nests_deeper_than 100 (spdx_tokens s) <> true ->
  ((exists o, canonicalize_license_expression s = Ok o) <-> spdx_tokens_ok licenses exceptions (spdx_tokens s) = true).
Proof. exact (final_accepts_iff s). Qed.
Print Assumptions C19_accepts_iff_spdx.
(* ... where the automaton of the specification is the SPDX grammar: simple | simple WITH exception | ( expr ) | expr AND/OR expr *)
Theorem C19_spdx_automaton_is_the_grammar ts :
  spdx_tokens_ok licenses exceptions ts = true <-> exists e, expr_ok licenses exceptions e /\ map classify ts = expr_tokens e.
Proof. exact (automaton_iff_grammar licenses exceptions ts). Qed.
Print Assumptions C19_spdx_automaton_is_the_grammar.

(* 3. canonical form: one result token per input token - operators in upper case, official ids, "LicenseRef-" + the suffix as written,
      "+" kept (LicSpec.canon_tokens) - each the same word as its input token (same structure), ASCII, printed with single spaces
      and tight parentheses; and the text tokenises back to exactly these tokens *)
Theorem C19_canonical_form s o : (canonicalize_license_expression s = Ok o \/ canonicalize_license_expression s = Limit o) ->
  exists out, canon_tokens licenses exceptions false (spdx_tokens s) = Some out /\ o = tight out /\
              Forall2 teq (spdx_tokens s) out /\ spdx_tokens o = out /\ forallb asciib o = true.
Proof. exact (final_canonical_form s o). Qed.
Print Assumptions C19_canonical_form.

(* 4. idempotent *)
Theorem C19_idempotent s o : canonicalize_license_expression s = Ok o -> canonicalize_license_expression o = Ok o.
Proof. exact (final_idempotent s o). Qed.
Print Assumptions C19_idempotent.

(* 5. insensitive to ASCII case (outside LicenseRef suffixes) and to whitespace layout: same words, same result *)
Theorem C19_case_and_layout_insensitive s s' : Forall2 teq (spdx_tokens s) (spdx_tokens s') ->
  canonicalize_license_expression s = canonicalize_license_expression s'.
Proof. exact (canon_insensitive _ _ spdx_table_ok s s'). Qed.
Print Assumptions C19_case_and_layout_insensitive.
(* in particular whitespace layout alone: the result depends on the token sequence only *)
Theorem C19_layout_insensitive s s' : spdx_tokens s = spdx_tokens s' -> canonicalize_license_expression s = canonicalize_license_expression s'.
Proof. exact (final_layout s s'). Qed.
Print Assumptions C19_layout_insensitive.

(* 6. everything else is rejected with the documented exception: no other exception for any input whatsoever (and any table) *)
Theorem C19_only_the_documented_exception s : canonicalize_license_expression s <> Crash.
Proof. exact (canon_no_crash licenses exceptions s). Qed.
Print Assumptions C19_only_the_documented_exception.
Theorem C19_empty_rejected : canonicalize_license_expression [] = Err.
Proof. reflexivity. Qed.
Print Assumptions C19_empty_rejected.

(* 7. identifiers are ASCII: an accepted input consists of ASCII characters and whitespace only; any other character - U+212A KELVIN
      SIGN (lower-cases to "k"), U+0130, U+017F ... - makes the expression invalid *)
Theorem C19_accepted_is_ascii s o : (canonicalize_license_expression s = Ok o \/ canonicalize_license_expression s = Limit o) ->
  forall c, In c s -> asciib c = true \/ is_ws c = true.
Proof. exact (final_accepted_ascii s o). Qed.
Print Assumptions C19_accepted_is_ascii.
Theorem C19_non_ascii_rejected s c : In c s -> asciib c = false -> is_ws c = false -> canonicalize_license_expression s = Err.
Proof. exact (final_nonascii_rejected s c). Qed.
Print Assumptions C19_non_ascii_rejected.

(* 8. the table of the working tree satisfies the invariants the above rests on (key = ASCII lower-casing of the id; keys and ids ASCII;
      ids non-empty, free of whitespace and parentheses; no id is a prefix of "WITH"; no exception key is an operator word, a
      parenthesis or LicenseRef-like); keys pairwise distinct, so first-match lookup is dict lookup *)
Theorem C19_table_invariants : table_ok licenses exceptions = true /\ NoDup (map fst licenses) /\ NoDup (map fst exceptions).
Proof. exact (conj spdx_table_ok spdx_keys_nodup). Qed.
Print Assumptions C19_table_invariants.

(* the one deviation of the code from the property, as a fact about the faithful model *)
(* 201 nested parentheses around MIT: an SPDX expression, rejected *)
Example C19_deep_nesting_refuted :
  let s := repeat 40 201 ++ [77;73;84] ++ repeat 41 201 in
  canonicalize_license_expression s = Err /\ spdx_tokens_ok licenses exceptions (spdx_tokens s) = true.
Proof. split; vm_compute; reflexivity. Qed.

(* "K"+"azlib" with U+212A KELVIN SIGN - accepted as Kazlib before fix 9992710 - is rejected, in licence and in exception position *)
Example C19_kelvin_rejected :
  canonicalize_license_expression [8490;97;122;108;105;98] = Err /\
  canonicalize_license_expression [77;73;84;32;87;73;84;72;32;8490;97;122;108;105;98] = Err /\
  canonicalize_license_expression [75;97;122;108;105;98] = Ok [75;97;122;108;105;98].
Proof. repeat split; vm_compute; reflexivity. Qed.

(* non-vacuity: " mit\x0bOR( apache-2.0+ with\nLLVM-EXCEPTION and licenseref-My.Ref) " is accepted with the canonical text
   "MIT OR (Apache-2.0+ WITH LLVM-exception AND LicenseRef-My.Ref)", which is a fixed point *)
Example C19_nonvacuous :
  let s := [32;109;105;116;11;79;82;40;32;97;112;97;99;104;101;45;50;46;48;43;32;119;105;116;104;10;76;76;86;77;45;69;88;67;69;80;84;73;79;78;32;
            97;110;100;32;108;105;99;101;110;115;101;114;101;102;45;77;121;46;82;101;102;41;32] in
  let o := [77;73;84;32;79;82;32;40;65;112;97;99;104;101;45;50;46;48;43;32;87;73;84;72;32;76;76;86;77;45;101;120;99;101;112;116;105;111;110;32;
            65;78;68;32;76;105;99;101;110;115;101;82;101;102;45;77;121;46;82;101;102;41] in
  canonicalize_license_expression s = Ok o /\ spec_canon licenses exceptions s = Some o /\ canonicalize_license_expression o = Ok o.
Proof. repeat split; vm_compute; reflexivity. Qed.
