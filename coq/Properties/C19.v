(* C19  License expressions are validated and canonicalised per SPDX (canonicalize_license_expression).

   Model   LicModel.canon / LicTop.canonicalize_license_expression: the function of src/packaging/licenses/__init__.py statement by
           statement (paddings, str.split on the 29 whitespace code points, str.lower, skeleton with the two parenthesis guards,
           eval of the skeleton as the automaton pyrun + CPython's nesting limits, final pass with table lookups, the LicenseRef
           regex on the token as written, " ".join and the two final replaces), over the tables of coq/Gen/SpdxTable.v.
   Spec    LicSpec: tokens, ASCII case folding, the SPDX automaton (LicAuto.spdx_ok) = the grammar LicGrammar.expr, canonical tokens,
           tight printing.  The specification never looks at the lower-case keys, only at the official ids.
   Result  Ok o | Err (InvalidLicenseExpression) | Limit o (nesting depth 101..200: Ok o or Err, CPython parser dependent) | Crash.
   Domain  kfree s: no U+212A KELVIN SIGN in the input (str.lower() maps it to "k", see C19_kelvin_refuted).  Every other
           non-ASCII, non-whitespace character makes the model reject (C19_accepted_is_ascii).
   Table   LicTable.spdx_table_ok is re-proved by vm_compute over the table of the working tree on every run. *)
From Coq Require Import List NArith Bool.
Import ListNotations.
Require Import VParse LicModel LicAuto LicSpec LicLex LicCode LicIdem LicGrammar LicTable LicTop SpdxTable.
Open Scope N_scope.

Notation canonicalize := canonicalize_license_expression.
Notation spec := (spec_canon licenses exceptions).
Notation deeper_than n s := (nests_deeper_than n (spdx_tokens s) = true).

(* 1. the function computes the specification: it accepts exactly the SPDX expressions over the tables, in any ASCII case and whitespace
      layout, and returns the canonical text; the only deviation is the interpreter's nesting limit (depth > 200 always rejected,
      101..200 interpreter dependent) *)
Theorem C19_computes_the_specification s : kfree s ->
  canonicalize s = match spec s with
                   | None => Err
                   | Some o => if nests_deeper_than 200 (spdx_tokens s) then Err
                               else if nests_deeper_than 100 (spdx_tokens s) then Limit o else Ok o
                   end.
Proof. exact (canon_spec licenses exceptions spdx_table_ok s). Qed.
Print Assumptions C19_computes_the_specification.

(* 2. accepted exactly when the token sequence is an SPDX expression (up to the nesting limit) *)
Theorem C19_accepts_iff_spdx s : kfree s -> ~ deeper_than 100 s ->
  ((exists o, canonicalize s = Ok o) <-> spdx_tokens_ok licenses exceptions (spdx_tokens s) = true).
Proof.
  intros F D. rewrite (C19_computes_the_specification s F). unfold spec_canon.
  assert (D2 : nests_deeper_than 200 (spdx_tokens s) = false).
  { destruct (nests_deeper_than 200 (spdx_tokens s)) eqn:E; [|reflexivity]. exfalso. apply D.
    unfold nests_deeper_than in *. apply (nest_exceeds_mono 100 200); [|exact E]. repeat constructor. }
  destruct (spdx_tokens_ok licenses exceptions (spdx_tokens s)) eqn:E.
  - destruct (spdx_ok_canon_tokens _ _ _ E) as (out & ->). rewrite D2.
    destruct (nests_deeper_than 100 (spdx_tokens s)); [now destruct D|]. split; eauto.
  - split; [intros (o & H); discriminate|discriminate].
Qed.
Print Assumptions C19_accepts_iff_spdx.

(* the spec's recogniser is the SPDX grammar: LicGrammar.expr generates exactly the accepted token sequences *)
Theorem C19_spdx_automaton_is_the_grammar ts :
  spdx_tokens_ok licenses exceptions ts = true <-> exists e, expr_ok licenses exceptions e /\ map classify ts = expr_tokens e.
Proof. exact (automaton_iff_grammar licenses exceptions ts). Qed.
Print Assumptions C19_spdx_automaton_is_the_grammar.

(* 3. canonical form: one result token per input token - operators in upper case, official ids, "LicenseRef-" + the suffix as written,
      "+" kept (LicSpec.canon_tokens) - each the same word as its input token (same structure), ASCII, printed with single spaces
      and tight parentheses; and the text tokenises back to exactly these tokens *)
Theorem C19_canonical_form s o : kfree s -> (canonicalize s = Ok o \/ canonicalize s = Limit o) ->
  exists out, canon_tokens licenses exceptions false (spdx_tokens s) = Some out /\ o = tight out /\
              Forall2 teq (spdx_tokens s) out /\ spdx_tokens o = out /\ forallb asciib o = true.
Proof.
  intros F H. rewrite (C19_computes_the_specification s F) in H. unfold spec_canon in H.
  destruct (spdx_tokens_ok licenses exceptions (spdx_tokens s)) eqn:E; [|destruct H; discriminate].
  destruct (canon_tokens licenses exceptions false (spdx_tokens s)) as [out|] eqn:C; [|destruct H; discriminate].
  assert (o = tight out).
  { destruct (nests_deeper_than 200 (spdx_tokens s)); [destruct H; discriminate|].
    destruct (nests_deeper_than 100 (spdx_tokens s)); destruct H as [H|H]; congruence. }
  subst o. exists out. destruct (canon_tokens_shape _ _ spdx_table_ok _ _ _ C) as [A B].
  repeat split; auto.
  - now apply (canon_tokens_same_words _ _ spdx_table_ok _ false).
  - unfold spdx_tokens. now apply retokenise.
  - now apply tight_ascii.
Qed.
Print Assumptions C19_canonical_form.

(* 4. idempotent *)
Theorem C19_idempotent s o : kfree s -> canonicalize s = Ok o -> canonicalize o = Ok o.
Proof. intros F H. rewrite <- H. apply (canon_idempotent _ _ spdx_table_ok s o F). now left. Qed.
Print Assumptions C19_idempotent.

(* 5. insensitive to ASCII case (outside LicenseRef suffixes) and to whitespace layout: same words, same result *)
Theorem C19_case_and_layout_insensitive s s' : kfree s -> kfree s' -> Forall2 teq (spdx_tokens s) (spdx_tokens s') ->
  canonicalize s = canonicalize s'.
Proof. exact (canon_insensitive _ _ spdx_table_ok s s'). Qed.
Print Assumptions C19_case_and_layout_insensitive.
(* whitespace layout alone, for every input: the result depends on the token sequence only *)
Theorem C19_layout_insensitive s s' : spdx_tokens s = spdx_tokens s' -> canonicalize s = canonicalize s'.
Proof. intros H. unfold canonicalize_license_expression. rewrite !canon_split. unfold spdx_tokens in H. now rewrite H. Qed.
Print Assumptions C19_layout_insensitive.

(* 6. everything else is rejected with the documented exception: no other exception, for any input whatsoever *)
Theorem C19_only_the_documented_exception s : canonicalize s <> Crash.
Proof. exact (canon_no_crash licenses exceptions s). Qed.
Print Assumptions C19_only_the_documented_exception.
Theorem C19_rejects_what_is_not_spdx s : kfree s -> spec s = None -> canonicalize s = Err.
Proof. intros F H. rewrite (C19_computes_the_specification s F). now rewrite H. Qed.
Print Assumptions C19_rejects_what_is_not_spdx.
Theorem C19_empty_rejected : canonicalize [] = Err.
Proof. reflexivity. Qed.
Print Assumptions C19_empty_rejected.

(* 7. an accepted input consists of ASCII characters and whitespace (so the model's treatment of other non-ASCII text is immaterial) *)
Theorem C19_accepted_is_ascii s o : kfree s -> (canonicalize s = Ok o \/ canonicalize s = Limit o) ->
  forall c, In c s -> asciib c = true \/ is_ws c = true.
Proof.
  intros F H. destruct (C19_canonical_form s o F H) as (out & C & _ & Q & _ & _).
  destruct (canon_tokens_shape _ _ spdx_table_ok _ _ _ C) as [_ B]. now apply (accepted_ascii s out).
Qed.
Print Assumptions C19_accepted_is_ascii.

(* the deviations of the code from the property, as theorems about the faithful model *)
(* "K"+"azlib" (U+212A KELVIN SIGN) is accepted as Kazlib although it is no ASCII-case spelling of any id *)
Example C19_kelvin_refuted :
  canonicalize [8490;97;122;108;105;98] = Ok [75;97;122;108;105;98] /\ spec [8490;97;122;108;105;98] = None.
Proof. split; vm_compute; reflexivity. Qed.
(* 201 nested parentheses around MIT: an SPDX expression, rejected *)
Example C19_deep_nesting_refuted :
  let s := repeat 40 201 ++ [77;73;84] ++ repeat 41 201 in
  canonicalize s = Err /\ spdx_tokens_ok licenses exceptions (spdx_tokens s) = true.
Proof. split; vm_compute; reflexivity. Qed.

(* non-vacuity: " mit\x0bOR( apache-2.0+ with\nLLVM-EXCEPTION and licenseref-My.Ref) " is accepted with the canonical text
   "MIT OR (Apache-2.0+ WITH LLVM-exception AND LicenseRef-My.Ref)", which is a fixed point *)
Example C19_nonvacuous :
  let s := [32;109;105;116;11;79;82;40;32;97;112;97;99;104;101;45;50;46;48;43;32;119;105;116;104;10;76;76;86;77;45;69;88;67;69;80;84;73;79;78;32;
            97;110;100;32;108;105;99;101;110;115;101;114;101;102;45;77;121;46;82;101;102;41;32] in
  let o := [77;73;84;32;79;82;32;40;65;112;97;99;104;101;45;50;46;48;43;32;87;73;84;72;32;76;76;86;77;45;101;120;99;101;112;116;105;111;110;32;
            65;78;68;32;76;105;99;101;110;115;101;82;101;102;45;77;121;46;82;101;102;41] in
  kfree s /\ canonicalize s = Ok o /\ spec s = Some o /\ canonicalize o = Ok o.
Proof. repeat split; try (vm_compute; reflexivity). intros K. cbn in K. repeat (destruct K as [K|K]; [discriminate|]). exact K. Qed.
