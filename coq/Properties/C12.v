(* C12  Accepted version and specifier languages are exactly PEP 440's.
   Model: VParse.parse_spelling (Version._regex as a deterministic scanner, ASCII-only inside the (?a:...) group), SpecParse.parse_specifier
   (Specifier._regex: operator alternation order, the four version alternatives with their look-behinds, Unicode \s, arbitrary text for ===).
   Language: a string belongs to the PEP 440 version language iff it is the rendering of a well-formed spelling (parse tree). *)
From Coq Require Import List Arith NArith Bool Lia.
Import ListNotations.
Require Import VParse VComplete VTop VTop2 VDec Py VMeaning SpecModel SpecParse SpecSound SpecContains SpecSem SpecLink VWf VKeyEq VAscii VGnfExists SpecComplete VCaseFold VGnfParsed VSpecAscii.
Open Scope N_scope.

Definition In_version_language (s : str) : Prop := exists sp, wf_spelling sp /\ render sp = s.
Definition In_specifier_language (s : str) : Prop :=
  exists sp, render_spec sp = s /\ forallb is_ws (s_wl sp) = true /\ forallb is_ws (s_ws sp) = true /\ forallb is_ws (s_wr sp) = true /\
             wf_body (s_op sp) (s_body sp).

(* 1. Version accepts only strings of the language (everything else is InvalidVersion) *)
Theorem C12_version_sound s v : Version s = Some v -> In_version_language s.
Proof.
  unfold Version. destruct (parse_spelling s) as [sp|] eqn:E; [|discriminate]. intros _.
  exists sp. destruct (parse_spelling_sound _ _ E). auto.
Qed.
Print Assumptions C12_version_sound.

(* 2. Version accepts every spelling in greedy normal form (the parse tree the regex itself would pick) *)
Theorem C12_version_complete_gnf sp : gnf sp = true -> Version (render sp) = Some (meaning sp).
Proof. intros G. unfold Version. now rewrite (parse_spelling_complete sp G). Qed.
Print Assumptions C12_version_complete_gnf.
(* 2b. ... and hence EVERY string of the language, whichever of its parse trees it is rendered from (render is not injective: "1.0a-1" is both
   "pre a + implicit post 1" and "pre a-1"; the greedy scanner picks one tree and never fails where another derivation exists) *)
Theorem C12_version_accepts_exactly_the_language s : In_version_language s <-> exists v, Version s = Some v.
Proof.
  split.
  - intros (sp & W & <-). destruct (version_language_complete sp W) as [sp' E]. unfold Version. rewrite E. eexists; reflexivity.
  - intros [v E]. exact (C12_version_sound s v E).
Qed.
Print Assumptions C12_version_accepts_exactly_the_language.

(* 3. only ASCII letters and digits: an accepted string consists of ASCII characters between its surrounding whitespace *)
Theorem C12_version_ascii_only s v : Version s = Some v ->
  exists wl core wr, s = wl ++ core ++ wr /\ forallb is_ws wl = true /\ forallb is_ws wr = true /\ forallb is_ascii core = true.
Proof. exact (version_core_ascii s v). Qed.
Print Assumptions C12_version_ascii_only.

(* 4. Specifier accepts only (operator, version form) combinations of the table in the statement *)
Theorem C12_specifier_sound s sp : Specifier s = Some sp -> In_specifier_language s.
Proof.
  unfold Specifier. destruct (parse_specifier s) as [t|] eqn:E; [|discriminate]. intros _.
  exists t. destruct (C12_spec_sound s t E) as (A & B & C & D & F). auto.
Qed.
Print Assumptions C12_specifier_sound.

(* 5. the operator / version-form table in semantic terms: the stored text of an accepted specifier is a version Version() accepts -
      with a local label or a trailing .* only for == and !=, at least two release components and no local label for ~=,
      no local label for <, <=, >, >=, arbitrary text for === *)
Theorem C12_specifier_form_table s sp : Specifier s = Some sp -> exists f, interp sp = Some f /\ form_ok (sp_op sp) f.
Proof. exact (Specifier_interp s sp). Qed.
Print Assumptions C12_specifier_form_table.
(* 6. Specifier accepts exactly the language: one operator followed by a form that operator permits, with optional whitespace *)
Theorem C12_specifier_accepts_exactly_the_language s : In_specifier_language s <-> exists sp, Specifier s = Some sp.
Proof.
  split.
  - intros (t & <- & W1 & W2 & W3 & WB). destruct (specifier_language_complete t W1 W2 W3 WB) as [t' E].
    unfold Specifier. rewrite E. eexists; reflexivity.
  - intros [sp E]. exact (C12_specifier_sound s sp E).
Qed.
Print Assumptions C12_specifier_accepts_exactly_the_language.

(* 7. case-insensitive: changing the case of ASCII letters (any character map f with lc (f c) = lc c; it necessarily fixes every other character)
      never changes acceptance - proved on the scanner: scanning map f s yields the tree of s with f applied to every piece of text *)
Theorem C12_version_case_closure (f : char -> char) s : (forall c, lc (f c) = lc c) ->
  ((exists v, Version s = Some v) <-> (exists v, Version (map f s) = Some v)).
Proof. intros Hf. exact (Version_accepts_map f Hf s). Qed.
Print Assumptions C12_version_case_closure.
Theorem C12_version_case_insensitive s t : Forall2 (fun c d => lc c = lc d) s t ->
  ((exists v, Version s = Some v) <-> (exists v, Version t = Some v)).
Proof. exact (Version_case_insensitive s t). Qed.
Print Assumptions C12_version_case_insensitive.
Theorem C12_scanner_commutes_with_case (f : char -> char) s : (forall c, lc (f c) = lc c) ->
  parse_spelling (map f s) = option_map (map_sp f) (parse_spelling s).
Proof. intros Hf. exact (parse_spelling_map f Hf s). Qed.
Print Assumptions C12_scanner_commutes_with_case.

(* (Theorems 1-2b are about the scanner model, which has no digit limit - finding D10: the real Version() rejects a component of more than 4300 digits.) *)
(* 8. ASCII only: one character that is neither whitespace nor ASCII (e.g. U+017F, U+0131, U+0130, U+212A, an Arabic-Indic or full-width digit)
      anywhere in the string makes Version reject it *)
Theorem C12_version_non_ascii_rejected s c : In c s -> is_ws c = false -> is_ascii c = false -> Version s = None.
Proof. exact (non_ascii_rejected s c). Qed.
Print Assumptions C12_version_non_ascii_rejected.

(* 8b. ... and the same for Specifier, except after === (model of the isascii() check in Specifier.__init__): apart from its whitespace an accepted
       specifier with any other operator consists of ASCII characters; a non-ASCII, non-blank character is accepted only in === text *)
Theorem C12_specifier_non_ws_is_ascii s sp c : Specifier s = Some sp -> sp_op sp <> OArb -> In c s -> is_ws c = false -> is_ascii c = true.
Proof. exact (specifier_non_ws_is_ascii s sp c). Qed.
Print Assumptions C12_specifier_non_ws_is_ascii.
Theorem C12_specifier_non_ascii_only_arbitrary s sp c : Specifier s = Some sp -> In c s -> is_ws c = false -> is_ascii c = false -> sp_op sp = OArb.
Proof. exact (specifier_non_ascii_only_arbitrary s sp c). Qed.
Print Assumptions C12_specifier_non_ascii_only_arbitrary.

(* 9. the tree the scanner picks among the derivations of an accepted string is the greedy-normal-form one, and it is unique *)
Theorem C12_version_unique_derivation s sp : parse_spelling s = Some sp ->
  gnf sp = true /\ render sp = s /\ forall sp', gnf sp' = true -> render sp' = s -> sp' = sp.
Proof. exact (gnf_reading_unique s sp). Qed.
Print Assumptions C12_version_unique_derivation.

(* non-vacuity: " V1!2.0-PREVIEW_3.r.dev+Ab-01\n" is in the language, its upper/lower-cased variants too; "1.0ſ" and "1.١" are rejected;
   "==1.0.*" and "~=1.0" are accepted specifiers, "~=1" and ">=1.0+a" are not *)
Definition c12_check : bool :=
  let s := [160;86;49;33;50;46;48;45;80;82;69;86;73;69;87;95;51;46;114;46;100;101;118;43;65;98;45;48;49;10] in
  (match Version s, Version (map lc s) with Some _, Some _ => true | _, _ => false end) &&
  (match Version [49;46;48;383], Version [49;46;1633] with None, None => true | _, _ => false end) &&
  (match Specifier [61;61;49;46;48;46;42], Specifier [126;61;49;46;48] with Some _, Some _ => true | _, _ => false end) &&
  (match Specifier [126;61;49], Specifier [62;61;49;46;48;43;97] with None, None => true | _, _ => false end) &&
  (* "==1.0ſ" (U+017F would fold to 's' under IGNORECASE... here: "==1.0.poſt1") is rejected, "===1.0ſ" is accepted *)
  (match Specifier [61;61;49;46;48;46;112;111;383;116;49], Specifier [61;61;61;49;46;48;383] with None, Some _ => true | _, _ => false end).
Example C12_nonvacuous : c12_check = true.
Proof. vm_compute. reflexivity. Qed.

(* ---------------- proved with the specifier and requirement models in the improvement round; restated here ---------------- *)
Require SpecAdmit ReqClauseP ReqModel ReqSpec.
(* 10. the operator / version-form table, complete in SEMANTIC terms: every version text Version() accepts whose version the operator
       admits (no local label for the ordering operators and ~=, two release components for ~=) is an accepted specifier after that
       operator; likewise V.* after == / != for a plain release, and any text of non-blank characters after === *)
Theorem C12_form_table_complete o t V : Version t = Some V -> SpecAdmit.admits o V ->
  exists sp, Specifier (op_txt o ++ t) = Some sp /\ sp_op sp = o.
Proof. exact (SpecAdmit.form_table_complete o t V). Qed.
Print Assumptions C12_form_table_complete.
Theorem C12_form_table_complete_wildcard o t V : (o = OEq \/ o = ONe) -> Version t = Some V -> SpecSem.plain V ->
  (forall u c, t = u ++ [c] -> is_ws c = false) ->
  exists sp, Specifier (op_txt o ++ t ++ [46; 42]) = Some sp /\ sp_op sp = o.
Proof. exact (SpecAdmit.form_table_complete_wild o t V). Qed.
Print Assumptions C12_form_table_complete_wildcard.
Theorem C12_form_table_complete_arbitrary t : forallb arb_char t = true ->
  Specifier (op_txt OArb ++ t) = Some {| sp_op := OArb; sp_text := t |}.
Proof. exact (SpecAdmit.form_table_complete_arbitrary t). Qed.
Print Assumptions C12_form_table_complete_arbitrary.
(* 11. a version clause inside a requirement is accepted exactly when Specifier accepts it: for a clause that starts with an operator
       character, carries no surrounding blanks, no comma and no semicolon, after any valid name *)
Theorem C12_clause_in_requirement name cl sp : ReqSpec.rq_valid_ident name = true -> hd_is ReqClauseP.rq_op_start cl = true ->
  ReqModel.rq_strip cl = cl -> ReqSpec.rq_no_comma cl = true -> ReqClauseP.rq_no_semi cl = true ->
  (Specifier cl = Some sp <-> exists r, ReqModel.Requirement (name ++ cl) = ReqModel.RqOk r /\ ReqModel.q_specs r = [sp]).
Proof. exact (ReqClauseP.clause_in_requirement name cl sp). Qed.
Print Assumptions C12_clause_in_requirement.
