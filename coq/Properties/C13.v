(* C13 placeholder, grown below *)
From Coq Require Import List NArith Bool.
Import ListNotations.
Require Import VParse VMeaning Names.
Open Scope N_scope.
Theorem C13_placeholder : is_normalized [97] = true.
Proof. reflexivity. Qed.
Print Assumptions C13_placeholder.
