(* C11  Every entry point fails only with its documented exception.
   What a theorem can carry: the models make every partial Python operation on the modelled paths explicit (an `Escaped` / `FCrash` / `None`
   result where the real code would let KeyError, IndexError, InvalidVersion ... escape), and the theorems say those results are unreachable.
   Runtime failures outside the models (MemoryError, RecursionError beyond the recursion budget, the int/str digit limit = known finding D10,
   anything inside the email package) are covered only by the malformed-input law stream of the check, which is testing, not proof. *)
From Coq Require Import List Arith NArith Bool Lia.
Import ListNotations.
Require Import S1 VParse VComplete VTop VTop2 VDec Py VMeaning VCmp SpecModel SpecOps Canon SpecParse SpecContains SpecSem SpecMain SpecLink VWf VKeyEq VInt CanonLaws
               WheelModel WheelLaws.
Open Scope N_scope.

(* Version(): every int() conversion in __init__ is applied to a non-empty run of ASCII digits, on which it is defined *)
Theorem C11_version_int_conversions_defined s sp : parse_spelling s = Some sp ->
  (exists n, undec (rel0 sp) = Some n) /\ (forall d, In d (rels sp) -> exists n, undec d = Some n) /\
  (match ep sp with Some e => exists n, undec e = Some n | None => True end).
Proof.
  intros H. destruct (parse_spelling_sound _ _ H) as [_ (_ & _ & _ & He & Hr & Hrs & _)]. repeat split.
  - now apply undec_defined.
  - intros d Hd. rewrite forallb_forall in Hrs. apply undec_defined, Hrs, Hd.
  - destruct (ep sp); auto. now apply undec_defined.
Qed.
Print Assumptions C11_version_int_conversions_defined.

(* Specifier.contains / `in` / filter: for a specifier the constructor accepted, no exception other than InvalidVersion (for an invalid
   candidate) can escape - in particular Version(self.version), Version(prospective.public), the prefix arithmetic never fail *)
Theorem C11_specifier_contains_never_escapes s sp override arg item : Specifier s = Some sp ->
  contains sp override arg item <> Escaped.
Proof.
  intros S. unfold contains. destruct (Version item) as [c|] eqn:E; [|discriminate].
  destruct (is_prerelease c && negb _); [discriminate|].
  destruct (compare_op_total s sp c S (Version_wf _ _ E)) as [b ->]. discriminate.
Qed.
Print Assumptions C11_specifier_contains_never_escapes.

(* ... and so is every other int() in Version.__init__: the number of a pre-/post-/dev-release segment (when one is written; an absent
   number reads as 0 without a conversion) and every all-digit segment of the local label *)
Definition int_defined (d : list N) : Prop := exists n, undec d = Some n.
Theorem C11_version_all_int_conversions_defined s sp : parse_spelling s = Some sp ->
  (forall l, (spre sp = Some l \/ sdev sp = Some l \/ spost sp = Some (PostWord l)) -> l_num l <> [] -> int_defined (l_num l)) /\
  (forall d, spost sp = Some (PostImplicit d) -> int_defined d) /\
  (forall h t g, sloc sp = Some (h, t) -> In g (h :: map snd t) -> forallb is_digit g = true -> int_defined g).
Proof.
  intros H. destruct (parse_spelling_sound _ _ H) as [_ (_ & _ & _ & _ & _ & _ & Hpre & Hpost & Hdev & Hloc)].
  assert (LV : forall words l, wf_lv words l -> l_num l <> [] -> int_defined (l_num l)).
  { intros words l (_ & D & _) NE. apply undec_defined. unfold wf_digits. rewrite D. destruct (l_num l); [congruence|reflexivity]. }
  repeat split.
  - intros l [E|[E|E]] NE.
    + rewrite E in Hpre. exact (LV _ _ Hpre NE).
    + rewrite E in Hdev. exact (LV _ _ Hdev NE).
    + rewrite E in Hpost. exact (LV _ _ Hpost NE).
  - intros d E. rewrite E in Hpost. apply undec_defined. exact Hpost.
  - intros h t g E Hin Dg. rewrite E in Hloc. unfold wf_loc in Hloc. apply andb_prop in Hloc as [Hh Ht]. cbn [fst snd] in Hh, Ht.
    assert (NE : nonempty g = true).
    { destruct Hin as [<-|Hin]; [unfold wf_alnum in Hh; now apply andb_prop in Hh as [? _]|].
      apply in_map_iff in Hin as (cs & <- & Hcs). rewrite forallb_forall in Ht. specialize (Ht cs Hcs).
      apply andb_prop in Ht as [_ Ht]. unfold wf_alnum in Ht. now apply andb_prop in Ht as [? _]. }
    apply undec_defined. unfold wf_digits. now rewrite NE, Dg.
Qed.
Print Assumptions C11_version_all_int_conversions_defined.

(* canonicalize_version re-parses what it printed (`_TrimmedRelease(str(parsed))`, a second Version() call on str(v)): that call cannot
   fail (first conjunct; Canon.canon itself skips the re-parse, which this lemma justifies).  The second conjunct - the trimmed string
   parses too - concerns no call the code makes; it says the canonical string is itself a version.
   The model has no digit limit: beyond int()'s 4300 digits the real Version() rejects (InvalidVersion since fix 71d4b23; finding D10 for C12). *)
Theorem C11_canonicalize_version_reparse_defined s v : Version s = Some v ->
  Version (vstr v) = Some v /\ Version (vstr (trim v)) = Some (trim v).
Proof. intros E. pose proof (Version_wf _ _ E) as W. split; apply CanonLaws.Version_vstr; [exact W | now apply wf_trim]. Qed.
Print Assumptions C11_canonicalize_version_reparse_defined.

(* canonicalize_version never raises: it is the identity on non-versions and str() of a parsed version otherwise *)
Theorem C11_canonicalize_version_total z s : (Version s = None /\ canon z s = s) \/ (exists v, Version s = Some v).
Proof. destruct (Version s) as [v|] eqn:E; [right; eauto | left; split; auto; unfold canon; now rewrite E]. Qed.
Print Assumptions C11_canonicalize_version_total.

(* parse_wheel_filename / parse_sdist_filename: a value or the documented error; the subscript/unpacking failure points are unreachable *)
Theorem C11_filenames_only_documented_errors fn :
  (parse_wheel fn = FErr \/ exists r, parse_wheel fn = FOk r) /\ (parse_sdist fn = FErr \/ exists r, parse_sdist fn = FOk r).
Proof. split; [apply parse_wheel_total|apply parse_sdist_total]. Qed.
Print Assumptions C11_filenames_only_documented_errors.

(* ---------------- the other entry points (theorems proved with their models; restated here) ---------------- *)
Require C07 C17 C19.
(* canonicalize_license_expression: a value or InvalidLicenseExpression; the KeyError / eval failure points are unreachable *)
Theorem C11_license_only_documented_exception s : LicTop.canonicalize_license_expression s <> LicModel.Crash.
Proof. exact (C19.C19_only_the_documented_exception s). Qed.
Print Assumptions C11_license_only_documented_exception.
(* Marker.evaluate: every variable the grammar accepts is defined in the effective environment: no KeyError *)
Theorem C11_marker_evaluate_no_keyerror s m defaults ov env : MkModel.Marker s = MkModel.MOk m -> MkTreeP.detects_all defaults -> MkTreeP.typed ov ->
  MkEval.effective_env defaults ov = Some env -> forall x, In x (MkModel.sides_l m) -> MkEval.side_value env x <> None.
Proof. exact (C07.C07_no_keyerror s m defaults ov env). Qed.
Print Assumptions C11_marker_evaluate_no_keyerror.
(* Metadata.from_raw on typed data: success or one group of InvalidMetadata - nothing else *)
Theorem C11_metadata_from_raw_group_or_success O data ord : MetaFacts.well_typed data ->
  (exists s, MetaModel.from_raw_ord ord O true data = MetaModel.FOk s) \/ (exists es, es <> [] /\ MetaModel.from_raw_ord ord O true data = MetaModel.FGroup es).
Proof. exact (C17.C17_accept_or_group O data ord). Qed.
Print Assumptions C11_metadata_from_raw_group_or_success.

(* ---------------- proved with the marker and metadata models in the improvement round; restated here.
   ELFFile: the model's result type has exactly the outcomes None / a path / ELFInvalid (C16_elf_regular_file, third conjunct, is exhaustion
   of that type, not a proof about the code); that no OTHER exception leaves ELFFile(...).interpreter on BytesIO or on a real file is
   tested only: streams elf, elf-file, arbitrary-bytes of this check and the model-compared p.elf / p.elff streams of C16. ---------------- *)
Require MkTotalP C16.
(* Marker.evaluate: for an accepted marker under a complete, typed environment the result is a bool or UndefinedComparison /
   UndefinedEnvironmentName - none of the four crash points of the evaluator (missing variable, an operator method escaping,
   a malformed boolean list, an undefined environment) is reachable *)
Theorem C11_marker_evaluate_never_crashes s m defaults ov : MkModel.Marker s = MkModel.MOk m -> MkTreeP.detects_all defaults -> MkTreeP.typed ov ->
  MkEval.evaluate m defaults ov <> MkEval.ECrash.
Proof. exact (MkTotalP.evaluate_never_crashes s m defaults ov). Qed.
Print Assumptions C11_marker_evaluate_never_crashes.
(* Metadata.from_raw with component parsers that may raise ANYTHING (three-valued oracles): either no reached component raises something
   undocumented and the outcome is success or one group of InvalidMetadata, or one does and exactly that exception escapes - the assumption
   "the components raise only their documented exception" is now a hypothesis one can read (escapes3), not a property of the oracle type *)
Theorem C11_metadata_outcome O data ord : MetaFacts.well_typed data -> (forall l, Permutation.Permutation (ord l) l) ->
  (MetaFacts3.escapes3 O data = false /\ ((exists s, MetaModel3.from_raw3_ord ord O true data = MetaModel.FOk s) \/
                                          (exists es, es <> [] /\ MetaModel3.from_raw3_ord ord O true data = MetaModel.FGroup es))) \/
  (MetaFacts3.escapes3 O data = true /\ exists c k, MetaModel3.from_raw3_ord ord O true data = MetaModel.FCrash c /\ MetaFacts3.reached O data k /\
                                         MetaModel.is_field k = true /\ MetaFacts3.raised_in O k (MetaBase.lookup k data) c).
Proof. exact (C17.C17_outcome3 O data ord). Qed.
Print Assumptions C11_metadata_outcome.
