(* C11  Every entry point fails only with its documented exception.
   What a theorem can carry: the models make every partial Python operation on the modelled paths explicit (an `Escaped` / `FCrash` / `None`
   result where the real code would let KeyError, IndexError, InvalidVersion ... escape), and the theorems say those results are unreachable.
   Runtime failures outside the models (MemoryError, RecursionError beyond the recursion budget, the int/str digit limit = known finding D10,
   anything inside the email package) are covered only by the malformed-input law stream of the check, which is testing, not proof. *)
From Coq Require Import List Arith NArith Bool Lia.
Import ListNotations.
Require Import S1 VParse VComplete VTop VTop2 VDec Py VMeaning VCmp SpecModel SpecOps Canon SpecParse SpecContains SpecSem SpecMain SpecLink VWf VKeyEq VInt
               WheelModel WheelLaws.
Open Scope N_scope.

(* Version(): every int() conversion in __init__ is applied to a non-empty run of ASCII digits, on which it is defined *)
Theorem C11_version_int_conversions_defined s sp : parse_spelling s = Some sp ->
  (exists n, undec (rel0 sp) = Some n) /\ (forall d, In d (rels sp) -> exists n, undec d = Some n) /\
  (match ep sp with Some e => exists n, undec e = Some n | None => True end).
Proof.
  intros H. destruct (parse_spelling_sound _ _ H) as [_ (_ & _ & _ & He & Hr & Hrs & _)]. repeat split.
  - now apply undec_defined.
  - intros d Hd. rewrite forallb_forall in Hrs. apply undec_defined, Hrs, Hd.
  - destruct (ep sp); auto. now apply undec_defined.
Qed.
Print Assumptions C11_version_int_conversions_defined.

(* Specifier.contains / `in` / filter: for a specifier the constructor accepted, no exception other than InvalidVersion (for an invalid
   candidate) can escape - in particular Version(self.version), Version(prospective.public), the prefix arithmetic never fail *)
Theorem C11_specifier_contains_never_escapes s sp override arg item : Specifier s = Some sp ->
  contains sp override arg item <> Escaped.
Proof.
  intros S. unfold contains. destruct (Version item) as [c|] eqn:E; [|discriminate].
  destruct (is_prerelease c && negb _); [discriminate|].
  destruct (compare_op_total s sp c S (Version_wf _ _ E)) as [b ->]. discriminate.
Qed.
Print Assumptions C11_specifier_contains_never_escapes.

(* canonicalize_version never raises: it is the identity on non-versions and str() of a parsed version otherwise *)
Theorem C11_canonicalize_version_total z s : (Version s = None /\ canon z s = s) \/ (exists v, Version s = Some v).
Proof. destruct (Version s) as [v|] eqn:E; [right; eauto | left; split; auto; unfold canon; now rewrite E]. Qed.
Print Assumptions C11_canonicalize_version_total.

(* parse_wheel_filename / parse_sdist_filename: a value or the documented error; the subscript/unpacking failure points are unreachable *)
Theorem C11_filenames_only_documented_errors fn :
  (parse_wheel fn = FErr \/ exists r, parse_wheel fn = FOk r) /\ (parse_sdist fn = FErr \/ exists r, parse_sdist fn = FOk r).
Proof. split; [apply parse_wheel_total|apply parse_sdist_total]. Qed.
Print Assumptions C11_filenames_only_documented_errors.

(* ---------------- the other entry points (theorems proved with their models; restated here) ---------------- *)
Require C07 C17 C19.
(* canonicalize_license_expression: a value or InvalidLicenseExpression; the KeyError / eval failure points are unreachable *)
Theorem C11_license_only_documented_exception s : LicTop.canonicalize_license_expression s <> LicModel.Crash.
Proof. exact (C19.C19_only_the_documented_exception s). Qed.
Print Assumptions C11_license_only_documented_exception.
(* Marker.evaluate: every variable the grammar accepts is defined in the effective environment: no KeyError *)
Theorem C11_marker_evaluate_no_keyerror s m defaults ov env : MkModel.Marker s = MkModel.MOk m -> MkTreeP.detects_all defaults -> MkTreeP.typed ov ->
  MkEval.effective_env defaults ov = Some env -> forall x, In x (MkModel.sides_l m) -> MkEval.side_value env x <> None.
Proof. exact (C07.C07_no_keyerror s m defaults ov env). Qed.
Print Assumptions C11_marker_evaluate_no_keyerror.
(* Metadata.from_raw on typed data: success or one group of InvalidMetadata - nothing else *)
Theorem C11_metadata_from_raw_group_or_success O data ord : MetaFacts.well_typed data ->
  (exists s, MetaModel.from_raw_ord ord O true data = MetaModel.FOk s) \/ (exists es, es <> [] /\ MetaModel.from_raw_ord ord O true data = MetaModel.FGroup es).
Proof. exact (C17.C17_accept_or_group O data ord). Qed.
Print Assumptions C11_metadata_from_raw_group_or_success.
