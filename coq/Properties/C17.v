(* C17  Metadata validation accepts exactly field-valid, version-consistent metadata. *)
From Coq Require Import List Arith NArith Bool Lia.
Import ListNotations.
Require Import Show MetaTable MetaSpecTable MetaModel.
Open Scope N_scope.

(* the table extracted from the working tree on this run is the core-metadata specification table *)
Theorem C17_table_is_spec : gen_valid_versions = spec_valid_versions /\ gen_fields = spec_fields.
Proof. split; vm_compute; reflexivity. Qed.
Print Assumptions C17_table_is_spec.
