(* C17  Metadata validation accepts exactly field-valid, version-consistent metadata.

   Model (Meta/MetaModel.v): the _Validator descriptor [read] (per-instance cache, removal from _raw, nothing cached on error), the
   _process_* validators [process]/[compute], Metadata.from_raw [from_raw_ord] (stateful loop over frozenset(_raw) | required, in an
   arbitrary iteration order [ord]), Metadata.from_email after parse_email [from_email].  Field table: Gen/MetaTable.v (regenerated).
   Oracles [O : oracles]: SpecifierSet, Requirement, canonicalize_license_expression, EmailMessage header parsing, pathlib.
   Domain: [well_typed data] - values typed as the RawMetadata TypedDict declares (str / list of str / dict).
   This file holds statements only; proofs are in Meta/MetaFacts.v. *)
From Coq Require Import String List Arith NArith Bool Lia Permutation.
Import ListNotations.
Require Import Show Names SpecModel VMeaning MetaTable MetaSpecTable MetaBase MetaModel MetaFacts.
Open Scope N_scope.

(* 0. the table extracted from the working tree on this run is the core-metadata specification table
      (valid metadata versions; per field: header name, "added in" version, kind) *)
Theorem C17_table_is_spec : gen_valid_versions = spec_valid_versions /\ gen_fields = spec_fields.
Proof. split; vm_compute; reflexivity. Qed.
Print Assumptions C17_table_is_spec.

(* 1. from_raw(validate=True) succeeds exactly when: Metadata-Version is a known version, Name and Version are present and valid,
      every present key is a known field, not newer than the declared version, and individually valid - whatever the iteration order *)
Theorem C17_accept_iff O data ord : well_typed data -> (forall l, Permutation (ord l) l) ->
  ((exists s, from_raw_ord ord O true data = FOk s) <->
     version_known data /\ value_ok O data k_name /\ value_ok O data k_version /\
     forall k, In k (map fst data) -> is_field k = true /\ ~ newer O data k /\ value_ok O data k).
Proof. exact (accept_iff_final O data ord). Qed.
Print Assumptions C17_accept_iff.

(* 2. otherwise it raises ONE group (never anything else), whose members name exactly the offending fields:
      metadata-version when unknown/absent; an unknown key by its own text; a known field by its header name when it is newer than the
      declared version or (not newer and) invalid.  [errors] is that list in dict order; any iteration order gives a permutation. *)
Theorem C17_reject_group O data ord : well_typed data -> (forall l, Permutation (ord l) l) -> errors O data <> [] ->
  exists es, from_raw_ord ord O true data = FGroup es /\ Permutation es (errors O data).
Proof. intros W. apply reject_group. now apply well_typed_safe. Qed.
Print Assumptions C17_reject_group.
Theorem C17_errors_exact O data f : well_typed data ->
  (In f (errors O data) <->
     (f = email_name k_mv /\ ~ version_known data) \/
     exists k, k <> k_mv /\ (In k (map fst data) \/ k = k_name \/ k = k_version) /\
       ((is_field k = false /\ f = k) \/
        (is_field k = true /\ newer O data k /\ f = email_name k) \/
        (is_field k = true /\ ~ newer O data k /\ ~ value_ok O data k /\ f = email_name k))).
Proof. intros W. apply errors_exact. now apply well_typed_safe. Qed.
Print Assumptions C17_errors_exact.
Theorem C17_accept_or_group O data ord : well_typed data ->
  (exists s, from_raw_ord ord O true data = FOk s) \/ (exists es, es <> [] /\ from_raw_ord ord O true data = FGroup es).
Proof.
  intros W. pose proof (from_raw_ord_spec O data ord (well_typed_safe O data W)) as H.
  destruct (errors_ord O data ord) as [|f l]; [left; destruct H as [s [H _]]; eauto | right; exists (f :: l); split; [discriminate | exact H]].
Qed.
Print Assumptions C17_accept_or_group.

(* 3. individual validity and the enriched value of each validated field ("equal what the component parsers return") *)
Theorem C17_required_fields O v e :
  (compute O k_mv v = Ok e <-> exists s, v = Some (VStr s) /\ In s gen_valid_versions /\ e = EStr s) /\
  (compute O k_name v = Ok e <-> exists s, v = Some (VStr s) /\ s <> [] /\ valid_name s = true /\ e = EStr s) /\
  (compute O k_version v = Ok e <-> exists s x, v = Some (VStr s) /\ s <> [] /\ Version s = Some x /\ e = EStr (vstr x)).
Proof. split; [apply ok_metadata_version | split; [apply ok_name | apply ok_version]]. Qed.
Print Assumptions C17_required_fields.
Theorem C17_component_fields O s l e :
  (compute O k_requires_python (Some (VStr s)) = Ok e <-> exists t, o_specset O s = Some t /\ e = EStr t) /\
  (compute O k_requires_dist (Some (VList l)) = Ok e <-> exists ts, map (o_req O) l = map Some ts /\ e = EList ts) /\
  (compute O k_license_expression (Some (VStr s)) = Ok e <-> exists t, o_lic O s = Some t /\ e = EStr t).
Proof. split; [apply ok_requires_python | split; [apply ok_requires_dist | apply ok_license_expression]]. Qed.
Print Assumptions C17_component_fields.
Theorem C17_local_fields O s l e :
  (compute O k_summary (Some (VStr s)) = Ok e <-> ~ In 10 s /\ e = EStr s) /\
  (compute O k_provides_extra (Some (VList l)) = Ok e <-> (forall x, In x l -> valid_name x = true) /\ e = EList (map canon_name l)) /\
  (compute O k_dynamic (Some (VList l)) = Ok e <->
     (forall x, In x l -> is_email_name (lower_str x) = true /\ ~ In (lower_str x) [asc "name"; asc "version"; asc "metadata-version"]) /\ e = EList (map lower_str l)) /\
  (compute O k_license_files (Some (VList l)) = Ok e <->
     (forall p, In p l -> infixb [46; 46] p = false /\ ~ In 42 p /\ o_path O p = false) /\ e = EList l) /\
  (compute O k_dct (Some (VStr s)) = Ok e <->
     exists ct charset variant, o_ctype O s = Some (ct, (charset, variant)) /\
       In (lower_str ct) content_types /\ infixb (lower_str ct) (lower_str s) = true /\
       opt_default charset (asc "UTF-8") = asc "UTF-8" /\
       (lower_str ct = asc "text/markdown" -> In (opt_default variant (asc "GFM")) [asc "GFM"; asc "CommonMark"]) /\ e = EStr s).
Proof.
  split; [apply ok_summary | split; [apply ok_provides_extra | split; [apply ok_dynamic | split; [apply ok_license_files | apply ok_description_content_type]]]].
Qed.
Print Assumptions C17_local_fields.
Theorem C17_unvalidated_fields_pass_through O k v : process O k = None -> compute O k v = Ok (plain v).
Proof. apply ok_plain. Qed.
Print Assumptions C17_unvalidated_fields_pass_through.

(* 4. an absent optional field reads as None *)
Theorem C17_absent_is_none O data k : required k = false -> lookup k data = None -> reads O (init data) [k] = [Ok ENone].
Proof. apply absent_is_none. Qed.
Print Assumptions C17_absent_is_none.

(* 5. validate=False checks nothing at construction and defers the SAME per-field error to attribute access *)
Theorem C17_lazy_same_errors O data ord :
  from_raw_ord ord O false data = FOk (init data) /\
  (forall f, In f (mv_errors O data) <-> reads O (init data) [k_mv] = [Invalid f]) /\
  (forall k f, k <> k_mv -> is_field k = true -> ~ newer O data k -> (In f (key_error O data k) <-> reads O (init data) [k] = [Invalid f])).
Proof. split; [reflexivity|]. split; [apply lazy_same_error_mv | intros; now apply lazy_same_error]. Qed.
Print Assumptions C17_lazy_same_errors.

(* 6. reading attributes in any order any number of times gives the same values: every read returns the conversion of the ORIGINAL
      raw value, on a lazily built object and on a validated one (whose construction already performed reads) *)
Theorem C17_reads_history_independent O data ks : reads O (init data) ks = map (fun k => compute O k (lookup k data)) ks.
Proof. apply reads_history_independent. Qed.
Print Assumptions C17_reads_history_independent.
Theorem C17_reads_after_validation O data ord s ks : well_typed data -> from_raw_ord ord O true data = FOk s ->
  reads O s ks = map (fun k => compute O k (lookup k data)) ks.
Proof. intros W. apply accepted_reads. now apply well_typed_safe. Qed.
Print Assumptions C17_reads_after_validation.

(* 7. from_email (after parse_email returned the raw dict and the unparsed keys [us]): succeeds exactly when nothing was left unparsed
      and from_raw succeeds; otherwise ONE group naming every unparsed key followed by every field from_raw objects to;
      validate=False builds the lazy object whatever was unparsed *)
Theorem C17_from_email O data us :
  ((exists s, from_email O true data us = FOk s) <-> us = [] /\ exists s, from_raw O true data = FOk s) /\
  (forall es, from_raw O true data = FGroup es -> from_email O true data us = FGroup (us ++ es)) /\
  (forall s, from_raw O true data = FOk s -> us <> [] -> from_email O true data us = FGroup us) /\
  from_email O false data us = FOk (init data).
Proof.
  split; [apply from_email_accept_iff|]. pose proof (from_email_group O data us) as H.
  split; [intros es E; now rewrite E in H|]. split; [|reflexivity].
  intros s E N. rewrite E in H. destruct us; [congruence | exact H].
Qed.
Print Assumptions C17_from_email.

(* non-vacuity: a well-typed dict that is accepted, and one whose group names three fields *)
Definition O_ex : oracles :=
  {| o_specset := fun s => Some s; o_req := fun s => if seqb s (asc "a b") then None else Some s; o_lic := fun s => Some s;
     o_ctype := fun s => Some (s, (None, None)); o_path := fun _ => false |}.
Definition data_ok := [(asc "name", VStr (asc "A.b")); (asc "requires_dist", VList [asc "x>1"]); (asc "metadata_version", VStr (asc "2.1"));
                       (asc "version", VStr (asc " 1.0RC1 ")); (asc "summary", VStr (asc "s"))].
Definition data_bad := [(asc "dynamic", VList [asc "Summary"]); (asc "metadata_version", VStr (asc "2.1")); (asc "bogus", VStr []);
                        (asc "requires_dist", VList [asc "a b"])].
Example C17_nonvacuous :
  well_typed data_ok /\ well_typed data_bad /\
  (exists s, from_raw O_ex true data_ok = FOk s /\ reads O_ex s [k_version; k_name; asc "author"] = [Ok (EStr (asc "1.0rc1")); Ok (EStr (asc "A.b")); Ok ENone]) /\
  from_raw O_ex true data_bad = FGroup [asc "dynamic"; asc "bogus"; asc "requires-dist"; asc "name"; asc "version"].
Proof.
  split; [apply well_typed_b_ok; vm_compute; reflexivity|]. split; [apply well_typed_b_ok; vm_compute; reflexivity|].
  split; [eexists; split; vm_compute; reflexivity | vm_compute; reflexivity].
Qed.
