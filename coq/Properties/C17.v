(* C17  Metadata validation accepts exactly field-valid, version-consistent metadata.

   Model (Meta/MetaModel.v): the _Validator descriptor [read] (per-instance cache, removal from _raw, nothing cached on error), the
   _process_* validators [process]/[compute], Metadata.from_raw [from_raw_ord] (stateful loop over frozenset(_raw) | required, in an
   arbitrary iteration order [ord]), Metadata.from_email after parse_email [from_email].  Field table: Gen/MetaTable.v (regenerated).
   Oracles [O : oracles]: SpecifierSet, Requirement, canonicalize_license_expression, EmailMessage header parsing, pathlib.
   Domain: [well_typed data] - values typed as the RawMetadata TypedDict declares (str / list of str / dict).
   This file holds statements only; proofs are in Meta/MetaFacts.v. *)
From Coq Require Import String List Arith NArith Bool Lia Permutation.
Import ListNotations.
Require Import Show Names SpecModel VMeaning MetaTable MetaSpecTable MetaBase MetaShow MetaModel MetaFacts.
Require Import MetaModel3 MetaFacts3 MetaModels MetaFinal3 EmailModel MetaEmailModel MetaEmailFacts MetaHeap MetaHeapFacts.
Open Scope N_scope.

(* 0. the table extracted from the working tree on this run is the core-metadata specification table
      (valid metadata versions; per field: header name, "added in" version, kind) *)
Theorem C17_table_is_spec : gen_valid_versions = spec_valid_versions /\ gen_fields = spec_fields.
Proof. split; vm_compute; reflexivity. Qed.
Print Assumptions C17_table_is_spec.

(* 1. from_raw(validate=True) succeeds exactly when: Metadata-Version is a known version, Name and Version are present and valid,
      every present key is a known field, not newer than the declared version, and individually valid - whatever the iteration order *)
Theorem C17_accept_iff O data ord : well_typed data -> (forall l, Permutation (ord l) l) ->
  ((exists s, from_raw_ord ord O true data = FOk s) <->
     version_known data /\ value_ok O data k_name /\ value_ok O data k_version /\
     forall k, In k (map fst data) -> is_field k = true /\ ~ newer O data k /\ value_ok O data k).
Proof. exact (accept_iff_final O data ord). Qed.
Print Assumptions C17_accept_iff.

(* 2. otherwise it raises ONE group (never anything else), whose members name exactly the offending fields:
      metadata-version when unknown/absent; an unknown key by its own text; a known field by its header name when it is newer than the
      declared version or (not newer and) invalid.  [errors] is that list in dict order; any iteration order gives a permutation. *)
Theorem C17_reject_group O data ord : well_typed data -> (forall l, Permutation (ord l) l) -> errors O data <> [] ->
  exists es, from_raw_ord ord O true data = FGroup es /\ Permutation es (errors O data).
Proof. intros W. apply reject_group. now apply well_typed_safe. Qed.
Print Assumptions C17_reject_group.
Theorem C17_errors_exact O data f : well_typed data ->
  (In f (errors O data) <->
     (f = email_name k_mv /\ ~ version_known data) \/
     exists k, k <> k_mv /\ (In k (map fst data) \/ k = k_name \/ k = k_version) /\
       ((is_field k = false /\ f = k) \/
        (is_field k = true /\ newer O data k /\ f = email_name k) \/
        (is_field k = true /\ ~ newer O data k /\ ~ value_ok O data k /\ f = email_name k))).
Proof. intros W. apply errors_exact. now apply well_typed_safe. Qed.
Print Assumptions C17_errors_exact.
Theorem C17_accept_or_group O data ord : well_typed data ->
  (exists s, from_raw_ord ord O true data = FOk s) \/ (exists es, es <> [] /\ from_raw_ord ord O true data = FGroup es).
Proof.
  intros W. pose proof (from_raw_ord_spec O data ord (well_typed_safe O data W)) as H.
  destruct (errors_ord O data ord) as [|f l]; [left; destruct H as [s [H _]]; eauto | right; exists (f :: l); split; [discriminate | exact H]].
Qed.
Print Assumptions C17_accept_or_group.

(* 3. individual validity and the enriched value of each validated field ("equal what the component parsers return") *)
Theorem C17_required_fields O v e :
  (compute O k_mv v = Ok e <-> exists s, v = Some (VStr s) /\ In s gen_valid_versions /\ e = EStr s) /\
  (compute O k_name v = Ok e <-> exists s, v = Some (VStr s) /\ s <> [] /\ valid_name s = true /\ e = EStr s) /\
  (compute O k_version v = Ok e <-> exists s x, v = Some (VStr s) /\ s <> [] /\ Version s = Some x /\ e = EStr (vstr x)).
Proof. split; [apply ok_metadata_version | split; [apply ok_name | apply ok_version]]. Qed.
Print Assumptions C17_required_fields.
Theorem C17_component_fields O s l e :
  (compute O k_requires_python (Some (VStr s)) = Ok e <-> exists t, o_specset O s = Some t /\ e = EStr t) /\
  (compute O k_requires_dist (Some (VList l)) = Ok e <-> exists ts, map (o_req O) l = map Some ts /\ e = EList ts) /\
  (compute O k_license_expression (Some (VStr s)) = Ok e <-> exists t, o_lic O s = Some t /\ e = EStr t).
Proof. split; [apply ok_requires_python | split; [apply ok_requires_dist | apply ok_license_expression]]. Qed.
Print Assumptions C17_component_fields.
Theorem C17_local_fields O s l e :
  (compute O k_summary (Some (VStr s)) = Ok e <-> ~ In 10 s /\ e = EStr s) /\
  (compute O k_provides_extra (Some (VList l)) = Ok e <-> (forall x, In x l -> valid_name x = true) /\ e = EList (map canon_name l)) /\
  (compute O k_dynamic (Some (VList l)) = Ok e <->
     (forall x, In x l -> is_email_name (lower_str x) = true /\ ~ In (lower_str x) [asc "name"; asc "version"; asc "metadata-version"]) /\ e = EList (map lower_str l)) /\
  (compute O k_license_files (Some (VList l)) = Ok e <->
     (forall p, In p l -> infixb [46; 46] p = false /\ ~ In 42 p /\ o_path O p = false) /\ e = EList l) /\
  (compute O k_dct (Some (VStr s)) = Ok e <->
     exists ct charset variant, o_ctype O s = Some (ct, (charset, variant)) /\
       In (lower_str ct) content_types /\ infixb (lower_str ct) (lower_str s) = true /\
       opt_default charset (asc "UTF-8") = asc "UTF-8" /\
       (lower_str ct = asc "text/markdown" -> In (opt_default variant (asc "GFM")) [asc "GFM"; asc "CommonMark"]) /\ e = EStr s).
Proof.
  split; [apply ok_summary | split; [apply ok_provides_extra | split; [apply ok_dynamic | split; [apply ok_license_files | apply ok_description_content_type]]]].
Qed.
Print Assumptions C17_local_fields.
Theorem C17_unvalidated_fields_pass_through O k v : process O k = None -> compute O k v = Ok (plain v).
Proof. apply ok_plain. Qed.
Print Assumptions C17_unvalidated_fields_pass_through.

(* 4. an absent optional field reads as None *)
Theorem C17_absent_is_none O data k : required k = false -> lookup k data = None -> reads O (init data) [k] = [Ok ENone].
Proof. apply absent_is_none. Qed.
Print Assumptions C17_absent_is_none.

(* 5. validate=False checks nothing at construction and defers the SAME per-field error to attribute access *)
Theorem C17_lazy_same_errors O data ord :
  from_raw_ord ord O false data = FOk (init data) /\
  (forall f, In f (mv_errors O data) <-> reads O (init data) [k_mv] = [Invalid f]) /\
  (forall k f, k <> k_mv -> is_field k = true -> ~ newer O data k -> (In f (key_error O data k) <-> reads O (init data) [k] = [Invalid f])).
Proof. split; [reflexivity|]. split; [apply lazy_same_error_mv | intros; now apply lazy_same_error]. Qed.
Print Assumptions C17_lazy_same_errors.

(* 6. reading attributes in any order any number of times gives the same values: every read returns the conversion of the ORIGINAL
      raw value, on a lazily built object and on a validated one (whose construction already performed reads) *)
Theorem C17_reads_history_independent O data ks : reads O (init data) ks = map (fun k => compute O k (lookup k data)) ks.
Proof. apply reads_history_independent. Qed.
Print Assumptions C17_reads_history_independent.
Theorem C17_reads_after_validation O data ord s ks : well_typed data -> from_raw_ord ord O true data = FOk s ->
  reads O s ks = map (fun k => compute O k (lookup k data)) ks.
Proof. intros W. apply accepted_reads. now apply well_typed_safe. Qed.
Print Assumptions C17_reads_after_validation.

(* 7. from_email (after parse_email returned the raw dict and the unparsed keys [us]): succeeds exactly when nothing was left unparsed
      and from_raw succeeds; otherwise ONE group naming every unparsed key followed by every field from_raw objects to;
      validate=False builds the lazy object whatever was unparsed *)
Theorem C17_from_email O data us :
  ((exists s, from_email O true data us = FOk s) <-> us = [] /\ exists s, from_raw O true data = FOk s) /\
  (forall es, from_raw O true data = FGroup es -> from_email O true data us = FGroup (us ++ es)) /\
  (forall s, from_raw O true data = FOk s -> us <> [] -> from_email O true data us = FGroup us) /\
  from_email O false data us = FOk (init data).
Proof.
  split; [apply from_email_accept_iff|]. pose proof (from_email_group O data us) as H.
  split; [intros es E; now rewrite E in H|]. split; [|reflexivity].
  intros s E N. rewrite E in H. destruct us; [congruence | exact H].
Qed.
Print Assumptions C17_from_email.

(* non-vacuity: a well-typed dict that is accepted, and one whose group names three fields *)
Definition O_ex : oracles :=
  {| o_specset := fun s => Some s; o_req := fun s => if seqb s (asc "a b") then None else Some s; o_lic := fun s => Some s;
     o_ctype := fun s => Some (s, (None, None)); o_path := fun _ => false |}.
Definition data_ok := [(asc "name", VStr (asc "A.b")); (asc "requires_dist", VList [asc "x>1"]); (asc "metadata_version", VStr (asc "2.1"));
                       (asc "version", VStr (asc " 1.0RC1 ")); (asc "summary", VStr (asc "s"))].
Definition data_bad := [(asc "dynamic", VList [asc "Summary"]); (asc "metadata_version", VStr (asc "2.1")); (asc "bogus", VStr []);
                        (asc "requires_dist", VList [asc "a b"])].
Example C17_nonvacuous :
  well_typed data_ok /\ well_typed data_bad /\
  (exists s, from_raw O_ex true data_ok = FOk s /\ reads O_ex s [k_version; k_name; asc "author"] = [Ok (EStr (asc "1.0rc1")); Ok (EStr (asc "A.b")); Ok ENone]) /\
  from_raw O_ex true data_bad = FGroup [asc "dynamic"; asc "bogus"; asc "requires-dist"; asc "name"; asc "version"].
Proof.
  split; [apply well_typed_b_ok; vm_compute; reflexivity|]. split; [apply well_typed_b_ok; vm_compute; reflexivity|].
  split; [eexists; split; vm_compute; reflexivity | vm_compute; reflexivity].
Qed.


(* ====================================================================================================================================
   PART II - the model the correspondence check runs since the improvement round: Meta/MetaModel3.v.
   The components answer  OAcc r | ORej | ORaise e  (three-valued oracles [O : oracles3]); a converter turns ORej into InvalidMetadata and
   lets ORaise e escape (Crash e / FCrash e); reading a name that is not a field is an AttributeError; from_raw iterates
   sorted(fields_to_check) ([from_raw3 = from_raw3_ord sort_s]; the theorems hold for every order).  [two O] is the two-valued
   reading of an oracle table; the theorems of part I are about  from_raw_ord ord (two O)  and transfer through C17_bridge.
   One trusted assumption of the property statement - SpecifierSet, Requirement, canonicalize_license_expression and the e-mail header
   parser raise nothing but their documented exception - is the explicit hypothesis [documented_on O data] (on the values of this dict) /
   [documented O] (on every string).  It covers these FOUR callees only.  The other three are not oracles: Version (the C01/C12 model
   [VMeaning.Version]), canonicalize_name ([Names.valid_name]) and the pathlib tests ([o3_path], a total bool) are modelled as TOTAL - they
   accept or reject, they never raise anything else; that this holds of the code is trusted (sampled by the correspondence run).  The
   model's Version has NO DIGIT LIMIT: a version with a component of more than 4300 digits is valid in the model and rejected by the code
   (InvalidMetadata since 71d4b23) - finding D10, matcher match_c17_d10; no theorem below says anything about the code on such input. *)

(* 8. the bridge: either a component that the validation reaches raises something undocumented, and exactly that escapes from from_raw;
      or none does, and the three-valued model IS the model of part I *)
Theorem C17_bridge O data ord : (forall l, Permutation (ord l) l) ->
  if escapes3 O data then exists c k, from_raw3_ord ord O true data = FCrash c /\ reached O data k /\ attr3 O data k = Crash c
  else from_raw3_ord ord O true data = from_raw_ord ord (two O) true data.
Proof. apply from_raw3_ord_spec. Qed.
Print Assumptions C17_bridge.
Theorem C17_run_order_is_a_permutation l : Permutation (sort_s l) l.
Proof. apply sort_s_perm. Qed.
Print Assumptions C17_run_order_is_a_permutation.
Theorem C17_documented_assumption O data : (documented O -> documented_on O data) /\ (well_typed data -> documented_on O data -> escapes3 O data = false).
Proof. split; [apply documented_all | apply documented_no_escape]. Qed.
Print Assumptions C17_documented_assumption.

(* 9. clause 1 on the run model, with the trusted assumption visible *)
Theorem C17_accept_iff3 O data ord : well_typed data -> documented_on O data -> (forall l, Permutation (ord l) l) ->
  ((exists s, from_raw3_ord ord O true data = FOk s) <->
     version_known data /\ value_ok3 O data k_name /\ value_ok3 O data k_version /\
     forall k, In k (map fst data) -> is_field k = true /\ ~ newer3 O data k /\ value_ok3 O data k).
Proof. apply accept_iff3. Qed.
Print Assumptions C17_accept_iff3.
Theorem C17_reject_group3 O data ord : well_typed data -> documented_on O data -> (forall l, Permutation (ord l) l) -> errors3 O data <> [] ->
  exists es, from_raw3_ord ord O true data = FGroup es /\ Permutation es (errors3 O data).
Proof. apply reject_group3. Qed.
Print Assumptions C17_reject_group3.
(* 9b. WITHOUT the assumption on the four oracle components: success, or one non-empty group, or an escaping exception - in the MODEL the
       last happens iff one of the four ORACLE components behind a field that the validation reaches (present, known, not newer than the
       declared version) raises, and the escaping exception is that one.  "Iff" is about the model: [raised_in] lists the four oracles
       because Version / canonicalize_name / pathlib cannot raise there (see the header of part II); an undocumented exception of one of
       those in the code would be a disagreement found only by the correspondence run. *)
Theorem C17_outcome3 O data ord : well_typed data -> (forall l, Permutation (ord l) l) ->
  (escapes3 O data = false /\ ((exists s, from_raw3_ord ord O true data = FOk s) \/ (exists es, es <> [] /\ from_raw3_ord ord O true data = FGroup es))) \/
  (escapes3 O data = true /\ exists c k, from_raw3_ord ord O true data = FCrash c /\ reached O data k /\ is_field k = true /\ raised_in O k (lookup k data) c).
Proof. apply outcome3. Qed.
Print Assumptions C17_outcome3.
Theorem C17_escape_iff3 O data ord : well_typed data -> (forall l, Permutation (ord l) l) ->
  ((exists c, from_raw3_ord ord O true data = FCrash c) <-> exists k c, reached O data k /\ is_field k = true /\ raised_in O k (lookup k data) c).
Proof. apply escape_iff3. Qed.
Print Assumptions C17_escape_iff3.
(* Requires-Dist: the entries are converted in order; the first one that is not accepted decides *)
Theorem C17_requires_dist_first_failure O l e : req_all O l = ORaise e <->
  exists pre x post, l = pre ++ x :: post /\ (forall y, In y pre -> exists a, o3_req O y = OAcc a) /\ o3_req O x = ORaise e.
Proof. apply req_all_raise. Qed.
Print Assumptions C17_requires_dist_first_failure.

(* 10. an INSTANCE of 9 (the proof is one application of it): the oracles instantiated with the models of C05/C06, C08 and C19
       ([O_models]; the e-mail header parser and pathlib stay parameters), so that "individually valid" for Requires-Python, Requires-Dist
       and License-Expression reads as membership in those grammars (C17_models_validity unfolds it).  This is NOT stronger than 9: the
       component models never answer ORaise for what the real components raise on - Requirement's RecursionError on a marker nested about
       450 deep (finding D44) is an accepted requirement in ReqModel - so [documented_on OM] no longer excludes such input and the
       theorem then speaks about the models only.  Run by the command m.from_raw_models (stream "models") against the real code. *)
Theorem C17_accept_iff_models ctype path data ord : let OM := O_models ctype path in
  well_typed data -> documented_on OM data -> (forall l, Permutation (ord l) l) ->
  ((exists s, from_raw3_ord ord OM true data = FOk s) <->
     version_known data /\ value_ok3 OM data k_name /\ value_ok3 OM data k_version /\
     forall k, In k (map fst data) -> is_field k = true /\ ~ newer3 OM data k /\ value_ok3 OM data k).
Proof. intros OM. apply accept_iff3. Qed.
Print Assumptions C17_accept_iff_models.
Theorem C17_models_validity ctype path data e : let OM := O_models ctype path in
  (forall s, lookup k_requires_python data = Some (VStr s) ->
     (compute3 OM k_requires_python (lookup k_requires_python data) = Ok e <-> exists ss, SetsModel.SpecifierSet s None = Some ss /\ e = EStr (SetsModel.set_str ss))) /\
  (forall l, lookup k_requires_dist data = Some (VList l) ->
     (compute3 OM k_requires_dist (lookup k_requires_dist data) = Ok e <->
      exists rs, map ReqModel.Requirement l = map ReqModel.RqOk rs /\ e = EList (map ReqModel.req_str rs))) /\
  (forall s, lookup k_license_expression data = Some (VStr s) ->
     (compute3 OM k_license_expression (lookup k_license_expression data) = Ok e <-> exists t, LicTop.canonicalize_license_expression s = LicModel.Ok t /\ e = EStr t)).
Proof.
  intros OM. split; [|split].
  - intros s L. now apply models_requires_python.
  - intros l L. now apply models_requires_dist.
  - intros s L. now apply models_license_expression.
Qed.
Print Assumptions C17_models_validity.

(* 11. MULTIPLICITY: over a dict (distinct keys) the group holds - besides at most one member for Metadata-Version - exactly ONE member per
       offending key, named after it ([name_of]: the header name of a field, the key itself otherwise) *)
Theorem C17_errors_one_per_key O data : well_typed data -> NoDup (map fst data) ->
  exists offs, NoDup offs /\ (forall k, In k offs <-> offending O data k) /\
               errors O data = mv_errors O data ++ map name_of offs /\ (length (mv_errors O data) <= 1)%nat.
Proof. intros W. apply errors_one_per_key. now apply well_typed_safe. Qed.
Print Assumptions C17_errors_one_per_key.

(* 12. attribute reads on the run model: any order, any number of times, every read returns what the first read of that attribute on a
       fresh lazy instance returns ([attr3]: the conversion of the ORIGINAL value, the exception escaping from the component, or
       AttributeError for a name that is not a field); also on a validated object *)
Theorem C17_reads3_history_independent O data ks : reads3 O (init data) ks = map (attr3 O data) ks.
Proof. apply reads3_history_independent. Qed.
Print Assumptions C17_reads3_history_independent.
Theorem C17_reads3_after_validation O data ord s ks : from_raw3_ord ord O true data = FOk s -> reads3 O s ks = map (attr3 O data) ks.
Proof. apply accepted3_reads. Qed.
Print Assumptions C17_reads3_after_validation.
Theorem C17_attr3 O data k :
  (is_field k = true -> attr3 O data k = compute3 O k (lookup k data)) /\ (is_field k = false -> attr3 O data k = Crash k_attribute_error) /\
  (documented_on O data -> compute3 O k (lookup k data) = compute (two O) k (lookup k data)).
Proof. split; [apply attr3_field | split; [apply attr3_nonfield | apply documented_compute]]. Qed.
Print Assumptions C17_attr3.
(* clause 4 restated on the fields only (C17_absent_is_none of part I also covers names that are not fields, where Python raises).
   Both statements are one unfolding of [getattr3].  [is_field k = false] also covers names that ARE attributes of the class (from_raw,
   _raw, __dict__ ...), where Python returns the method / dict and raises nothing: those are not attribute reads of the property and the
   harness never reads them (ASSUMPTIONS of c17.py). *)
Theorem C17_absent_field_is_none O data k : is_field k = true -> required k = false -> lookup k data = None -> reads3 O (init data) [k] = [Ok ENone].
Proof. apply absent_field_is_none. Qed.
Print Assumptions C17_absent_field_is_none.
Theorem C17_nonfield_read_is_attribute_error O data k : is_field k = false -> reads3 O (init data) [k] = [Crash k_attribute_error].
Proof. apply nonfield_read. Qed.
Print Assumptions C17_nonfield_read_is_attribute_error.

(* 13. from_email, for every iteration order of fields_to_check [ord] and any order [us] of the unparsed keys; then composed with the
       C18 model of parse_email: for EVERY document (no typing hypothesis - parse_email's raw dict is always well typed) the result is
       success, one non-empty group, or the exception of a component that the validation reaches *)
Theorem C17_from_email3 O data ord us : (forall l, Permutation (ord l) l) -> well_typed data -> escapes3 O data = false ->
  ((exists s, from_email3_ord ord O true data us = FOk s) <-> us = [] /\ errors3 O data = []) /\
  (us ++ errors3 O data <> [] -> exists es, from_email3_ord ord O true data us = FGroup es /\ Permutation es (us ++ errors3 O data)) /\
  from_email3_ord ord O false data us = FOk (init data).
Proof.
  intros P W E. destruct (from_email3_no_escape O data ord P us W E) as [A B]. split; [exact A | split; [exact B | reflexivity]].
Qed.
Print Assumptions C17_from_email3.
Theorem C17_parse_email_output_is_well_typed items p : well_typed (conv_dict (fst (post_email items p))).
Proof. apply parse_email_raw_well_typed. Qed.
Print Assumptions C17_parse_email_output_is_well_typed.
Theorem C17_from_email_doc_accept_or_group O items p ord : (forall l, Permutation (ord l) l) ->
  (exists s, from_email_doc_ord ord O true items p = FOk s) \/
  (exists es, es <> [] /\ from_email_doc_ord ord O true items p = FGroup es) \/
  (exists c k, from_email_doc_ord ord O true items p = FCrash c /\ reached O (doc_data items p) k /\ is_field k = true /\
               raised_in O k (lookup k (doc_data items p)) c).
Proof. apply from_email_doc_outcome. Qed.
Print Assumptions C17_from_email_doc_accept_or_group.
Theorem C17_from_email_doc_accept_iff O items p ord : (forall l, Permutation (ord l) l) -> documented_on O (doc_data items p) ->
  ((exists s, from_email_doc_ord ord O true items p = FOk s) <-> doc_unparsed items p = [] /\ errors3 O (doc_data items p) = []) /\
  (doc_unparsed items p ++ errors3 O (doc_data items p) <> [] ->
     exists es, from_email_doc_ord ord O true items p = FGroup es /\ Permutation es (doc_unparsed items p ++ errors3 O (doc_data items p))).
Proof.
  intros P D. pose proof (parse_email_raw_well_typed items p) as W.
  exact (from_email3_no_escape O (doc_data items p) ord P (doc_unparsed items p) W (documented_no_escape O _ W D)).
Qed.
Print Assumptions C17_from_email_doc_accept_iff.

(* non-vacuity of part II: a table in which Requirement raises RecursionError on one string; the dict whose Requires-Dist reaches it
   escapes with exactly that; a rejected entry BEFORE it turns the escape into a group; the documented dict is accepted by the run model;
   a non-field read is an AttributeError; the component models accept / reject / canonicalise concrete values *)
Definition O3_ex : oracles3 :=
  {| o3_specset := fun s => OAcc s;
     o3_req := fun s => if seqb s (asc "deep") then ORaise (asc "RecursionError") else if seqb s (asc "a b") then ORej else OAcc s;
     o3_lic := fun s => OAcc s; o3_ctype := fun s => OAcc (s, (None, None)); o3_path := fun _ => false |}.
Definition mk_rd (l : list (list N)) := [(asc "metadata_version", VStr (asc "2.1")); (asc "name", VStr (asc "a")); (asc "version", VStr (asc "1")); (asc "requires_dist", VList l)].
Definition part2_check : bool :=
  match from_raw3 O3_ex true (mk_rd [asc "x"; asc "deep"]), from_raw3 O3_ex true (mk_rd [asc "a b"; asc "deep"]), from_raw3 O3_ex true (mk_rd [asc "x"]) with
  | FCrash c, FGroup g, FOk s =>
      seqb c (asc "RecursionError") && (length g =? 1)%nat && escapes3 O3_ex (mk_rd [asc "x"; asc "deep"]) && negb (escapes3 O3_ex (mk_rd [asc "a b"; asc "deep"])) &&
      match reads3 O3_ex s [asc "bogus"; asc "author"] with [Crash a; Ok ENone] => seqb a k_attribute_error | _ => false end
  | _, _, _ => false
  end &&
  match specset_model (asc ">=3, <4"), req_model (asc "A.b (>=1) ; os_name=='x'"), lic_model (asc "mit or apache-2.0"), lic_model (asc "MIT AND"), req_model (asc "a b") with
  | OAcc s, OAcc r, OAcc l, ORej, ORej => seqb s (asc "<4,>=3") && seqb r (asc "A.b>=1; os_name == ""x""") && seqb l (asc "MIT OR Apache-2.0")
  | _, _, _, _, _ => false
  end.
Example C17_part2_nonvacuous : part2_check = true.
Proof. vm_compute. reflexivity. Qed.


(* ====================================================================================================================================
   PART III - "never modifies the caller's raw dict", in a model where it could be false: Meta/MetaHeap.v (run by the command m.heap).
   Dicts and their values are heap objects; from_raw allocates a new dict object with the same entries (data.copy(): a SHALLOW copy, the
   value objects stay shared); `del instance._raw[name]` mutates the dict object the instance refers to. *)

(* 14. after from_raw and any sequence of attribute reads the caller's dict object has the same entries (this conjunct fails for
       from_raw_nocopy) and no value object of the heap has changed (this conjunct holds because [hread] never writes a value object: a
       converter that changed its argument in place is not expressible in the model; the correspondence run m.heap would show it).
       from_raw(validate=True) is covered through 14d/14e: its validation is the read sequence [validation_reads]. *)
Theorem C17_caller_dict_untouched O w dl d ks : lookup dl (w_dicts w) = Some d ->
  let '(w1, hi) := from_raw_h w dl in
  let '(w', _, _) := hreads O w1 hi ks in
  lookup dl (w_dicts w') = Some d /\ w_vals w' = w_vals w.
Proof. apply caller_dict_untouched. Qed.
Print Assumptions C17_caller_dict_untouched.
(* 14b. the heap model refines the functional one: the reads give what [reads3] gives on the content of the caller's dict at construction *)
Theorem C17_heap_refines_run_model O w d dl ks : (forall kl, In kl d -> exists v, lookup (snd kl) (w_vals w) = Some v) -> lookup dl (w_dicts w) = Some d ->
  let '(w1, hi) := from_raw_h w dl in let '(_, _, rs) := hreads O w1 hi ks in rs = reads3 O (init (deref w d)) ks.
Proof. intros C. now apply heap_refines_reads3. Qed.
Print Assumptions C17_heap_refines_run_model.
(* 14c. what the code does about sharing: the first read of a present field WITHOUT a converter returns the caller's own value object
        (a later in-place change of it, by anyone, shows through the Metadata object); a field WITH a converter returns a new object
        (no later change of the heap shows) *)
Theorem C17_copy_is_shallow O w hi k d l v : lookup k (hi_cache hi) = None -> is_field k = true ->
  lookup (hi_raw hi) (w_dicts w) = Some d -> lookup k d = Some l -> lookup l (w_vals w) = Some v ->
  let '(_, hi', r) := hread O w hi k in
  (converted k = false -> r = Ok (plain (Some v)) /\ lookup k (hi_cache hi') = Some (CRef l)) /\
  (converted k = true -> forall e, r = Ok e -> lookup k (hi_cache hi') = Some (COwn e)).
Proof. apply first_read_object. Qed.
Print Assumptions C17_copy_is_shallow.
Theorem C17_shared_and_own_objects O w w' hi k :
  (forall l v', lookup k (hi_cache hi) = Some (CRef l) -> hread O (set_val w l v') hi k = (set_val w l v', hi, Ok (plain (Some v')))) /\
  (forall e, lookup k (hi_cache hi) = Some (COwn e) -> hread O w' hi k = (w', hi, Ok e)).
Proof. split; [intros l v'; apply shared_object_visible | intros e H; now apply (own_object_stable O w w' hi k e)]. Qed.
Print Assumptions C17_shared_and_own_objects.
(* 14d. from_raw(validate=True), when it succeeds, leaves the object in exactly the state that the reads [validation_reads O data] -
        metadata_version, then every present or required field not newer than the declared version, in sorted order - leave a lazy one in *)
Theorem C17_validation_is_reads O data s : from_raw3 O true data = FOk s -> s = reads3_state O (init data) (validation_reads O data).
Proof. apply validation_is_reads. Qed.
Print Assumptions C17_validation_is_reads.
(* 14e. the validated object on the heap: whatever reads [vks] the construction performs ([validation_reads] for validate=True), the
        caller's dict object and every value object are as before, and the object answers every later read sequence like the object [s]
        the functional from_raw returns for the content of the caller's dict *)
Theorem C17_validated_object_on_heap O w d dl ord s vks ks : (forall kl, In kl d -> exists v, lookup (snd kl) (w_vals w) = Some v) ->
  lookup dl (w_dicts w) = Some d -> from_raw3_ord ord O true (deref w d) = FOk s ->
  let '(w1, hi) := from_raw_h w dl in
  let '(w2, hi2, _) := hreads O w1 hi vks in
  (lookup dl (w_dicts w2) = Some d /\ w_vals w2 = w_vals w) /\
  let '(_, _, rs) := hreads O w2 hi2 ks in rs = reads3 O s ks.
Proof. intros C. now apply validated_object_on_heap. Qed.
Print Assumptions C17_validated_object_on_heap.

(* non-vacuity: with the copy the caller keeps its keys, WITHOUT it (from_raw_nocopy) two reads delete two of them; a shared list changed
   in place shows through the object, a converted one and a re-bound key do not *)
Example C17_heap_nonvacuous : heap_check = true.
Proof. exact heap_check_ok. Qed.

(* witnesses asked for by the re-audit.
   C17_errors_one_per_key with several offending keys: data_bad (part I) has five - dynamic (newer), bogus (unknown), requires_dist
   (invalid), name and version (missing) - and its group is exactly one member per key, in dict order, no Metadata-Version member.
   The from_email_doc theorems on a non-empty document: an accepted one (with a read of a parsed field), one whose group holds an unparsed
   key and an invalid field, and one where Requirement raises. *)
Definition one_per_key_check : bool :=
  let offs := [asc "dynamic"; asc "bogus"; asc "requires_dist"; asc "name"; asc "version"] in
  match mv_errors O_ex data_bad with [] => true | _ => false end &&
  seqb (join [10] (errors O_ex data_bad)) (join [10] (map name_of offs)) && (length (errors O_ex data_bad) =? 5)%nat &&
  forallb (fun k => (length (filter (seqb k) offs) =? 1)%nat) offs && forallb (fun k => (length (filter (seqb k) (map fst data_bad)) =? 1)%nat) (map fst data_bad).
Example C17_one_per_key_witness : one_per_key_check = true.
Proof. vm_compute. reflexivity. Qed.

Definition hd_item (n v : string) := {| i_name := asc n; i_val := asc v; i_valid := true |}.
Definition doc_check : bool :=
  let ok_doc := [hd_item "Metadata-Version" "2.1"; hd_item "NAME" "a"; hd_item "Version" "1.0"; hd_item "Keywords" "x, y"; hd_item "Requires-Dist" "x"] in
  let bad_doc := [hd_item "Metadata-Version" "2.1"; hd_item "Name" "a b"; hd_item "Version" "1.0"; hd_item "X-Foo" "1"; hd_item "Summary" "s"; hd_item "summary" "t"] in
  let deep_doc := [hd_item "Metadata-Version" "2.1"; hd_item "Name" "a"; hd_item "Version" "1.0"; hd_item "Requires-Dist" "deep"] in
  match from_email_doc O3_ex true ok_doc (POk (asc "body")), from_email_doc O3_ex true bad_doc (POk []), from_email_doc O3_ex true deep_doc (POk []) with
  | FOk s, FGroup g, FCrash c =>
      match reads3 O3_ex s [asc "keywords"; asc "description"] with [Ok (EList [_; _]); Ok (EStr _)] => true | _ => false end &&
      seqb (join [44] (sort_s g)) (asc "name,summary,x-foo") && seqb c (asc "RecursionError") &&
      negb (match doc_unparsed bad_doc (POk []) with [] => true | _ => false end)
  | _, _, _ => false
  end.
Example C17_from_email_doc_witness : doc_check = true.
Proof. vm_compute. reflexivity. Qed.
