(* C16 placeholder while the pipeline is brought up *)
From Coq Require Import List Arith NArith Bool Lia.
Import ListNotations.
Require Import Elf ElfFile VParse VDec Tags TagsModel PlatLit PlatModel.
Theorem C16_tmp : forall archs pm, many_struct true archs None pm = [].
Proof. reflexivity. Qed.
Print Assumptions C16_tmp.
