(* C16  Platform tag sequences match the platform's real compatibility range.
   Model: PlatModel.v (_manylinux.platform_tags with _have_compatible_abi, the glibc probes, _is_compatible and the `_manylinux`
   policy module as a parameter; _musllinux; mac_platforms/_mac_binary_formats; ios_platforms; _linux_platforms), ElfFile.v
   (ELFFile.__init__/.interpreter over an in-memory file, struct codec in Elf.v, an ELF encoder).
   Spec: many_versions/many_spec (PlatProofs.v) - the descending version list and what each version contributes.
   Tags are structured values (kind, major, minor, arch/format) spelled by render_mtag / render3; the spelling is injective (13.).
   Statements only; proofs are in Plat/PlatProofs.v and Elf/ElfProofs.v. *)
From Coq Require Import List Arith NArith Bool Lia Sorted.
Import ListNotations.
Require Import Elf ElfFile ElfProofs ElfDisk ElfDiskProofs VParse VDec Tags TagsLit TagsModel TagsProofs TagsThread PlatLit PlatModel PlatProofs
               PlatLoader PlatLoaderProofs PlatParse PlatText.
Open Scope N_scope.

(* ------------------------------------------------------------------ manylinux *)
(* 1. exact sequence: for each architecture in the caller's order, for each glibc version of many_versions (2.), the PEP 600 tag
      and - immediately after it - its legacy alias when the version is 2.17 / 2.12 / 2.5, each only if the policy module does
      not veto it (emit_spec).  The glibc comparison inside _is_compatible never fires (nothing newer is ever tried). *)
Theorem C16_manylinux_exact e archs M m :
  have_compatible_abi (m_exe e) archs = true -> get_glibc_version (m_confstr e) (m_ctypes e) = Some (M, m) ->
  manylinux_tags e archs = map render_mtag (many_spec archs M m (m_policy e)).
Proof. intros H1 H2. unfold manylinux_tags. rewrite H1, H2. now rewrite many_exact. Qed.
Print Assumptions C16_manylinux_exact.
Theorem C16_manylinux_emit pm arch v :
  emit_spec pm arch v =
  if policy pm arch (fst v) (snd v)
  then MT false (fst v) (snd v) arch :: (match legacy_name (fst v) (snd v) with Some _ => [MT true (fst v) (snd v) arch] | None => [] end)
  else [].
Proof. reflexivity. Qed.
Print Assumptions C16_manylinux_emit.

(* 2. the versions: newest first (strictly descending), from the running glibc G = (M, m) down to the floor of major 2
      (too_old + 1), lower majors down to 2 starting from minor 50; floor 2.5 iff x86_64 or i686 is in the list, else 2.17 *)
Theorem C16_manylinux_versions t M m :
  StronglySorted ver_gt (many_versions t M m) /\
  forall a b, In (a, b) (many_versions t M m) <->
    (a = M /\ min_minor t a <= b <= m)%nat \/ (2 <= a < M /\ min_minor t a <= b <= last_glibc_minor)%nat.
Proof. split; [apply many_versions_sorted | intros; apply in_many_versions]. Qed.
Print Assumptions C16_manylinux_versions.
Theorem C16_manylinux_floor archs :
  (too_old_minor archs = 4%nat /\ (In s_x86_64 archs \/ In s_i686 archs)) \/
  (too_old_minor archs = 16%nat /\ ~ In s_x86_64 archs /\ ~ In s_i686 archs).
Proof. exact (too_old_cases archs). Qed.
Print Assumptions C16_manylinux_floor.

(* 3. nothing for an incompatible ABI, nothing without glibc *)
Theorem C16_manylinux_incompatible e archs :
  have_compatible_abi (m_exe e) archs = false \/ get_glibc_version (m_confstr e) (m_ctypes e) = None -> manylinux_tags e archs = [].
Proof. intros [H|H]; unfold manylinux_tags; rewrite H; [reflexivity | now rewrite many_no_glibc]. Qed.
Print Assumptions C16_manylinux_incompatible.

(* 3b. the ABI decision: from the ELF header of the running executable for armv7l / i686 lists (here on any image the encoder
       produces), otherwise membership in the fixed architecture set; and the three kinds of `_manylinux` policy module *)
Theorem C16_abi_probe s exe archs : wf_spec s ->
  is_linux_armhf (parse_exe (Some (encode s))) =
    (negb (s_is64 s) && negb (s_big s) && (s_machine s =? 40) && (N.land (s_flags s) 4278190080 =? 83886080) && (N.land (s_flags s) 1024 =? 1024)) /\
  is_linux_i686 (parse_exe (Some (encode s))) = (negb (s_is64 s) && negb (s_big s) && (s_machine s =? 3)) /\
  (mem s_armv7l archs = false -> mem s_i686 archs = false -> have_compatible_abi exe archs = existsb (fun a => mem a allowed_archs) archs).
Proof. intros W. destruct (abi_probe_encoded s W) as [H1 H2]. split; [exact H1|]. split; [exact H2 | apply abi_without_probe]. Qed.
Print Assumptions C16_abi_probe.
Theorem C16_policy_kinds arch M m :
  policy None arch M m = true /\
  (forall f a1 a2 a3, policy (Some {| p_func := Some f; p_1 := a1; p_2010 := a2; p_2014 := a3 |}) arch M m =
                      match f M m arch with FNone => true | FBool b => b end) /\
  (forall a1 a2 a3, policy (Some {| p_func := None; p_1 := a1; p_2010 := a2; p_2014 := a3 |}) arch M m =
                    if (M =? 2)%nat && (m =? 5)%nat then attr_or_true a1
                    else if (M =? 2)%nat && (m =? 12)%nat then attr_or_true a2
                    else if (M =? 2)%nat && (m =? 17)%nat then attr_or_true a3 else true).
Proof. exact (policy_kinds arch M m). Qed.
Print Assumptions C16_policy_kinds.

(* 4. membership: a tag is offered iff its architecture was given, its version is in range, the policy does not veto it, and
      (for an alias) the version has one *)
Theorem C16_manylinux_membership archs M m pm k a b ar :
  In (MT k a b ar) (many_spec archs M m pm) <->
  In ar archs /\ In (a, b) (many_versions (too_old_minor archs) M m) /\ policy pm ar a b = true /\ (k = true -> legacy_name a b <> None).
Proof. apply in_many_spec. Qed.
Print Assumptions C16_manylinux_membership.

(* 5. nothing newer than the running system; nothing of major 2 at or below the floor *)
Theorem C16_manylinux_nothing_newer archs M m pm k a b ar : In (MT k a b ar) (many_spec archs M m pm) -> ver_le (a, b) (M, m).
Proof. apply many_nothing_newer. Qed.
Print Assumptions C16_manylinux_nothing_newer.
Theorem C16_manylinux_above_floor archs M m pm k b ar : In (MT k 2 b ar) (many_spec archs M m pm) -> (too_old_minor archs < b)%nat.
Proof. apply many_floor. Qed.
Print Assumptions C16_manylinux_above_floor.

(* 6. no duplicates, as structured tags and as the strings handed out *)
Theorem C16_manylinux_nodup archs M m pm : NoDup archs ->
  NoDup (many_spec archs M m pm) /\ NoDup (map render_mtag (many_spec archs M m pm)).
Proof. intros H. split; [now apply many_spec_nodup | now apply many_strings_nodup]. Qed.
Print Assumptions C16_manylinux_nodup.

(* 7. a newer glibc offers a superset (same architectures, same policy): same major, or a higher major when the older system
      is a glibc >= 2 whose minor does not exceed the assumed last minor (50) *)
Theorem C16_manylinux_monotone archs M m M' m' pm : ver_le (M, m) (M', m') -> (M < M' -> 2 <= M /\ m <= last_glibc_minor)%nat ->
  incl (many_spec archs M m pm) (many_spec archs M' m' pm).
Proof. apply many_monotone. Qed.
Print Assumptions C16_manylinux_monotone.

(* ------------------------------------------------------------------ musllinux *)
(* 8. for each architecture, musllinux_<M>_<k>_<arch> for k = m .. 0; nothing newer; NoDup; monotone in the minor *)
Theorem C16_musl_exact M m archs :
  musl_struct (Some (M, m)) archs = flat_map (fun arch => map (fun mi => (M, mi, arch)) (down (S m) 0)) archs /\
  musl_struct None archs = [] /\
  (forall a b ar, In (a, b, ar) (musl_struct (Some (M, m)) archs) <-> a = M /\ (b <= m)%nat /\ In ar archs).
Proof. split; [reflexivity|]. split; [reflexivity|]. intros. apply in_musl. Qed.
Print Assumptions C16_musl_exact.
Theorem C16_musl_nodup_monotone v archs M m m' :
  (NoDup archs -> NoDup (musl_struct v archs) /\ NoDup (map (render3 s_musllinux_) (musl_struct v archs))) /\
  ((m <= m')%nat -> incl (musl_struct (Some (M, m)) archs) (musl_struct (Some (M, m')) archs)).
Proof. split; [intros H; split; [|apply render3_nodup]; now apply musl_nodup | apply musl_monotone]. Qed.
Print Assumptions C16_musl_nodup_monotone.

(* ------------------------------------------------------------------ macOS *)
(* 9. exact sequences per regime: 10.m -> every 10.k, k = m .. 0, with the binary formats valid for (10, k);
      >= 11 -> every M'.0, M' = M .. 11, then 10.16 .. 10.4 (formats of x86_64, or universal2 alone for other CPUs);
      below 10 -> nothing *)
Theorem C16_mac_exact M m arch :
  mac_struct (10, m)%nat arch = flat_map (fun mi => mac_block (10, mi)%nat arch) (down (S m) 0) /\
  ((11 <= M)%nat -> mac_struct (M, m) arch = flat_map (fun Mj => mac_block (Mj, 0)%nat arch) (down (S M) 11) ++ mac_legacy_part arch) /\
  ((M < 10)%nat -> mac_struct (M, m) arch = []).
Proof. split; [apply mac_exact_10|]. split; [apply mac_exact_11 | apply mac_exact_old]. Qed.
Print Assumptions C16_mac_exact.
(* 9b. _mac_binary_formats as a table: the formats valid for each CPU architecture and version *)
Theorem C16_mac_formats v :
  mac_binary_formats v s_x86_64 = (if ver_lt v (10, 4)%nat then [] else [s_x86_64; s_intel; s_fat64; s_fat32; s_universal2; s_universal]) /\
  mac_binary_formats v s_i386 = (if ver_lt v (10, 4)%nat then [] else [s_i386; s_intel; s_fat32; s_fat; s_universal]) /\
  mac_binary_formats v s_ppc64 = (if ver_lt (10, 5)%nat v || ver_lt v (10, 4)%nat then [] else [s_ppc64; s_fat64; s_universal]) /\
  mac_binary_formats v s_ppc = (if ver_lt (10, 6)%nat v then [] else [s_ppc; s_fat32; s_fat; s_universal]) /\
  mac_binary_formats v s_arm64 = [s_arm64; s_universal2] /\
  mac_binary_formats v s_intel = [s_intel; s_universal] /\
  (forall a, ~ In a [s_x86_64; s_i386; s_ppc64; s_ppc; s_arm64; s_intel] -> mac_binary_formats v a = [a]).
Proof. exact (mac_formats_table v). Qed.
Print Assumptions C16_mac_formats.
Theorem C16_mac_nothing_newer M m arch a b f : In (a, b, f) (mac_struct (M, m) arch) -> ver_le (a, b) (M, m).
Proof. apply mac_nothing_newer. Qed.
Print Assumptions C16_mac_nothing_newer.
Theorem C16_mac_nodup v arch : NoDup (mac_struct v arch) /\ NoDup (mac_platforms v arch).
Proof. split; [apply mac_nodup | apply render3_nodup, mac_nodup]. Qed.
Print Assumptions C16_mac_nodup.
Theorem C16_mac_monotone M m M' m' arch :
  ((m <= m')%nat -> incl (mac_struct (10, m)%nat arch) (mac_struct (10, m')%nat arch)) /\
  ((11 <= M <= M')%nat -> incl (mac_struct (M, m) arch) (mac_struct (M', m') arch)).
Proof. split; [apply mac_monotone_10 | apply mac_monotone_11]. Qed.
Print Assumptions C16_mac_monotone.

(* ------------------------------------------------------------------ iOS *)
(* 10. from the running M.m: M.m .. M.0, then every older major down to 12 with minors 9 .. 0; nothing below 12.0 *)
Theorem C16_ios_exact M m ma :
  ((12 <= M)%nat -> ios_struct (M, m) ma =
     map (fun mi => (M, mi, dash_to_us ma)) (down (S m) 0) ++
     flat_map (fun Mj => map (fun mi => (Mj, mi, dash_to_us ma)) (down 10 0)) (down M 12)) /\
  ((M < 12)%nat -> ios_struct (M, m) ma = []).
Proof. split; [apply ios_exact | apply ios_below_floor]. Qed.
Print Assumptions C16_ios_exact.
Theorem C16_ios_order_newer_nodup v ma :
  StronglySorted ver_gt (map (fun t : nat * nat * list N => fst t) (ios_struct v ma)) /\
  (forall a b x, In (a, b, x) (ios_struct v ma) -> ver_le (a, b) v /\ (12 <= a)%nat) /\
  NoDup (ios_struct v ma) /\ NoDup (ios_platforms v ma).
Proof.
  split; [apply ios_sorted|]. split; [destruct v; intros; eapply ios_nothing_newer; eauto|].
  split; [apply ios_nodup | apply render3_nodup, ios_nodup].
Qed.
Print Assumptions C16_ios_order_newer_nodup.
Theorem C16_ios_monotone M m M' m' ma : ((M = M' /\ m <= m') \/ (M < M' /\ m <= 9))%nat ->
  incl (ios_struct (M, m) ma) (ios_struct (M', m') ma).
Proof. apply ios_monotone. Qed.
Print Assumptions C16_ios_monotone.

(* ------------------------------------------------------------------ spelling *)
(* 11. the text of a tag determines the tag: <prefix><major>_<minor>_<rest> and the manylinux spellings incl. legacy aliases *)
Theorem C16_spelling_injective :
  (forall pfx t t', render3 pfx t = render3 pfx t' -> t = t') /\
  (forall t t', wf_mtag t -> wf_mtag t' -> render_mtag t = render_mtag t' -> t = t').
Proof. split; [apply render3_inj | apply render_mtag_inj]. Qed.
Print Assumptions C16_spelling_injective.

(* ------------------------------------------------------------------ Linux architecture remapping *)
(* 12. _linux_platforms: manylinux, then musllinux, then linux_<arch>; armv8l also offers armv7l; a 32-bit interpreter on
       x86_64 / aarch64 is i686 / armv8l; a non-linux platform string is passed through *)
Theorem C16_linux_platforms is32 plat e stderr :
  (starts_with s_linux_ (normalize_string plat) = false -> linux_platforms is32 plat e stderr = [normalize_string plat]) /\
  (forall arch, normalize_string plat = s_linux_ ++ arch ->
     linux_platforms is32 plat e stderr =
     let archs := linux_archs (if is32 then remap32 arch else arch) in
     manylinux_tags e archs ++ musllinux_tags (m_exe e) stderr archs ++ map (fun a => s_linux_ ++ a) archs).
Proof. split; [apply linux_not_linux | intros; now apply linux_shape]. Qed.
Print Assumptions C16_linux_platforms.

(* ------------------------------------------------------------------ ELF *)
(* 13. header: for each of the four class/endianness layouts, any file that holds the magic, the class and data bytes and the
       packed header fields at the offsets the ELF specification prescribes decodes to exactly those fields *)
Theorem C16_elf_header_decodes f is64 big pad hdr :
  length pad = 10%nat ->
  read_at f 0 16 = magic ++ [cap_of is64; enc_of big] ++ pad ->
  fits (e_sizes is64) hdr ->
  read_at f 16 (total (e_sizes is64)) = pack big (e_sizes is64) hdr ->
  parse_header f = Ok {| capacity := cap_of is64; encoding := enc_of big; machine := nth 1 hdr 0; flags := nth 6 hdr 0;
                         e_phoff := nth 4 hdr 0; e_phentsize := nth 8 hdr 0; e_phnum := nth 9 hdr 0 |}.
Proof. apply header_decodes. Qed.
Print Assumptions C16_elf_header_decodes.
(* the struct codec behind it: unpack (pack values) = values for both endiannesses and any field-size list *)
Theorem C16_struct_codec big sizes vals : fits sizes vals -> unpack big sizes (pack big sizes vals) = Some vals.
Proof. apply unpack_pack. Qed.
Print Assumptions C16_struct_codec.

(* 14. program-header scan: an entry whose packed fields are in the file is decoded to them: PT_INTERP ends the scan with the
       path at (p_offset, p_filesz) (ELFInvalid when either cannot be sought/read), any other type moves on; an entry that is
       unreadable (short read) or beyond the seekable range is skipped *)
Theorem C16_elf_scan_entry f is64 big phoff entsize i more ph :
  phoff + entsize * i < ssize_limit -> fits (p_sizes is64) ph ->
  read_at f (phoff + entsize * i) (total (p_sizes is64)) = pack big (p_sizes is64) ph ->
  scan f is64 big phoff entsize (i :: more) =
  if ph_type is64 ph =? 3 then interp_result f is64 (Some ph) else scan f is64 big phoff entsize more.
Proof. apply scan_step_packed. Qed.
Print Assumptions C16_elf_scan_entry.
Theorem C16_elf_scan_skips f is64 big phoff entsize i more :
  ssize_limit <= phoff + entsize * i \/ (length (read_at f (phoff + entsize * i) (total (p_sizes is64))) < N.to_nat (total (p_sizes is64)))%nat ->
  scan f is64 big phoff entsize (i :: more) = scan f is64 big phoff entsize more.
Proof. apply scan_step_unreadable. Qed.
Print Assumptions C16_elf_scan_skips.

(* 15. decode = what the encoder laid out: every image produced by the encoder (any layout, any header values that fit their
       fields, any program-header table, any payload) decodes to the encoded class, endianness, machine and flags, and
       .interpreter is decided by the first PT_INTERP entry; an entry pointing at the payload yields the payload *)
Theorem C16_elf_decode_encode s : wf_spec s ->
  parse_header (encode s) = Ok (elf_of s) /\
  interpreter (encode s) (elf_of s) = interp_result (encode s) (s_is64 s) (first_interp (s_is64 s) (s_phdrs s)) /\
  read_at (encode s) (payload_off s) (flen (s_payload s)) = s_payload s.
Proof. intros H. split; [now apply encode_header|]. split; [now apply encode_interpreter | now apply payload_read]. Qed.
Print Assumptions C16_elf_decode_encode.
Theorem C16_elf_too_short f : (length f < 16)%nat -> parse_header f = Invalid.
Proof. apply short_file_invalid. Qed.
Print Assumptions C16_elf_too_short.

(* ------------------------------------------------------------------ libc version strings *)
(* 16. glibc: "<major>.<minor><junk>" parses back to (major, minor) for any junk not starting with a digit; the whole probe
       through os.confstr("CS_GNU_LIBC_VERSION") = "<name> <version>"; text without a leading digit is rejected; a missing,
       failing or malformed confstr defers to the ctypes probe *)
Theorem C16_glibc_string M m junk : not_digit_head junk = true ->
  parse_glibc_version (dn M ++ [46] ++ dn m ++ junk) = Some (M, m).
Proof. apply parse_glibc_render. Qed.
Print Assumptions C16_glibc_string.
Theorem C16_glibc_probe name M m junk t : ws_free name -> name <> [] -> ws_free junk -> not_digit_head junk = true ->
  get_glibc_version (CStr (name ++ [32] ++ dn M ++ [46] ++ dn m ++ junk)) t = Some (M, m).
Proof. apply glibc_probe. Qed.
Print Assumptions C16_glibc_probe.
Theorem C16_glibc_reject_fallback :
  (forall s, not_digit_head s = true -> parse_glibc_version s = None) /\
  (forall c t, glibc_confstr c = None -> glibc_version_string c t = glibc_ctypes t) /\
  glibc_confstr CNone = None /\ glibc_confstr CRaise = None /\
  (forall s, (forall a b, wsplit s <> [a; b]) -> glibc_confstr (CStr s) = None).
Proof. split; [apply parse_glibc_reject|]. split; [apply glibc_fallback | apply glibc_confstr_fails]. Qed.
Print Assumptions C16_glibc_reject_fallback.
(* 17. musl: the loader banner  musl<a> NEWLINE Version <major>.<minor><sfx> [NEWLINE ...]  parses back to (major, minor) *)
Theorem C16_musl_string a M m sfx tail :
  lb_free a -> is_ws (last (s_musl ++ a) 0) = false ->
  lb_free sfx -> not_digit_head sfx = true -> is_ws (last (s_Version_ ++ dn M ++ [46] ++ dn m ++ sfx) 0) = false ->
  (tail = [] \/ exists t, tail = 10 :: t) ->
  parse_musl_version ((s_musl ++ a) ++ [10] ++ (s_Version_ ++ dn M ++ [46] ++ dn m ++ sfx) ++ tail) = Some (M, m).
Proof. apply parse_musl_render. Qed.
Print Assumptions C16_musl_string.

(* ------------------------------------------------------------------ memoised probe *)
(* 18. functools.lru_cache on the libc probe as a one-cell state machine: every call after the first answers what the first
       probed; in an unchanged environment that equals the uncached answers (cache transparent) *)
Theorem C16_cache_transparent e envs n :
  run_probes None (e :: envs) = e :: map (fun _ => e) envs /\ run_probes None (repeat e n) = repeat e n.
Proof. split; [apply probes_memoised | apply probes_transparent]. Qed.
Print Assumptions C16_cache_transparent.

(* ------------------------------------------------------------------ non-vacuity *)
(* glibc 2.19 on x86_64 without a policy module: 2.19, 2.18, 2.17, manylinux2014, 2.16 ... (alias right after 2.17);
   a 64-bit little-endian image with one PT_LOAD and one PT_INTERP entry pointing at the payload "/lib/ld-musl-x86_64.so.1\0":
   the encoder's output satisfies wf_spec and decodes to the payload without the NUL *)
Example C16_nonvacuous_manylinux :
  firstn 5 (many_spec [s_x86_64] 2 19 None) =
    [MT false 2 19 s_x86_64; MT false 2 18 s_x86_64; MT false 2 17 s_x86_64; MT true 2 17 s_x86_64; MT false 2 16 s_x86_64] /\
  length (many_spec [s_x86_64] 2 19 None) = 18%nat.
Proof. split; vm_compute; reflexivity. Qed.
Definition ex_payload : list N := [47;108;105;98;47;108;100;45;109;117;115;108;45;120;56;54;95;54;52;46;115;111;46;49;0].
Definition ex_spec : elf_spec :=
  {| s_is64 := true; s_big := false; s_pad := [1]; s_type := 3; s_machine := 62; s_version := 1; s_entry := 4096; s_shoff := 0;
     s_flags := 0; s_ehsize := 64;
     s_phdrs := [[1; 5; 0; 0; 0; 200; 200; 4096]; [3; 4; 170; 170; 170; 25; 25; 1]];
     s_payload := ex_payload |}.
Example C16_nonvacuous_elf :
  wf_spec ex_spec /\ payload_off ex_spec = 170 /\
  interpreter (encode ex_spec) (elf_of ex_spec) = ISome (firstn 24 ex_payload) /\ musl_loader (Some (encode ex_spec)) = Some (firstn 24 ex_payload).
Proof.
  split; [split; [vm_compute; repeat split | repeat constructor; vm_compute; reflexivity]|].
  split; [reflexivity|]. split; vm_compute; reflexivity.
Qed.

(* ====================================================================================================================
   Improvement round (audit C16, and the C11 / C20 items of this domain)
   ==================================================================================================================== *)

(* ------------------------------------------------------------------ ELF: any table, any medium *)
(* 19. the general program-header table theorem: for ANY e_phoff and ANY stride e_phentsize, if the entries of a table are present in
       the file at e_phoff + e_phentsize * k (up to and including the first PT_INTERP entry; positions seekable), then
       .interpreter is decided by the first PT_INTERP entry.  (15. is the special case of the encoder's contiguous layout.) *)
Theorem C16_elf_any_table f e is64 big phs :
  layout (capacity e) (encoding e) = Some (is64, big) -> e_phnum e = N.of_nat (length phs) ->
  table_at f is64 big (e_phoff e) (e_phentsize e) 0 phs ->
  interpreter f e = interp_result f is64 (first_interp is64 phs).
Proof. apply interpreter_any_table. Qed.
Print Assumptions C16_elf_any_table.
Theorem C16_elf_any_table_scan f is64 big phoff entsize phs start :
  table_at f is64 big phoff entsize start phs ->
  scan f is64 big phoff entsize (range_from (length phs) start) = interp_result f is64 (first_interp is64 phs).
Proof. apply scan_any_table. Qed.
Print Assumptions C16_elf_any_table_scan.
(* 20. the same code over a regular file (what _get_musl_version and _parse_elf open): seek refuses offsets from [seek_max] on,
       read refuses sizes from [read_max] on (OSError / ValueError / MemoryError / OverflowError - all handled now, D40).
       io.BytesIO is the instance with both limits 2^63; a scan that stays below the limits answers what the in-memory scan
       answers; a PT_INTERP entry beyond them is ELFInvalid.  (Third conjunct: the trichotomy of the model's result type - a
       statement about the model only.  That the CODE raises nothing but ELFInvalid is what the streams elf / elf-file of this
       check and the ELFFile / ELFFile.file entries of C11 test; a Gallina function cannot raise.) *)
Theorem C16_elf_regular_file lim f e is64 big :
  interpreter f e = interpreter_disk mem_limits f e /\
  (layout (capacity e) (encoding e) = Some (is64, big) -> seek_max lim <= ssize_limit -> read_max lim <= ssize_limit ->
   Forall (fun i => entry_within lim f is64 big (e_phoff e + e_phentsize e * i)) (range_N (e_phnum e)) ->
   interpreter_disk lim f e = interpreter f e) /\
  (interpreter_disk lim f e = INone \/ (exists p, interpreter_disk lim f e = ISome p) \/ interpreter_disk lim f e = IInvalid).
Proof.
  split; [apply interpreter_is_disk|]. split; [apply interpreter_disk_within|].
  destruct (interpreter_disk lim f e); [now left | right; left; eauto | now right; right].
Qed.
Print Assumptions C16_elf_regular_file.
Theorem C16_elf_regular_file_entry lim f is64 big phoff entsize i more ph :
  phoff + entsize * i < seek_max lim -> fits (p_sizes is64) ph ->
  read_at f (phoff + entsize * i) (total (p_sizes is64)) = pack big (p_sizes is64) ph ->
  (scan_disk lim f is64 big phoff entsize (i :: more) =
   if ph_type is64 ph =? 3 then interp_result_disk lim f is64 (Some ph) else scan_disk lim f is64 big phoff entsize more) /\
  (ph_type is64 ph = 3 -> (seek_max lim <= ph_off is64 ph \/ read_max lim <= ph_size is64 ph) ->
   scan_disk lim f is64 big phoff entsize (i :: more) = IInvalid).
Proof. intros A B C. split; [now apply scan_disk_step_packed | intros; now apply (scan_disk_interp_unreadable lim f is64 big phoff entsize i more ph)]. Qed.
Print Assumptions C16_elf_regular_file_entry.

(* ------------------------------------------------------------------ musl, end to end *)
(* 21. from the bytes of sys.executable to the tags: an image (any layout the encoder produces) whose first PT_INTERP entry points at
       the payload hands the payload, NUL padding stripped, to the loader iff it contains "musl"; the tags are then
       musllinux_<M>_<k>_<arch>, k = m .. 0 per architecture, for the version (M, m) the loader's banner states (17., 23.);
       no "musl" in the path, or no parsable banner: no tags *)
Theorem C16_musl_end_to_end s ph err archs : wf_spec s ->
  first_interp (s_is64 s) (s_phdrs s) = Some ph -> ph_off (s_is64 s) ph = payload_off s -> ph_size (s_is64 s) ph = flen (s_payload s) ->
  flen (s_payload s) < ssize_limit ->
  (forall M m, contains s_musl (strip_nul (s_payload s)) = true -> parse_musl_version err = Some (M, m) ->
     musllinux_tags (Some (encode s)) err archs = map (render3 s_musllinux_) (musl_struct (Some (M, m)) archs)) /\
  (contains s_musl (strip_nul (s_payload s)) = true -> parse_musl_version err = None -> musllinux_tags (Some (encode s)) err archs = []) /\
  (contains s_musl (strip_nul (s_payload s)) = false -> musllinux_tags (Some (encode s)) err archs = []).
Proof. apply musl_end_to_end. Qed.
Print Assumptions C16_musl_end_to_end.
(* 21b. the same through the regular file and subprocess.run as PlatLoader.run_loader models it (the function the correspondence run
        executes, Run/RunPlat.v: musllinux_tags_x): a loader that cannot be run (embedded NUL: ValueError; missing path:
        FileNotFoundError) means "no musl" - the code catches both since 020ba8a (they used to escape _musllinux.platform_tags).
        run_loader is compared with a stand-in for subprocess.run in the streams musllinux / linux / platform-tags and with the REAL
        subprocess.run on generated loader scripts (runs, not executable, a directory, missing, NUL) in stream musl-real-run.
        The banner is read by parse_musl_version_l: Unicode digits, int()'s digit limit (23b). *)
Theorem C16_musl_end_to_end_real lim le s ph archs : wf_spec s -> 4194304 <= seek_max lim ->
  first_interp (s_is64 s) (s_phdrs s) = Some ph -> ph_off (s_is64 s) ph = payload_off s -> ph_size (s_is64 s) ph = flen (s_payload s) ->
  flen (s_payload s) < read_max lim ->
  let ld := strip_nul (s_payload s) in
  (contains s_musl ld = false -> musllinux_tags_x lim (Some (encode s)) le archs = []) /\
  (contains s_musl ld = true -> has_nul ld = true -> musllinux_tags_x lim (Some (encode s)) le archs = []) /\
  (contains s_musl ld = true -> has_nul ld = false -> le_all le = false -> ~ In ld (le_existing le) ->
     musllinux_tags_x lim (Some (encode s)) le archs = []) /\
  (contains s_musl ld = true -> has_nul ld = false -> (le_all le = true \/ In ld (le_existing le)) ->
     musllinux_tags_x lim (Some (encode s)) le archs = map (render3 s_musllinux_) (musl_struct (parse_musl_version_l (le_intmax le) (le_stderr le)) archs)).
Proof. apply musl_end_to_end_x. Qed.
Print Assumptions C16_musl_end_to_end_real.
(* the loader cannot be run => subprocess.run raises (which exception) and _get_musl_version answers None: no tags *)
Theorem C16_musl_loader_exceptions lim exe le archs ld : musl_loader_disk lim exe = Some ld ->
  (has_nul ld = true -> run_loader le ld = LValueError /\ musllinux_tags_x lim exe le archs = []) /\
  (has_nul ld = false -> le_all le = false -> ~ In ld (le_existing le) ->
     run_loader le ld = LFileNotFound /\ musllinux_tags_x lim exe le archs = []).
Proof. apply musl_x_unrunnable. Qed.
Print Assumptions C16_musl_loader_exceptions.
(* the shape of every result of the MODEL: for any executable bytes, file limits, loader list and loader output, musllinux_tags_x is
   either empty or exactly the enumeration musllinux_<M>_<k>_<arch>, k = m .. 0 per architecture, of one version.  (The name is kept;
   a Gallina function cannot raise, so this theorem does NOT by itself say that the code never raises: that claim rests on the
   always-generated law law.p.noraise and on the model-compared streams, where an escaping exception shows as !EXC:... against a
   list; the 5000-digit banner that used to escape as ValueError is generated there since 71d4b23.) *)
Theorem C16_musl_never_raises lim exe le archs :
  musllinux_tags_x lim exe le archs = [] \/
  exists M m, musllinux_tags_x lim exe le archs = map (render3 s_musllinux_) (musl_struct (Some (M, m)) archs).
Proof. apply musl_x_total. Qed.
Print Assumptions C16_musl_never_raises.
(* 21c. when the loader runs, the file stays below the limits and the version strings are ASCII within int()'s digit limit, the
        pipeline the run executes is the oracle model of 8. and 12. (third conjunct: definitional) *)
Theorem C16_musl_agrees_with_oracle is32 plat e lim le archs :
  musl_loader_disk lim (m_exe e) = musl_loader (m_exe e) ->
  (forall ld, musl_loader (m_exe e) = Some ld -> run_loader le ld = LRan (le_stderr le)) ->
  parse_musl_version_l (le_intmax le) (le_stderr le) = parse_musl_version (le_stderr le) ->
  get_glibc_version_l (le_intmax le) (m_confstr e) (m_ctypes e) = get_glibc_version (m_confstr e) (m_ctypes e) ->
  musllinux_tags_x lim (m_exe e) le archs = musllinux_tags (m_exe e) (le_stderr le) archs /\
  linux_platforms_x is32 plat e lim le = linux_platforms is32 plat e (le_stderr le) /\
  musl_loader_disk mem_limits (m_exe e) = musl_loader (m_exe e).
Proof. intros A R P G. split; [now apply musl_x_agrees|]. split; [now apply linux_x_agrees | apply musl_loader_mem]. Qed.
Print Assumptions C16_musl_agrees_with_oracle.

(* ------------------------------------------------------------------ libc version strings, completely *)
(* 22. the parsers of PlatModel (no digit limit - finding D10 - and ASCII digits): parse_glibc_version accepts exactly
       <digits> "." <digits> <rest>  (rest not starting with a digit) and returns the decimal values (leading zeros allowed);
       parse_musl_version accepts exactly the outputs whose first non-blank stripped line starts with "musl" and whose second is
       "Version " + such a version.  16./17. are instances.  These are the code's parsers only inside int()'s digit limit and, for
       musl, on ASCII digits; what the code does in general (and what the correspondence run executes) is 22b. *)
Theorem C16_glibc_string_iff s M m :
  (parse_glibc_version s = Some (M, m) <-> version_shape s M m) /\
  (parse_glibc_version s = None <-> ~ exists M m, version_shape s M m).
Proof. split; [apply parse_glibc_iff | apply parse_glibc_none_iff]. Qed.
Print Assumptions C16_glibc_string_iff.
Theorem C16_musl_string_iff output M m :
  parse_musl_version output = Some (M, m) <->
  exists l0 l1 more v, nonblank_lines output = l0 :: l1 :: more /\ firstn 4 l0 = s_musl /\ l1 = s_Version_ ++ v /\ version_shape v M m.
Proof. apply parse_musl_iff. Qed.
Print Assumptions C16_musl_string_iff.

(* 22b. the parsers as the code has them now (PlatLoader: parse_glibc_version_l / parse_musl_version_l, run with lim = 4300 =
        sys.get_int_max_str_digits()): a digit run longer than the limit makes the string unreadable (int() raises ValueError, caught
        since 71d4b23); the musl regex class backslash-d and int() take every Unicode decimal digit, the glibc class [0-9] only ASCII.
        A string no longer than the limit is read as in 22. *)
Theorem C16_version_strings_exact lim s output M m :
  (parse_glibc_version_l lim s = Some (M, m) <-> version_shape_l is_digit lim s M m) /\
  ((length s <= lim)%nat -> parse_glibc_version_l lim s = parse_glibc_version s) /\
  (parse_glibc_version s = Some (M, m) -> parse_glibc_version_l lim s = None \/ parse_glibc_version_l lim s = Some (M, m)) /\
  (parse_musl_version_l lim output = Some (M, m) <->
   exists l0 l1 more v, nonblank_lines output = l0 :: l1 :: more /\ firstn 4 l0 = s_musl /\ l1 = s_Version_ ++ v /\ version_shape_l is_ud lim v M m).
Proof.
  split; [apply parse_glibc_l_spec|]. split; [apply parse_glibc_l_short|]. split; [apply parse_glibc_l_too_long | apply parse_musl_l_iff].
Qed.
Print Assumptions C16_version_strings_exact.

(* ------------------------------------------------------------------ the text of the statement vs the code *)
(* 23. where the code departs from the text (each also a law on the real code, harness/props/c16.py, and a recorded finding):
       the floor is chosen per list, not per architecture (D27) - it is the text's floor for every list of one floor class;
       the superset clause fails across glibc majors above the assumed last minor and below major 2 (D42), and for iOS exactly
       when the older minor exceeds 9 (D43); a repeated architecture repeats every tag. *)
Theorem C16_mixed_list_floor :
  arch_floor s_s390x = 17%nat /\
  In (MT false 2 16 s_s390x) (many_spec [s_s390x; s_x86_64] 2 19 None) /\ In (MT true 2 5 s_s390x) (many_spec [s_s390x; s_x86_64] 2 19 None).
Proof. exact mixed_list_floor. Qed.
Print Assumptions C16_mixed_list_floor.
Theorem C16_homogeneous_floor archs M m pm k b ar :
  (forall a, In a archs -> arch_floor a = arch_floor ar) -> In (MT k 2 b ar) (many_spec archs M m pm) -> (arch_floor ar <= b)%nat.
Proof. apply homogeneous_floor. Qed.
Print Assumptions C16_homogeneous_floor.
Theorem C16_cross_major_superset_fails :
  In (MT false 2 51 s_x86_64) (many_spec [s_x86_64] 2 51 None) /\ ~ In (MT false 2 51 s_x86_64) (many_spec [s_x86_64] 3 0 None) /\
  In (MT false 1 3 s_x86_64) (many_spec [s_x86_64] 1 3 None) /\ ~ In (MT false 1 3 s_x86_64) (many_spec [s_x86_64] 2 17 None).
Proof. exact cross_major_superset_fails. Qed.
Print Assumptions C16_cross_major_superset_fails.
Theorem C16_ios_superset_iff M m M' m' ma : (12 <= M)%nat -> (12 <= M')%nat ->
  (incl (ios_struct (M, m) ma) (ios_struct (M', m') ma) <-> ((M = M' /\ m <= m') \/ (M < M' /\ m <= 9))%nat).
Proof. apply ios_superset_iff. Qed.
Print Assumptions C16_ios_superset_iff.
Theorem C16_ios_minor10_superset_fails ma :
  In (13, 10, dash_to_us ma)%nat (ios_struct (13, 10)%nat ma) /\ ~ In (13, 10, dash_to_us ma)%nat (ios_struct (14, 0)%nat ma).
Proof. apply ios_minor10_superset_fails. Qed.
Print Assumptions C16_ios_minor10_superset_fails.
Theorem C16_repeated_arch_repeats :
  ~ NoDup (many_spec [s_aarch64; s_aarch64] 2 18 None) /\ ~ NoDup (musl_struct (Some (1, 2)%nat) [s_aarch64; s_aarch64]).
Proof. exact repeated_arch_repeats. Qed.
Print Assumptions C16_repeated_arch_repeats.

(* ------------------------------------------------------------------ memoised probes across calls (also C20) *)
(* 24. the memo of _get_musl_version(executable) without a size bound (run_keyed): every call answers what the FIRST call with that
       path probed; if a path always gets the same uncached answer memoisation is invisible; different paths do not share an answer;
       a None answer (also the one of a loader that could not be run) is stored like any other (definitional).  The code's memo is
       functools.lru_cache with 128 entries: 24b ties these statements to what the run executes, for at most 128 paths in play. *)
Theorem C16_keyed_probe_cache l :
  (forall i k now, nth_error l i = Some (k, now) ->
     exists v, nth_error (run_keyed [] l) i = Some v /\ first_for k (firstn (S i) l) = Some v) /\
  ((forall i j k a b, nth_error l i = Some (k, a) -> nth_error l j = Some (k, b) -> a = b) -> run_keyed [] l = map snd l) /\
  (forall k1 k2 a b, k1 <> k2 -> run_keyed [] [(k1, a); (k2, b); (k1, b)] = [a; b; a]) /\
  (forall c k, cache_get k c = None -> cached_unb c k None = ((k, None) :: c, None) /\ cached_musl c k None = (firstn cache_cap ((k, None) :: c), None)).
Proof.
  split; [intros; eapply keyed_first_probe; eauto|]. split; [apply keyed_transparent|]. split; [apply keyed_not_shared | apply none_is_cached].
Qed.
Print Assumptions C16_keyed_probe_cache.
(* 24b. the battery the correspondence run executes (Run/RunPlat.v p.probes: run_steps): its musl column IS the bounded memo run_lru
        (lru_cache: a hit refreshes the entry, a miss evicts the least recently used beyond 128 entries) over the steps' (executable
        path, uncached answer) pairs; with at most 128 different paths in play run_lru answers like run_keyed, so 24. is about what is
        run; with more, the first answer can be forgotten (non-vacuity check below: 129 other paths in between). *)
Theorem C16_probe_cache_is_run archs sts s l K :
  map snd (run_steps archs s sts) = map (fun v => musl_render v archs) (run_lru (ps_musl s) (map probe_of sts)) /\
  ((length K <= cache_cap)%nat -> incl (map fst l) K -> run_lru [] l = run_keyed [] l).
Proof. split; [apply run_steps_musl_column | apply lru_is_keyed]. Qed.
Print Assumptions C16_probe_cache_is_run.
(* 24c. one step: from empty memos it is the uncached answer; the glibc cell (the one-cell memo of 18.) is consulted only when the ABI
        check passes *)
Theorem C16_probe_steps archs s st :
  snd (step_probes archs pstate0 st) =
    (manylinux_tags_l (le_intmax (st_le st)) (st_menv st) archs, musllinux_tags_x (st_lim st) (m_exe (st_menv st)) (st_le st) archs) /\
  ps_glibc (fst (step_probes archs s st)) =
    (if have_compatible_abi (m_exe (st_menv st)) archs
     then fst (cached_probe (ps_glibc s) (get_glibc_version_l (le_intmax (st_le st)) (m_confstr (st_menv st)) (m_ctypes (st_menv st))))
     else ps_glibc s).
Proof. split; [apply step_fresh | apply step_glibc_cell]. Qed.
Print Assumptions C16_probe_steps.

(* non-vacuity of 19.-24. (closed boolean computations on the example image of C16_nonvacuous_elf and variants of it) *)
Definition ex_nul_spec : elf_spec :=
  {| s_is64 := true; s_big := false; s_pad := [1]; s_type := 3; s_machine := 62; s_version := 1; s_entry := 4096; s_shoff := 0;
     s_flags := 0; s_ehsize := 64; s_phdrs := [[3; 4; 114; 114; 114; 9; 9; 1]]; s_payload := [120; 0; 109; 117; 115; 108; 0; 121; 0] |}.
Definition ex_banner : list N := s_musl ++ [32; 108; 105; 98; 99; 10] ++ s_Version_ ++ [49; 46; 50; 46; 51; 10].
Definition res_eqb (x y : list (list N)) : bool := Nat.eqb (length x) (length y) && forallb (fun p => streq (fst p) (snd p)) (combine x y).
Definition C16_round2_check : bool :=
  let lim := {| seek_max := 281474976710656; read_max := 281474976710656 |} in
  let le_all_ok := {| le_all := true; le_existing := []; le_stderr := ex_banner; le_intmax := default_intmax |} in
  let le_none := {| le_all := false; le_existing := []; le_stderr := ex_banner; le_intmax := default_intmax |} in
  (* the good image: three tags musllinux_1_2 .. 1_0; the loader missing, or a NUL inside the path: no tags *)
  res_eqb (musllinux_tags_x lim (Some (encode ex_spec)) le_all_ok [s_x86_64])
          (map (render3 s_musllinux_) [(1, 2, s_x86_64); (1, 1, s_x86_64); (1, 0, s_x86_64)]%nat) &&
  res_eqb (musllinux_tags_x lim (Some (encode ex_spec)) le_none [s_x86_64]) [] &&
  match run_loader le_none (firstn 24 ex_payload) with LFileNotFound => true | _ => false end &&
  res_eqb (musllinux_tags_x lim (Some (encode ex_nul_spec)) le_all_ok [s_x86_64]) [] &&
  match musl_loader_disk lim (Some (encode ex_nul_spec)) with Some ld => has_nul ld | None => false end &&
  (* the keyed memo: path A probed first with 1.2, later the same path with another loader output still answers 1.2; path B is separate *)
  match run_keyed [] [([65], Some (1, 2)%nat); ([66], None); ([65], Some (1, 5)%nat)] with
  | [Some (1, 2)%nat; None; Some (1, 2)%nat] => true | _ => false end &&
  match parse_glibc_version [48; 50; 46; 48; 49; 55; 45; 120] with Some (2, 17)%nat => true | _ => false end &&
  match parse_glibc_version [50; 46] with None => true | _ => false end &&
  (* 20.: a PT_INTERP entry whose size the file cannot serve is ELFInvalid on disk and a path in memory *)
  match interpreter_disk {| seek_max := 281474976710656; read_max := 16 |} (encode ex_spec) (elf_of ex_spec), interpreter (encode ex_spec) (elf_of ex_spec) with
  | IInvalid, ISome _ => true | _, _ => false end &&
  (* 21c: for ex_spec the hypotheses hold and both sides agree *)
  res_eqb (musllinux_tags_x mem_limits (Some (encode ex_spec)) le_all_ok [s_x86_64]) (musllinux_tags (Some (encode ex_spec)) ex_banner [s_x86_64]) &&
  (* 22b: 5000 digits are unreadable for the code's parsers (the unlimited ones read them: C16_glibc_string), 4300 are read; ARABIC-INDIC digits count for musl only *)
  match parse_glibc_version_l default_intmax (repeat 57 5000 ++ [46; 49]) with None => true | _ => false end &&
  match parse_glibc_version_l default_intmax (repeat 48 4299 ++ [50; 46; 49]) with Some (2, 1)%nat => true | _ => false end &&
  match parse_musl_version_l default_intmax (s_musl ++ [10] ++ s_Version_ ++ [1633; 46; 1634; 10]) with Some (1, 2)%nat => true | _ => false end &&
  match parse_musl_version (s_musl ++ [10] ++ s_Version_ ++ [1633; 46; 1634; 10]) with None => true | _ => false end &&
  match parse_glibc_version_l default_intmax [1633; 46; 1634] with None => true | _ => false end &&
  (* 24b: path [0] probed first (1.2); 129 other paths; path [0] again with 1.5: the bounded memo has forgotten, the unbounded has not *)
  (let others := map (fun n => ([N.of_nat (S n)], None)) (seq 0 129) in
   let l := ([0], Some (1, 2)%nat) :: others ++ [([0], Some (1, 5)%nat)] in
   match last (run_lru [] l) None, last (run_keyed [] l) None with Some (1, 5)%nat, Some (1, 2)%nat => true | _, _ => false end) &&
  (* 24c: a fresh step on ex_spec *)
  res_eqb (snd (snd (step_probes [s_x86_64] pstate0 {| st_key := [65]; st_menv := {| m_confstr := CNone; m_ctypes := TNoModule; m_exe := Some (encode ex_spec); m_policy := None |};
                                                        st_lim := mem_limits; st_le := le_all_ok |})))
          (map (render3 s_musllinux_) [(1, 2, s_x86_64); (1, 1, s_x86_64); (1, 0, s_x86_64)]%nat).
Example C16_round2_nonvacuous : C16_round2_check = true.
Proof. vm_compute. reflexivity. Qed.

(* non-vacuity of 19.: a table with stride 64 (8 bytes of padding behind each 56-byte entry) at offset 58 of a hand-laid 64-bit LSB
   image satisfies table_at, and the interpreter is the one of its PT_INTERP entry *)
Definition pad8 : list N := repeat 170 8.
Definition ex_strided : list N :=
  magic ++ [2; 1] ++ repeat 0 10 ++ pack false (e_sizes true) [3; 62; 1; 0; 58; 0; 0; 64; 64; 2] ++
  pack false (p_sizes true) [1; 5; 0; 0; 0; 200; 200; 4096] ++ pad8 ++ pack false (p_sizes true) [3; 4; 186; 0; 0; 5; 5; 1] ++ pad8 ++ [109; 117; 115; 108; 0].
Example C16_any_table_witness :
  table_at ex_strided true false 58 64 0 [[1; 5; 0; 0; 0; 200; 200; 4096]; [3; 4; 186; 0; 0; 5; 5; 1]] /\
  (match parse_header ex_strided with
   | Ok e => (e_phentsize e =? 64) && (e_phoff e =? 58) && (e_phnum e =? 2) && match interpreter ex_strided e with ISome p => bytes_eqb p [109; 117; 115; 108] | _ => false end
   | Invalid => false end) = true.
Proof.
  split; [|vm_compute; reflexivity]. unfold table_at. cbn [table_within].
  split; [vm_compute; reflexivity|]. split; [vm_compute; repeat split|]. split; [vm_compute; reflexivity|]. intros _.
  split; [vm_compute; reflexivity|]. split; [vm_compute; repeat split|]. split; [vm_compute; reflexivity|]. intros H. exfalso. apply H. reflexivity.
Qed.
