(* C16  Platform tag sequences match the platform's real compatibility range.
   Model: PlatModel.v (_manylinux.platform_tags with _have_compatible_abi, the glibc probes, _is_compatible and the `_manylinux`
   policy module as a parameter; _musllinux; mac_platforms/_mac_binary_formats; ios_platforms; _linux_platforms), ElfFile.v
   (ELFFile.__init__/.interpreter over an in-memory file, struct codec in Elf.v, an ELF encoder).
   Spec: many_versions/many_spec (PlatProofs.v) - the descending version list and what each version contributes.
   Tags are structured values (kind, major, minor, arch/format) spelled by render_mtag / render3; the spelling is injective (13.).
   Statements only; proofs are in Plat/PlatProofs.v and Elf/ElfProofs.v. *)
From Coq Require Import List Arith NArith Bool Lia Sorted.
Import ListNotations.
Require Import Elf ElfFile ElfProofs VParse VDec Tags TagsLit TagsModel TagsProofs PlatLit PlatModel PlatProofs.
Open Scope N_scope.

(* ------------------------------------------------------------------ manylinux *)
(* 1. exact sequence: for each architecture in the caller's order, for each glibc version of many_versions (2.), the PEP 600 tag
      and - immediately after it - its legacy alias when the version is 2.17 / 2.12 / 2.5, each only if the policy module does
      not veto it (emit_spec).  The glibc comparison inside _is_compatible never fires (nothing newer is ever tried). *)
Theorem C16_manylinux_exact e archs M m :
  have_compatible_abi (m_exe e) archs = true -> get_glibc_version (m_confstr e) (m_ctypes e) = Some (M, m) ->
  manylinux_tags e archs = map render_mtag (many_spec archs M m (m_policy e)).
Proof. intros H1 H2. unfold manylinux_tags. rewrite H1, H2. now rewrite many_exact. Qed.
Print Assumptions C16_manylinux_exact.
Theorem C16_manylinux_emit pm arch v :
  emit_spec pm arch v =
  if policy pm arch (fst v) (snd v)
  then MT false (fst v) (snd v) arch :: (match legacy_name (fst v) (snd v) with Some _ => [MT true (fst v) (snd v) arch] | None => [] end)
  else [].
Proof. reflexivity. Qed.
Print Assumptions C16_manylinux_emit.

(* 2. the versions: newest first (strictly descending), from the running glibc G = (M, m) down to the floor of major 2
      (too_old + 1), lower majors down to 2 starting from minor 50; floor 2.5 iff x86_64 or i686 is in the list, else 2.17 *)
Theorem C16_manylinux_versions t M m :
  StronglySorted ver_gt (many_versions t M m) /\
  forall a b, In (a, b) (many_versions t M m) <->
    (a = M /\ min_minor t a <= b <= m)%nat \/ (2 <= a < M /\ min_minor t a <= b <= last_glibc_minor)%nat.
Proof. split; [apply many_versions_sorted | intros; apply in_many_versions]. Qed.
Print Assumptions C16_manylinux_versions.
Theorem C16_manylinux_floor archs :
  (too_old_minor archs = 4%nat /\ (In s_x86_64 archs \/ In s_i686 archs)) \/
  (too_old_minor archs = 16%nat /\ ~ In s_x86_64 archs /\ ~ In s_i686 archs).
Proof. exact (too_old_cases archs). Qed.
Print Assumptions C16_manylinux_floor.

(* 3. nothing for an incompatible ABI, nothing without glibc *)
Theorem C16_manylinux_incompatible e archs :
  have_compatible_abi (m_exe e) archs = false \/ get_glibc_version (m_confstr e) (m_ctypes e) = None -> manylinux_tags e archs = [].
Proof. intros [H|H]; unfold manylinux_tags; rewrite H; [reflexivity | now rewrite many_no_glibc]. Qed.
Print Assumptions C16_manylinux_incompatible.

(* 3b. the ABI decision: from the ELF header of the running executable for armv7l / i686 lists (here on any image the encoder
       produces), otherwise membership in the fixed architecture set; and the three kinds of `_manylinux` policy module *)
Theorem C16_abi_probe s exe archs : wf_spec s ->
  is_linux_armhf (parse_exe (Some (encode s))) =
    (negb (s_is64 s) && negb (s_big s) && (s_machine s =? 40) && (N.land (s_flags s) 4278190080 =? 83886080) && (N.land (s_flags s) 1024 =? 1024)) /\
  is_linux_i686 (parse_exe (Some (encode s))) = (negb (s_is64 s) && negb (s_big s) && (s_machine s =? 3)) /\
  (mem s_armv7l archs = false -> mem s_i686 archs = false -> have_compatible_abi exe archs = existsb (fun a => mem a allowed_archs) archs).
Proof. intros W. destruct (abi_probe_encoded s W) as [H1 H2]. split; [exact H1|]. split; [exact H2 | apply abi_without_probe]. Qed.
Print Assumptions C16_abi_probe.
Theorem C16_policy_kinds arch M m :
  policy None arch M m = true /\
  (forall f a1 a2 a3, policy (Some {| p_func := Some f; p_1 := a1; p_2010 := a2; p_2014 := a3 |}) arch M m =
                      match f M m arch with FNone => true | FBool b => b end) /\
  (forall a1 a2 a3, policy (Some {| p_func := None; p_1 := a1; p_2010 := a2; p_2014 := a3 |}) arch M m =
                    if (M =? 2)%nat && (m =? 5)%nat then attr_or_true a1
                    else if (M =? 2)%nat && (m =? 12)%nat then attr_or_true a2
                    else if (M =? 2)%nat && (m =? 17)%nat then attr_or_true a3 else true).
Proof. exact (policy_kinds arch M m). Qed.
Print Assumptions C16_policy_kinds.

(* 4. membership: a tag is offered iff its architecture was given, its version is in range, the policy does not veto it, and
      (for an alias) the version has one *)
Theorem C16_manylinux_membership archs M m pm k a b ar :
  In (MT k a b ar) (many_spec archs M m pm) <->
  In ar archs /\ In (a, b) (many_versions (too_old_minor archs) M m) /\ policy pm ar a b = true /\ (k = true -> legacy_name a b <> None).
Proof. apply in_many_spec. Qed.
Print Assumptions C16_manylinux_membership.

(* 5. nothing newer than the running system; nothing of major 2 at or below the floor *)
Theorem C16_manylinux_nothing_newer archs M m pm k a b ar : In (MT k a b ar) (many_spec archs M m pm) -> ver_le (a, b) (M, m).
Proof. apply many_nothing_newer. Qed.
Print Assumptions C16_manylinux_nothing_newer.
Theorem C16_manylinux_above_floor archs M m pm k b ar : In (MT k 2 b ar) (many_spec archs M m pm) -> (too_old_minor archs < b)%nat.
Proof. apply many_floor. Qed.
Print Assumptions C16_manylinux_above_floor.

(* 6. no duplicates, as structured tags and as the strings handed out *)
Theorem C16_manylinux_nodup archs M m pm : NoDup archs ->
  NoDup (many_spec archs M m pm) /\ NoDup (map render_mtag (many_spec archs M m pm)).
Proof. intros H. split; [now apply many_spec_nodup | now apply many_strings_nodup]. Qed.
Print Assumptions C16_manylinux_nodup.

(* 7. a newer glibc offers a superset (same architectures, same policy): same major, or a higher major when the older system
      is a glibc >= 2 whose minor does not exceed the assumed last minor (50) *)
Theorem C16_manylinux_monotone archs M m M' m' pm : ver_le (M, m) (M', m') -> (M < M' -> 2 <= M /\ m <= last_glibc_minor)%nat ->
  incl (many_spec archs M m pm) (many_spec archs M' m' pm).
Proof. apply many_monotone. Qed.
Print Assumptions C16_manylinux_monotone.

(* ------------------------------------------------------------------ musllinux *)
(* 8. for each architecture, musllinux_<M>_<k>_<arch> for k = m .. 0; nothing newer; NoDup; monotone in the minor *)
Theorem C16_musl_exact M m archs :
  musl_struct (Some (M, m)) archs = flat_map (fun arch => map (fun mi => (M, mi, arch)) (down (S m) 0)) archs /\
  musl_struct None archs = [] /\
  (forall a b ar, In (a, b, ar) (musl_struct (Some (M, m)) archs) <-> a = M /\ (b <= m)%nat /\ In ar archs).
Proof. split; [reflexivity|]. split; [reflexivity|]. intros. apply in_musl. Qed.
Print Assumptions C16_musl_exact.
Theorem C16_musl_nodup_monotone v archs M m m' :
  (NoDup archs -> NoDup (musl_struct v archs) /\ NoDup (map (render3 s_musllinux_) (musl_struct v archs))) /\
  ((m <= m')%nat -> incl (musl_struct (Some (M, m)) archs) (musl_struct (Some (M, m')) archs)).
Proof. split; [intros H; split; [|apply render3_nodup]; now apply musl_nodup | apply musl_monotone]. Qed.
Print Assumptions C16_musl_nodup_monotone.

(* ------------------------------------------------------------------ macOS *)
(* 9. exact sequences per regime: 10.m -> every 10.k, k = m .. 0, with the binary formats valid for (10, k);
      >= 11 -> every M'.0, M' = M .. 11, then 10.16 .. 10.4 (formats of x86_64, or universal2 alone for other CPUs);
      below 10 -> nothing *)
Theorem C16_mac_exact M m arch :
  mac_struct (10, m)%nat arch = flat_map (fun mi => mac_block (10, mi)%nat arch) (down (S m) 0) /\
  ((11 <= M)%nat -> mac_struct (M, m) arch = flat_map (fun Mj => mac_block (Mj, 0)%nat arch) (down (S M) 11) ++ mac_legacy_part arch) /\
  ((M < 10)%nat -> mac_struct (M, m) arch = []).
Proof. split; [apply mac_exact_10|]. split; [apply mac_exact_11 | apply mac_exact_old]. Qed.
Print Assumptions C16_mac_exact.
(* 9b. _mac_binary_formats as a table: the formats valid for each CPU architecture and version *)
Theorem C16_mac_formats v :
  mac_binary_formats v s_x86_64 = (if ver_lt v (10, 4)%nat then [] else [s_x86_64; s_intel; s_fat64; s_fat32; s_universal2; s_universal]) /\
  mac_binary_formats v s_i386 = (if ver_lt v (10, 4)%nat then [] else [s_i386; s_intel; s_fat32; s_fat; s_universal]) /\
  mac_binary_formats v s_ppc64 = (if ver_lt (10, 5)%nat v || ver_lt v (10, 4)%nat then [] else [s_ppc64; s_fat64; s_universal]) /\
  mac_binary_formats v s_ppc = (if ver_lt (10, 6)%nat v then [] else [s_ppc; s_fat32; s_fat; s_universal]) /\
  mac_binary_formats v s_arm64 = [s_arm64; s_universal2] /\
  mac_binary_formats v s_intel = [s_intel; s_universal] /\
  (forall a, ~ In a [s_x86_64; s_i386; s_ppc64; s_ppc; s_arm64; s_intel] -> mac_binary_formats v a = [a]).
Proof. exact (mac_formats_table v). Qed.
Print Assumptions C16_mac_formats.
Theorem C16_mac_nothing_newer M m arch a b f : In (a, b, f) (mac_struct (M, m) arch) -> ver_le (a, b) (M, m).
Proof. apply mac_nothing_newer. Qed.
Print Assumptions C16_mac_nothing_newer.
Theorem C16_mac_nodup v arch : NoDup (mac_struct v arch) /\ NoDup (mac_platforms v arch).
Proof. split; [apply mac_nodup | apply render3_nodup, mac_nodup]. Qed.
Print Assumptions C16_mac_nodup.
Theorem C16_mac_monotone M m M' m' arch :
  ((m <= m')%nat -> incl (mac_struct (10, m)%nat arch) (mac_struct (10, m')%nat arch)) /\
  ((11 <= M <= M')%nat -> incl (mac_struct (M, m) arch) (mac_struct (M', m') arch)).
Proof. split; [apply mac_monotone_10 | apply mac_monotone_11]. Qed.
Print Assumptions C16_mac_monotone.

(* ------------------------------------------------------------------ iOS *)
(* 10. from the running M.m: M.m .. M.0, then every older major down to 12 with minors 9 .. 0; nothing below 12.0 *)
Theorem C16_ios_exact M m ma :
  ((12 <= M)%nat -> ios_struct (M, m) ma =
     map (fun mi => (M, mi, dash_to_us ma)) (down (S m) 0) ++
     flat_map (fun Mj => map (fun mi => (Mj, mi, dash_to_us ma)) (down 10 0)) (down M 12)) /\
  ((M < 12)%nat -> ios_struct (M, m) ma = []).
Proof. split; [apply ios_exact | apply ios_below_floor]. Qed.
Print Assumptions C16_ios_exact.
Theorem C16_ios_order_newer_nodup v ma :
  StronglySorted ver_gt (map (fun t : nat * nat * list N => fst t) (ios_struct v ma)) /\
  (forall a b x, In (a, b, x) (ios_struct v ma) -> ver_le (a, b) v /\ (12 <= a)%nat) /\
  NoDup (ios_struct v ma) /\ NoDup (ios_platforms v ma).
Proof.
  split; [apply ios_sorted|]. split; [destruct v; intros; eapply ios_nothing_newer; eauto|].
  split; [apply ios_nodup | apply render3_nodup, ios_nodup].
Qed.
Print Assumptions C16_ios_order_newer_nodup.
Theorem C16_ios_monotone M m M' m' ma : ((M = M' /\ m <= m') \/ (M < M' /\ m <= 9))%nat ->
  incl (ios_struct (M, m) ma) (ios_struct (M', m') ma).
Proof. apply ios_monotone. Qed.
Print Assumptions C16_ios_monotone.

(* ------------------------------------------------------------------ spelling *)
(* 11. the text of a tag determines the tag: <prefix><major>_<minor>_<rest> and the manylinux spellings incl. legacy aliases *)
Theorem C16_spelling_injective :
  (forall pfx t t', render3 pfx t = render3 pfx t' -> t = t') /\
  (forall t t', wf_mtag t -> wf_mtag t' -> render_mtag t = render_mtag t' -> t = t').
Proof. split; [apply render3_inj | apply render_mtag_inj]. Qed.
Print Assumptions C16_spelling_injective.

(* ------------------------------------------------------------------ Linux architecture remapping *)
(* 12. _linux_platforms: manylinux, then musllinux, then linux_<arch>; armv8l also offers armv7l; a 32-bit interpreter on
       x86_64 / aarch64 is i686 / armv8l; a non-linux platform string is passed through *)
Theorem C16_linux_platforms is32 plat e stderr :
  (starts_with s_linux_ (normalize_string plat) = false -> linux_platforms is32 plat e stderr = [normalize_string plat]) /\
  (forall arch, normalize_string plat = s_linux_ ++ arch ->
     linux_platforms is32 plat e stderr =
     let archs := linux_archs (if is32 then remap32 arch else arch) in
     manylinux_tags e archs ++ musllinux_tags (m_exe e) stderr archs ++ map (fun a => s_linux_ ++ a) archs).
Proof. split; [apply linux_not_linux | intros; now apply linux_shape]. Qed.
Print Assumptions C16_linux_platforms.

(* ------------------------------------------------------------------ ELF *)
(* 13. header: for each of the four class/endianness layouts, any file that holds the magic, the class and data bytes and the
       packed header fields at the offsets the ELF specification prescribes decodes to exactly those fields *)
Theorem C16_elf_header_decodes f is64 big pad hdr :
  length pad = 10%nat ->
  read_at f 0 16 = magic ++ [cap_of is64; enc_of big] ++ pad ->
  fits (e_sizes is64) hdr ->
  read_at f 16 (total (e_sizes is64)) = pack big (e_sizes is64) hdr ->
  parse_header f = Ok {| capacity := cap_of is64; encoding := enc_of big; machine := nth 1 hdr 0; flags := nth 6 hdr 0;
                         e_phoff := nth 4 hdr 0; e_phentsize := nth 8 hdr 0; e_phnum := nth 9 hdr 0 |}.
Proof. apply header_decodes. Qed.
Print Assumptions C16_elf_header_decodes.
(* the struct codec behind it: unpack (pack values) = values for both endiannesses and any field-size list *)
Theorem C16_struct_codec big sizes vals : fits sizes vals -> unpack big sizes (pack big sizes vals) = Some vals.
Proof. apply unpack_pack. Qed.
Print Assumptions C16_struct_codec.

(* 14. program-header scan: an entry whose packed fields are in the file is decoded to them: PT_INTERP ends the scan with the
       path at (p_offset, p_filesz) (ELFInvalid when either cannot be sought/read), any other type moves on; an entry that is
       unreadable (short read) or beyond the seekable range is skipped *)
Theorem C16_elf_scan_entry f is64 big phoff entsize i more ph :
  phoff + entsize * i < ssize_limit -> fits (p_sizes is64) ph ->
  read_at f (phoff + entsize * i) (total (p_sizes is64)) = pack big (p_sizes is64) ph ->
  scan f is64 big phoff entsize (i :: more) =
  if ph_type is64 ph =? 3 then interp_result f is64 (Some ph) else scan f is64 big phoff entsize more.
Proof. apply scan_step_packed. Qed.
Print Assumptions C16_elf_scan_entry.
Theorem C16_elf_scan_skips f is64 big phoff entsize i more :
  ssize_limit <= phoff + entsize * i \/ (length (read_at f (phoff + entsize * i) (total (p_sizes is64))) < N.to_nat (total (p_sizes is64)))%nat ->
  scan f is64 big phoff entsize (i :: more) = scan f is64 big phoff entsize more.
Proof. apply scan_step_unreadable. Qed.
Print Assumptions C16_elf_scan_skips.

(* 15. decode = what the encoder laid out: every image produced by the encoder (any layout, any header values that fit their
       fields, any program-header table, any payload) decodes to the encoded class, endianness, machine and flags, and
       .interpreter is decided by the first PT_INTERP entry; an entry pointing at the payload yields the payload *)
Theorem C16_elf_decode_encode s : wf_spec s ->
  parse_header (encode s) = Ok (elf_of s) /\
  interpreter (encode s) (elf_of s) = interp_result (encode s) (s_is64 s) (first_interp (s_is64 s) (s_phdrs s)) /\
  read_at (encode s) (payload_off s) (flen (s_payload s)) = s_payload s.
Proof. intros H. split; [now apply encode_header|]. split; [now apply encode_interpreter | now apply payload_read]. Qed.
Print Assumptions C16_elf_decode_encode.
Theorem C16_elf_too_short f : (length f < 16)%nat -> parse_header f = Invalid.
Proof. apply short_file_invalid. Qed.
Print Assumptions C16_elf_too_short.

(* ------------------------------------------------------------------ libc version strings *)
(* 16. glibc: "<major>.<minor><junk>" parses back to (major, minor) for any junk not starting with a digit; the whole probe
       through os.confstr("CS_GNU_LIBC_VERSION") = "<name> <version>"; text without a leading digit is rejected; a missing,
       failing or malformed confstr defers to the ctypes probe *)
Theorem C16_glibc_string M m junk : not_digit_head junk = true ->
  parse_glibc_version (dn M ++ [46] ++ dn m ++ junk) = Some (M, m).
Proof. apply parse_glibc_render. Qed.
Print Assumptions C16_glibc_string.
Theorem C16_glibc_probe name M m junk t : ws_free name -> name <> [] -> ws_free junk -> not_digit_head junk = true ->
  get_glibc_version (CStr (name ++ [32] ++ dn M ++ [46] ++ dn m ++ junk)) t = Some (M, m).
Proof. apply glibc_probe. Qed.
Print Assumptions C16_glibc_probe.
Theorem C16_glibc_reject_fallback :
  (forall s, not_digit_head s = true -> parse_glibc_version s = None) /\
  (forall c t, glibc_confstr c = None -> glibc_version_string c t = glibc_ctypes t) /\
  glibc_confstr CNone = None /\ glibc_confstr CRaise = None /\
  (forall s, (forall a b, wsplit s <> [a; b]) -> glibc_confstr (CStr s) = None).
Proof. split; [apply parse_glibc_reject|]. split; [apply glibc_fallback | apply glibc_confstr_fails]. Qed.
Print Assumptions C16_glibc_reject_fallback.
(* 17. musl: the loader banner  musl<a> NEWLINE Version <major>.<minor><sfx> [NEWLINE ...]  parses back to (major, minor) *)
Theorem C16_musl_string a M m sfx tail :
  lb_free a -> is_ws (last (s_musl ++ a) 0) = false ->
  lb_free sfx -> not_digit_head sfx = true -> is_ws (last (s_Version_ ++ dn M ++ [46] ++ dn m ++ sfx) 0) = false ->
  (tail = [] \/ exists t, tail = 10 :: t) ->
  parse_musl_version ((s_musl ++ a) ++ [10] ++ (s_Version_ ++ dn M ++ [46] ++ dn m ++ sfx) ++ tail) = Some (M, m).
Proof. apply parse_musl_render. Qed.
Print Assumptions C16_musl_string.

(* ------------------------------------------------------------------ memoised probe *)
(* 18. functools.lru_cache on the libc probe as a one-cell state machine: every call after the first answers what the first
       probed; in an unchanged environment that equals the uncached answers (cache transparent) *)
Theorem C16_cache_transparent e envs n :
  run_probes None (e :: envs) = e :: map (fun _ => e) envs /\ run_probes None (repeat e n) = repeat e n.
Proof. split; [apply probes_memoised | apply probes_transparent]. Qed.
Print Assumptions C16_cache_transparent.

(* ------------------------------------------------------------------ non-vacuity *)
(* glibc 2.19 on x86_64 without a policy module: 2.19, 2.18, 2.17, manylinux2014, 2.16 ... (alias right after 2.17);
   a 64-bit little-endian image with one PT_LOAD and one PT_INTERP entry pointing at the payload "/lib/ld-musl-x86_64.so.1\0":
   the encoder's output satisfies wf_spec and decodes to the payload without the NUL *)
Example C16_nonvacuous_manylinux :
  firstn 5 (many_spec [s_x86_64] 2 19 None) =
    [MT false 2 19 s_x86_64; MT false 2 18 s_x86_64; MT false 2 17 s_x86_64; MT true 2 17 s_x86_64; MT false 2 16 s_x86_64] /\
  length (many_spec [s_x86_64] 2 19 None) = 18%nat.
Proof. split; vm_compute; reflexivity. Qed.
Definition ex_payload : list N := [47;108;105;98;47;108;100;45;109;117;115;108;45;120;56;54;95;54;52;46;115;111;46;49;0].
Definition ex_spec : elf_spec :=
  {| s_is64 := true; s_big := false; s_pad := [1]; s_type := 3; s_machine := 62; s_version := 1; s_entry := 4096; s_shoff := 0;
     s_flags := 0; s_ehsize := 64;
     s_phdrs := [[1; 5; 0; 0; 0; 200; 200; 4096]; [3; 4; 170; 170; 170; 25; 25; 1]];
     s_payload := ex_payload |}.
Example C16_nonvacuous_elf :
  wf_spec ex_spec /\ payload_off ex_spec = 170 /\
  interpreter (encode ex_spec) (elf_of ex_spec) = ISome (firstn 24 ex_payload) /\ musl_loader (Some (encode ex_spec)) = Some (firstn 24 ex_payload).
Proof.
  split; [split; [vm_compute; repeat split | repeat constructor; vm_compute; reflexivity]|].
  split; [reflexivity|]. split; vm_compute; reflexivity.
Qed.
