From Coq Require Import List NArith Bool.
Require Import SetsModel.
Theorem C05_stub : truthy None = false. Proof. reflexivity. Qed.
Print Assumptions C05_stub.
