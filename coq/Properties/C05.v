(* C05  SpecifierSet is the conjunction of its specifiers; & is intersection; str round trip.
   Model: SetsModel (string level, mirrors SpecifierSet.__init__/contains/__and__/__str__/__eq__/__len__ and Specifier._canonical_spec
   as they are after the fix: commits); single-specifier semantics from SpecContains.  A frozenset is the list of first occurrences
   under Specifier.__eq__; its iteration order is an arbitrary permutation, so results are proved invariant under Permutation.
   Standing premises, named where used:
     wf_set S / wf_member sp  - no operator method raises on a member; discharged below (theorems C05_wf_...) for everything the constructors
                                accept, through SpecLink.compare_op_total;
     respects l               - members of l that are == as Specifier objects match the same candidates; proved below for every list
                                of constructor-built members (C05_respects_built, from the C03 main theorem and the C10 congruences);
     reparses sp              - str(member) parses back to the member, is stripped and comma-free; proved below for every
                                constructor-accepted specifier whose string has no comma (C05_member_reparses) - only '===' can carry one
                                (C05_comma_only_in_arbitrary), which is known finding D19.
   This file holds statements only; proofs are in Sets/*.v. *)
From Coq Require Import List Arith NArith Bool Lia Permutation.
Import ListNotations.
Require Import S1 VParse Py VMeaning SpecModel SpecParse Prefix SpecContains SortPerm SetModel SetsModel SetsBridge SetsFs SetsParse SetsLaws SetsLink SetsC10 SetsReparse SpecOps VKeyEq.
Require Import Sorted SetsOps SetsEqual SetsC05More SetsSupply.
Open Scope N_scope.

(* 0. the premise wf_member / wf_set holds for every specifier / set the constructors accept *)
Theorem C05_wf_specifier s sp : Specifier s = Some sp -> wf_member sp.
Proof. exact (Specifier_wf_member s sp). Qed.
Print Assumptions C05_wf_specifier.
Theorem C05_wf_set s p S : SpecifierSet s p = Some S -> wf_set S.
Proof. exact (SpecifierSet_wf s p S). Qed.
Print Assumptions C05_wf_set.
Theorem C05_wf_set_of_objects l p : Forall built l -> wf_set (SpecifierSet_of l p).
Proof. exact (SpecifierSet_of_wf l p). Qed.
Print Assumptions C05_wf_set_of_objects.

(* 1. with pre-releases enabled a set matches exactly when every member matches; every member gives an answer *)
Theorem C05_conjunction S item c : wf_set S -> Version item = Some c ->
  set_contains S (Some true) None item = Ans (forallb (fun m => accepts m item) (ms S)) /\
  (forall m, In m (ms S) -> exists b, contains (m_sp m) (m_ov m) (Some true) item = Ans b).
Proof. exact (set_conjunction S item c). Qed.
Print Assumptions C05_conjunction.

Theorem C05_conjunction_text s p S item c : SpecifierSet s p = Some S -> Version item = Some c ->
  set_contains S (Some true) None item = Ans (forallb (fun m => accepts m item) (ms S)) /\
  (forall m, In m (ms S) -> exists b, contains (m_sp m) (m_ov m) (Some true) item = Ans b).
Proof. intros H. exact (set_conjunction S item c (SpecifierSet_wf s p S H)). Qed.
Print Assumptions C05_conjunction_text.

(* 2. the empty set matches everything (every final release whatever the setting) *)
Theorem C05_empty_matches_everything S b inst item c : ms S = [] -> Version item = Some c ->
  set_contains S (Some true) inst item = Ans true /\ (is_prerelease c = false -> set_contains S b inst item = Ans true).
Proof. exact (empty_set_matches_everything S b inst item c). Qed.
Print Assumptions C05_empty_matches_everything.

(* 3. iteration order of the member set is irrelevant, for every call argument and installed flag *)
Theorem C05_perm_invariant S S' arg inst item : Permutation (ms S) (ms S') -> ov S = ov S' -> wf_set S ->
  set_contains S arg inst item = set_contains S' arg inst item.
Proof. exact (contains_perm_invariant S S' arg inst item). Qed.
Print Assumptions C05_perm_invariant.

(* 4. order and duplication of the supplied clauses are irrelevant: the set built from l answers with the conjunction over ALL of l *)
Theorem C05_clause_list l p b inst item c : respects l -> Forall (fun m => wf_member (m_sp m)) l -> Version item = Some c ->
  set_contains (SpecifierSet_of l p) (Some b) inst item = Ans (set_cont b (truthy inst) l c).
Proof. exact (contains_of_clause_list l p b inst item c). Qed.
Print Assumptions C05_clause_list.
Theorem C05_order_dup_irrelevant l l' p p' b inst item :
  (forall m, In m l <-> In m l') -> respects l -> Forall (fun m => wf_member (m_sp m)) l ->
  set_contains (SpecifierSet_of l p) (Some b) inst item = set_contains (SpecifierSet_of l' p') (Some b) inst item.
Proof. exact (clause_order_dup_irrelevant l l' p p' b inst item). Qed.
Print Assumptions C05_order_dup_irrelevant.
(* ... and on texts: same clauses up to order, duplication, spacing and stray commas - both parse, and answer alike *)
Theorem C05_text_order_dup_irrelevant s s' p p' l :
  map_opt Specifier (clauses s) = Some l -> (forall t, In t (clauses s) <-> In t (clauses s')) ->
  respects (map mk_member l) -> Forall wf_member l ->
  exists S S', SpecifierSet s p = Some S /\ SpecifierSet s' p' = Some S' /\
    forall b inst item, set_contains S (Some b) inst item = set_contains S' (Some b) inst item.
Proof. exact (text_order_dup_irrelevant s s' p p' l). Qed.
Print Assumptions C05_text_order_dup_irrelevant.
Theorem C05_text_order_dup_irrelevant_text s s' p p' S :
  SpecifierSet s p = Some S -> (forall t, In t (clauses s) <-> In t (clauses s')) ->
  exists S', SpecifierSet s' p' = Some S' /\
    forall b inst item, set_contains S (Some b) inst item = set_contains S' (Some b) inst item.
Proof. exact (text_order_dup_irrelevant_text s s' p p' S). Qed.
Print Assumptions C05_text_order_dup_irrelevant_text.
(* the premise `respects` holds for every list of members the Specifier constructor built (== specifiers match alike) *)
Theorem C05_equal_specifiers_match_alike sa sb a b c : Specifier sa = Some a -> Specifier sb = Some b ->
  sp_eqb a b = true -> VMeaning.wf_version c -> matches a c = matches b c.
Proof. exact (equal_specifiers_match_alike sa sb a b c). Qed.
Print Assumptions C05_equal_specifiers_match_alike.
Theorem C05_respects_built l : Forall built l -> respects l.
Proof. exact (built_respects l). Qed.
Print Assumptions C05_respects_built.
Theorem C05_respects_literal l : literal l -> respects l.
Proof. exact (respects_of_literal l). Qed.
Print Assumptions C05_respects_literal.

(* 5. spacing and stray commas: the constructor sees a text only through its stripped non-empty pieces *)
Theorem C05_spacing_irrelevant ps qs p :
  Forall (fun x => nochar 44 x = true) ps -> Forall (fun x => nochar 44 x = true) qs ->
  filter nonempty (map py_strip ps) = filter nonempty (map py_strip qs) ->
  SpecifierSet (join_with [44] ps) p = SpecifierSet (join_with [44] qs) p.
Proof. exact (SpecifierSet_layout ps qs p). Qed.
Print Assumptions C05_spacing_irrelevant.
Theorem C05_strip_pad w1 s w2 : all_ws w1 = true -> all_ws w2 = true -> py_strip (w1 ++ s ++ w2) = py_strip s.
Proof. exact (py_strip_pad w1 s w2). Qed.
Print Assumptions C05_strip_pad.

(* 6. a & b matches exactly what both match (explicit setting on the call) *)
Theorem C05_and_is_both A B C b inst item c : set_and A B = Some C -> wf_set A -> wf_set B -> respects (ms A ++ ms B) ->
  Version item = Some c ->
  exists x y, set_contains A (Some b) inst item = Ans x /\ set_contains B (Some b) inst item = Ans y /\
              set_contains C (Some b) inst item = Ans (x && y).
Proof. exact (and_is_both A B C b inst item c). Qed.
Print Assumptions C05_and_is_both.

Theorem C05_and_is_both_text a b pa pb A B C x inst item c : SpecifierSet a pa = Some A -> SpecifierSet b pb = Some B ->
  set_and A B = Some C -> Version item = Some c ->
  exists u v, set_contains A (Some x) inst item = Ans u /\ set_contains B (Some x) inst item = Ans v /\
              set_contains C (Some x) inst item = Ans (u && v).
Proof. exact (and_is_both_text a b pa pb A B C x inst item c). Qed.
Print Assumptions C05_and_is_both_text.

(* 7. & is commutative (same override, equal as sets, same error behaviour) and associative (literally, including the error cell) *)
Theorem C05_and_comm A B : fs_ok (ms A) -> fs_ok (ms B) ->
  match set_and A B, set_and B A with
  | Some C, Some C' => ov C = ov C' /\ set_eqb C C' = true
  | None, None => True
  | _, _ => False
  end.
Proof. exact (and_comm A B). Qed.
Print Assumptions C05_and_comm.
Theorem C05_and_assoc A B C : obind (set_and A B) (fun AB => set_and AB C) = obind (set_and B C) (fun BC => set_and A BC).
Proof. exact (and_assoc A B C). Qed.
Print Assumptions C05_and_assoc.

(* 8. & refuses exactly the contradictory overrides and otherwise carries the explicit one *)
Theorem C05_and_error_iff A B :
  set_and A B = None <-> (ov A = Some true /\ ov B = Some false) \/ (ov A = Some false /\ ov B = Some true).
Proof. exact (and_error_iff A B). Qed.
Print Assumptions C05_and_error_iff.
Theorem C05_override_carried A B C : set_and A B = Some C -> ov C = match ov A with Some x => Some x | None => ov B end.
Proof. exact (and_override_carried A B C). Qed.
Print Assumptions C05_override_carried.

(* 9. a & b is the set parsed from the concatenated clauses (same members, same representatives, same order) *)
Theorem C05_and_is_concat a b pa pb A B : SpecifierSet a pa = Some A -> SpecifierSet b pb = Some B ->
  exists C, SpecifierSet (a ++ 44 :: b) None = Some C /\
            (forall o, SetModel.merge pa pb = Some o -> set_and A B = Some {| ms := ms C; ov := o |}) /\
            (SetModel.merge pa pb = None -> set_and A B = None).
Proof. exact (and_is_concat a b pa pb A B). Qed.
Print Assumptions C05_and_is_concat.
(* what the constructor builds is a frozenset (no two equal members), with the given override, of members without their own override *)
Theorem C05_constructor_invariant s p S : SpecifierSet s p = Some S -> fs_ok (ms S) /\ ov S = p /\ Forall (fun m => m_ov m = None) (ms S).
Proof. exact (SpecifierSet_fs_ok s p S). Qed.
Print Assumptions C05_constructor_invariant.

(* 10. str() does not depend on the iteration order of the member set *)
Theorem C05_str_deterministic S S' : Permutation (ms S) (ms S') -> set_str S = set_str S'.
Proof. exact (str_deterministic S S'). Qed.
Print Assumptions C05_str_deterministic.

(* 11. str() parses back to an equal set with the same string form - outside D19 *)
Theorem C05_str_reparse S p : fs_ok (ms S) -> Forall (fun m => reparses (m_sp m)) (ms S) ->
  exists S', SpecifierSet (set_str S) p = Some S' /\ set_eqb S S' = true /\ ov S' = p /\ set_str S' = set_str S.
Proof. exact (str_reparse S p). Qed.
Print Assumptions C05_str_reparse.
(* ... the premise holds for everything the constructor accepts, the comma apart; so: *)
Theorem C05_member_reparses s sp : Specifier s = Some sp -> nochar 44 (spec_str sp) = true -> reparses sp.
Proof. exact (built_reparses s sp). Qed.
Print Assumptions C05_member_reparses.
Theorem C05_comma_only_in_arbitrary s sp : Specifier s = Some sp -> sp_op sp <> OArb -> nochar 44 (spec_str sp) = true.
Proof. exact (comma_only_in_arbitrary s sp). Qed.
Print Assumptions C05_comma_only_in_arbitrary.
(* sets of constructor-built Specifier objects: str() parses back to an equal set unless an '===' member's text contains a comma *)
Theorem C05_str_reparse_objects S p : fs_ok (ms S) -> Forall built (ms S) -> Forall no_comma_arbitrary (ms S) ->
  exists S', SpecifierSet (set_str S) p = Some S' /\ set_eqb S S' = true /\ ov S' = p /\ set_str S' = set_str S.
Proof. exact (str_reparse_built S p). Qed.
Print Assumptions C05_str_reparse_objects.
(* sets built from a text: no exclusion at all (a piece between two commas contains no comma) *)
Theorem C05_str_reparse_text s p S p' : SpecifierSet s p = Some S ->
  exists S', SpecifierSet (set_str S) p' = Some S' /\ set_eqb S S' = true /\ ov S' = p' /\ set_str S' = set_str S.
Proof. exact (str_reparse_text s p S p'). Qed.
Print Assumptions C05_str_reparse_text.
(* D19: for the member ===a,b the string form does not parse at all, so the exclusion in `reparses` is needed *)
Theorem C05_str_reparse_refuted_D19 :
  Specifier [61;61;61;97;44;98] = Some d19_member /\
  SpecifierSet (set_str (SpecifierSet_of [mk_member d19_member] None)) None = None.
Proof. split; [exact d19_is_a_specifier | exact str_reparse_refuted_D19]. Qed.
Print Assumptions C05_str_reparse_refuted_D19.

(* ================================================================ second round (audit of C05) *)

(* 1'. the conjunction for EVERY way of enabling pre-releases: the call argument, else the set's override, else a member's own default
       (truthy (eff_arg S arg) is the effective setting of the call; C05_enabled_iff spells out the three ways) *)
Theorem C05_conjunction_enabled S arg item c : wf_set S -> Version item = Some c -> truthy (eff_arg S arg) = true ->
  set_contains S arg None item = Ans (forallb (fun m => accepts m item) (ms S)).
Proof. exact (set_conjunction_enabled S arg item c). Qed.
Print Assumptions C05_conjunction_enabled.
Theorem C05_enabled_iff S arg : truthy (eff_arg S arg) = true <->
  arg = Some true \/ (arg = None /\ ov S = Some true) \/ (arg = None /\ ov S = None /\ existsb m_pre (ms S) = true).
Proof. exact (enabled_iff S arg). Qed.
Print Assumptions C05_enabled_iff.
Theorem C05_conjunction_enabled_text s p S arg item c : SpecifierSet s p = Some S -> Version item = Some c -> truthy (eff_arg S arg) = true ->
  set_contains S arg None item = Ans (forallb (fun m => accepts m item) (ms S)).
Proof. intros H. exact (set_conjunction_enabled S arg item c (SpecifierSet_wf s p S H)). Qed.
Print Assumptions C05_conjunction_enabled_text.
Theorem C05_conjunction_enabled_installed S arg item c : wf_set S -> Version item = Some c -> truthy (eff_arg S arg) = true ->
  set_contains S arg (Some true) item = Ans (forallb (fun m => accepts m (if is_prerelease c then base_str c else item)) (ms S)).
Proof. exact (set_conjunction_enabled_installed S arg item c). Qed.
Print Assumptions C05_conjunction_enabled_installed.

(* 4'. order, duplication, spacing of the clauses of a text are irrelevant for ANY call argument (None included): the two sets are ==
       and have the same contains / filter / prereleases.  (Same override p on both: with arg None the override is consulted.) *)
Theorem C05_text_order_dup_irrelevant_any_arg s s' p S :
  SpecifierSet s p = Some S -> (forall t, In t (clauses s) <-> In t (clauses s')) ->
  exists S', SpecifierSet s' p = Some S' /\ set_eqb S S' = true /\
    (forall arg inst item, set_contains S arg inst item = set_contains S' arg inst item) /\
    (forall arg texts, set_filter S arg texts = set_filter S' arg texts) /\ set_pre S = set_pre S'.
Proof. exact (text_order_dup_irrelevant_any_arg s s' p S). Qed.
Print Assumptions C05_text_order_dup_irrelevant_any_arg.
(* the same for sets built from Specifier objects supplied in any order / multiplicity, provided == objects carry the same override
   (C05_supply_order_needs_coherent shows the premise is needed) *)
Theorem C05_objects_order_dup_irrelevant_any_arg l l' p : (forall m, In m l <-> In m l') -> Forall built l -> coherent l ->
  set_pre (SpecifierSet_of l p) = set_pre (SpecifierSet_of l' p) /\
  (forall arg inst item, set_contains (SpecifierSet_of l p) arg inst item = set_contains (SpecifierSet_of l' p) arg inst item) /\
  (forall arg texts, set_filter (SpecifierSet_of l p) arg texts = set_filter (SpecifierSet_of l' p) arg texts).
Proof. exact (supply_order_behaviour l l' p). Qed.
Print Assumptions C05_objects_order_dup_irrelevant_any_arg.
Theorem C05_supply_order_needs_coherent : supply_order_check = true.
Proof. exact supply_order_refuted_without_coherent. Qed.
Print Assumptions C05_supply_order_needs_coherent.

(* 5'. spacing INSIDE a clause: an accepted clause text is its canonical string padded with white space in three places, the canonical
       string is the same Specifier, and a set text rewritten clause by clause into canonical spacing builds literally the same set *)
Theorem C05_clause_spacing s sp : Specifier s = Some sp ->
  exists wl wm wr, all_ws wl = true /\ all_ws wm = true /\ all_ws wr = true /\
    s = wl ++ op_txt (sp_op sp) ++ wm ++ sp_text sp ++ wr /\ Specifier (op_txt (sp_op sp) ++ sp_text sp) = Some sp.
Proof. exact (Specifier_spacing s sp). Qed.
Print Assumptions C05_clause_spacing.
Theorem C05_set_clause_spacing_irrelevant s p S : SpecifierSet s p = Some S ->
  exists l, map_opt Specifier (clauses s) = Some l /\ SpecifierSet (join_with [44] (map spec_str l)) p = Some S.
Proof. exact (set_clause_spacing_irrelevant s p S). Qed.
Print Assumptions C05_set_clause_spacing_irrelevant.

(* 6'. a & b on FINAL releases: exactly what both match, whatever the argument (None included) on each call; and the restriction is
       needed: without an argument ">=1.0a1" & "<2" accepts 1.5a1, which "<2" alone rejects *)
Theorem C05_and_is_both_final A B C arg1 arg2 arg3 inst item c : set_and A B = Some C -> wf_set A -> wf_set B -> respects (ms A ++ ms B) ->
  Version item = Some c -> is_prerelease c = false ->
  exists x y, set_contains A arg1 inst item = Ans x /\ set_contains B arg2 inst item = Ans y /\ set_contains C arg3 inst item = Ans (x && y).
Proof. exact (and_is_both_final A B C arg1 arg2 arg3 inst item c). Qed.
Print Assumptions C05_and_is_both_final.
Theorem C05_and_is_both_final_text a b pa pb A B C arg1 arg2 arg3 inst item c : SpecifierSet a pa = Some A -> SpecifierSet b pb = Some B ->
  set_and A B = Some C -> Version item = Some c -> is_prerelease c = false ->
  exists x y, set_contains A arg1 inst item = Ans x /\ set_contains B arg2 inst item = Ans y /\ set_contains C arg3 inst item = Ans (x && y).
Proof. exact (and_is_both_final_text a b pa pb A B C arg1 arg2 arg3 inst item c). Qed.
Print Assumptions C05_and_is_both_final_text.
(* 6''. & is idempotent: a & a never raises, keeps a's override and matches exactly what a matches (explicit setting on the call) *)
Theorem C05_and_idempotent_text a pa A : SpecifierSet a pa = Some A ->
  exists C, set_and A A = Some C /\ ov C = ov A /\
            forall x inst item c, Version item = Some c -> set_contains C (Some x) inst item = set_contains A (Some x) inst item.
Proof.
  intros HA. destruct (set_and A A) as [C|] eqn:E.
  - exists C. split; [reflexivity|]. split.
    + rewrite (and_override_carried A A C E). now destruct (ov A).
    + intros x inst item c Hc.
      destruct (and_is_both_text a a pa pa A A C x inst item c HA HA E Hc) as (u & v & Hu & Hv & HC).
      rewrite Hu in Hv. injection Hv as <-. rewrite HC, Hu. now destruct u.
  - exfalso. apply (proj1 (and_error_iff A A)) in E. destruct E as [[P Q]|[P Q]]; congruence.
Qed.
Print Assumptions C05_and_idempotent_text.
Theorem C05_and_is_both_refuted_prerelease_no_argument : and_prerelease_counterexample = true.
Proof. exact and_is_both_refuted_for_prerelease_without_argument. Qed.
Print Assumptions C05_and_is_both_refuted_prerelease_no_argument.
(* a & b and b & a behave alike (C05_and_comm gives ==) when == members of the operands carry the same override *)
Theorem C05_and_comm_behaviour A B C C' : set_and A B = Some C -> set_and B A = Some C' -> fs_ok (ms A) -> fs_ok (ms B) ->
  all_built A -> all_built B -> coherent (ms A ++ ms B) ->
  set_pre C = set_pre C' /\ (forall arg inst item, set_contains C arg inst item = set_contains C' arg inst item) /\
  (forall arg texts, set_filter C arg texts = set_filter C' arg texts).
Proof. exact (and_comm_behaviour A B C C'). Qed.
Print Assumptions C05_and_comm_behaviour.

(* 7'. what & preserves: the result of & is again a frozenset of constructor-built members without own overrides, on which no operator
       raises - so C05_and_comm's premise, and the premises under which == sets behave alike (C10), hold for any nesting of & *)
Theorem C05_and_invariants A B C : set_and A B = Some C ->
  (fs_ok (ms A) -> fs_ok (ms B) -> fs_ok (ms C)) /\ (wf_set A -> wf_set B -> wf_set C) /\
  (all_built A -> all_built B -> all_built C) /\ (plain A -> plain B -> plain C).
Proof. exact (and_invariants A B C). Qed.
Print Assumptions C05_and_invariants.

(* 9'. a & "text" (set_and_str is what RunSets runs for the &s command): it is a & SpecifierSet("text"), keeps a's override, never raises
       ValueError, raises InvalidSpecifier exactly when the text does not parse, and is literally SpecifierSet(a + "," + text, a's override) *)
Theorem C05_and_str_is_and A t B : SpecifierSet t None = Some B ->
  exists C, set_and_str A t = AndOk C /\ set_and A B = Some C /\ ov C = ov A /\ ms C = fs_union (ms A) (ms B).
Proof. exact (and_str_is_and A t B). Qed.
Print Assumptions C05_and_str_is_and.
Theorem C05_and_str_invalid_iff A t : set_and_str A t = AndInvalid <-> SpecifierSet t None = None.
Proof. exact (and_str_invalid_iff A t). Qed.
Print Assumptions C05_and_str_invalid_iff.
Theorem C05_and_str_never_conflicts A t : set_and_str A t <> AndConflict.
Proof. exact (and_str_never_conflicts A t). Qed.
Print Assumptions C05_and_str_never_conflicts.
Theorem C05_and_str_is_concat a pa A t : SpecifierSet a pa = Some A -> SpecifierSet t None <> None ->
  exists C, SpecifierSet (a ++ 44 :: t) pa = Some C /\ set_and_str A t = AndOk C.
Proof. exact (and_str_is_concat a pa A t). Qed.
Print Assumptions C05_and_str_is_concat.
(* set == "text" (set_eq_str, the eqs command): comparison with the parsed text; a set equals its own text and its own str() *)
Theorem C05_eq_str_own s p S : SpecifierSet s p = Some S -> set_eq_str S s = Some true /\ set_eq_str S (set_str S) = Some true.
Proof. intros H. split; [exact (eq_str_of_own_text s p S H) | exact (eq_str_of_own_str s p S H)]. Qed.
Print Assumptions C05_eq_str_own.

(* 10'. str() is the comma-joined list of the member strings, each once, SORTED in code-point order ... *)
Theorem C05_str_sorted S : exists strs, set_str S = join_with [44] strs /\
  Permutation strs (map (fun m => spec_str (m_sp m)) (ms S)) /\ Sorted (cle str_cmp) strs.
Proof. exact (set_str_sorted S). Qed.
Print Assumptions C05_str_sorted.
(* ... and does not depend on the order / multiplicity in which the clauses were SUPPLIED, for lists without two spellings of one
   clause (`literal`); with two spellings it does: D33, known finding filed under C20 *)
Theorem C05_str_supply_order l l' p p' : (forall m, In m l <-> In m l') -> literal l ->
  set_str (SpecifierSet_of l p) = set_str (SpecifierSet_of l' p').
Proof. exact (set_str_supply_dup l l' p p'). Qed.
Print Assumptions C05_str_supply_order.
Theorem C05_str_supply_order_perm l l' p : Permutation l l' -> literal l -> set_str (SpecifierSet_of l p) = set_str (SpecifierSet_of l' p).
Proof. exact (set_str_supply_order l l' p). Qed.
Print Assumptions C05_str_supply_order_perm.
Theorem C05_str_text_supply_order s s' p p' S l : SpecifierSet s p = Some S -> map_opt Specifier (clauses s) = Some l ->
  literal (map mk_member l) -> (forall t, In t (clauses s) <-> In t (clauses s')) ->
  exists S', SpecifierSet s' p' = Some S' /\ set_str S = set_str S'.
Proof. exact (set_str_text_supply_order s s' p p' S l). Qed.
Print Assumptions C05_str_text_supply_order.
Theorem C05_str_supply_order_refuted_D33 : d33_check = true.
Proof. exact set_str_supply_order_refuted_D33. Qed.
Print Assumptions C05_str_supply_order_refuted_D33.

(* Every clause of C05 is proved for the model; what remains outside the theorems is the tie between model and code (correspondence). *)

(* non-vacuity: ">=1.0" is a wf_member, " >=1.0 ,, <2 " parses to a two-member set that contains 1.5 and not 2.0,
   and its str() is "<2,>=1.0" *)
Example C05_nonvacuous_wf_member : wf_member {| sp_op := OGe; sp_text := [49;46;48] |}.
Proof.
  intros c Wc. cbn [compare_op sp_op sp_text].
  assert (V : Version [49;46;48] = Some {| Py.epoch := 0; Py.release := [1;0]; Py.pre := None; Py.post := None; Py.dev := None; Py.local := None |})
    by (vm_compute; reflexivity).
  rewrite (cmp_ge_spec c _ _ Wc (Version_wf _ _ V) V). discriminate.
Qed.
Example C05_nonvacuous :
  exists S, SpecifierSet [32;62;61;49;46;48;32;44;44;32;60;50;32] None = Some S /\ length (ms S) = 2%nat /\
            set_contains S (Some true) None [49;46;53] = Ans true /\ set_contains S (Some true) None [50;46;48] = Ans false /\
            set_str S = [60;50;44;62;61;49;46;48] /\ literal (ms S).
Proof.
  eexists. split; [vm_compute; reflexivity|].
  split; [vm_compute; reflexivity|]. split; [vm_compute; reflexivity|]. split; [vm_compute; reflexivity|]. split; [vm_compute; reflexivity|].
  intros x y [<-|[<-|[]]] [<-|[<-|[]]]; vm_compute; intros; congruence.
Qed.
